(* Model.PackFmt — folder names per pack format (property C18).

   Pack formats are rationals with at most one decimal (4 … 107.1, and the
   unversioned -1); they are represented by Z scaled by 10  (48 ↦ 480,
   107.1 ↦ 1071, -1 ↦ -10).  `PackVersion.__lt__/__ge__…` compare the floats,
   which on one-decimal values is the comparison of the scaled integers.

   Two halves:
   * the SPECIFICATION of Minecraft (written from the property text): which
     folder a resource kind is read from under a pack format (`mc_folder`),
     the path a resource location resolves to (`mc_path`), which formats can
     express a feature (`expressible`);
   * JMC's choices: `jmc_folder` of a call site, computed from the site's
     first-argument expression (`sexpr`, regenerated from the source by
     harness/translate_sites.py) through the rule of `add_private_json`
     (strip a trailing "s" from 48 on), `add_json` (unchecked) or a pathlib
     join; `require_raises` (PackVersion.require).

   No proofs here. *)
From Coq Require Import ZArith String List Bool Ascii.
Import ListNotations.
Open Scope Z_scope.

(* ------------------------------------------------------------------ specification *)

Inductive kind :=
| KFunction | KAdvancement | KRecipe | KPredicate | KLootTable | KItemModifier | KStructure
| KTagFunction | KTagBlock | KTagItem | KTagEntityType | KTagFluid | KTagGameEvent.

(* folder name from pack format 48 (Minecraft 1.21) on *)
Definition singular (k : kind) : string :=
  match k with
  | KFunction => "function" | KAdvancement => "advancement" | KRecipe => "recipe"
  | KPredicate => "predicate" | KLootTable => "loot_table" | KItemModifier => "item_modifier"
  | KStructure => "structure"
  | KTagFunction => "tags/function" | KTagBlock => "tags/block" | KTagItem => "tags/item"
  | KTagEntityType => "tags/entity_type" | KTagFluid => "tags/fluid" | KTagGameEvent => "tags/game_event"
  end%string.

Definition RENAME : Z := 480.          (* pack format 48 *)
Definition UNVERSIONED : Z := -10.     (* pack format -1: no version checks, legacy layout *)

(* Minecraft reads resources of kind k from this folder: plural below 48, singular from 48 on *)
Definition mc_folder (k : kind) (pf : Z) : string :=
  if pf <? RENAME then (singular k ++ "s")%string else singular k.

Definition ext (k : kind) : string :=
  match k with KFunction => ".mcfunction" | KStructure => ".nbt" | _ => ".json" end%string.

Definition res_path (ns folder id ex : string) : string :=
  ("data/" ++ ns ++ "/" ++ folder ++ "/" ++ id ++ ex)%string.

(* the file a resource location  ns:id  of kind k denotes under pack format pf *)
Definition mc_path (k : kind) (pf : Z) (ns id : string) : string :=
  res_path ns (mc_folder k pf) id (ext k).

(* ------------------------------------------------------------------ expressions of the source *)

Inductive cmpop := OLt | OLe | OGt | OGe.

(* `self.datapack.version <op> PackVersionFeature.X`  with X = t *)
Definition cmp_eval (op : cmpop) (t pf : Z) : bool :=
  match op with OLt => pf <? t | OLe => pf <=? t | OGt => pf >? t | OGe => pf >=? t end.

(* string-valued expressions found as folder arguments: literals, concatenation
   (f-strings), conditional expressions / if-else assignments on the version *)
Inductive sexpr :=
| SLit (s : string)
| SCat (a b : sexpr)
| SIf (op : cmpop) (t : Z) (a b : sexpr).

Fixpoint eval_s (e : sexpr) (pf : Z) : string :=
  match e with
  | SLit s => s
  | SCat a b => (eval_s a pf ++ eval_s b pf)%string
  | SIf op t a b => if cmp_eval op t pf then eval_s a pf else eval_s b pf
  end.

(* every comparison is decided by  pf <? cut *)
Definition cut (op : cmpop) (t : Z) : Z :=
  match op with OLt | OGe => t | OLe | OGt => t + 1 end.

Fixpoint cuts (e : sexpr) : list Z :=
  match e with
  | SLit _ => []
  | SCat a b => cuts a ++ cuts b
  | SIf op t a b => cut op t :: cuts a ++ cuts b
  end.

(* ------------------------------------------------------------------ JMC's folder choice *)

(* str.endswith("s") / str[:-1] *)
Fixpoint ends_with_s (s : string) : bool :=
  match s with
  | EmptyString => false
  | String c EmptyString => Ascii.eqb c "s"
  | String _ r => ends_with_s r
  end.
Fixpoint drop_last (s : string) : string :=
  match s with
  | EmptyString => EmptyString
  | String _ EmptyString => EmptyString
  | String c r => String c (drop_last r)
  end.
(* pathlib: `base / "a/b/" / name` — a trailing slash of a component disappears *)
Fixpoint strip_slash (s : string) : string :=
  match s with
  | EmptyString => EmptyString
  | String c r => match strip_slash r with
                  | EmptyString => if Ascii.eqb c "/" then EmptyString else String c EmptyString
                  | r' => String c r'
                  end
  end.

Inductive api :=
| ApiPrivate     (* DataPack.add_private_json: strips a trailing "s" under the rule below *)
| ApiPlain       (* DataPack.add_json / dict key: the string is used as it is *)
| ApiPath.       (* joined into a pathlib.Path: trailing "/" of the folder part is dropped *)

(* the rule of add_private_json, regenerated: strip when `version <op> thr` (and the type ends with "s") *)
Record rules := mkRules { r_strip_op : cmpop; r_strip_thr : Z }.

Record site := mkSite {
  s_label : string;     (* file:qualified function#n — where the expression stands in the source *)
  s_api : api;
  s_type : sexpr;       (* the folder / json_type expression *)
  s_kind : kind         (* which kind of resource the site produces or looks up *)
}.

Definition jmc_folder (R : rules) (s : site) (pf : Z) : string :=
  let t := eval_s (s_type s) pf in
  match s_api s with
  | ApiPrivate => if cmp_eval (r_strip_op R) (r_strip_thr R) pf && ends_with_s t then drop_last t else t
  | ApiPlain => t
  | ApiPath => strip_slash t
  end.

(* where the resource `ns:id` produced (or looked up) by the site lives *)
Definition jmc_path (R : rules) (s : site) (pf : Z) (ns id : string) : string :=
  res_path ns (jmc_folder R s pf) id (ext (s_kind s)).

(* --- the decidable check on a site: agreement at one representative per region *)

Definition site_cuts (R : rules) (s : site) : list Z :=
  RENAME :: cut (r_strip_op R) (r_strip_thr R) :: cuts (s_type s).

Definition below (cs : list Z) : Z := fold_right Z.min 0 cs - 1.
Definition points (cs : list Z) : list Z := below cs :: cs.

Definition site_check (R : rules) (s : site) : bool :=
  forallb (fun p => String.eqb (jmc_folder R s p) (mc_folder (s_kind s) p)) (points (site_cuts R s)).

(* the representative of pf: the largest cut <= pf, or `lo` *)
Fixpoint rep (cs : list Z) (lo pf : Z) : Z :=
  match cs with
  | [] => lo
  | c :: r => let m := rep r lo pf in if (c <=? pf) && (m <? c) then c else m
  end.

(* ------------------------------------------------------------------ version gates *)

(* PackVersion.require(pack_format, …, is_lower): does it raise MinecraftVersionTooLow / TooHigh ? *)
Definition require_raises (pf f : Z) (is_lower : bool) : bool :=
  if is_lower then negb (pf =? UNVERSIONED) && (pf >=? f)
  else negb (pf =? UNVERSIONED) && (pf <? f).

(* features of JMC whose emitted text exists only in some Minecraft versions
   (release pack formats: 1.20 = 15, 1.20.2 = 18, 1.20.5 = 41) *)
Inductive feature :=
| FWith            (* f() with …;  { … } with … — function macros, 1.20.2 *)
| FSwitchSparse    (* switch with non-consecutive case numbers: macro dispatch only *)
| FSwitchDefault   (* switch … default: macro dispatch only *)
| FSignSides       (* Item.createSign glow flags: front_text/back_text, 1.20 *)
| FItemComponent   (* component= of Item.create …: item components, 1.20.5 *)
| FItemNbt         (* nbt= of Item.create …: item NBT tag, gone in 1.20.5 *)
| FReturnRun.      (* JMC.require: `return run …`, 1.20.2 *)

(* formats that can express the feature: lo <= pf (< hi) *)
Definition mc_lo (f : feature) : Z :=
  match f with
  | FWith | FSwitchSparse | FSwitchDefault | FReturnRun => 180
  | FSignSides => 150
  | FItemComponent => 410
  | FItemNbt => 0
  end.
Definition mc_hi (f : feature) : option Z :=
  match f with FItemNbt => Some 410 | _ => None end.
Definition expressible (f : feature) (pf : Z) : bool :=
  (mc_lo f <=? pf) && match mc_hi f with Some h => pf <? h | None => true end.

(* a `require` call guarding a feature *)
Record gate := mkGate { g_label : string; g_feature : feature; g_thr : Z; g_lower : bool }.

(* JMC accepts the feature under pf iff none of its gates raises *)
Definition fcode (f : feature) : nat :=
  match f with FWith => 0 | FSwitchSparse => 1 | FSwitchDefault => 2 | FSignSides => 3
             | FItemComponent => 4 | FItemNbt => 5 | FReturnRun => 6 end%nat.
Definition feature_eqb (a b : feature) : bool := Nat.eqb (fcode a) (fcode b).
Definition gates_of (gs : list gate) (f : feature) : list gate :=
  filter (fun g => feature_eqb (g_feature g) f) gs.
Definition accepts (gs : list gate) (f : feature) (pf : Z) : bool :=
  forallb (fun g => negb (require_raises pf (g_thr g) (g_lower g))) (gates_of gs f).

Definition all_features : list feature :=
  [FWith; FSwitchSparse; FSwitchDefault; FSignSides; FItemComponent; FItemNbt; FReturnRun].

(* decidable check on the regenerated tables: on every versioned format of the table, a feature
   that is accepted is expressible *)
Definition gates_check (tbl : list Z) (gs : list gate) : bool :=
  forallb (fun pf => (pf =? UNVERSIONED) ||
                     forallb (fun f => implb (accepts gs f pf) (expressible f pf)) all_features) tbl.

(* a strategy condition: the feature is only compiled when `version <op> thr` holds — no exemption for the
   unversioned format; otherwise it is refused with an ordinary JMC diagnostic (e.g. `default` / sparse labels
   under the binary-search switch) *)
Record sgate := mkSGate { sg_label : string; sg_feature : feature; sg_op : cmpop; sg_thr : Z }.
Definition strategy_ok (sgs : list sgate) (f : feature) (pf : Z) : bool :=
  forallb (fun g => cmp_eval (sg_op g) (sg_thr g) pf) (filter (fun g => feature_eqb (sg_feature g) f) sgs).
