(* Model.VarOp — Gallina port of the dispatch of `variable_operation`
   (src/jmc/compile/command/var_operation.py, the branches for
   = += -= *= /= %= ++ -- >< < > ??= and = true/false) for a right-hand side that is
   an integer literal, a $variable or an objective:selector.  Property C01. *)
From Coq Require Import ZArith String List Bool.
From JMCV Require Import Base.Int32 Base.Dec MC.Syntax Model.Names.
Import ListNotations.
Open Scope Z_scope.

Inductive vop :=
| VAssign | VAdd | VSub | VMul | VDiv | VMod | VSwap | VMin | VMax | VNull   (* binary *)
| VInc | VDec                                                                 (* ++ -- *)
| VTrue | VFalse | VNullTrue | VNullFalse.                                    (* = true, ??= false … *)

Inductive operand := OLit (z : Z) | OScore (s : score) | ONone.

Definition sop_of (o : vop) : sop :=
  match o with
  | VAssign => OAssign | VAdd => OAdd | VSub => OSub | VMul => OMul | VDiv => ODiv
  | VMod => OMod | VSwap => OSwap | VMin => OMin | VMax => OMax | _ => OAssign
  end.

Definition int_score (nm : names) (z : Z) : score := (z_dec z, int_name nm).
Definition unless_set (t : score) : modifier := MIf false (Cmp t CEq t).

(* result: emitted commands and the integer constants requested with add_int
   (materialised in __load__ as `scoreboard players set <n> __int__ <n>`). *)
Definition compile_varop (nm : names) (t : score) (o : vop) (r : operand)
  : option (list cmd * list Z) :=
  match o, r with
  | VInc, ONone => Some ([CAdd t 1], [])
  | VDec, ONone => Some ([CRemove t 1], [])
  | VTrue, ONone => Some ([CSet t 1], [])
  | VFalse, ONone => Some ([CSet t 0], [])
  | VNullTrue, ONone => Some ([CExecute [unless_set t] (CSet t 1)], [])
  | VNullFalse, ONone => Some ([CAdd t 0], [])
  (* the literal -2147483648 cannot be negated into a valid amount: it goes
     through the __int__ constant (repaired by the fix: commit, see known_findings.json) *)
  | VAdd, OLit z => Some (if z =? INT_MIN then ([COp t OAdd (int_score nm z)], [z])
                          else (if z <? 0 then [CRemove t (- z)] else [CAdd t z], []))
  | VSub, OLit z => Some (if z =? INT_MIN then ([COp t OSub (int_score nm z)], [z])
                          else (if z <? 0 then [CAdd t (- z)] else [CRemove t z], []))
  | VAssign, OLit z => Some ([CSet t z], [])
  | VNull, OLit z => Some (if z =? 0 then [CAdd t 0]
                           else [CExecute [unless_set t] (CSet t z)], [])
  | (VMul | VDiv | VMod | VSwap | VMin | VMax), OLit z =>
      Some ([COp t (sop_of o) (int_score nm z)], [z])
  | VNull, OScore s => Some ([CExecute [unless_set t] (COp t OAssign s)], [])
  | (VAssign | VAdd | VSub | VMul | VDiv | VMod | VSwap | VMin | VMax), OScore s =>
      Some ([COp t (sop_of o) s], [])
  | _, _ => None
  end.

(* Source-level meaning: new value of the target, given old target value (None =
   unset) and the operand's value (None = unset; literals are Some z). *)
Definition rd0 (x : option Z) : Z := match x with Some v => v | None => 0 end.

Definition meaning (o : vop) (x y : option Z) : Z :=
  let a := rd0 x in let b := rd0 y in
  match o with
  | VAssign => b
  | VAdd => wrap (a + b) | VSub => wrap (a - b) | VMul => wrap (a * b)
  | VDiv => if b =? 0 then a else wrap (a / b)
  | VMod => if b =? 0 then a else wrap (a mod b)
  | VSwap => b | VMin => Z.min a b | VMax => Z.max a b
  | VNull => match x with Some v => v | None => b end
  | VInc => wrap (a + 1) | VDec => wrap (a - 1)
  | VTrue => 1 | VFalse => 0
  | VNullTrue => match x with Some v => v | None => 1 end
  | VNullFalse => a
  end.
