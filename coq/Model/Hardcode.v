(* Model/Hardcode.v — C19: compile-time expansion.
   - py_range                      Python's range(start, stop, step)
   - eval_expr                     command/utils.py:506-562 on the alphabet hardcode_parse_calc lets through
                                   (digits + - * / \ % blanks parentheses): Python tokenizer, expression
                                   grammar, ast evaluation with OPERATORS, result formatting.  Integers are
                                   exact; a float is tracked only while it holds an exactly representable
                                   integer (|z| <= 2^53); anything else is `Unsupported` (outside the model).
   - hardcode_parse_calc, calc loop   command/utils.py:1171-1236, execute_excluded.py:17-41
   - the texts Hardcode.repeat / repeatList / repeatLists hand to the parser, one per iteration
   No proofs here. *)
From Coq Require Import ZArith String List Bool Ascii Decimal DecimalString.
From JMCV Require Import Base.Dec Model.StrOps.
Import ListNotations.
Open Scope Z_scope.

(* ------------------------------------------------------------------ range *)

(* `for i in range(start, stop, step)` as CPython runs it: the length is computed first
   (compute_range_length), then element k is start + k*step. *)
Definition range_len (start stop step : Z) : Z :=
  if 0 <? step then (if start <? stop then (stop - start - 1) / step + 1 else 0)
  else if step <? 0 then (if stop <? start then (start - stop - 1) / (- step) + 1 else 0)
  else 0.
Fixpoint range_from (start step : Z) (n : nat) : list Z :=
  match n with
  | O => []
  | S k => start :: range_from (start + step) step k
  end.
Definition py_range (start stop step : Z) : list Z :=
  range_from start step (Z.to_nat (range_len start stop step)).

(* ------------------------------------------------------------------ results *)

Inductive pyexc := XSyntax | XZeroDiv | XType | XKey | XOverflow.
Inductive cerr :=
| DExpectedParen                 (* JMCSyntaxException "Expected ( after Hardcode.calc" *)
| DInvalidSyntax                 (* JMCSyntaxException "Invalid syntax in Hardcode.calc" (brackets) *)
| DInvalidChar (c : ascii)       (* JMCSyntaxException "Invalid character(c) in Hardcode.calc" *)
| DPy (x : pyexc)                (* a Python exception escaping eval_expr *)
| DUnsupported                   (* the value is not an exactly-representable integer: outside the model *)
| DFuel.
Inductive cres (A : Type) := COk (a : A) | CErr (e : cerr).
Arguments COk {A} a. Arguments CErr {A} e.

(* ------------------------------------------------------------------ eval_expr: tokens *)

Inductive tok :=
| TNum (z : Z) | TBad
| TPlus | TMinus | TStar | TDStar | TSlash | TDSlash | TPct | TLP | TRP.

Definition digit_of (c : ascii) : option uint :=
  match c with
  | "0"%char => Some (D0 Nil) | "1"%char => Some (D1 Nil) | "2"%char => Some (D2 Nil)
  | "3"%char => Some (D3 Nil) | "4"%char => Some (D4 Nil) | "5"%char => Some (D5 Nil)
  | "6"%char => Some (D6 Nil) | "7"%char => Some (D7 Nil) | "8"%char => Some (D8 Nil)
  | "9"%char => Some (D9 Nil) | _ => None
  end.
Definition is_digit (c : ascii) : bool := match digit_of c with Some _ => true | None => false end.

(* the maximal run of digits at the head of s, as a Decimal.uint (most significant digit first) *)
Fixpoint lex_digits (s : string) : uint * string :=
  match s with
  | EmptyString => (Nil, EmptyString)
  | String c r =>
      match digit_of c with
      | None => (Nil, s)
      | Some d =>
          let '(ds, rest) := lex_digits r in
          (match d with
           | D0 _ => D0 ds | D1 _ => D1 ds | D2 _ => D2 ds | D3 _ => D3 ds | D4 _ => D4 ds
           | D5 _ => D5 ds | D6 _ => D6 ds | D7 _ => D7 ds | D8 _ => D8 ds | D9 _ => D9 ds
           | Nil => ds
           end, rest)
      end
  end.
Fixpoint all_zero (d : uint) : bool :=
  match d with Nil => true | D0 r => all_zero r | _ => false end.
(* "0", "00" are fine, "07" is "leading zeros in decimal integer literals are not permitted" *)
Definition num_tok (d : uint) : tok :=
  match d with
  | D0 r => if all_zero r then TNum 0 else TBad
  | _ => TNum (Z.of_uint d)
  end.

Definition is_blank (c : ascii) : bool :=
  Ascii.eqb c " "%char || Ascii.eqb c "009"%char || Ascii.eqb c "010"%char.

(* fuel = length of the string + 1 *)
Fixpoint lex (fuel : nat) (s : string) : list tok :=
  match fuel with
  | O => [TBad]
  | S f =>
      match s with
      | EmptyString => []
      | String c r =>
          if is_blank c then lex f r
          else if is_digit c then let '(d, rest) := lex_digits s in num_tok d :: lex f rest
          else match c with
               | "+"%char => TPlus :: lex f r
               | "-"%char => TMinus :: lex f r
               | "%"%char => TPct :: lex f r
               | "("%char => TLP :: lex f r
               | ")"%char => TRP :: lex f r
               | "*"%char => match r with
                             | String "*"%char r' => TDStar :: lex f r'
                             | _ => TStar :: lex f r
                             end
               | "/"%char => match r with
                             | String "/"%char r' => TDSlash :: lex f r'
                             | _ => TSlash :: lex f r
                             end
               | _ => TBad :: lex f r
               end
      end
  end.

(* ------------------------------------------------------------------ eval_expr: grammar *)

Inductive binop := OAdd | OSub | OMul | OTrueDiv | OFloorDiv | OMod | OPow.
Inductive ast :=
| ANum (z : Z)
| ABin (o : binop) (a b : ast)
| ANeg (a : ast)
| APos (a : ast)
| ACall (f : ast)              (* primary(...) : ast.Call *)
| ATuple.                      (* () : ast.Tuple *)

(* Python 3.12 expression grammar restricted to these tokens:
     sum    : sum ('+'|'-') term | term
     term   : term ('*'|'/'|'//'|'%') factor | factor
     factor : ('+'|'-') factor | power
     power  : primary '**' factor | primary
     primary: primary '(' [ ['*'|'**'] sum ] ')' | atom
     atom   : NUMBER | '(' ')' | '(' sum ')'                                        *)
Fixpoint p_sum (fuel : nat) (ts : list tok) : option (ast * list tok) :=
  match fuel with
  | O => None
  | S f =>
      match p_term f ts with
      | Some (a, r) => p_sum_loop f a r
      | None => None
      end
  end
with p_sum_loop (fuel : nat) (a : ast) (ts : list tok) : option (ast * list tok) :=
  match fuel with
  | O => None
  | S f =>
      match ts with
      | TPlus :: r => match p_term f r with Some (b, r') => p_sum_loop f (ABin OAdd a b) r' | None => None end
      | TMinus :: r => match p_term f r with Some (b, r') => p_sum_loop f (ABin OSub a b) r' | None => None end
      | _ => Some (a, ts)
      end
  end
with p_term (fuel : nat) (ts : list tok) : option (ast * list tok) :=
  match fuel with
  | O => None
  | S f =>
      match p_factor f ts with
      | Some (a, r) => p_term_loop f a r
      | None => None
      end
  end
with p_term_loop (fuel : nat) (a : ast) (ts : list tok) : option (ast * list tok) :=
  match fuel with
  | O => None
  | S f =>
      match ts with
      | TStar :: r => match p_factor f r with Some (b, r') => p_term_loop f (ABin OMul a b) r' | None => None end
      | TSlash :: r => match p_factor f r with Some (b, r') => p_term_loop f (ABin OTrueDiv a b) r' | None => None end
      | TDSlash :: r => match p_factor f r with Some (b, r') => p_term_loop f (ABin OFloorDiv a b) r' | None => None end
      | TPct :: r => match p_factor f r with Some (b, r') => p_term_loop f (ABin OMod a b) r' | None => None end
      | _ => Some (a, ts)
      end
  end
with p_factor (fuel : nat) (ts : list tok) : option (ast * list tok) :=
  match fuel with
  | O => None
  | S f =>
      match ts with
      | TPlus :: r => match p_factor f r with Some (a, r') => Some (APos a, r') | None => None end
      | TMinus :: r => match p_factor f r with Some (a, r') => Some (ANeg a, r') | None => None end
      | _ =>
          match p_primary f ts with
          | Some (a, TDStar :: r) =>
              match p_factor f r with Some (b, r') => Some (ABin OPow a b, r') | None => None end
          | other => other
          end
      end
  end
with p_primary (fuel : nat) (ts : list tok) : option (ast * list tok) :=
  match fuel with
  | O => None
  | S f =>
      match ts with
      | TNum z :: r => p_calls f (ANum z) r
      | TLP :: TRP :: r => p_calls f ATuple r
      | TLP :: r =>
          match p_sum f r with
          | Some (a, TRP :: r') => p_calls f a r'
          | _ => None
          end
      | _ => None
      end
  end
with p_calls (fuel : nat) (a : ast) (ts : list tok) : option (ast * list tok) :=
  match fuel with
  | O => None
  | S f =>
      match ts with
      | TLP :: TRP :: r => p_calls f (ACall a) r
      | TLP :: r =>
          let r1 := match r with TStar :: q => q | TDStar :: q => q | _ => r end in
          match p_sum f r1 with
          | Some (_, TRP :: r') => p_calls f (ACall a) r'
          | _ => None
          end
      | _ => Some (a, ts)
      end
  end.

Definition parse_expr (ts : list tok) : option ast :=
  if existsb (fun t => match t with TBad => true | _ => false end) ts then None
  else match p_sum (8 * S (length ts)) ts with
       | Some (a, []) => Some a
       | _ => None
       end.

(* ------------------------------------------------------------------ eval_expr: evaluation *)

(* VI z: a Python int.  VF z: a Python float whose value is the integer z, |z| <= 2^53. *)
Inductive val := VI (z : Z) | VF (z : Z).
Inductive eres := EV (v : val) | EX (x : pyexc) | EUnsup.

Definition F_MAX : Z := 9007199254740992.     (* 2^53 *)
Definition fits (z : Z) : bool := (Z.abs z <=? F_MAX).
Definition mkF (z : Z) : eres := if fits z then EV (VF z) else EUnsup.
(* int -> float conversion of an operand, exact only below 2^53 *)
Definition as_float (v : val) : option Z :=
  match v with
  | VF z => Some z
  | VI z => if fits z then Some z else None
  end.

Definition apply_bin (o : binop) (x y : val) : eres :=
  match o, x, y with
  | OAdd, VI a, VI b => EV (VI (a + b))
  | OSub, VI a, VI b => EV (VI (a - b))
  | OMul, VI a, VI b => EV (VI (a * b))
  | OFloorDiv, VI a, VI b => if b =? 0 then EX XZeroDiv else EV (VI (a / b))
  | OMod, VI a, VI b => if b =? 0 then EX XZeroDiv else EV (VI (a mod b))
  | OTrueDiv, VI a, VI b =>
      if b =? 0 then EX XZeroDiv
      else if (a mod b =? 0) then mkF (a / b) else EUnsup
  | OPow, VI a, VI b =>
      if 0 <=? b then EV (VI (a ^ b))
      else if negb (fits b) then EUnsup
      else if a =? 0 then EX XZeroDiv
      else if a =? 1 then EV (VF 1)
      else if a =? -1 then EV (VF (if Z.even b then 1 else -1))
      else EUnsup
  | OPow, _, _ => EUnsup
  | _, _, _ =>
      match as_float x, as_float y with
      | Some a, Some b =>
          match o with
          | OAdd => mkF (a + b)
          | OSub => mkF (a - b)
          | OMul => mkF (a * b)
          | OTrueDiv => if b =? 0 then EX XZeroDiv else if a mod b =? 0 then mkF (a / b) else EUnsup
          | OFloorDiv => if b =? 0 then EX XZeroDiv else mkF (a / b)
          | OMod => if b =? 0 then EX XZeroDiv else mkF (a mod b)
          | OPow => EUnsup
          end
      | _, _ => EUnsup
      end
  end.

(* __eval: BinOp evaluates left then right then applies; any node other than Constant / BinOp /
   UnaryOp raises TypeError without evaluating its children.  Unary plus is left outside the model
   (it is a KeyError on the pinned tree and the identity once ast.UAdd is added to OPERATORS). *)
Fixpoint eval_ast (a : ast) : eres :=
  match a with
  | ANum z => EV (VI z)
  | ABin o l r =>
      match eval_ast l with
      | EV x => match eval_ast r with
                | EV y => apply_bin o x y
                | other => other
                end
      | other => other
      end
  | ANeg e => match eval_ast e with
              | EV (VI z) => EV (VI (- z))
              | EV (VF z) => EV (VF (- z))
              | other => other
              end
  | APos _ => EUnsup      (* pinned tree: KeyError(ast.UAdd); with fixes/C02-evalexpr-unary-plus.patch: the operand.  Outside the model. *)
  | ACall _ => EX XType
  | ATuple => EX XType
  end.

Definition backslash : string := String "\"%char EmptyString.

Definition eval_expr (expr : string) : cres string :=
  let s := replace_all backslash "//" expr in
  match parse_expr (lex (S (String.length s)) s) with
  | None => CErr (DPy XSyntax)
  | Some a =>
      match eval_ast a with
      | EV (VI z) => COk (z_dec z)          (* f"{number:d}" *)
      | EV (VF z) => COk (z_dec z)          (* int(number) == number -> f"{int(number):d}" *)
      | EX x => CErr (DPy x)
      | EUnsup => CErr DUnsupported
      end
  end.

(* ------------------------------------------------------------------ hardcode_parse_calc *)

(* from the character after "Hardcode.calc": the balanced group "( ... )" and what follows it *)
Fixpoint scan_group (s : string) (count : Z) : option (string * string) :=
  match s with
  | EmptyString => None
  | String c r =>
      let count' := if Ascii.eqb c "("%char then count + 1
                    else if Ascii.eqb c ")"%char then count - 1 else count in
      if count' =? 0 then Some (String c EmptyString, r)
      else match scan_group r count' with
           | Some (e, rest) => Some (String c e, rest)
           | None => None
           end
  end.

Definition calc_allowed (c : ascii) : bool :=
  is_digit c || is_blank c ||
  existsb (Ascii.eqb c) ["+"; "-"; "*"; "/"; "\"; "%"; "("; ")"]%char.
Fixpoint first_bad_char (s : string) : option ascii :=
  match s with
  | EmptyString => None
  | String c r => if calc_allowed c then first_bad_char r else Some c
  end.

(* `macros` = Header().number_macros in insertion order *)
Definition apply_macros (macros : list (string * string)) (e : string) : string :=
  subst_seq (sort_by_len_desc macros) e.

(* pre = string[:calc_pos], post = string[calc_pos+13:] *)
Definition parse_calc (macros : list (string * string)) (pre post : string) : cres string :=
  match post with
  | String "("%char _ =>
      match scan_group post 0 with
      | None => CErr DInvalidSyntax
      | Some (expr, rest) =>
          let expr' := apply_macros macros expr in
          match first_bad_char expr' with
          | Some c => CErr (DInvalidChar c)
          | None =>
              match eval_expr expr' with
              | COk v => COk (pre ++ v ++ rest)%string
              | CErr e => CErr e
              end
          end
      end
  | _ => CErr DExpectedParen
  end.

Definition CALC : string := "Hardcode.calc".

(* while "Hardcode.calc" in string: string = hardcode_parse_calc(string.find(...), string) *)
Fixpoint calc_loop (macros : list (string * string)) (fuel : nat) (s : string) : cres string :=
  match split_on CALC s with
  | None => COk s
  | Some (pre, post) =>
      match fuel with
      | O => CErr DFuel
      | S f =>
          match parse_calc macros pre post with
          | COk s' => calc_loop macros f s'
          | CErr e => CErr e
          end
      end
  end.
(* a single pass (the code before the fix, _hardcode_processes) *)
Definition calc_once (macros : list (string * string)) (s : string) : cres string :=
  match split_on CALC s with
  | None => COk s
  | Some (pre, post) => parse_calc macros pre post
  end.
Definition calc_all (macros : list (string * string)) (s : string) : cres string :=
  calc_loop macros (S (String.length s)) s.

(* ------------------------------------------------------------------ Hardcode.repeat* *)

Inductive hmode := HPinned | HRepaired.

Definition dollar (p : string) : string := String "$"%char p.

(* _hardcode_processes(string, index_strings, i_s): HRepaired = fixes/C19-simultaneous-substitution.patch *)
Definition hardcode_processes (m : hmode) (macros : list (string * string)) (body : string)
           (binds : list (string * string)) : cres string :=
  match m with
  | HRepaired => calc_all macros (subst_sim (sort_by_len_desc (dict_setdefault_all binds)) body)
  | HPinned => calc_once macros (subst_seq binds body)
  end.
(* _hardcode_process(string, index_string, i) *)
Definition hardcode_process (m : hmode) (macros : list (string * string)) (body idx v : string) : cres string :=
  match m with
  | HRepaired => hardcode_processes HRepaired macros body [(idx, v)]
  | HPinned => calc_all macros (replace_all idx v body)
  end.

(* the texts handed to the parser, in order, until the first failure *)
Fixpoint until_err (l : list (cres string)) : list string * option cerr :=
  match l with
  | [] => ([], None)
  | COk s :: r => let '(a, e) := until_err r in (s :: a, e)
  | CErr e :: _ => ([], Some e)
  end.

(* Hardcode.repeat((p) => body, start, stop, step) *)
Definition repeat_texts (m : hmode) (macros : list (string * string)) (body p : string)
           (start stop step : Z) : list (cres string) :=
  map (fun i => hardcode_process m macros body (dollar p) (z_dec i)) (py_range start stop step).

Fixpoint enumerate_from {A} (k : Z) (l : list A) : list (Z * A) :=
  match l with [] => [] | x :: r => (k, x) :: enumerate_from (k + 1) r end.

(* Hardcode.repeatList((p0, p1) => body, strings) *)
Definition repeat_list_texts (m : hmode) (macros : list (string * string)) (body p0 p1 : string)
           (strings : list string) : list (cres string) :=
  map (fun ks =>
         match m with
         | HRepaired => hardcode_processes HRepaired macros body [(dollar p0, z_dec (fst ks)); (dollar p1, snd ks)]
         | HPinned =>
             match hardcode_process HPinned macros body (dollar p0) (z_dec (fst ks)) with
             | COk s => hardcode_process HPinned macros s (dollar p1) (snd ks)
             | CErr e => CErr e
             end
         end)
      (enumerate_from 0 strings).

(* Hardcode.repeatLists((p0, p1, ..) => body, [l1, l2, ..]): row k substitutes k for p0 and the k-th
   element of the i-th list for p_i.  (The arity / equal-length checks are done by the caller.) *)
Fixpoint nth_col (k : nat) (lists : list (list string)) : list string :=
  match lists with [] => [] | l :: r => nth k l EmptyString :: nth_col k r end.
Definition repeat_lists_texts (m : hmode) (macros : list (string * string)) (body : string)
           (params : list string) (lists : list (list string)) : list (cres string) :=
  let n := match lists with [] => O | l :: _ => length l end in
  map (fun k => hardcode_processes m macros body
                  (combine (map dollar params) (z_dec (Z.of_nat k) :: nth_col k lists)))
      (seq 0 n).

(* ------------------------------------------------------------------ abstract statement-wise parser *)

(* A parser that works statement by statement, threading an allocation state
   (private-function counters): used to state what "same numbering" means. *)
Section StatementWise.
  Context {St Stmt Cmd : Type}.
  Variable parse1 : St -> Stmt -> St * list Cmd.
  Fixpoint parse_content (l : list Stmt) (s : St) : St * list Cmd :=
    match l with
    | [] => (s, [])
    | x :: r =>
        let '(s1, c1) := parse1 s x in
        let '(s2, c2) := parse_content r s1 in
        (s2, c1 ++ c2)
    end.
  (* commands.extend(parse(text_i)) for every iteration, one DataPack *)
  Fixpoint parse_iterations (its : list (list Stmt)) (s : St) : St * list Cmd :=
    match its with
    | [] => (s, [])
    | l :: r =>
        let '(s1, c1) := parse_content l s in
        let '(s2, c2) := parse_iterations r s1 in
        (s2, c1 ++ c2)
    end.
End StatementWise.

(* ------------------------------------------------------------------ integer expression trees *)

Inductive iop := IAdd | ISub | IMul | IFloorDiv | IMod | IPow.
Inductive iexp := INum (n : Z) | INeg (e : iexp) | IBin (o : iop) (a b : iexp).

(* exact integer arithmetic; floor division and modulo as Python defines them on ints *)
Fixpoint ieval (e : iexp) : option Z :=
  match e with
  | INum n => if 0 <=? n then Some n else None
  | INeg a => match ieval a with Some x => Some (- x) | None => None end
  | IBin o a b =>
      match ieval a, ieval b with
      | Some x, Some y =>
          match o with
          | IAdd => Some (x + y)
          | ISub => Some (x - y)
          | IMul => Some (x * y)
          | IFloorDiv => if y =? 0 then None else Some (x / y)
          | IMod => if y =? 0 then None else Some (x mod y)
          | IPow => if 0 <=? y then Some (x ^ y) else None
          end
      | _, _ => None
      end
  end.

Definition iop_str (o : iop) : string :=
  match o with
  | IAdd => "+" | ISub => "-" | IMul => "*" | IFloorDiv => backslash | IMod => "%" | IPow => "**"
  end.
Fixpoint iprint (e : iexp) : string :=
  match e with
  | INum n => z_dec n
  | INeg a => ("(-" ++ iprint a ++ ")")%string
  | IBin o a b => ("(" ++ iprint a ++ iop_str o ++ iprint b ++ ")")%string
  end.
