(* Model.SwitchRet — `return` inside the case bodies of a switch (property C06, strengthening round 4).

   Three parts, all executable, no proofs:

   1. A conservative extension of MC.Sem by Minecraft's `return`: a function body is still a list of
      MC.Syntax commands; a command whose text starts with the word `return` (or `$return`, the macro
      line) — alone or behind `execute … run` — ENDS THE FUNCTION IT IS WRITTEN IN: the remaining lines
      of that function do not run; its caller goes on with the line after the call (`rexec` / `rseq`).

   2. The macro dispatcher of parse_switch() as repaired by fixes/C06-return-in-macro-case.patch
      (`parse_switch_macro_r`): when the switch has a `default`, every numbered case function ends in
      `scoreboard players set __found_case__ <VAR> 1`; a case body that contains the word `return`
      (DataPack.isolate_return: the textual test of add_custom_private_function) is stored in a
      function of its own — group count taken at that moment — and the case function is
      `function <own>` followed by the flag line.  Bodies without the word are lowered as before
      (Model.Switch.parse_switch_macro; Proofs.SwitchRet.parse_switch_macro_r_plain).

   3. Whole function bodies for the correspondence (`rstmt`, `compile_items_r`): the statements of
      Model.Switch plus `return …;`, `if (<score test>) { … }` (inlined behind `execute if … run` when
      the body is one command, a function of group if_else otherwise) and
      `while ($y < k) { $y += 1; … }` (always a function of group while_loop, count taken before the
      body is compiled), so that returns can stand at every depth of a case body. *)
From Coq Require Import ZArith String List Bool Ascii.
From JMCV Require Import Base.Int32 Base.Dec MC.Syntax MC.Sem MC.Print Model.Names Model.Switch.
Import ListNotations.
Open Scope Z_scope.
Open Scope list_scope.

Local Notation "a +++ b" := (String.append a b) (at level 60, right associativity).

(* ================================================================== 1a. the textual test *)

(* re.split("[ \n]", command) *)
Fixpoint ret_words (s cur : string) : list string :=
  match s with
  | EmptyString => [cur]
  | String c r =>
    if (Ascii.eqb c (ascii_of_nat 32) || Ascii.eqb c (ascii_of_nat 10))%bool
    then cur :: ret_words r EmptyString
    else ret_words r (cur +++ String c EmptyString)
  end.
Definition word_is_return (w : string) : bool := (String.eqb w "return" || String.eqb w "$return")%string.
Definition line_has_return (c : cmd) : bool := existsb word_is_return (ret_words (pr_cmd c) EmptyString).
(* DataPack.isolate_return: any(word in {"return", "$return"} for command in commands for word in …) *)
Definition body_has_return (body : list cmd) : bool := existsb line_has_return body.

(* ================================================================== 1b. Minecraft's `return` *)

Inductive outcome := Next | Ret.

(* a command that is not one of MC.Syntax's own constructors (COther) is a return when its first word says so:
   `return 1`, `return fail`, `return run <command>`, `$return $(v)` *)
Definition is_return_cmd (t : string) : bool :=
  match ret_words t EmptyString with w :: _ => word_is_return w | [] => false end.

Definition rres := (state * res * outcome)%type.

(* the lines of one function: a line that returns ends the list *)
Fixpoint rseq (step : cmd -> state -> option rres) (l : list cmd) (st : state) : option (state * outcome) :=
  match l with
  | [] => Some (st, Next)
  | c :: r => match step c st with
              | Some (st', _, Next) => rseq step r st'
              | Some (st', _, Ret) => Some (st', Ret)
              | None => None
              end
  end.

(* MC.Sem.run_mods with the outcome of the guarded command handed through; a guard that fails does not return *)
Fixpoint rrun_mods (ms : list modifier) (stores : list (skind * dest)) (st : state)
         (k : state -> option rres) : option rres :=
  match ms with
  | [] => match k st with
          | Some (st', r, o) => Some (apply_stores stores r st', r, o)
          | None => None end
  | MIf pos t :: ms' =>
    if Bool.eqb pos (test_true st t) then rrun_mods ms' stores st k
    else Some (apply_stores stores r_fail st, r_fail, Next)
  | MStore kd d :: ms' => rrun_mods ms' (stores ++ [(kd, d)]) st k
  end.

(* a called function that returned comes back to the line after the call *)
Definition rcall_res (o : option (state * outcome)) : option rres :=
  match o with Some (st', _) => Some (st', r_ok 0, Next) | None => None end.

Section RExec.
  Variable ft : string -> option (list cmd).
  Variable env : nat -> state -> state.

  Fixpoint rexec (fuel : nat) (menv : string -> option Z) (c : cmd) (st : state) : option rres :=
    match fuel with
    | O => None
    | S f =>
      match c with
      | CExecute ms body => rrun_mods ms [] st (rexec f menv body)
      | CCall fn => match ft fn with
                    | None => Some (st, r_fail, Next)
                    | Some body => rcall_res (rseq (rexec f no_menv) body st)
                    end
      | CCallWith fn stor =>
        match ft fn with
        | None => Some (st, r_fail, Next)
        | Some body => rcall_res (rseq (rexec f (fun key => stg st (stor ++ " " ++ key)%string)) body st)
        end
      | CMacroCall pre key =>
        match menv key with
        | None => Some (st, r_fail, Next)
        | Some v => match ft (pre ++ z_dec v)%string with
                    | None => Some (st, r_fail, Next)
                    | Some body => rcall_res (rseq (rexec f no_menv) body st)
                    end
        end
      | COther t => Some (log st (EOther t), r_ok 1, if is_return_cmd t then Ret else Next)
      | _ => match exec ft env 1 menv c st with        (* the other commands: MC.Sem, they never return *)
             | Some (st', r) => Some (st', r, Next)
             | None => None
             end
      end
    end.

  (* the lines of a function body / of the caller, from st *)
  Definition rexec_list (fuel : nat) (l : list cmd) (st : state) : option (state * outcome) :=
    rseq (rexec fuel no_menv) l st.
End RExec.

(* ================================================================== 2. the repaired macro dispatcher *)

Definition isolates (hd : bool) (c : label * list cmd) : bool :=
  hd && negb (is_default (fst c)) && body_has_return (snd c).

Definition flag_line (nm : names) : cmd := CSet (found_score nm) 1.

(* the loop over zip(func_contents, case_numbers); `next` = private_function_count[group] *)
Fixpoint macro_case_fns_r (nm : names) (group : string) (pc : Z) (hd : bool)
         (cases : list (label * list cmd)) (next : Z) : list func * Z :=
  match cases with
  | [] => ([], next)
  | c :: r =>
    let name := macro_case_name nm group pc (fst c) in
    if isolates hd c then
      let inner := priv_path nm group (z_dec next) in
      let '(fs, n') := macro_case_fns_r nm group pc hd r (next + 1) in
      ((inner, snd c) :: (name, [CCall inner; flag_line nm]) :: fs, n')
    else
      let '(fs, n') := macro_case_fns_r nm group pc hd r next in
      ((name, macro_case_body nm hd c) :: fs, n')
  end.

Definition macro_dispatch_cmds (nm : names) (group : string) (x : score) (hd : bool) (pc : Z) : list cmd :=
  (if hd then [CSet (found_score nm) 0] else []) ++
  [CExecute [MStore SResult (DStorage (switch_key_path nm))] (CGet x);
   CCallWith (macro_select_name nm group pc) (storage_id nm)] ++
  (if hd then [CExecute [MIf false (Matches (found_score nm) (Exact 1))]
                        (CCall (macro_case_name nm group pc LDefault))] else []).

Definition parse_switch_macro_r (nm : names) (group : string) (x : score) (cases : list (label * list cmd))
           (pc : Z) : list cmd * list func * Z :=
  let hd := has_default cases in
  let '(cfs, pc') := macro_case_fns_r nm group pc hd cases (pc + 1) in
  let select := (macro_select_name nm group pc, [CMacroCall (macro_prefix nm group pc) "switch_key"]) in
  (macro_dispatch_cmds nm group x hd pc, (cfs ++ [select])%list, pc').

Definition parse_switch_r (nm : names) (c : cfg) (group : string) (x : score)
           (cases : list (label * list cmd)) (start : Z) (guard1 : bool) (pc sid : Z)
  : result (list cmd * list func * Z * Z) :=
  if is_macro c then
    let '(cmds, fs, pc') := parse_switch_macro_r nm group x cases pc in Ok (cmds, fs, pc', sid)
  else parse_switch_bst nm group x (map snd cases) start guard1 pc sid.

Definition compile_switch_r (nm : names) (c : cfg) (x : score) (entries : list entry) (pc sid : Z)
  : result (list cmd * list func * Z * Z) :=
  match entries with
  | (LNum start, _) :: _ =>
    match check_labels c start (map fst entries) with
    | Err e => Err e
    | Ok _ => parse_switch_r nm c SWITCH_CASE_NAME x
                             (map (fun e => (fst e, body_of (snd e))) entries) start true pc sid
    end
  | _ => Err ESyntax
  end.

(* HardcodeSwitch.call: `count < begin_at` is refused (JMCValueError "the switch would have no case", /repo bbd8943),
   under either strategy, before anything is allocated *)
Definition compile_hardcode_r (nm : names) (c : cfg) (x : score) (body : Z -> list cmd)
           (begin_at count : Z) (pc sid : Z) : result (list cmd * list func * Z * Z) :=
  if count <? begin_at then Err EValueError
  else parse_switch_r nm c HARDCODE_SWITCH_NAME x
                      (map (fun i => (LNum i, body i)) (hardcode_labels begin_at count)) begin_at true pc sid.

(* two lowerings that do NOT work, for the refutations in Props/C06.v:
   - the one of the tree before the patch is Model.Switch.parse_switch_macro (flag line appended to the body);
   - the flag line BEFORE the body: *)
Definition macro_case_body_flag_first (nm : names) (hd : bool) (c : label * list cmd) : list cmd :=
  if hd && negb (is_default (fst c)) then flag_line nm :: snd c else snd c.
Definition parse_switch_macro_flag_first (nm : names) (group : string) (x : score)
           (cases : list (label * list cmd)) (pc : Z) : list cmd * list func * Z :=
  let hd := has_default cases in
  let case_fn := fun c => (macro_case_name nm group pc (fst c), macro_case_body_flag_first nm hd c) in
  let select := (macro_select_name nm group pc, [CMacroCall (macro_prefix nm group pc) "switch_key"]) in
  (macro_dispatch_cmds nm group x hd pc, map case_fn cases ++ [select], pc + 1).

(* ================================================================== 3. whole function bodies *)

Definition IF_ELSE_NAME : string := "if_else".
Definition WHILE_LOOP_NAME : string := "while_loop".

Inductive rstmt :=
| RSay (t : string)
| RBreak
| RSet (x : score) (z : Z)
| RCall (f : string)
| RRet (t : string)                                   (* `return <t>;`  ->  the command `return <t>` *)
| RIf (y : score) (r : range) (body : list rstmt)     (* `if (<y in r>) { body }` *)
| RWhile (y : score) (k : Z) (body : list rstmt)      (* `while ($y < k) { $y += 1; body }` *)
| RSwitch (x : score) (entries : list (label * list rstmt))
| RHard (x : score) (begin_at count : Z) (tmpl : list (string * string)) (tail : list rstmt).

Record rcstate := mkRS { rs_switch : Z; rs_hard : Z; rs_id : Z; rs_if : Z; rs_while : Z }.
Definition rs0 : rcstate := mkRS 0 0 0 0 0.

(* f"execute {condition} run {body}" with `execute … run execute …` merged *)
Definition merge_exec (ms : list modifier) (c : cmd) : cmd :=
  match c with
  | CExecute ms' b => CExecute (ms ++ ms') b
  | _ => CExecute ms c
  end.

Fixpoint compile_items_r (fuel : nat) (nm : names) (c : cfg) (l : list rstmt) (st : rcstate)
  : result (list item * list func * rcstate) :=
  match fuel with
  | O => Err EFuel
  | S f =>
    match l with
    | [] => Ok ([], [], st)
    | s :: r =>
      let one : result (item * list func * rcstate) :=
          match s with
          | RSay t => Ok (ICmds [CSay t], [], st)
          | RBreak => Ok (IBreak, [], st)
          | RSet x z => Ok (ICmds [CSet x z], [], st)
          | RCall g => Ok (ICmds [CCall (ns nm +++ ":" +++ g)], [], st)
          | RRet t => Ok (ICmds [COther ("return " +++ t)], [], st)
          | RIf y rg body =>
            (* add_arrow_function: the body first; one command without a line break is inlined *)
            match compile_items_r f nm c body st with
            | Err e => Err e
            | Ok (its, fs1, st1) =>
              let guard := [MIf true (Matches y rg)] in
              match body_of its, body with
              | [one_cmd], [_] => Ok (ICmds [merge_exec guard one_cmd], fs1, st1)
              | lines, _ =>
                let fn := priv_path nm IF_ELSE_NAME (z_dec (rs_if st1)) in
                Ok (ICmds [CExecute guard (CCall fn)], fs1 ++ [(fn, lines)],
                    mkRS (rs_switch st1) (rs_hard st1) (rs_id st1) (rs_if st1 + 1) (rs_while st1))
              end
            end
          | RWhile y k body =>
            (* while_: the count first, then the body *)
            let fn := priv_path nm WHILE_LOOP_NAME (z_dec (rs_while st)) in
            let st0 := mkRS (rs_switch st) (rs_hard st) (rs_id st) (rs_if st) (rs_while st + 1) in
            match compile_items_r f nm c body st0 with
            | Err e => Err e
            | Ok (its, fs1, st1) =>
              let retest := CExecute [MIf true (Matches y (To (k - 1)))] (CCall fn) in
              Ok (ICmds [retest], fs1 ++ [(fn, CAdd y 1 :: body_of its ++ [retest])], st1)
            end
          | RSwitch x entries =>
            let fix go (es : list (label * list rstmt)) (st : rcstate)
                : result (list entry * list func * rcstate) :=
                match es with
                | [] => Ok ([], [], st)
                | (lb, b) :: es' =>
                  match compile_items_r f nm c b st with
                  | Err e => Err e
                  | Ok (its, fs1, st1) =>
                    match go es' st1 with
                    | Err e => Err e
                    | Ok (ents, fs2, st2) => Ok ((lb, its) :: ents, fs1 ++ fs2, st2)
                    end
                  end
                end in
            match go entries st with
            | Err e => Err e
            | Ok (ents, fs1, st1) =>
              match compile_switch_r nm c x ents (rs_switch st1) (rs_id st1) with
              | Err e => Err e
              | Ok (cmds, fs2, pc', sid') =>
                Ok (ICmds cmds, fs1 ++ fs2, mkRS pc' (rs_hard st1) sid' (rs_if st1) (rs_while st1))
              end
            end
          | RHard x b cnt tmpl tail =>
            let fix go (ls : list Z) (st : rcstate) : result (list (list cmd) * list func * rcstate) :=
                match ls with
                | [] => Ok ([], [], st)
                | i :: ls' =>
                  match compile_items_r f nm c tail st with
                  | Err e => Err e
                  | Ok (its, fs1, st1) =>
                    match go ls' st1 with
                    | Err e => Err e
                    | Ok (bs, fs2, st2) => Ok ((hard_body tmpl i ++ body_of its) :: bs, fs1 ++ fs2, st2)
                    end
                  end
                end in
            match go (hardcode_labels b cnt) st with
            | Err e => Err e
            | Ok (bodies, fs1, st1) =>
              match compile_hardcode_r nm c x (fun i => nth (Z.to_nat (i - b)) bodies []) b cnt
                                       (rs_hard st1) (rs_id st1) with
              | Err e => Err e
              | Ok (cmds, fs2, pc', sid') =>
                Ok (ICmds cmds, fs1 ++ fs2, mkRS (rs_switch st1) pc' sid' (rs_if st1) (rs_while st1))
              end
            end
          end in
      match one with
      | Err e => Err e
      | Ok (it, fs1, st1) =>
        match compile_items_r f nm c r st1 with
        | Err e => Err e
        | Ok (its, fs2, st2) => Ok (it :: its, fs1 ++ fs2, st2)
        end
      end
    end
  end.

Fixpoint compile_functions_r (fuel : nat) (nm : names) (c : cfg) (fl : list (string * list rstmt)) (st : rcstate)
  : result (list func) :=
  match fl with
  | [] => Ok []
  | (name, l) :: r =>
    match compile_items_r fuel nm c l st with
    | Err e => Err e
    | Ok (its, fs, st1) =>
      match compile_functions_r fuel nm c r st1 with
      | Err e => Err e
      | Ok more => Ok ((ns nm +++ ":" +++ name, body_of its) :: fs ++ more)
      end
    end
  end.
