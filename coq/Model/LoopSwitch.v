(* Model.LoopSwitch — the statement-by-statement lowering of a function body (Model.Loop: basic
   commands, if / else-if / else chains, while / do-while / for) EXTENDED with the two constructs loops
   are nested in, or that are nested in loops, and that Model.Loop left outside:

     switch (x) { case n: … break; … default: … }      _flow_control.py switch() / parse_switch()
                                                        (both lowerings: Model.Switch.compile_switch —
                                                        binary search tree and macro dispatch)
     execute if score <e> <VAR> matches 1.. run { … }   lexer_func_content.py: an anonymous block after
                                                        `run` (DataPack.add_arrow_function("anonymous", …))

   The case bodies / the block are lowered by the same FuncContent machinery as a function body
   (Lexer._parse_func_content), *before* the construct allocates its own number: the loops, chains and
   inner switches in them take their numbers first, in source order.  DataPack keeps one counter per
   group (if_else, while_loop, for_loop, anonymous, switch_case) and one switch-id counter
   (DataPackData.get_current_switch, the private copy `__switch__<n>` of the binary search tree).

   The functions of a switch are kept in a table of their own (x_fns): their names live under
   `…/switch_case/`, which no other group uses.  A `break;` that closes a case is dropped by switch().

   Properties C05 (loops nested in / around switches and blocks) and C04.  No proofs here. *)
From Coq Require Import ZArith String List Bool.
From JMCV Require Import Base.Dec MC.Syntax Model.Names Model.PrivAlloc Model.IfElse Model.Loop.
From JMCV Require Model.Switch.
Import ListNotations.
Open Scope list_scope.

Definition ANON_NAME : string := "anonymous"%string.

Inductive xstmt :=
| XCmd (c : cmd)
| XIf (b : xbranches) (e : xoelse)
| XWhile (c : cond) (body : xstmts)
| XDoWhile (body : xstmts) (c : cond)
| XFor (init : list cmd) (c : cond) (step : list cmd) (body : xstmts)
| XSwitch (x : score) (cs : xcases)
| XRun (e : score) (body : xstmts)          (* execute if score e matches 1.. run { body } *)
with xstmts := XNil | XCons (s : xstmt) (r : xstmts)
with xbranches := XBNil | XBCons (c : cond) (body : xstmts) (r : xbranches)
with xoelse := XENone | XESome (body : xstmts)
(* one `case <label>:` / `default:` entry; brk = the body is closed by `break;` *)
with xcases := XKNil | XKCons (l : Switch.label) (body : xstmts) (brk : bool) (r : xcases).

Definition is_xbnil (b : xbranches) : bool := match b with XBNil => true | _ => false end.

(* the numbering state of DataPack the lowering threads through.  DataPack keeps one table per group
   (private_functions[group][count]); the groups Model.Loop knows stay in `xa`, the other two have tables of
   their own here *)
Record xalloc := mkX {
  xa : alloc;                   (* counters + functions of if_else / while_loop / for_loop *)
  x_anon : nat;                 (* private_function_count["anonymous"] *)
  x_afns : list fdef;           (* private_functions["anonymous"], in order of creation *)
  x_pc : Z;                     (* private_function_count["switch_case"] *)
  x_sid : Z;                    (* DataPackData: next __switch__<n> *)
  x_sw : list (Z * list Switch.func)
                                (* per switch statement, in order of creation: the count parse_switch took
                                   and the functions it stored under …/switch_case/ *)
}.
Definition xalloc0 : xalloc := mkX alloc0 O [] 0 0 [].
Definition set_a (a : xalloc) (r : alloc) : xalloc :=
  mkX r (x_anon a) (x_afns a) (x_pc a) (x_sid a) (x_sw a).

(* the guard of XRun *)
Definition run_guard_tests (e : score) : list (bool * test) := [(true, Matches e (From 1))].
Definition run_guard (e : score) : list modifier := mods_of (run_guard_tests e).

(* `execute <guard> run { body }`: add_arrow_function("anonymous", …) — an empty block is refused, a
   block of one one-line command is put after `run` (an `execute` merged at the junction), otherwise an
   anonymous function is created *)
Definition run_code (nm : names) (e : score) (lines : list cmd) (a : xalloc) : option (list cmd * xalloc) :=
  match lines with
  | [] => None
  | [c] => Some ([merge1 (run_guard e) c], a)
  | _ => let k := x_anon a in
         Some ([CExecute (run_guard e) (call_func nm ANON_NAME k)],
               mkX (xa a) (S k) (x_afns a ++ [(priv_fn nm ANON_NAME k, lines)]) (x_pc a) (x_sid a) (x_sw a))
  end.

Definition entries_of (l : list (Switch.label * list cmd)) : list Switch.entry :=
  map (fun e => (fst e, [Switch.ICmds (snd e)])) l.

(* switch(): the case bodies are already lowered; parse_switch allocates the count and the switch id *)
Definition switch_code (nm : names) (cf : Switch.cfg) (x : score) (bodies : list (Switch.label * list cmd))
           (a : xalloc) : option (list cmd * xalloc) :=
  match Switch.compile_switch nm cf x (entries_of bodies) (x_pc a) (x_sid a) with
  | Switch.Ok (cmds, fs, pc', sid') =>
    Some (cmds, mkX (xa a) (x_anon a) (x_afns a) pc' sid' (x_sw a ++ [(x_pc a, fs)]))
  | Switch.Err _ => None
  end.

Fixpoint xcompile_stmt (nm : names) (cf : Switch.cfg) (s : xstmt) (a : xalloc) {struct s}
  : option (list cmd * xalloc) :=
  match s with
  | XCmd c => Some ([c], a)
  | XIf b e =>
    match b, e with
    | XBNil, _ => None
    | XBCons c body XBNil, XENone =>
      match xcompile_stmts nm cf body a with
      | None => None
      | Some (lines, a1) =>
        match alloc_arrow lines (xa a1) with
        | None => None
        | Some (aid, r2) =>
          let (caller, fs) := single_if_code nm c lines aid in Some (caller, set_a a1 (add_fns fs r2))
        end
      end
    | _, _ =>
      match xcompile_branches nm cf (match e with XENone => false | XESome _ => true end) b a with
      | None => None
      | Some (ws, lastelif, a1) =>
        match e, lastelif with
        | XESome body, _ =>
          match xcompile_stmts nm cf body a1 with
          | None => None
          | Some (lines, a2) =>
            match finish_chain nm ws (inl lines) (xa a2) with
            | None => None
            | Some (caller, r3) => Some (caller, set_a a2 r3)
            end
          end
        | XENone, Some cl =>
          match finish_chain nm ws (inr cl) (xa a1) with
          | None => None
          | Some (caller, r2) => Some (caller, set_a a1 r2)
          end
        | XENone, None => None
        end
      end
    end
  | XWhile c body =>
    let (k, r1) := get_count WHILE_NAME (xa a) in
    match xcompile_stmts nm cf body (set_a a r1) with
    | None => None
    | Some (lines, a2) =>
      let (caller, fs) := while_code nm c lines k in Some (caller, set_a a2 (add_fns fs (xa a2)))
    end
  | XDoWhile body c =>
    let (k, r1) := get_count WHILE_NAME (xa a) in
    match xcompile_stmts nm cf body (set_a a r1) with
    | None => None
    | Some (lines, a2) =>
      let (caller, fs) := dowhile_code nm c lines k in Some (caller, set_a a2 (add_fns fs (xa a2)))
    end
  | XFor init c step body =>
    match body with
    | XNil => None                       (* "For loop content cannot be empty" *)
    | _ =>
      let (k, r1) := get_count FOR_NAME (xa a) in
      match xcompile_stmts nm cf body (set_a a r1) with
      | None => None
      | Some (lines, a2) =>
        let (caller, fs) := for_code nm init c step lines k in Some (caller, set_a a2 (add_fns fs (xa a2)))
      end
    end
  | XSwitch x cs =>
    match xcompile_cases nm cf cs a with
    | None => None
    | Some (bodies, a1) => switch_code nm cf x bodies a1
    end
  | XRun e body =>
    match xcompile_stmts nm cf body a with
    | None => None
    | Some (lines, a1) =>
      run_code nm e lines a1
    end
  end
with xcompile_stmts (nm : names) (cf : Switch.cfg) (l : xstmts) (a : xalloc) {struct l}
  : option (list cmd * xalloc) :=
  match l with
  | XNil => Some ([], a)
  | XCons s r =>
    match xcompile_stmt nm cf s a with
    | None => None
    | Some (l1, a1) =>
      match xcompile_stmts nm cf r a1 with
      | None => None
      | Some (l2, a2) => Some (l1 ++ l2, a2)
      end
    end
  end
with xcompile_branches (nm : names) (cf : Switch.cfg) (has_else : bool) (b : xbranches) (a : xalloc) {struct b}
  : option (list wbr * option (cond * list cmd) * xalloc) :=
  match b with
  | XBNil => Some ([], None, a)
  | XBCons c body r =>
    match xcompile_stmts nm cf body a with
    | None => None
    | Some (lines, a1) =>
      if is_xbnil r && negb has_else then Some ([], Some (c, lines), a1)
      else
        let (blines, r1') := isolate nm lines (xa a1) in
        let (k, r2) := get_count IF_ELSE r1' in
        match xcompile_branches nm cf has_else r (set_a a1 (add_fn (wbr_fn nm (mkW c blines k)) r2)) with
        | None => None
        | Some (ws, last, a3) => Some (mkW c blines k :: ws, last, a3)
        end
    end
  end
(* the case bodies, in source order (a closing `break;` is dropped) *)
with xcompile_cases (nm : names) (cf : Switch.cfg) (cs : xcases) (a : xalloc) {struct cs}
  : option (list (Switch.label * list cmd) * xalloc) :=
  match cs with
  | XKNil => Some ([], a)
  | XKCons l body _ r =>
    match xcompile_stmts nm cf body a with
    | None => None
    | Some (lines, a1) =>
      match xcompile_cases nm cf r a1 with
      | None => None
      | Some (bs, a2) => Some ((l, lines) :: bs, a2)
      end
    end
  end.

(* every function the pack holds after the lowering.  Within one macro switch a later case of the same
   label replaces the earlier one (dict assignment); names of different groups / switches never collide *)
Definition sw_table (g : Z * list Switch.func) : list fdef := fold_left put_fn (snd g) [].
Definition all_fns (a : xalloc) : list fdef :=
  fns (xa a) ++ x_afns a ++ flat_map sw_table (x_sw a).

(* a whole function body, from an empty DataPack *)
Definition xcompile_body (nm : names) (cf : Switch.cfg) (l : xstmts) : option (list cmd * list fdef) :=
  match xcompile_stmts nm cf l xalloc0 with
  | Some (lines, a) => Some (lines, all_fns a)
  | None => None
  end.

(* ---- Model.Loop's statement trees are the trees without switch / block ---- *)
Fixpoint embed_stmt (s : stmt) : xstmt :=
  match s with
  | SCmd c => XCmd c
  | SIf b e => XIf (embed_branches b) (embed_oelse e)
  | SWhile c body => XWhile c (embed_stmts body)
  | SDoWhile body c => XDoWhile (embed_stmts body) c
  | SFor init c step body => XFor init c step (embed_stmts body)
  end
with embed_stmts (l : stmts) : xstmts :=
  match l with SNil => XNil | SCons s r => XCons (embed_stmt s) (embed_stmts r) end
with embed_branches (b : branches) : xbranches :=
  match b with BNil => XBNil | BCons c body r => XBCons c (embed_stmts body) (embed_branches r) end
with embed_oelse (e : oelse) : xoelse :=
  match e with ENone => XENone | ESome body => XESome (embed_stmts body) end.
