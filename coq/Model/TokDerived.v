(* Model.TokDerived — tokens that the argument-list parsers of tokenizer.py BUILD from tokens of a tokenizer run
   (strengthening round 1 of C14).  Definitions only (proofs: Proofs/TokDerived.v).

   parse_func_args (tokenizer.py): a keyword argument written without blanks, `key=-N` / `key=+N`, is tokenised
   as  KEYWORD key, OPERATOR `=-` (resp. `=+`), KEYWORD N.  The sign is split off the operator token and becomes
   the first token of the value:

       Token(equal_token.token_type, equal_token.line, equal_token.col + 1, equal_token.string[1:])

   diagnostics on such a value ("count can only be more than zero") cite that token.
     is_signed_eq t   t is such an operator token
     split_sign d t   the sign token, cited d columns right of t;  the tree: d = d_sign = 1 *)
From Coq Require Import ZArith NArith List Bool.
From JMCV Require Import Model.Tok Model.TokPos.
Import ListNotations.
Open Scope Z_scope.

Definition c_equal : char := 61%N.
Definition c_minus : char := 45%N.
Definition c_plus : char := 43%N.

Definition is_signed_eq (t : token) : bool :=
  ttype_eqb (t_type t) OPERATOR &&
  (seqb (t_str t) [c_equal; c_minus] || seqb (t_str t) [c_equal; c_plus]).

Definition split_sign (d : Z) (t : token) : token :=
  mkTok (t_type t) (t_line t) (t_col t + d) (tl (t_str t)) false.

Definition d_sign : Z := 1.
