(* Model.Expr — common definitions of the Gallina port of JMC's expression assignment
   (`$v := expr`, `:+= :-= :*= :/= :%=`; src/jmc/compile/expression_eval.py and
   var_operation.py:265-356).  Property C02.

   This file: operator contents (Python strings "", "+", "-", "*", "/", "%", "**") with the
   substring tests the code performs on them, the outcome monad (a JMC diagnostic, an escaping
   Python exception and "outside the model" are explicit results, never a normal-looking
   value), the tags carried by the branches that can produce wrong output, and the model of
   `eval_expr` (command/utils.py:506-562) on the strings the pipeline builds. *)
From Coq Require Import ZArith String List Bool.
From JMCV Require Import Base.Int32 Base.Dec MC.Syntax Model.Names.
Import ListNotations.
Open Scope Z_scope.

(* ------------------------------------------------------------------ operator contents *)
Inductive opc := PEmpty | PAdd | PSub | PMul | PDiv | PMod | PPow.

Definition opc_eqb (a b : opc) : bool :=
  match a, b with
  | PEmpty, PEmpty | PAdd, PAdd | PSub, PSub | PMul, PMul | PDiv, PDiv | PMod, PMod | PPow, PPow => true
  | _, _ => false
  end.

(* Python `content in "<chars>"` is a SUBSTRING test: "" is in every string, "**" in none of these. *)
Definition in_addsub (o : opc) : bool :=            (* o in "+-" *)
  match o with PEmpty | PAdd | PSub => true | _ => false end.
Definition in_muldivmod (o : opc) : bool :=         (* o in "*/%" *)
  match o with PEmpty | PMul | PDiv | PMod => true | _ => false end.
Definition in_addmul (o : opc) : bool :=            (* o in "+*" *)
  match o with PEmpty | PAdd | PMul => true | _ => false end.
Definition in_muldiv (o : opc) : bool :=            (* o in "*/" *)
  match o with PEmpty | PMul | PDiv => true | _ => false end.

(* Operator.get_order: (order, is_left_precedence).  No content reaches the ValueError branch. *)
Definition op_order (o : opc) : Z :=
  match o with PPow => 30 | _ => if in_muldivmod o then 20 else 10 end.
Definition left_prec (o : opc) : bool := negb (opc_eqb o PPow).
(* Operator.is_reflective *)
Definition is_reflective (o : opc) : bool := in_addmul o.
(* Operator.is_same_group *)
Definition is_same_group (a b : opc) : bool := opc_eqb a b || (in_addsub a && in_addsub b).

Definition sop_of_opc (o : opc) : sop :=
  match o with
  | PEmpty => OAssign | PAdd => OAdd | PSub => OSub | PMul => OMul | PDiv => ODiv | PMod => OMod
  | PPow => OAssign (* never printed: lowering raises before *)
  end.

(* ------------------------------------------------------------------ tags *)
(* A tag marks a branch of the pinned code that can make the emitted commands differ from the
   meaning of the source expression (DESIGN.md 2.4).  tag_name is the identifier used in
   known_findings.json ("match": {"tag": ...}). *)
Inductive tag :=
| T_neg_after_tight       (* tokens_to_tokens: `/ -v`, `% -v`, `** -v`, `/ -(..)` becomes `-1 * v` at the precedence of `*` *)
| T_parse_pop_lower       (* expression_to_tree.process_stack pops operators of LOWER precedence than the incoming one *)
| T_iop_leading_minus     (* var_operation.py:93-95 merges a leading `-` with the next token for compound forms *)
| T_iop_inject            (* tree_to_operations: can_inject_iop turns `x op= (l o r)` into `(x op l) o r` *)
| T_inject_reused_temp    (* tree_to_operations: the temporary that becomes the target was used as scratch before the target is read *)
| T_sub_rewrite_fold      (* E1 - E2 is rewritten to E2*-1 + E1 but node.content stays "-": constant folding uses "-" *)
| T_fold_pow_negbase      (* eval_expr("-3**2") = -9: Python parses the sign outside the power *)
| T_pow_nonconst          (* `**` with a non-constant or negative exponent is rejected with a diagnostic *)
| T_opt_final_minus       (* optimize_const final merge when the first constant's operator is "-": sign applied twice *)
| T_opt_final_div         (* optimize_const final merge of divisors (c1*c2, or c1/c2 after "=") *)
| T_opt_final_mod         (* optimize_const final merge `c1 % c2` across intervening operations *)
| T_opt_swap_self         (* optimize_const turns `t = c; t op= t` into `t = t; t op= c` *)
| T_opt_merge_self        (* optimize_const merges two constants across an operation `t op= t` (e.g. the squaring of `**`) *)
| T_opt_mid_merge         (* optimize_const mid-list merge ignores the operator of the first constant *)
| T_const_range           (* a constant outside what the command accepts is emitted (Python ints do not wrap) *)
| T_crash_fold            (* eval_expr raises (ZeroDivisionError, SyntaxError) *)
| T_fold_float            (* eval_expr leaves the integers (true division, negative exponent): the model stops *)
| T_fold_nowrap           (* a folded constant leaves the 32-bit range: Python integers do not wrap *)
| T_fold_huge.            (* a constant power too large for Python to print / convert (ValueError, OverflowError, MemoryError) *)           (* eval_expr leaves the integers (true division, negative exponent): the model stops *)

Definition tag_name (t : tag) : string :=
  match t with
  | T_neg_after_tight => "neg_after_tight" | T_parse_pop_lower => "parse_pop_lower"
  | T_iop_leading_minus => "iop_leading_minus" | T_iop_inject => "iop_inject"
  | T_inject_reused_temp    (* tree_to_operations: the temporary that becomes the target was used as scratch before the target is read *)
| T_sub_rewrite_fold => "sub_rewrite_fold" | T_fold_pow_negbase => "fold_pow_negbase"
  | T_pow_nonconst => "pow_nonconst"
  | T_opt_final_minus => "opt_final_minus" | T_opt_final_div => "opt_final_div"
  | T_opt_final_mod => "opt_final_mod" | T_opt_mid_merge => "opt_mid_merge"
  | T_opt_swap_self => "opt_swap_self" | T_opt_merge_self => "opt_merge_self"
  | T_const_range => "const_range" | T_crash_fold => "crash_fold" | T_fold_float => "fold_float"
  | T_fold_nowrap => "fold_nowrap" | T_fold_huge => "fold_huge"
  end%string.

(* ------------------------------------------------------------------ outcomes *)
Inductive outcome (A : Type) :=
| Ok (a : A)
| Diag (msg : string)        (* JMCSyntaxException: one of JMC's own diagnostics *)
| Crash (exc : string)       (* any other Python exception escapes: an internal error *)
| Unmodelled (why : string). (* the real code continues with Python floats / huge ints: outside this model *)
Arguments Ok {A} a. Arguments Diag {A} msg. Arguments Crash {A} exc. Arguments Unmodelled {A} why.

(* computation with the list of tags fired so far (in order) *)
Definition M (A : Type) : Type := (outcome A * list tag)%type.
Definition ret {A} (a : A) : M A := (Ok a, []).
Definition diag {A} (m : string) : M A := (Diag m, []).
Definition crash {A} (e : string) : M A := (Crash e, []).
Definition unmodelled {A} (w : string) : M A := (Unmodelled w, []).
Definition tell (t : tag) : M unit := (Ok tt, [t]).
Definition tell_if (b : bool) (t : tag) : M unit := if b then tell t else ret tt.
Definition bind {A B} (m : M A) (f : A -> M B) : M B :=
  match m with
  | (Ok a, t) => let r := f a in (fst r, t ++ snd r)
  | (Diag s, t) => (Diag s, t)
  | (Crash s, t) => (Crash s, t)
  | (Unmodelled s, t) => (Unmodelled s, t)
  end.
Notation "x <- m ;; k" := (bind m (fun x => k)) (at level 61, m at next level, right associativity).
Notation "' p <- m ;; k" := (bind m (fun x => let 'p := x in k))
  (at level 61, p pattern, m at next level, right associativity).
Notation "m ;;; k" := (bind m (fun _ => k)) (at level 61, right associativity).

(* ------------------------------------------------------------------ eval_expr on the strings the pipeline builds *)
(* Constants are Python strings holding decimal integers (eval_expr formats ints with %d and
   integer-valued floats as ints); we keep their values.  Whatever leaves the integers (inexact
   true division, negative exponent) or the range in which float() is exact is Unmodelled. *)
Definition FLOAT_EXACT : Z := 9007199254740992.     (* 2^53 *)
Definition POW_CAP : Z := 256.

Definition py_binop (o : opc) (a b : Z) : M Z :=
  let chk (v : Z) : M Z := tell_if (negb (in_int32b v)) T_fold_nowrap ;;; ret v in
  match o with
  | PAdd => chk (a + b)
  | PSub => chk (a - b)
  | PMul => chk (a * b)
  | PDiv => if b =? 0 then tell T_crash_fold ;;; crash "ZeroDivisionError"
            else if negb (a mod b =? 0) then tell T_fold_float ;;; unmodelled "non-integer constant (true division)"
            else if FLOAT_EXACT <? Z.abs (a / b) then tell T_fold_float ;;; unmodelled "float rounding (true division)"
            else chk (a / b)
  | PMod => if b =? 0 then tell T_crash_fold ;;; crash "ZeroDivisionError" else ret (a mod b)
  | PPow => if b <? 0 then tell T_fold_float ;;; unmodelled "negative exponent (float)"
            else if POW_CAP <? b then tell T_fold_huge ;;; unmodelled "huge exponent"
            else chk (a ^ b)
  | PEmpty => tell T_crash_fold ;;; crash "SyntaxError"
  end.

(* value of the Python expression  <sign><c><o>[ ]<n>  where sign is "", "+" or "-",
   c and n are decimal integers (possibly negative).  Python's grammar: a unary sign binds
   tighter than + - * / % and looser than **.
   ("+" needs ast.UAdd in eval_expr's OPERATORS: fixes/C02-evalexpr-unary-plus.patch) *)
Definition apply_sign (sign : opc) (v : Z) : Z := match sign with PSub => - v | _ => v end.

Definition py_eval3 (sign : opc) (c : Z) (o : opc) (n : Z) : M Z :=
  match o with
  | PPow =>
      (* [sign] [-] |c| ** n : every sign is applied after the power *)
      v <- py_binop PPow (Z.abs c) n ;;
      tell_if ((c <? 0) && Z.even n) T_fold_pow_negbase ;;;
      ret (apply_sign sign (if c <? 0 then - v else v))
  | PEmpty =>
      (* "c n": a syntax error unless n is negative, then it reads as c - |n| *)
      if n <? 0 then ret (apply_sign sign c + n) else tell T_crash_fold ;;; crash "SyntaxError"
  | _ => py_binop o (apply_sign sign c) n
  end.
Definition py_eval2 (c : Z) (o : opc) (n : Z) : M Z := py_eval3 PEmpty c o n.
