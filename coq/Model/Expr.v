(* Model.Expr — common definitions of the Gallina port of JMC's expression assignment
   (`$v := expr`, `:+= :-= :*= :/= :%=`; src/jmc/compile/expression_eval.py and the expression
   branch of var_operation.py), as repaired by fixes/C02-01 .. C02-09.  Property C02.

   This file: operator contents (Python strings "", "+", "-", "*", "/", "%", "**") with the
   substring tests the code still performs on them, the outcome monad (a JMC diagnostic, an escaping
   Python exception and "outside the model" are explicit results, never a normal-looking value),
   the tags carried by the branches that can produce wrong output, and `fold_constants`. *)
From Coq Require Import ZArith String List Bool.
From JMCV Require Import Base.Int32 Base.Dec MC.Syntax Model.Names.
Import ListNotations.
Open Scope Z_scope.

(* ------------------------------------------------------------------ operator contents *)
Inductive opc := PEmpty | PAdd | PSub | PMul | PDiv | PMod | PPow.

Definition opc_eqb (a b : opc) : bool :=
  match a, b with
  | PEmpty, PEmpty | PAdd, PAdd | PSub, PSub | PMul, PMul | PDiv, PDiv | PMod, PMod | PPow, PPow => true
  | _, _ => false
  end.

(* Python `content in "<chars>"` is a SUBSTRING test: "" is in every string, "**" in none of these. *)
Definition in_addsub (o : opc) : bool :=            (* o in "+-" *)
  match o with PEmpty | PAdd | PSub => true | _ => false end.
Definition in_muldivmod (o : opc) : bool :=         (* o in "*/%" *)
  match o with PEmpty | PMul | PDiv | PMod => true | _ => false end.

(* Operator.get_order: (order, is_left_precedence).  No content reaches the ValueError branch. *)
Definition op_order (o : opc) : Z :=
  match o with PPow => 30 | _ => if in_muldivmod o then 20 else 10 end.
Definition left_prec (o : opc) : bool := negb (opc_eqb o PPow).
(* Operator.is_reflective: content in ("+", "*") *)
Definition is_reflective (o : opc) : bool := match o with PAdd | PMul => true | _ => false end.
(* Operator.is_same_group *)
Definition is_same_group (a b : opc) : bool := opc_eqb a b || (in_addsub a && in_addsub b).

Definition sop_of_opc (o : opc) : sop :=
  match o with
  | PEmpty => OAssign | PAdd => OAdd | PSub => OSub | PMul => OMul | PDiv => ODiv | PMod => OMod
  | PPow => OAssign (* never printed: lowering raises before *)
  end.

(* ------------------------------------------------------------------ tags *)
(* A tag marks a branch of the code that can make the emitted commands differ from the
   meaning of the source expression (DESIGN.md 2.4).  tag_name is the identifier used in
   known_findings.json ("match": {"tag": ...}).
   After the C02 repairs (fixes/C02-01 .. C02-09) two branches are left:
   the documented restriction of `**` and literals outside the 32-bit range. *)
Inductive tag :=
| T_pow_nonconst          (* `**` with a non-constant or negative exponent is rejected with a diagnostic *)
| T_const_range.          (* a literal outside the 32-bit range reaches a command (the property assumes 32-bit literals) *)

Definition tag_name (t : tag) : string :=
  match t with
  | T_pow_nonconst => "pow_nonconst"
  | T_const_range => "const_range"
  end%string.

(* ------------------------------------------------------------------ outcomes *)
Inductive outcome (A : Type) :=
| Ok (a : A)
| Diag (msg : string)        (* JMCSyntaxException: one of JMC's own diagnostics *)
| Crash (exc : string)       (* any other Python exception escapes: an internal error *)
| Unmodelled (why : string). (* the real code continues with Python floats / huge ints: outside this model *)
Arguments Ok {A} a. Arguments Diag {A} msg. Arguments Crash {A} exc. Arguments Unmodelled {A} why.

(* computation with the list of tags fired so far (in order) *)
Definition M (A : Type) : Type := (outcome A * list tag)%type.
Definition ret {A} (a : A) : M A := (Ok a, []).
Definition diag {A} (m : string) : M A := (Diag m, []).
Definition crash {A} (e : string) : M A := (Crash e, []).
Definition unmodelled {A} (w : string) : M A := (Unmodelled w, []).
Definition tell (t : tag) : M unit := (Ok tt, [t]).
Definition tell_if (b : bool) (t : tag) : M unit := if b then tell t else ret tt.
Definition bind {A B} (m : M A) (f : A -> M B) : M B :=
  match m with
  | (Ok a, t) => let r := f a in (fst r, t ++ snd r)
  | (Diag s, t) => (Diag s, t)
  | (Crash s, t) => (Crash s, t)
  | (Unmodelled s, t) => (Unmodelled s, t)
  end.
Notation "x <- m ;; k" := (bind m (fun x => k)) (at level 61, m at next level, right associativity).
Notation "' p <- m ;; k" := (bind m (fun x => let 'p := x in k))
  (at level 61, p pattern, m at next level, right associativity).
Notation "m ;;; k" := (bind m (fun _ => k)) (at level 61, right associativity).

(* ------------------------------------------------------------------ fold_constants (expression_eval.py) *)
(* Constants are Python strings holding decimal integers; we keep their values.  fold_constants
   calculates with 32-bit integers that wrap around, `/` and `%` rounding toward negative infinity;
   None = "no result" (division by zero).  A negative exponent goes through Python floats: outside
   the model, except 0 ** -n, which has no result. *)
Definition FLOAT_EXACT : Z := 9007199254740992.     (* 2^53 *)
Definition POW_CAP : Z := 256.                      (* expansion of `v ** n` is modelled up to this exponent *)
Definition MODULUS : Z := 4294967296.

(* pow(a, b, 2**32) for b > 0 *)
Fixpoint powmod_pos (a : Z) (p : positive) : Z :=
  match p with
  | xH => a mod MODULUS
  | xO p' => let r := powmod_pos a p' in (r * r) mod MODULUS
  | xI p' => let r := powmod_pos a p' in (a * ((r * r) mod MODULUS)) mod MODULUS
  end.
Definition powmod (a b : Z) : Z :=
  match b with Zpos p => powmod_pos a p | _ => 1 end.

Inductive folded := FVal (z : Z) | FNone | FFloat.

Definition fold_constants (o : opc) (a b : Z) : folded :=
  match o with
  | PAdd => FVal (wrap (a + b))
  | PSub => FVal (wrap (a - b))
  | PMul => FVal (wrap (a * b))
  | PDiv => if b =? 0 then FNone else FVal (wrap (a / b))
  | PMod => if b =? 0 then FNone else FVal (wrap (a mod b))
  | PPow => if b <? 0 then (if a =? 0 then FNone else FFloat) else FVal (wrap (powmod a b))
  | PEmpty => FNone     (* ValueError: never reached *)
  end.
