(* Model.Alloc — the DataPack object as a state machine (properties C07, C08).

   Ports (src/jmc/compile):
     datapack.py   Function.__init__/append/extend and the split that drops empty lines (169-267),
                   get_count, call_func (386-408), the dictionaries functions / private_functions /
                   jsons / functions_called / user_private_functions / lazy_func (315-366),
                   DataPack.build (649-758, without #copy, Debug.trackFunction, header post_process)
     compiling.py  build(): load/tick tag emission and the path mapping (335-394), post_process (242-258)

   An *operation* is one state change of the DataPack between its creation and build(); the
   harness (harness/optrace.py) logs the operations of real compiles and the correspondence
   check replays them here and compares the file map. *)
From Coq Require Import String Ascii List Bool Arith ZArith.
From JMCV Require Import Base.Dec Model.Names Model.ResLoc.
Import ListNotations.
Open Scope string_scope.

(* ------------------------------------------------------------------ configuration *)
Record cfg := mkCfg {
  c_nm : names;
  c_legacy : bool;               (* pack_format < 48: folder "functions" *)
  c_overrides : list string;     (* #override namespaces *)
  c_links : list string;         (* #link namespaces *)
  c_credits : list string        (* #credit lines *)
}.
Definition c_ns (c : cfg) := ns (c_nm c).
Definition c_private (c : cfg) := private_name (c_nm c).
Definition c_load (c : cfg) := load_name (c_nm c).
Definition c_tick (c : cfg) := tick_name (c_nm c).
Definition fmt (c : cfg) (p : string) : string := format_func_path (c_ns c) (c_overrides c) p.
Definition fkey_of (c : cfg) (p : string) : fkey := func_key (c_ns c) (c_legacy c) (c_overrides c) p.
Definition jkey_of (c : cfg) (p : string) : fkey := json_key (c_ns c) (c_overrides c) p.
Definition ppath (c : cfg) (g n : string) : string := private_path (c_private c) g n.

(* ------------------------------------------------------------------ Function objects *)
Definition nl : ascii := ascii_of_nat 10.
Definition nls : string := String nl EmptyString.

(* s.split("\n") *)
Fixpoint lines_of (s : string) : list string :=
  match s with
  | EmptyString => [EmptyString]
  | String c r =>
      if Ascii.eqb c nl then EmptyString :: lines_of r
      else match lines_of r with
           | h :: t => String c h :: t
           | [] => [String c EmptyString]
           end
  end.
Definition nonempty (s : string) : bool := match s with EmptyString => false | _ => true end.
(* Function.__split *)
Definition fsplit (cmds : list string) : list string := filter nonempty (flat_map lines_of cmds).
Definition join_nl (ls : list string) : string := String.concat nls ls.

(* ------------------------------------------------------------------ association lists (Python dict: first insertion fixes the position) *)
Section Assoc.
  Context {V : Type}.
  Fixpoint aget (k : string) (l : list (string * V)) : option V :=
    match l with [] => None | (k', v) :: r => if String.eqb k k' then Some v else aget k r end.
  Fixpoint aset (k : string) (v : V) (l : list (string * V)) : list (string * V) :=
    match l with
    | [] => [(k, v)]
    | (k', v') :: r => if String.eqb k k' then (k, v) :: r else (k', v') :: aset k v r
    end.
  Fixpoint nget (k : nat) (l : list (nat * V)) : option V :=
    match l with [] => None | (k', v) :: r => if Nat.eqb k k' then Some v else nget k r end.
  Fixpoint nset (k : nat) (v : V) (l : list (nat * V)) : list (nat * V) :=
    match l with
    | [] => [(k, v)]
    | (k', v') :: r => if Nat.eqb k k' then (k, v) :: r else (k', v') :: nset k v r
    end.
End Assoc.
Definition amem {V} (k : string) (l : list (string * V)) : bool :=
  match aget k l with Some _ => true | None => false end.

(* ------------------------------------------------------------------ operations and state *)
Inductive op :=
| ONew (id : nat) (cmds : list string)          (* Function(cmds) *)
| OApp (id : nat) (cmds : list string)          (* .append / .extend *)
| OFSet (path : string) (id : nat)              (* functions[path] = <id> *)
| OPSet (g n : string) (id : nat)               (* private_functions[g][n] = <id> *)
| OJSet (path text : string) (truthy : bool)    (* jsons[path] = json *)
| OCalled (path prefix : string)                (* functions_called[path] = (token, tokenizer, prefix) *)
| OUPriv (path prefix : string)                 (* user_private_functions[path] = prefix *)
| OLazy (path : string)
| OLazyDel (path : string)
| OCount (g ret : string)                       (* get_count(g) returned ret *)
| OCallF (g n ret : string)                     (* call_func(g, n) returned ret *)
| ODef (path : string).                         (* (round 3) defined_file_pos[path] = ...: a function / json NAME is defined; says
                                                   nothing about a file: @lazy and @if functions are defined without one *)

Record state := mkSt {
  heap : list (nat * list string);              (* Function objects: id -> lines *)
  funcs : list (string * nat);                  (* functions *)
  privs : list (string * list (string * nat));  (* private_functions *)
  jsons : list (string * (string * bool));      (* jsons: path -> (dumps(json, indent=4), bool(json)) *)
  called : list (string * string);              (* functions_called: path -> prefix *)
  upriv : list (string * string);               (* user_private_functions *)
  lazy : list string;                           (* keys of lazy_func *)
  counts : list (string * nat);                 (* private_function_count *)
  defs : list string                            (* keys of defined_file_pos: every defined name, with or without a file *)
}.
Definition st0 : state := mkSt [] [] [] [] [] [] [] [] [].

Definition dec_nat (n : nat) : string := z_dec (Z.of_nat n).
Definition count_of (g : string) (st : state) : nat :=
  match aget g (counts st) with Some n => n | None => O end.
Definition pset (g n : string) (id : nat) (l : list (string * list (string * nat))) :=
  aset g (aset n id (match aget g l with Some inner => inner | None => [] end)) l.

(* None: the logged operation is not what the model of DataPack does (correspondence broken) *)
Definition step (c : cfg) (st : state) (o : op) : option state :=
  match o with
  | ONew id cmds =>
      Some (mkSt (nset id (fsplit cmds) (heap st)) (funcs st) (privs st) (jsons st) (called st) (upriv st) (lazy st) (counts st) (defs st))
  | OApp id cmds =>
      match nget id (heap st) with
      | Some ls => Some (mkSt (nset id (ls ++ fsplit cmds)%list (heap st)) (funcs st) (privs st) (jsons st) (called st) (upriv st) (lazy st) (counts st) (defs st))
      | None => None
      end
  | OFSet p id =>
      Some (mkSt (heap st) (aset p id (funcs st)) (privs st) (jsons st) (called st) (upriv st) (lazy st) (counts st) (defs st))
  | OPSet g n id =>
      Some (mkSt (heap st) (funcs st) (pset g n id (privs st)) (jsons st) (called st) (upriv st) (lazy st) (counts st) (defs st))
  | OJSet p t b =>
      Some (mkSt (heap st) (funcs st) (privs st) (aset p (t, b) (jsons st)) (called st) (upriv st) (lazy st) (counts st) (defs st))
  | OCalled p pre =>
      Some (mkSt (heap st) (funcs st) (privs st) (jsons st) (aset p pre (called st)) (upriv st) (lazy st) (counts st) (defs st))
  | OUPriv p pre =>
      Some (mkSt (heap st) (funcs st) (privs st) (jsons st) (called st) (aset p pre (upriv st)) (lazy st) (counts st) (defs st))
  | OLazy p =>
      Some (mkSt (heap st) (funcs st) (privs st) (jsons st) (called st) (upriv st)
                 (if mem_str p (lazy st) then lazy st else (lazy st ++ [p])%list) (counts st) (defs st))
  | OLazyDel p =>
      Some (mkSt (heap st) (funcs st) (privs st) (jsons st) (called st) (upriv st)
                 (filter (fun x => negb (String.eqb x p)) (lazy st)) (counts st) (defs st))
  | OCount g ret =>
      let n := count_of g st in
      if String.eqb ret (dec_nat n)
      then Some (mkSt (heap st) (funcs st) (privs st) (jsons st) (called st) (upriv st) (lazy st) (aset g (S n) (counts st)) (defs st))
      else None
  | OCallF g n ret =>
      if String.eqb ret (call_func_str (c_ns c) (c_private c) g n) then Some st else None
  | ODef p =>
      Some (mkSt (heap st) (funcs st) (privs st) (jsons st) (called st) (upriv st) (lazy st) (counts st)
                 (if mem_str p (defs st) then defs st else (defs st ++ [p])%list))
  end.

Fixpoint run_from (c : cfg) (st : state) (ops : list op) : option state :=
  match ops with
  | [] => Some st
  | o :: r => match step c st o with Some st' => run_from c st' r | None => None end
  end.
Definition run (c : cfg) (ops : list op) : option state := run_from c st0 ops.

(* ------------------------------------------------------------------ DataPack.build *)
Record bdata := mkB {
  b_loads : list string; b_ticks : list string;
  b_after_loads : list string; b_after_ticks : list string;
  b_after_func : list (string * list string);
  b_ints : list Z;
  b_scoreboards : list (string * string);
  b_envs : list string;
  b_delayed : bool
}.

Inductive berr :=
| BCrash (what : string)            (* a Python exception that is not a JMC diagnostic *)
| BNeverDefined (p : string)        (* JMCValueError: Function '<p>' was never defined *)
| BPrivateCalled (p : string)       (* JMCValueError: user private function called from outside *)
| BLazyUsed (p : string)            (* JMCSyntaxException: lazy function used before definition *)
| BEnvs                             (* JMCBuildError: unknown --env *)
| BDelayed.                         (* the delayed error *)

Definition obj_line (oc : string * string) : string :=
  "scoreboard objectives add " ++ fst oc ++ " " ++ snd oc.
Definition int_line (c : cfg) (z : Z) : string :=
  "scoreboard players set " ++ z_dec z ++ " " ++ int_name (c_nm c) ++ " " ++ z_dec z.

Definition scoreboards_of (c : cfg) (b : bdata) : berr + list (string * string) :=
  match b_ints b with
  | [] => inr (b_scoreboards b)
  | _ => match aget (int_name (c_nm c)) (b_scoreboards b) with
         | Some crit => if String.eqb crit "dummy" then inr (b_scoreboards b) else inl (BCrash "ValueError")
         | None => inr (aset (int_name (c_nm c)) "dummy" (b_scoreboards b))
         end
  end.
Definition load_lines (c : cfg) (b : bdata) (sb : list (string * string)) : list string :=
  (map obj_line sb ++ map (int_line c) (b_ints b) ++ b_loads b)%list.

(* all lines build() itself adds to functions *)
Definition build_text (c : cfg) (b : bdata) : list string :=
  ((match scoreboards_of c b with inr sb => load_lines c b sb | inl _ => [] end)
  ++ b_after_loads b ++ b_ticks b ++ b_after_ticks b ++ flat_map snd (b_after_func b))%list.

Definition fresh_id (h : list (nat * list string)) : nat := S (fold_right (fun e m => Nat.max (fst e) m) O h).

(* functions[path].insert_extend(cmds, 0)  /  .extend(cmds) on the object stored at path *)
Definition prepend_at (p : string) (cmds : list string) (hf : list (nat * list string) * list (string * nat))
  : berr + (list (nat * list string) * list (string * nat)) :=
  let (h, f) := hf in
  match aget p f with
  | None => inl (BCrash "KeyError")
  | Some id => match nget id h with
               | None => inl (BCrash "unknown Function object")
               | Some ls => inr (nset id (fsplit cmds ++ ls)%list h, f)
               end
  end.
Definition append_at (p : string) (cmds : list string) (hf : list (nat * list string) * list (string * nat))
  : berr + (list (nat * list string) * list (string * nat)) :=
  let (h, f) := hf in
  match aget p f with
  | None => inl (BCrash "KeyError")
  | Some id => match nget id h with
               | None => inl (BCrash "unknown Function object")
               | Some ls => inr (nset id (ls ++ fsplit cmds)%list h, f)
               end
  end.
Definition new_at (p : string) (cmds : list string) (hf : list (nat * list string) * list (string * nat)) :=
  let (h, f) := hf in let id := fresh_id h in (nset id (fsplit cmds) h, aset p id f).

Definition bind {A B} (x : berr + A) (f : A -> berr + B) : berr + B :=
  match x with inl e => inl e | inr a => f a end.

Fixpoint after_funcs (l : list (string * list string)) (hf : list (nat * list string) * list (string * nat))
  : berr + (list (nat * list string) * list (string * nat)) :=
  match l with
  | [] => inr hf
  | (p, cmds) :: r =>
      if amem p (snd hf) then bind (append_at p cmds hf) (after_funcs r) else inl (BNeverDefined p)
  end.

Definition merge_group (c : cfg) (g : string) (inner : list (string * nat)) (f : list (string * nat)) :=
  fold_left (fun acc e => aset (ppath c g (fst e)) (snd e) acc) inner f.
Definition merge_privs (c : cfg) (ps : list (string * list (string * nat))) (f : list (string * nat)) :=
  fold_left (fun acc ge => merge_group c (fst ge) (snd ge) acc) ps f.

(* stage 1: the function table after build() assembled load / tick / @add / private functions *)
Definition HF := (list (nat * list string) * list (string * nat))%type.
Definition st_loads (c : cfg) (ll : list string) (hf : HF) : berr + HF :=
  match ll with [] => inr hf | _ :: _ => prepend_at (c_load c) ll hf end.
Definition st_after_loads (c : cfg) (l : list string) (hf : HF) : berr + HF :=
  match l with [] => inr hf | _ :: _ => append_at (c_load c) l hf end.
Definition st_ticks (c : cfg) (l : list string) (hf : HF) : berr + HF :=
  match l with
  | [] => inr hf
  | _ :: _ => if amem (c_tick c) (snd hf) then prepend_at (c_tick c) l hf else inr (new_at (c_tick c) l hf)
  end.
Definition st_after_ticks (c : cfg) (l : list string) (hf : HF) : berr + HF :=
  match l with
  | [] => inr hf
  | _ :: _ => if amem (c_tick c) (snd hf) then append_at (c_tick c) l hf else inr (new_at (c_tick c) l hf)
  end.

Definition assemble (c : cfg) (b : bdata) (st : state) : berr + HF :=
  bind (scoreboards_of c b) (fun sb =>
  bind (st_loads c (load_lines c b sb) (heap st, funcs st)) (fun hf =>
  bind (st_after_loads c (b_after_loads b) hf) (fun hf =>
  bind (st_ticks c (b_ticks b) hf) (fun hf =>
  bind (st_after_ticks c (b_after_ticks b) hf) (fun hf =>
  bind (after_funcs (b_after_func b) hf) (fun hf =>
  inr (fst hf, merge_privs c (privs st) (snd hf)))))))).

(* stage 2: the checks on user calls, --env and the delayed error *)
Definition priv_violation (st : state) (p pre : string) : bool :=
  match aget p (upriv st) with
  | Some pre' => negb (String.eqb pre pre')
  | None => false
  end.
Fixpoint check_called (c : cfg) (st : state) (f : list (string * nat)) (l : list (string * string)) : option berr :=
  match l with
  | [] => None
  | (p, pre) :: r =>
      if priv_violation st p pre then Some (BPrivateCalled p)
      else if negb (amem p f) && negb (mem_str (first_seg p) (c_links c))
      then Some (if mem_str p (lazy st) then BLazyUsed p else BNeverDefined p)
      else check_called c st f r
  end.

Definition checks (c : cfg) (b : bdata) (st : state) (f : list (string * nat)) : option berr :=
  match check_called c st f (called st) with
  | Some e => Some e
  | None => match b_envs b with
            | _ :: _ => Some BEnvs
            | [] => if b_delayed b then Some BDelayed else None
            end
  end.

(* (round 3) a name that is DEFINED (has a defined_file_pos entry) but for which build() will write no function file:
   @lazy / @if functions, and json names.  A reference to such a name that JMC cannot expand in place (call before the
   definition, `schedule function`, a function-typed argument passed by name, `name() with ...`) must be refused:
   check_called looks the name up in the assembled FUNCTION table, not in the table of defined names. *)
Definition fileless (c : cfg) (b : bdata) (st : state) (p : string) : bool :=
  mem_str p (defs st) &&
  match assemble c b st with
  | inr hf => negb (amem p (snd hf))
  | inl _ => false
  end.
Definition fileless_called (c : cfg) (b : bdata) (st : state) : list string :=
  map fst (filter (fun e : string * string => fileless c b st (fst e) && negb (mem_str (first_seg (fst e)) (c_links c))) (called st)).

(* stage 3: compiling.build writes the files *)
Definition q : string := String (ascii_of_nat 34) EmptyString.
Definition tag_json (value : string) : string :=
  "{" ++ nls ++ "    " ++ q ++ "values" ++ q ++ ": [" ++ nls ++ "        " ++ q ++ value ++ q ++ nls ++ "    ]" ++ nls ++ "}".
Definition tag_key (c : cfg) (name : string) : fkey :=
  mkKey "minecraft" None ("tags/" ++ func_folder (c_legacy c) ++ "/" ++ name) true.

Definition credit_line (l : string) : string :=
  match l with EmptyString => nls ++ "#" | _ => nls ++ "# " ++ l end.
Definition post (c : cfg) (s : string) : string :=
  match c_credits c with
  | [] => s
  | cr => s ++ nls ++ nls ++ String.concat "" (map credit_line cr)
  end.

Definition tick_nonempty (c : cfg) (h : list (nat * list string)) (f : list (string * nat)) : bool :=
  match aget (c_tick c) f with
  | Some id => match nget id h with Some (_ :: _) => true | _ => false end
  | None => false
  end.

(* what is written to one file: the lines of a function, a json text handed to the DataPack,
   or a function tag generated by build() itself (one value) *)
Inductive fcontent := FLines (ls : list string) | FJson (text : string) | FTag (value : string).
Definition pr_content (c : cfg) (x : fcontent) : string :=
  match x with
  | FLines ls => post c (join_nl ls)
  | FJson t => t
  | FTag v => tag_json v
  end.

Fixpoint emit_funcs (c : cfg) (h : list (nat * list string)) (f : list (string * nat)) : berr + list (fkey * fcontent) :=
  match f with
  | [] => inr []
  | (p, id) :: r =>
      match nget id h with
      | None => inl (BCrash "unknown Function object")
      | Some ls => bind (emit_funcs c h r) (fun out => inr ((fkey_of c p, FLines ls) :: out))
      end
  end.
Definition emit_jsons (c : cfg) (js : list (string * (string * bool))) : list (fkey * fcontent) :=
  flat_map (fun e : string * (string * bool) => if snd (snd e) then [(jkey_of c (fst e), FJson (fst (snd e)))] else []) js.

Definition load_loc (c : cfg) : string := c_ns c ++ ":" ++ c_load c.
Definition tick_loc (c : cfg) : string := c_ns c ++ ":" ++ c_tick c.
Definition emit_tags (c : cfg) (h : list (nat * list string)) (f : list (string * nat)) : list (fkey * fcontent) :=
  ((tag_key c "load", FTag (load_loc c))
   :: (if tick_nonempty c h f then [(tag_key c "tick", FTag (tick_loc c))] else []))%list.

Definition emit (c : cfg) (st : state) (h : list (nat * list string)) (f : list (string * nat))
  : berr + list (fkey * fcontent) :=
  bind (emit_funcs c h f) (fun ff => inr (emit_tags c h f ++ ff ++ emit_jsons c (jsons st))%list).

(* the whole build: files in the order they are written; a later entry with the same key
   replaces an earlier one (flookup) *)
Definition build (c : cfg) (b : bdata) (st : state) : berr + list (fkey * fcontent) :=
  bind (assemble c b st) (fun hf =>
  match checks c b st (snd hf) with
  | Some e => inl e
  | None => emit c st (fst hf) (snd hf)
  end).

Fixpoint flookup (k : fkey) (files : list (fkey * fcontent)) : option fcontent :=
  match files with
  | [] => None
  | (k', v) :: r => match flookup k r with
                    | Some v' => Some v'
                    | None => if fkey_eqb k k' then Some v else None
                    end
  end.
Definition keys (files : list (fkey * fcontent)) : list fkey := map fst files.

(* ------------------------------------------------------------------ references in emitted text *)
Fixpoint words_aux (s : string) : list string :=
  match s with
  | EmptyString => [EmptyString]
  | String c r =>
      if Ascii.eqb c " " then EmptyString :: words_aux r
      else match words_aux r with
           | h :: t => String c h :: t
           | [] => [String c EmptyString]
           end
  end.
Definition words (s : string) : list string := words_aux s.

Fixpoint has_sub (p s : string) : bool :=
  String.prefix p s || match s with EmptyString => false | String _ r => has_sub p r end.

Inductive ref := RFunc (loc : string) | RTag (loc : string).

(* the word after `function` / `$function`: a reference unless it has no namespace or is a macro *)
Definition classify (w : string) : list ref :=
  if has_sub "$(" w then []
  else match w with
       | String c r => if Ascii.eqb c "#"
                       then (if no_char ch_colon r then [] else [RTag r])
                       else (if no_char ch_colon w then [] else [RFunc w])
       | EmptyString => []
       end.
Fixpoint refs_words (ws : list string) : list ref :=
  match ws with
  | w1 :: ((w2 :: _) as r) =>
      ((if String.eqb w1 "function" || String.eqb w1 "$function" then classify w2 else []) ++ refs_words r)%list
  | _ => []
  end.
(* references made by one command line: `function <loc>`, `schedule function <loc> …`, `function #<tag>` *)
Definition refs_of_line (l : string) : list ref := refs_words (words l).

(* references made by a json file written with json.dumps(indent=4):
   advancement rewards ("function": "<loc>") and, in a function tag, the values *)
Fixpoint ltrim (s : string) : string :=
  match s with String c r => if Ascii.eqb c " " then ltrim r else s | EmptyString => s end.
Fixpoint until_quote (s : string) : string :=
  match s with
  | EmptyString => EmptyString
  | String c r => if Ascii.eqb c (ascii_of_nat 34) then EmptyString else String c (until_quote r)
  end.
Definition reward_prefix : string := q ++ "function" ++ q ++ ": " ++ q.
Definition json_line_refs (is_tag : bool) (l : string) : list ref :=
  let t := ltrim l in
  if String.prefix reward_prefix t then
    let v := until_quote (sdrop (String.length reward_prefix) t) in
    if no_char ch_colon v then [] else [RFunc v]
  else if is_tag then
    match t with
    | String c r =>
        if Ascii.eqb c (ascii_of_nat 34) then
          let v := until_quote r in
          match v with
          | String d r' => if Ascii.eqb d "#" then (if no_char ch_colon r' then [] else [RTag r'])
                           else (if no_char ch_colon v then [] else [RFunc v])
          | EmptyString => []
          end
        else []
    | EmptyString => []
    end
  else [].
Definition is_func_tag_key (c : cfg) (k : fkey) : bool :=
  k_json k && String.prefix ("tags/" ++ func_folder (c_legacy c) ++ "/") (k_path k).
Definition json_refs (c : cfg) (k : fkey) (text : string) : list ref :=
  flat_map (json_line_refs (is_func_tag_key c k)) (lines_of text).
Definition refs_of_file (c : cfg) (kv : fkey * fcontent) : list ref :=
  match snd kv with
  | FLines ls => flat_map refs_of_line ls
  | FJson t => json_refs c (fst kv) t
  | FTag v => [RFunc v]
  end.

(* the pack's own namespaces: its namespace and the #override ones; `#link x` also enters x into
   namespace_overrides (header_parse.py:685) but x is another datapack *)
Definition own_ns (c : cfg) (loc : string) : bool :=
  mem_str (loc_ns loc) (c_ns c :: c_overrides c) && negb (mem_str (loc_ns loc) (c_links c)).
Definition ref_own (c : cfg) (r : ref) : bool := match r with RFunc l | RTag l => own_ns c l end.
Definition ref_key (c : cfg) (r : ref) : option fkey :=
  match r with RFunc l => resolve_func (c_legacy c) l | RTag l => resolve_tag (c_legacy c) l end.
Definition kmem (k : fkey) (ks : list fkey) : bool := existsb (fkey_eqb k) ks.

(* the closure property of a file map, as a boolean (also evaluated on real outputs) *)
Definition ref_resolves (c : cfg) (ks : list fkey) (r : ref) : bool :=
  negb (ref_own c r) || match ref_key c r with Some k => kmem k ks | None => false end.
Definition closedb (c : cfg) (files : list (fkey * fcontent)) : bool :=
  forallb (fun kv => forallb (ref_resolves c (keys files)) (refs_of_file c kv)) files.

(* ------------------------------------------------------------------ the discipline of a state handed to build() *)
(* every function that will exist after build(): stored user functions, private functions, tick if created *)
Definition future_paths (c : cfg) (b : bdata) (st : state) : list string :=
  (map fst (funcs st)
  ++ flat_map (fun ge => map (fun e => ppath c (fst ge) (fst e)) (snd ge)) (privs st)
  ++ (match b_ticks b, b_after_ticks b with [], [] => [] | _, _ => [c_tick c] end))%list.
Definition future_jsons (st : state) : list string :=
  flat_map (fun e : string * (string * bool) => if snd (snd e) then [fst e] else []) (jsons st).

Definition ref_defined (c : cfg) (b : bdata) (st : state) (r : ref) : bool :=
  negb (ref_own c r) ||
  match r with
  | RFunc l => existsb (fun p => String.eqb (fmt c p) l) (future_paths c b st)
  | RTag l => match resolve_tag (c_legacy c) l with
              | Some k => existsb (fun p => fkey_eqb (jkey_of c p) k) (future_jsons st)
              | None => false
              end
  end.
(* all text that can reach a function file *)
Definition reachable_ids (st : state) : list nat :=
  (map snd (funcs st) ++ flat_map (fun ge : string * list (string * nat) => map snd (snd ge)) (privs st))%list.
Definition lines_at (h : list (nat * list string)) (id : nat) : list string :=
  match nget id h with Some ls => ls | None => [] end.
Definition all_lines (c : cfg) (b : bdata) (st : state) : list string :=
  (flat_map (lines_at (heap st)) (reachable_ids st) ++ fsplit (build_text c b))%list.
Definition text_disc (c : cfg) (b : bdata) (st : state) : bool :=
  forallb (fun l => forallb (ref_defined c b st) (refs_of_line l)) (all_lines c b st)
  && forallb (fun e : string * (string * bool) => if snd (snd e)
                       then forallb (ref_defined c b st) (json_refs c (jkey_of c (fst e)) (fst (snd e)))
                       else true) (jsons st).
(* no path used as a key is a bare #override namespace; configured namespaces contain no ':' *)
Definition paths_disc (c : cfg) (b : bdata) (st : state) : bool :=
  forallb (path_ok (c_overrides c)) (future_paths c b st)
  && forallb (path_ok (c_overrides c)) (future_jsons st)
  && no_char ch_colon (c_ns c) && forallb (no_char ch_colon) (c_overrides c).
(* every path used as a key is a legal path *)
Definition paths_legal (c : cfg) (b : bdata) (st : state) : bool :=
  forallb legal_path (future_paths c b st) && forallb legal_path (future_jsons st).
(* no user/generated json is written over the load/tick tag; the load function object exists (Lexer.__init__
   creates it) and the LOAD / TICK / PRIVATE names do not start with an #override namespace *)
Definition tag_free (c : cfg) (st : state) : bool :=
  forallb (fun p => negb (fkey_eqb (jkey_of c p) (tag_key c "load")) && negb (fkey_eqb (jkey_of c p) (tag_key c "tick")))
          (future_jsons st)
  && amem (c_load c) (funcs st)
  && negb (mem_str (first_seg (c_load c)) (c_overrides c))
  && negb (mem_str (first_seg (c_tick c)) (c_overrides c))
  && negb (mem_str (first_seg (c_private c)) (c_overrides c)).
Definition disc (c : cfg) (b : bdata) (st : state) : bool :=
  text_disc c b st && paths_disc c b st && tag_free c st.

(* allocation discipline of an operation sequence: every call_func(g, n) has its private function *)
Definition is_pset (g n : string) (o : op) : bool :=
  match o with OPSet g' n' _ => String.eqb g g' && String.eqb n n' | _ => false end.
(* (a name containing a macro placeholder `$(…)`, as in `$function ns:…/$(switch_key)`, is resolved by
   Minecraft at run time and is not a static reference) *)
Definition is_macro_name (n : string) : bool := has_sub "$(" n.
Definition alloc_disc (ops : list op) : bool :=
  forallb (fun o => match o with OCallF g n _ => is_macro_name n || existsb (is_pset g n) ops | _ => true end) ops.

Definition cfg_legal (c : cfg) : bool :=
  legal_ns (c_ns c) && legal_path (c_private c) && legal_path (c_load c) && legal_path (c_tick c)
  && forallb legal_ns (c_overrides c).

(* ------------------------------------------------------------------ shapes of the allocating call sites of the core language *)
Definition callf (c : cfg) (g n : string) : op := OCallF g n (call_func_str (c_ns c) (c_private c) g n).
Definition is_callf (o : op) : bool := match o with OCallF _ _ _ => true | _ => false end.
(* Operation sequences built from the ways datapack.py / _flow_control.py / lexer.parse_if_else allocate:
   - add_raw_private_function / add_custom_private_function / add_private_function / add_arrow_function
     when they create a function:            Function(..); private_functions[g][n] = ..; call_func(g, n)
   - while / for / async:                    call_func(g, count) *before* add_custom_private_function(g, .., count),
                                             the loop body being compiled in between
   - if / else chains, switch (binary tree): private_functions[g][count] = .. first, call_func(g, count) later
   - anything that does not call call_func (get_count, definitions, json, user calls), in any order. *)
Inductive core_seq (c : cfg) : list op -> Prop :=
| CS_nil : core_seq c []
| CS_app a b : core_seq c a -> core_seq c b -> core_seq c (a ++ b)%list
| CS_free o : is_callf o = false -> core_seq c [o]
| CS_add g n id cmds : core_seq c [ONew id cmds; OPSet g n id; callf c g n]
| CS_wrap g n id cmds body :
    core_seq c body -> core_seq c (callf c g n :: body ++ [ONew id cmds; OPSet g n id; callf c g n])%list
| CS_later g n id cmds mid :
    core_seq c mid -> core_seq c ([ONew id cmds; OPSet g n id] ++ mid ++ [callf c g n])%list.
