(* Model.TokArgs — the argument-list parsers of tokenizer.py that walk the tokens of an inner tokenizer run and decide
   WHICH token a diagnostic cites (strengthening round 4 of C14).  Definitions only (proofs: Proofs/TokArgs.v).

   Tokenizer.find_token(tokens, ",")            find_commas   the groups between separator tokens
   Tokenizer.__parse_func_arg                   func_arg      one argument (arrow function -> FUNC token, col + 1)
   Tokenizer.parse_func_args (the loop)         func_args     positional / keyword arguments, `key=-N` sign split
   Tokenizer.parse_js_obj / parse_component     pairs ":" / pairs "="
   Tokenizer.parse_list / parse_param           list_items / params

   All of them are given `kws`, the first statement of `self.parse(token.string[1:-1], token.line, token.col + 1,
   expect_semicolon=False)` (hand-over d_args of Model.TokPos), so every element of `kws` is a token of a tokenizer run.

   The diagnostic "Unexpected comma in function arguments / JSObject/NBT / component" cites `keywords[comma_token_index]`,
   where `comma_token_index` is a RUNNING INDEX kept by the loop: after a group g it is advanced by len(g) + 1.  `late = true`
   is the variant the fourth seeding round planted: the index is advanced at the END of the loop body, which the `continue` of
   the keyword-argument branch skips.

   ares A := AOk a | ADiag d t (a JMC diagnostic of kind d citing token t) | ACrash (IndexError: never, see Proofs) *)
From Coq Require Import ZArith NArith List Bool String.
From JMCV Require Import Model.Tok Model.TokPos Model.TokDerived.
Import ListNotations.
Open Scope Z_scope.

Inductive adiag :=
| ACommaEnd           (* "Unexpected comma at the end of function arguments / JSObject/NBT / component" *)
| AComma              (* "Unexpected comma in function arguments / JSObject/NBT / component" *)
| AKwNoValue          (* "Expected keyword argument after '='" / "Expected value after ':'" *)
| ADupKey             (* "Duplicated key(k)" *)
| AArrowNothing       (* "Expected curly bracket after '()=>' (got nothing)" *)
| AArrowNotCurly      (* "Expected curly bracket after '()=>' (got ...)" *)
| AArrowExtra         (* "Unexpected token after arrow function '()=>{}'" *)
| AUnexpectedAfter    (* "Unexpected X after Y in function argument / JSObject/NBT" *)
| AEmptyKey           (* "Empty key in ..." *)
| APositional         (* "Positional argument follows keyword argument" *)
| AExpectedPair       (* "Expected 'key:value' in JSObject/NBT" / "Expected 'key=value' in component" *)
| AListDupComma       (* "Unexpected duplicated comma(,)" *)
| AListExpectedComma  (* "Expected comma(,)" *)
| AParamKeyword.      (* "Expected keyword in parameters (got ...)" *)

Inductive ares (A : Type) := AOk (a : A) | ADiag (d : adiag) (t : token) | ACrash.
Arguments AOk {A} a. Arguments ADiag {A} d t. Arguments ACrash {A}.

Definition s_comma : str := [c_comma].
Definition s_arrow : str := [61%N; 62%N].
Definition s_bslash : str := [c_bslash].
Definition s_eq : str := [61%N].
Definition s_eq_plus : str := [61%N; 43%N].
Definition s_eq_minus : str := [61%N; 45%N].
Definition s_colon : str := [58%N].

(* find_token: `token.string == "," and token.token_type != TokenType.STRING` *)
Definition is_sep (t : token) : bool := seqb (t_str t) s_comma && negb (ttype_eqb (t_type t) STRING).

Fixpoint split_sep (cur : list token) (l : list token) : list (list token) :=
  match l with
  | [] => [rev cur]
  | t :: r => if is_sep t then rev cur :: split_sep [] r else split_sep (t :: cur) r
  end.
Definition find_commas (l : list token) : list (list token) := split_sep [] l.

Definition is_kwop (t : token) : bool := ttype_eqb (t_type t) KEYWORD || ttype_eqb (t_type t) OPERATOR.

(* __parse_func_arg(tokens, is_kwargs, is_nbt) *)
Definition func_arg (tokens : list token) (is_kwargs is_nbt : bool) : ares (list token) :=
  match tokens with
  | [] => ACrash
  | t0 :: rest =>
    match rest with
    | t1 :: rest2 =>
      if is_kwop t0 then AOk tokens
      else if ttype_eqb (t_type t0) PAREN_ROUND && seqb (t_str t1) s_arrow then
        match rest2 with
        | [] => ADiag AArrowNothing t1
        | t2 :: rest3 =>
          if negb (ttype_eqb (t_type t2) PAREN_CURLY) then ADiag AArrowNotCurly t2
          else match rest3 with
               | t3 :: _ => ADiag AArrowExtra t3
               | [] => AOk [mkTok FUNC (t_line t2) (t_col t2 + 1) (t_str t2) false]
               end
        end
      else if ttype_eqb (t_type t0) PAREN_ROUND && (ttype_eqb (t_type t1) OPERATOR || seqb (t_str t1) s_bslash)
      then AOk tokens
      else ADiag AUnexpectedAfter t1
    | [] =>
      if ttype_eqb (t_type t0) OPERATOR && seqb (t_str t0) (if is_nbt then s_colon else s_eq) then ADiag AEmptyKey t0
      else if is_kwargs then ADiag APositional t0
      else AOk tokens
    end
  end.

Definition has_key (k : str) (l : list (str * list token)) : bool := existsb (fun p => seqb (fst p) k) l.

Section Loops.
Variable late : bool.      (* false: the tree;  true: the running index is advanced at the end of the loop body only *)

(* the loop of parse_func_args; idx = comma_token_index *)
Fixpoint fa_loop (kws : list token) (groups : list (list token)) (idx : nat)
                 (args : list (list token)) (kwargs : list (str * list token))
  : ares (list (list token) * list (str * list token)) :=
  match groups with
  | [] => AOk (args, kwargs)
  | g :: gs =>
    match g with
    | [] => match nth_error kws idx with Some t => ADiag AComma t | None => ACrash end
    | t0 :: gr =>
      let idx' := (idx + List.length g + 1)%nat in
      let positional :=
        match func_arg g (match kwargs with [] => false | _ => true end) false with
        | AOk a => fa_loop kws gs idx' (args ++ [a]) kwargs
        | ADiag d t => ADiag d t
        | ACrash => ACrash
        end in
      match gr with
      | t1 :: gr2 =>
        if mem_str (t_str t1) [s_eq; s_eq_plus; s_eq_minus] then
          match gr2 with
          | [] => ADiag AKwNoValue t1
          | _ =>
            match func_arg gr2 false false with
            | AOk value =>
              let value' := if mem_str (t_str t1) [s_eq_plus; s_eq_minus] then split_sign d_sign t1 :: value else value in
              if has_key (t_str t0) kwargs then ADiag ADupKey t0
              else fa_loop kws gs (if late then idx else idx') args (kwargs ++ [(t_str t0, value')])
            | ADiag d t => ADiag d t
            | ACrash => ACrash
            end
          end
        else positional
      | [] => positional
      end
    end
  end.

Definition func_args (kws : list token) : ares (list (list token) * list (str * list token)) :=
  let groups := find_commas kws in
  match last groups [] with
  | [] => match kws with [] => ACrash | _ => ADiag ACommaEnd (last kws (mkTok KEYWORD 0 0 [] false)) end
  | _ => fa_loop kws groups 0 [] []
  end.

(* parse_js_obj (op = ":", is_nbt) and parse_component (op = "=", is_nbt): the value tokens are merged by merge_tokens,
   which keeps type (OPERATOR -> KEYWORD), line and col of the FIRST value token: that head is what is modelled *)
Definition head_of (value : list token) : option (ttype * Z * Z) :=
  match value with
  | [] => None
  | t :: _ => Some (if ttype_eqb (t_type t) OPERATOR then KEYWORD else t_type t, t_line t, t_col t)
  end.

Fixpoint pair_loop (op : str) (kws : list token) (groups : list (list token)) (idx : nat)
                   (obj : list (str * option (ttype * Z * Z))) : ares (list (str * option (ttype * Z * Z))) :=
  match groups with
  | [] => AOk obj
  | g :: gs =>
    match g with
    | [] => match nth_error kws idx with Some t => ADiag AComma t | None => ACrash end
    | t0 :: gr =>
      let idx' := (idx + List.length g + 1)%nat in
      match gr with
      | [] => ADiag AExpectedPair t0
      | t1 :: gr2 =>
        if negb (seqb (t_str t1) op) then ADiag AExpectedPair t0
        else match gr2 with
             | [] => ADiag AKwNoValue t1
             | _ =>
               match func_arg gr2 false true with
               | AOk value =>
                 if existsb (fun p => seqb (fst p) (t_str t0)) obj then ADiag ADupKey t0
                 else pair_loop op kws gs (if late then idx else idx') (obj ++ [(t_str t0, head_of value)])
               | ADiag d t => ADiag d t
               | ACrash => ACrash
               end
             end
      end
    end
  end.

Definition pairs (op : str) (kws : list token) : ares (list (str * option (ttype * Z * Z))) :=
  let groups := find_commas kws in
  match last groups [] with
  | [] => match kws with [] => ACrash | _ => ADiag ACommaEnd (last kws (mkTok KEYWORD 0 0 [] false)) end
  | _ => pair_loop op kws groups 0 []
  end.
End Loops.

(* parse_list: the loop variable itself is cited *)
Fixpoint list_loop (kws : list token) (expect_comma : bool) (acc : list token) : ares (list token) :=
  match kws with
  | [] => AOk acc
  | t :: r =>
    if ttype_eqb (t_type t) COMMA then
      if expect_comma then list_loop r false acc else ADiag AListDupComma t
    else if expect_comma then ADiag AListExpectedComma t
    else list_loop r true (acc ++ [t])
  end.
Definition list_items (kws : list token) : ares (list token) := list_loop kws false [].

(* parse_param *)
Fixpoint param_loop (kws : list token) (expect_comma : bool) (acc : list str) : ares (list str) :=
  match kws with
  | [] => AOk acc
  | t :: r =>
    if ttype_eqb (t_type t) COMMA then
      if expect_comma then param_loop r false acc else ADiag AListDupComma t
    else if expect_comma then ADiag AListExpectedComma t
    else if negb (ttype_eqb (t_type t) KEYWORD) then ADiag AParamKeyword t
    else param_loop r true (acc ++ [t_str t])
  end.
Definition params (kws : list token) : ares (list str) := param_loop kws false [].

(* ---- what "the offending comma" is: a separator with nothing between it and the previous separator (or the start of
        the argument list) *)
Definition offending_comma (kws : list token) (i : nat) : Prop :=
  exists t, nth_error kws i = Some t /\ is_sep t = true /\
            (i = O \/ exists p, nth_error kws (i - 1) = Some p /\ is_sep p = true).
