(* Model.Loop — Gallina port of while_ / the do-while branch / for_ + __handle_for
   (src/jmc/compile/command/_flow_control.py:134-212, 517-609), and of the way a function
   body made of basic commands, if-chains and loops is lowered statement by statement
   (FuncContent.parse -> parse_if_else / while_ / for_, with DataPack's private-function
   numbering).  Properties C05 and C04 (nesting).

   Not modelled: `async` loops, `switch` (property C06), `break`-like features (JMC has none). *)
From Coq Require Import ZArith String List Bool.
From JMCV Require Import Base.Dec MC.Syntax Model.Names Model.PrivAlloc Model.IfElse.
Import ListNotations.
Open Scope list_scope.

Definition WHILE_NAME : string := "while_loop"%string.   (* used for do-while as well *)
Definition FOR_NAME : string := "for_loop"%string.

(* the post-command that re-tests the condition and recurses:
   f"{precommand}execute {condition} run {call_func(name, count)}" *)
Definition retest (nm : names) (g : string) (c : cond) (k : nat) : list cmd :=
  guarded_call c (call_func nm g k).

(* while (c) { body } *)
Definition while_code (nm : names) (c : cond) (body : list cmd) (k : nat) : list cmd * list fdef :=
  (retest nm WHILE_NAME c k, [(priv_fn nm WHILE_NAME k, body ++ retest nm WHILE_NAME c k)]).
(* do { body } while (c); *)
Definition dowhile_code (nm : names) (c : cond) (body : list cmd) (k : nat) : list cmd * list fdef :=
  ([call_func nm WHILE_NAME k], [(priv_fn nm WHILE_NAME k, body ++ retest nm WHILE_NAME c k)]).
(* for (init; c; step) { body } *)
Definition for_code (nm : names) (init : list cmd) (c : cond) (step : list cmd) (body : list cmd) (k : nat)
  : list cmd * list fdef :=
  (init ++ retest nm FOR_NAME c k, [(priv_fn nm FOR_NAME k, body ++ step ++ retest nm FOR_NAME c k)]).

(* ---- statements of a function body and their lowering ---- *)
Inductive stmt :=
| SCmd (c : cmd)                                   (* any statement that lowers to one command *)
| SIf (b : branches) (e : oelse)
| SWhile (c : cond) (body : stmts)
| SDoWhile (body : stmts) (c : cond)
| SFor (init : list cmd) (c : cond) (step : list cmd) (body : stmts)
with stmts := SNil | SCons (s : stmt) (r : stmts)
with branches := BNil | BCons (c : cond) (body : stmts) (r : branches)
with oelse := ENone | ESome (body : stmts).

Definition is_bnil (b : branches) : bool := match b with BNil => true | _ => false end.

(* arrow position: `{}` is refused ("Unexpected empty function content"); a number is
   taken only when a function is really created *)
Definition alloc_arrow (body : list cmd) (a : alloc) : option (nat * alloc) :=
  match body with
  | [] => None
  | [_] => Some (O, a)
  | _ => Some (get_count IF_ELSE a)
  end.

(* numbers of the stage functions: the last stage is numbered first (lexer.py:1013-1020) *)
Fixpoint alloc_stages (n : nat) (a : alloc) : list nat * alloc :=
  match n with
  | O => ([], a)
  | S n' => let (k, a1) := get_count IF_ELSE a in
            let (ks, a2) := alloc_stages n' a1 in (ks ++ [k], a2)
  end.

(* the end of parse_if_else once every wrapped branch is lowered and stored: number the last
   part's functions, then the stages, emit the caller and store the remaining functions.
   lsrc = inl <lines of the else body> | inr (<last else-if condition>, <lines of its body>) *)
Definition alloc_last (lsrc : list cmd + cond * list cmd) (a : alloc) : option (last_part * alloc) :=
  match lsrc with
  | inl lines =>
    match alloc_arrow lines a with
    | None => None
    | Some (aid, a1) => Some (LElse lines aid, a1)
    end
  | inr (c, lines) =>
    match alloc_arrow lines a with
    | None => None
    | Some (aid, a1) =>
      match c_pre c with
      | [] => Some (LElif c lines aid O, a1)
      | _ => let (wid, a2) := get_count IF_ELSE a1 in Some (LElif c lines aid wid, a2)
      end
    end
  end.

Definition finish_chain (nm : names) (ws : list wbr) (lsrc : list cmd + cond * list cmd) (a : alloc)
  : option (list cmd * alloc) :=
  match ws with
  | [] => None
  | first :: others =>
    match alloc_last lsrc a with
    | None => None
    | Some (last, a2) =>
      let (sids, a3) := alloc_stages (length others) a2 in
      Some (fst (chain_code nm first (combine others sids) last),
            add_fns (chain_other_fns nm (combine others sids) last) a3)
    end
  end.

(* add_custom_private_function(postcommands_after_return=True): a branch body that can `return`
   is stored as a function of its own (numbered and stored before the branch function) and replaced
   by the call of that function *)
Definition isolate (nm : names) (lines : list cmd) (a : alloc) : list cmd * alloc :=
  if can_return lines then
    let (k0, a1) := get_count IF_ELSE a in
    ([call_func nm IF_ELSE k0], add_fn (priv_fn nm IF_ELSE k0, lines) a1)
  else (lines, a).

Fixpoint compile_stmt (nm : names) (s : stmt) (a : alloc) {struct s} : option (list cmd * alloc) :=
  match s with
  | SCmd c => Some ([c], a)
  | SIf b e =>
    match b, e with
    | BNil, _ => None
    | BCons c body BNil, ENone =>
      match compile_stmts nm body a with
      | None => None
      | Some (lines, a1) =>
        match alloc_arrow lines a1 with
        | None => None
        | Some (aid, a2) =>
          let (caller, fs) := single_if_code nm c lines aid in Some (caller, add_fns fs a2)
        end
      end
    | _, _ =>
      (* wrapped branches in order, each numbered after its body was lowered *)
      match compile_branches nm (match e with ENone => false | ESome _ => true end) b a with
      | None => None
      | Some (ws, lastelif, a1) =>
        match e, lastelif with
        | ESome body, _ =>
          match compile_stmts nm body a1 with
          | None => None
          | Some (lines, a2) => finish_chain nm ws (inl lines) a2
          end
        | ENone, Some cl => finish_chain nm ws (inr cl) a1
        | ENone, None => None
        end
      end
    end
  | SWhile c body =>
    let (k, a1) := get_count WHILE_NAME a in
    match compile_stmts nm body a1 with
    | None => None
    | Some (lines, a2) => let (caller, fs) := while_code nm c lines k in Some (caller, add_fns fs a2)
    end
  | SDoWhile body c =>
    let (k, a1) := get_count WHILE_NAME a in
    match compile_stmts nm body a1 with
    | None => None
    | Some (lines, a2) => let (caller, fs) := dowhile_code nm c lines k in Some (caller, add_fns fs a2)
    end
  | SFor init c step body =>
    match body with
    | SNil => None                       (* "For loop content cannot be empty" *)
    | _ =>
      let (k, a1) := get_count FOR_NAME a in
      match compile_stmts nm body a1 with
      | None => None
      | Some (lines, a2) => let (caller, fs) := for_code nm init c step lines k in Some (caller, add_fns fs a2)
      end
    end
  end
with compile_stmts (nm : names) (l : stmts) (a : alloc) {struct l} : option (list cmd * alloc) :=
  match l with
  | SNil => Some ([], a)
  | SCons s r =>
    match compile_stmt nm s a with
    | None => None
    | Some (l1, a1) =>
      match compile_stmts nm r a1 with
      | None => None
      | Some (l2, a2) => Some (l1 ++ l2, a2)
      end
    end
  end
(* has_else = true: every branch is wrapped; false: the last one is returned unwrapped *)
with compile_branches (nm : names) (has_else : bool) (b : branches) (a : alloc) {struct b}
  : option (list wbr * option (cond * list cmd) * alloc) :=
  match b with
  | BNil => Some ([], None, a)
  | BCons c body r =>
    match compile_stmts nm body a with
    | None => None
    | Some (lines, a1) =>
      if is_bnil r && negb has_else then Some ([], Some (c, lines), a1)
      else
        let (blines, a1') := isolate nm lines a1 in
        let (k, a2) := get_count IF_ELSE a1' in
        (* add_custom_private_function stores the branch function right away *)
        match compile_branches nm has_else r (add_fn (wbr_fn nm (mkW c blines k)) a2) with
        | None => None
        | Some (ws, last, a3) => Some (mkW c blines k :: ws, last, a3)
        end
    end
  end.

(* a whole function body, from an empty DataPack *)
Definition compile_body (nm : names) (l : stmts) : option (list cmd * list fdef) :=
  match compile_stmts nm l alloc0 with
  | Some (lines, a) => Some (lines, fns a)
  | None => None
  end.
