(* Model.MacroSubst — the two TEXTUAL substitutions of macros that Model/Layout.v and Model/Macro.v leave out
   (property C16, strengthening round 1):

   (A) header_parse.__create_macro_factory for `#define KEY(p1, .., pn) body`: which tokens of the body are
       parameter slots and what an expansion puts there.  Only (type, text) of tokens is modelled here (positions:
       Model/Layout.v for object-like macros; parameterised ones by the metamorphic pairs).
         template: a body token is a slot iff its type equals the parameter token's type - parameters are KEYWORD
                   tokens, header_parse rejects anything else - and its text equals the parameter's text; the first
                   parameter with that name wins;
         factory : a slot is replaced by the argument token (type and text), everything else is copied; one pass
                   over the template - arguments are never scanned again.
       (`#define`: reapplier = None, so bracket tokens of the body are copied as they are.)

   (B) command/utils.py hardcode_parse_calc: the integer macros (Header.number_macros) are substituted into the
       text between the parentheses of Hardcode.calc( ) by str.replace, longest name first
       (`sorted(items, key=len(name), reverse=True)`, a stable sort), then every character must be one of
       0-9 + - * / \ % blank tab newline ( ).                                                             *)
From Coq Require Import ZArith String List Bool Ascii.
From JMCV Require Import Model.Layout Model.Macro.
Import ListNotations.

(* ------------------------------------------------------------------ (A) parameters *)
Definition ptok := (ttype * str)%type.

Fixpoint index_of (s : str) (params : list str) (i : nat) : option nat :=
  match params with
  | [] => None
  | p :: r => if str_eqb s p then Some i else index_of s r (S i)
  end.

(* one template token -> one output token *)
Definition subst1 (params : list str) (args : list ptok) (t : ptok) : ptok :=
  match fst t with
  | KEYWORD => match index_of (snd t) params 0 with
               | Some i => nth i args t       (* argument_tokens[i]; len(args) = len(params) is checked by the tokenizer *)
               | None => t
               end
  | _ => t
  end.

Definition param_expand (params : list str) (args : list ptok) (body : list ptok) : list ptok :=
  map (subst1 params args) body.

(* ------------------------------------------------------------------ (B) Hardcode.calc *)
Fixpoint prefixb (k s : str) : bool :=
  match k, s with
  | [], _ => true
  | a :: k', b :: s' => Ascii.eqb a b && prefixb k' s'
  | _ :: _, [] => false
  end.

(* str.replace(k, v) for a non-empty k: leftmost non-overlapping occurrences; `skip` = characters of the
   occurrence just replaced that are still to be dropped *)
Fixpoint rep (k v : str) (skip : nat) (s : str) : str :=
  match s with
  | [] => []
  | c :: r =>
      match skip with
      | S n => rep k v n r
      | O => if prefixb k s then v ++ rep k v (length k - 1) r else c :: rep k v 0 r
      end
  end.
(* names are KEYWORD tokens, never empty; for an empty k Python inserts v everywhere - not modelled *)
Definition replace_all (k v s : str) : str := match k with [] => s | _ => rep k v 0 s end.

Definition nums := nmacros.      (* Header.number_macros (Model/Macro.v), in insertion order *)

(* sorted(..., key=len(name), reverse=True): descending, equal lengths keep their order *)
Fixpoint insert_desc (x : str * str) (l : nums) : nums :=
  match l with
  | [] => [x]
  | y :: r => if Nat.leb (length (fst y)) (length (fst x)) then x :: l else y :: insert_desc x r
  end.
Definition sort_desc (l : nums) : nums := fold_right insert_desc [] l.

Definition subst_in_order (l : nums) (e : str) : str :=
  fold_left (fun acc kv => replace_all (fst kv) (snd kv) acc) l e.

Definition calc_subst (nm : nums) (e : str) : str := subst_in_order (sort_desc nm) e.

Definition calc_char_ok (c : ascii) : bool :=
  existsb (Ascii.eqb c) (s2l "0123456789+-*/\% ()" ++ [TAB; NL]).
(* the text handed to the evaluator, or None = "Invalid character in Hardcode.calc" *)
Definition calc_text (nm : nums) (e : str) : option str :=
  let t := calc_subst nm e in if forallb calc_char_ok t then Some t else None.

(* ---- the hand expansion: every WHOLE word is looked up *)
(* the characters that can stand next to a name in an accepted expression *)
Definition is_sep (c : ascii) : bool := existsb (Ascii.eqb c) (s2l "+-*/\% ()" ++ [TAB; NL]).

(* an expression = first word, then (separator, word)* ; words may be empty *)
Fixpoint split_words (s : str) : str * list (ascii * str) :=
  match s with
  | [] => ([], [])
  | c :: r =>
      let (w, l) := split_words r in
      if is_sep c then ([], (c, w) :: l) else (c :: w, l)
  end.
Definition join_words (p : str * list (ascii * str)) : str :=
  fst p ++ concat (map (fun cw => fst cw :: snd cw) (snd p)).
Definition map_words (f : str -> str) (p : str * list (ascii * str)) : str * list (ascii * str) :=
  (f (fst p), map (fun cw => (fst cw, f (snd cw))) (snd p)).

Definition word_value (nm : nums) (w : str) : str := match lookup_num nm w with Some v => v | None => w end.

Definition hand_calc (nm : nums) (e : str) : str := join_words (map_words (word_value nm) (split_words e)).

(* the order the seeded defect used: sorted(items, reverse=True) = descending by (name, value) - here by name *)
Fixpoint str_ltb (a b : str) : bool :=
  match a, b with
  | [], [] => false
  | [], _ :: _ => true
  | _ :: _, [] => false
  | x :: a', y :: b' => if Nat.ltb (nat_of_ascii x) (nat_of_ascii y) then true
                        else if Nat.ltb (nat_of_ascii y) (nat_of_ascii x) then false else str_ltb a' b'
  end.
Fixpoint insert_alpha_desc (x : str * str) (l : nums) : nums :=
  match l with
  | [] => [x]
  | y :: r => if str_ltb (fst x) (fst y) then y :: insert_alpha_desc x r else x :: l
  end.
Definition sort_alpha_desc (l : nums) : nums := fold_right insert_alpha_desc [] l.
