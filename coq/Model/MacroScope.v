(* Model.MacroScope — property C16, strengthening round 4 (h): the SCOPE of the textual substitution of number macros
   in a Hardcode.repeat* / @lazy body.

   command/utils.py hardcode_parse_calc(calc_pos, string, ..) rewrites ONE occurrence of `Hardcode.calc(...)`:
       - string[calc_pos+13] must be "(" ;
       - the bracket is scanned with a counter ( +1 / ) -1 and ends where the counter returns to 0 (text exhausted
         first: "Invalid syntax in Hardcode.calc");
       - the number macros are str.replace'd INSIDE THE BRACKET ONLY (Model.MacroSubst.calc_text: longest name
         first, then the character check);
       - result = string[:calc_pos] + eval_expr(bracket) + string[end of bracket:].
   Its callers (execute_excluded._hardcode_processes for Hardcode.repeat / repeatList / repeatLists / switch,
   datapack.handle_lazy for @lazy calls, decorator_parse) loop
       while (calc_pos := string.find("Hardcode.calc")) != -1: string = hardcode_parse_calc(calc_pos, string, ..)
   The arithmetic evaluator is a parameter `ev` (None = JMCValueError); everything proved holds for every ev. *)
From Coq Require Import ZArith String List Bool Ascii.
From JMCV Require Import Model.Layout Model.Macro Model.MacroSubst.
Import ListNotations.
Open Scope Z_scope.

Definition CALC : str := s2l "Hardcode.calc".
Definition LPAR : ascii := ch "(".
Definition RPAR : ascii := ch ")".

(* str.find(k) for a non-empty k: (text before the first occurrence, text from the occurrence on) *)
Fixpoint find_sub (k s : str) : option (str * str) :=
  match s with
  | [] => None
  | c :: r => if prefixb k s then Some ([], s)
              else match find_sub k r with Some (p, q) => Some (c :: p, q) | None => None end
  end.

(* the bracket: (text up to and including the character that brings the counter back to 0, text after it) *)
Fixpoint scan (s : str) (count : Z) : option (str * str) :=
  match s with
  | [] => None
  | c :: r =>
      let count' := if Ascii.eqb c LPAR then count + 1 else if Ascii.eqb c RPAR then count - 1 else count in
      if count' =? 0 then Some ([c], r)
      else match scan r count' with Some (e, rest) => Some (c :: e, rest) | None => None end
  end.

Inductive step_res := Done (s : str) | Step (s : str) | Fail.

Section Calc.
Variable ev : str -> option str.      (* eval_expr on the substituted bracket text *)
Variable nm : nums.                   (* Header.number_macros, insertion order *)

(* what the bracket `expr` (parentheses included) is replaced by *)
Definition calc_value (expr : str) : option str :=
  match calc_text nm expr with Some t => ev t | None => None end.

(* the first occurrence: None = there is none; Some None = a diagnostic; Some (Some (text before `Hardcode.calc`,
   value of the bracket, text after the bracket)) *)
Definition calc_parts (s : str) : option (option (str * str * str)) :=
  match find_sub CALC s with
  | None => None
  | Some (pre, occ) =>
      Some (let after := skipn 13 occ in
            match after with
            | c :: _ =>
                if Ascii.eqb c LPAR then
                  match scan after 0 with
                  | Some (expr, rest) =>
                      match calc_value expr with Some r => Some (pre, r, rest) | None => None end
                  | None => None
                  end
                else None
            | [] => None
            end)
  end.

Definition calc_step (s : str) : step_res :=
  match calc_parts s with
  | None => Done s
  | Some None => Fail
  | Some (Some (pre, r, rest)) => Step (pre ++ r ++ rest)
  end.

Inductive cres := CText (s : str) | CFail | CFuel.

(* the callers' loop *)
Fixpoint calc_all (fuel : nat) (s : str) : cres :=
  match fuel with
  | O => CFuel
  | S n => match calc_step s with
           | Done s' => CText s'
           | Step s' => calc_all n s'
           | Fail => CFail
           end
  end.

(* the same as ONE pass from left to right that never looks again at text it has passed *)
Fixpoint one_pass (fuel : nat) (s : str) : cres :=
  match fuel with
  | O => CFuel
  | S n =>
      match calc_parts s with
      | None => CText s
      | Some None => CFail
      | Some (Some (pre, r, rest)) =>
          match one_pass n rest with
          | CText t => CText (pre ++ r ++ t)
          | x => x
          end
      end
  end.

(* the SEEDED variant (round 4): the number macros substituted into everything that follows `Hardcode.calc`
   before the bracket is scanned; the text after the bracket is taken from the substituted copy *)
Definition calc_step_leaky (s : str) : step_res :=
  match find_sub CALC s with
  | None => Done s
  | Some (pre, occ) =>
      let after := calc_subst nm (skipn 13 occ) in
      match skipn 13 occ with
      | c :: _ =>
          if Ascii.eqb c LPAR then
            match scan after 0 with
            | Some (expr, rest) =>
                if forallb calc_char_ok expr
                then match ev expr with Some r => Step (pre ++ r ++ rest) | None => Fail end
                else Fail
            | None => Fail
            end
          else Fail
      | [] => Fail
      end
  end.
End Calc.

(* the value of a Hardcode.calc (eval_expr) is a decimal number: digits, an optional sign, possibly a fraction *)
Definition num_char (c : ascii) : bool := is_digit c || Ascii.eqb c (ch "-") || Ascii.eqb c (ch ".").
Definition numeric (r : str) : bool :=
  match r with
  | c :: _ => (is_digit c || Ascii.eqb c (ch "-")) && forallb num_char r
  | [] => false
  end.
