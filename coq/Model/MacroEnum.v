(* Model.MacroEnum — property C16, strengthening round 4 (g): `#enum` numbering as a SPECIFICATION that does not
   look at the macro table, and macro application at the level of (token type, text).

   `#enum Class [start] m0 m1 .. mn` : member i stands for the number start + i, start = 0 iff no start was written
   (an explicit `0` IS a start); when a member name is repeated the LAST one counts (header_parse overwrites the
   dictionary entry).  `enum_value` computes that number from the member NAMES alone - it is the hand expansion the
   generated programs are compared with; Proofs/MacroEnum.v proves that the table Model.Macro.enum_items builds, and
   the expansion of any token list under it, agree with it. *)
From Coq Require Import ZArith String List Bool Ascii.
From JMCV Require Import Base.Dec Model.Layout Model.Macro Model.MacroSubst.
Import ListNotations.
Open Scope Z_scope.

(* index of the LAST occurrence of x *)
Fixpoint last_index (x : str) (l : list str) : option nat :=
  match l with
  | [] => None
  | y :: r => match last_index x r with
              | Some k => Some (S k)
              | None => if str_eqb y x then Some O else None
              end
  end.

(* the member name of a key `Class.member` *)
Fixpoint strip_prefix (p s : str) : option str :=
  match p, s with
  | [], _ => Some s
  | a :: p', b :: s' => if Ascii.eqb a b then strip_prefix p' s' else None
  | _ :: _, [] => None
  end.

Definition enum_prefix (cls : str) : str := cls ++ [ch "."].

(* the number a word stands for under `#enum cls start names` - None: the word is not a member *)
Definition enum_value (cls : str) (start : Z) (names : list str) (w : str) : option Z :=
  match strip_prefix (enum_prefix cls) w with
  | Some m => match last_index m names with Some k => Some (start + Z.of_nat k) | None => None end
  | None => None
  end.

(* ---- macro application on (type, text) tokens: a whole KEYWORD equal to the name of an object-like macro is
   replaced by the macro's body; everything else (strings, brackets, operators, other words) is copied.  This is
   what Tokenizer.append_token does to the (type, text) of tokens (Proofs/MacroEnum.v: append_token_words). *)
Definition body_words (m : macro) : list ptok := map (fun b => (tt_ty b, tt_str b)) (m_body m).

Definition expand_word (mt : mtable) (t : ptok) : list ptok :=
  match fst t with
  | KEYWORD => match lookup_macro mt (snd t) with
               | Some m => match m_arity m with O => body_words m | S _ => [t] end
               | None => [t]
               end
  | _ => [t]
  end.
Definition expand_words (mt : mtable) (ws : list ptok) : list ptok := flat_map (expand_word mt) ws.

(* the hand expansion of a program (token list) that uses members of ONE enum and no other macro *)
Definition hand_enum_word (cls : str) (start : Z) (names : list str) (t : ptok) : ptok :=
  match fst t with
  | KEYWORD => match enum_value cls start names (snd t) with
               | Some v => (KEYWORD, s2l (z_dec v))
               | None => t
               end
  | _ => t
  end.
Definition hand_enum (cls : str) (start : Z) (names : list str) (ws : list ptok) : list ptok :=
  map (hand_enum_word cls start names) ws.

(* the header line as a list of tokens: `enum`, class, optional start, members *)
Definition kw (s : str) : token := mkTok KEYWORD 1 0 s 0 None false.
Definition enum_line (cls : str) (start : option str) (names : list str) : list token :=
  kw (s2l "enum") :: kw cls :: (match start with Some s => [kw s] | None => [] end) ++ map kw names.

(* the SEEDED rule (round 4): "a start was given" decided by the VALUE of the start *)
Definition enum_args_by_value (a1 : token) (rest : list token) : result (Z * list token) :=
  if digitish (t_str a1) && negb (all_digits (t_str a1)) then Err EUnsupported
  else
    let start := if all_digits (t_str a1) then digits_val (t_str a1) 0 else 0 in
    Ok (start, if start =? 0 then a1 :: rest else rest).
