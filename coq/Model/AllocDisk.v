(* Model.AllocDisk — the DISK build of a datapack (property C07, strengthening round 4).

   Model.Alloc.build is what `compiling.build(..., _is_virtual=True)` returns.  A real build
   (`compile_jmc` -> `compiling.build`, compile/compiling.py) writes into an output directory that may
   already hold the previous output, files the user keeps there (`#static` folders) and the content of a
   `#copy` folder, and it MERGES its two function tags with what those sources ship:

     merged_func_tag    the tag file "as it will be once the previous output is deleted and #copy is done":
                        the copied one; else nothing if the old output is deleted and no #static shields the
                        file; else the file that is there — read by read_func_tag, which drops every value of
                        the pack's own namespace (`<ns>:...`);
     deletion           (is_delete) everything below data/minecraft, data/<ns> and data/<override> except
                        what a #static folder shields;
     make_cert, #copy   jmc.txt, then the copied tree laid over the output;
     tags               load.json = merged values + `<ns>:<LOAD>`;  tick.json = merged values + `<ns>:<TICK>`
                        iff the tick function is non-empty, otherwise a tick.json that is still on disk is
                        rewritten with the merged values when it holds anything else;
     files              every function, then every (truthy) json; a later write replaces an earlier one.

   The order of these steps is what the theorems of Proofs/AllocDisk.v depend on ([dbuild_copy_last] below
   is the same build with #copy done last: its tags are NOT registered, C07_disk_refuted_copy_last).
   A file is text, or — at the two tag paths — what read_func_tag understands: a JSON object whose "values"
   is a list of strings ([DTag extra vs], [extra] = the other keys, carried along opaquely).
   Outside the model: pack.mcmeta, directories, tag entries that are objects ({"id":..,"required":..}). *)
From Coq Require Import String Ascii List Bool Arith ZArith.
From JMCV Require Import Base.Dec Model.Names Model.ResLoc Model.Alloc.
Import ListNotations.
Open Scope string_scope.

Inductive dcontent :=
| DText (t : string)
| DTag (extra : string) (vs : list string).

(* output-relative posix path -> content; the first entry with a key is the file (dset keeps keys unique) *)
Definition dtree := list (string * dcontent).

Fixpoint dget (p : string) (t : dtree) : option dcontent :=
  match t with [] => None | (k, v) :: r => if String.eqb p k then Some v else dget p r end.
Fixpoint dset (p : string) (v : dcontent) (t : dtree) : dtree :=
  match t with
  | [] => [(p, v)]
  | (k, v') :: r => if String.eqb p k then (p, v) :: r else (k, v') :: dset p v r
  end.
Definition dmem (p : string) (t : dtree) : bool := match dget p t with Some _ => true | None => false end.
(* a list of writes, in order: a later write to the same path wins *)
Definition overlay (src : list (string * dcontent)) (t : dtree) : dtree :=
  fold_left (fun acc kv => dset (fst kv) (snd kv) acc) src t.
(* the last write to p in a list of writes *)
Fixpoint dlast (p : string) (src : list (string * dcontent)) : option dcontent :=
  match src with
  | [] => None
  | (k, v) :: r => match dlast p r with Some v' => Some v' | None => if String.eqb p k then Some v else None end
  end.

(* ------------------------------------------------------------------ paths *)
Definition disk_path (k : fkey) : string :=
  "data/" ++ k_ns k ++ "/" ++ (match k_folder k with Some f => f ++ "/" | None => "" end) ++ k_path k ++
  (if k_json k then ".json" else ".mcfunction").
Definition load_path (c : cfg) : string := disk_path (tag_key c "load").
Definition tick_path (c : cfg) : string := disk_path (tag_key c "tick").
Definition cert_path (c : cfg) : string := "data/" ++ c_ns c ++ "/jmc.txt".
(* cert_config_to_string(get_cert()) *)
Definition cert_text (c : cfg) : string :=
  "LOAD=" ++ c_load c ++ nls ++ "TICK=" ++ c_tick c ++ nls ++ "PRIVATE=" ++ c_private c ++ nls ++
  "VAR=" ++ var_name (c_nm c) ++ nls ++ "INT=" ++ int_name (c_nm c) ++ nls ++ "STORAGE=" ++ storage_name (c_nm c).

(* ------------------------------------------------------------------ what the build finds *)
Record denv := mkDenv {
  e_prev : dtree;              (* the regular files of the output directory when the build starts *)
  e_delete : bool;             (* data/<ns> is a directory (read_cert: is_delete) *)
  e_copy : option (list (string * dcontent));   (* the files of the #copy folder, relative to it *)
  e_statics : list string      (* the #static folders that lie inside the output directory, relative to it *)
}.

Definition under (dir p : string) : bool := String.prefix (dir ++ "/") p.
Definition shielded (e : denv) (p : string) : bool := existsb (fun s => under s p) (e_statics e).
(* namespace_overrides holds the #override and the #link namespaces *)
Definition del_dirs (c : cfg) : list string := map (fun n => "data/" ++ n) ("minecraft" :: c_ns c :: c_overrides c).
Definition deleted (c : cfg) (e : denv) (p : string) : bool :=
  e_delete e && existsb (fun d => under d p) (del_dirs c) && negb (shielded e p).
Definition after_delete (c : cfg) (e : denv) : dtree :=
  filter (fun kv => negb (deleted c e (fst kv))) (e_prev e).
Definition copied (e : denv) : list (string * dcontent) := match e_copy e with Some t => t | None => [] end.
(* deletion, make_cert, #copy *)
Definition after_copy (c : cfg) (e : denv) : dtree :=
  overlay (copied e) (dset (cert_path c) (DText (cert_text c)) (after_delete c e)).

(* ------------------------------------------------------------------ read_func_tag / merged_func_tag *)
Definition own_entry (c : cfg) (v : string) : bool := String.prefix (c_ns c ++ ":") v.
Definition foreign (c : cfg) (vs : list string) : list string := filter (fun v => negb (own_entry c v)) vs.
Inductive tagread := TRBad | TRVals (extra : string) (vs : list string).
(* a missing file reads as {"values": []}; a file that is no JSON object with "values" stops the build *)
Definition read_tag (c : cfg) (f : option dcontent) : tagread :=
  match f with
  | None => TRVals "{}" []
  | Some (DTag x vs) => TRVals x (foreign c vs)
  | Some (DText _) => TRBad
  end.
Definition merged_tag (c : cfg) (e : denv) (p : string) : tagread :=
  match dlast p (copied e) with
  | Some f => read_tag c (Some f)
  | None => if e_delete e && negb (shielded e p) then TRVals "{}" [] else read_tag c (dget p (e_prev e))
  end.

Fixpoint strs_eqb (a b : list string) : bool :=
  match a, b with
  | [], [] => true
  | x :: a', y :: b' => String.eqb x y && strs_eqb a' b'
  | _, _ => false
  end.

(* ------------------------------------------------------------------ writing *)
Definition write_load (c : cfg) (x : string) (lv : list string) (t : dtree) : dtree :=
  dset (load_path c) (DTag x (lv ++ [load_loc c])) t.
Definition write_tick (c : cfg) (nonempty : bool) (x : string) (tv : list string) (t : dtree) : dtree :=
  if nonempty then dset (tick_path c) (DTag x (tv ++ [tick_loc c])) t
  else match dget (tick_path c) t with
       | Some (DTag _ vs0) => if strs_eqb vs0 tv then t else dset (tick_path c) (DTag x tv) t
       | _ => t
       end.
Definition disk_files (c : cfg) (fs : list (fkey * fcontent)) : list (string * dcontent) :=
  map (fun kv => (disk_path (fst kv), DText (pr_content c (snd kv)))) fs.

Inductive derr := DBuild (e : berr) | DTagErr | DCopyClash.

(* ------------------------------------------------------------------ (round 5) functions of the #copy library
   DataPack.is_function_in_copy: a function NAME counts as shipped by the #copy folder iff the copied tree holds
   data/<ns or override>/<folder>/<path>.mcfunction where <folder> is the ONE function folder the configured pack
   format loads (func_folder (c_legacy c): `function` from format 48, `functions` below) — the other spelling is a
   folder Minecraft does not read at that format.  build() uses it twice: a generated function that the library
   also ships stops the build (JMCBuildError), and a CALLED name that no function of the program defines is accepted
   iff the library ships it (otherwise "was never defined"). *)
Definition in_copy (c : cfg) (e : denv) (p : string) : bool :=
  match e_copy e with Some t => dmem (disk_path (fkey_of c p)) t | None => false end.
Definition copy_clash (c : cfg) (e : denv) (f : list (string * nat)) : bool := existsb (fun pf => in_copy c e (fst pf)) f.
Fixpoint check_called_lib (lib : string -> bool) (c : cfg) (st : state) (f : list (string * nat)) (l : list (string * string)) : option berr :=
  match l with
  | [] => None
  | (p, pre) :: r =>
      if priv_violation st p pre then Some (BPrivateCalled p)
      else if negb (lib p) && negb (amem p f) && negb (mem_str (first_seg p) (c_links c))
      then Some (if mem_str p (lazy st) then BLazyUsed p else BNeverDefined p)
      else check_called_lib lib c st f r
  end.
Definition checks_lib (lib : string -> bool) (c : cfg) (b : bdata) (st : state) (f : list (string * nat)) : option berr :=
  match check_called_lib lib c st f (called st) with
  | Some e => Some e
  | None => match b_envs b with
            | _ :: _ => Some BEnvs
            | [] => if b_delayed b then Some BDelayed else None
            end
  end.
(* the discipline of a state handed to a DISK build: as [disc], but a function reference may also name a called function
   the #copy library ships in the loaded folder *)
Definition ref_defined_lib (c : cfg) (e : denv) (b : bdata) (st : state) (r : ref) : bool :=
  ref_defined c b st r ||
  match r with
  | RFunc l => existsb (fun pp : string * string => String.eqb (fmt c (fst pp)) l && in_copy c e (fst pp)) (called st)
  | RTag _ => false
  end.
Definition text_disc_lib (c : cfg) (e : denv) (b : bdata) (st : state) : bool :=
  forallb (fun l => forallb (ref_defined_lib c e b st) (refs_of_line l)) (all_lines c b st)
  && forallb (fun e' : string * (string * bool) => if snd (snd e')
                       then forallb (ref_defined_lib c e b st) (json_refs c (jkey_of c (fst e')) (fst (snd e')))
                       else true) (jsons st).
Definition disc_lib (c : cfg) (e : denv) (b : bdata) (st : state) : bool :=
  text_disc_lib c e b st && paths_disc c b st && tag_free c st.
(* every file the build generates (both tags, functions, jsons), whether or not the virtual build's checks pass *)
Definition all_files (c : cfg) (b : bdata) (st : state) : list (fkey * fcontent) :=
  match assemble c b st with
  | inr hf => match emit_funcs c (fst hf) (snd hf) with
              | inr ff => (emit_tags c (fst hf) (snd hf) ++ ff ++ emit_jsons c (jsons st))%list
              | inl _ => []
              end
  | inl _ => []
  end.

(* what one build leaves in the output directory, parametrised by the place of the #copy step *)
Definition dbuild_gen (copy_last : bool) (c : cfg) (e : denv) (b : bdata) (st : state) : derr + dtree :=
  match assemble c b st with
  | inl er => inl (DBuild er)
  | inr hf =>
      if copy_clash c e (snd hf) then inl DCopyClash else
      match checks_lib (in_copy c e) c b st (snd hf) with
      | Some er => inl (DBuild er)
      | None =>
          match emit_funcs c (fst hf) (snd hf) with
          | inl er => inl (DBuild er)
          | inr ff =>
              match merged_tag c e (load_path c), merged_tag c e (tick_path c) with
              | TRVals lx lv, TRVals tx tv =>
                  let gen := disk_files c (ff ++ emit_jsons c (jsons st)) in
                  let tags t := write_tick c (tick_nonempty c (fst hf) (snd hf)) tx tv (write_load c lx lv t) in
                  inr (if copy_last
                       then overlay (copied e) (overlay gen (tags (dset (cert_path c) (DText (cert_text c)) (after_delete c e))))
                       else overlay gen (tags (after_copy c e)))
              | _, _ => inl DTagErr
              end
          end
      end
  end.
(* compiling.build: #copy before the tags and the generated files *)
Definition dbuild := dbuild_gen false.
(* the same with the copied tree laid over the generated files ("user files win") *)
Definition dbuild_copy_last := dbuild_gen true.

(* ------------------------------------------------------------------ what C07 asks of the tree *)
Definition tag_values (t : dtree) (p : string) : option (list string) :=
  match dget p t with Some (DTag _ vs) => Some vs | _ => None end.
(* the load tag registers <ns>:<LOAD> and holds no other value of the pack's namespace *)
Definition registered (c : cfg) (loc : string) (vs : list string) : bool :=
  mem_str loc vs && forallb (fun v => negb (own_entry c v) || String.eqb v loc) vs.
Definition load_registered (c : cfg) (t : dtree) : bool :=
  match tag_values t (load_path c) with Some vs => registered c (load_loc c) vs | None => false end.
(* the tick tag registers <ns>:<TICK> iff the tick function is non-empty; otherwise, if it exists, it holds no value
   of the pack's namespace (a left-over `<ns>:<TICK>` would name a function that is not there) *)
Definition tick_registered (c : cfg) (nonempty : bool) (t : dtree) : bool :=
  match dget (tick_path c) t with
  | Some (DTag _ vs) => if nonempty then registered c (tick_loc c) vs else forallb (fun v => negb (own_entry c v)) vs
  | Some (DText _) => negb nonempty
  | None => negb nonempty
  end.
(* the functions and json files the build writes after the tags *)
Definition gen_files (c : cfg) (b : bdata) (st : state) : list (fkey * fcontent) :=
  match assemble c b st with
  | inr hf => match emit_funcs c (fst hf) (snd hf) with inr ff => (ff ++ emit_jsons c (jsons st))%list | inl _ => [] end
  | inl _ => []
  end.
(* none of them is written onto a tag path *)
Definition disk_tag_free (c : cfg) (gen : list (fkey * fcontent)) : bool :=
  forallb (fun kv => negb (String.eqb (load_path c) (disk_path (fst kv))) && negb (String.eqb (tick_path c) (disk_path (fst kv)))) gen.
(* every own-namespace reference of every generated file names a file of the tree *)
Definition ref_on_disk (c : cfg) (t : dtree) (r : ref) : bool :=
  negb (ref_own c r) || match ref_key c r with Some k => dmem (disk_path k) t | None => false end.
Definition disk_closedb (c : cfg) (files : list (fkey * fcontent)) (t : dtree) : bool :=
  forallb (fun kv => forallb (ref_on_disk c t) (refs_of_file c kv)) files.
