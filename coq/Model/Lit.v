(* Model.Lit — C09: how the text of a string literal travels from JMC source to the
   emitted command line.

   Everything is over *code points* (Z, 0 .. 0x10FFFF): a `str` is a Python `str`.
   Ported by hand from (paths relative to /repo/src/jmc/compile):
     tokenizer.py  __parse_string / __parse_newline   -> scan, py_unescape, decode
                   (the quoted text goes through ast.literal_eval: Python escapes)
     lexer_func_content.py  __handle_say              -> emit KSay
                   dumps(token.string) (bare string argument, json.dumps, ensure_ascii) -> json_emit
     utils.py clean_up_paren_token                    -> json_emit (JSON object) / nbt_emit (repr based)
     command/utils.py FormattedText.__str__           -> KText (only for text without '&')
     lexer.py parse_if_else (junction merge `run execute `), lexer_func_content.py
       append_commands/__optimize, var_operation.py (`$x = <command>`, `$x = $y = <command>`)
                                                      -> wrapper / apply_w / ctx
   The *repaired* behaviour (fixes/C09-*.patch) is `apply_w`/`decode`; the behaviour of the
   pinned tree (global `.replace("run execute ", "")`, `.replace("run execute store","store")`,
   un-caught SyntaxError of literal_eval) is kept next to it as `*_pinned`.
   Decoders json_unquote / nbt_unquote / nbt_unquote_legacy are the *specification* of what
   Minecraft reads back (RFC 8259 strings into UTF-16 units joined to code points; SNBT quoted
   strings of 1.21.5+; SNBT of <= 1.21.4).  No proofs in this file. *)
From Coq Require Import ZArith Bool String Ascii List.
Import ListNotations.
Open Scope Z_scope.

Definition str := list Z.

Fixpoint lit (s : string) : str :=
  match s with
  | EmptyString => []
  | String a r => Z.of_N (N_of_ascii a) :: lit r
  end.

(* ------------------------------------------------------------------ results *)
Inductive res (A : Type) : Type :=
| Ok (a : A)
| Diag          (* a JMC diagnostic (JMCSyntaxException): compilation refused *)
| Crash         (* a non-JMC Python exception escapes (pinned tree only) *)
| Unmodelled.   (* outside the modelled fragment: malformed literal body, custom properties of formatted text *)
Arguments Ok {A} a. Arguments Diag {A}. Arguments Crash {A}. Arguments Unmodelled {A}.

Definition rmap {A B} (f : A -> B) (r : res A) : res B :=
  match r with Ok a => Ok (f a) | Diag => Diag | Crash => Crash | Unmodelled => Unmodelled end.
Definition rbind {A B} (r : res A) (f : A -> res B) : res B :=
  match r with Ok a => f a | Diag => Diag | Crash => Crash | Unmodelled => Unmodelled end.

(* ------------------------------------------------------------------ strings *)
Fixpoint str_eqb (a b : str) : bool :=
  match a, b with
  | [], [] => true
  | x :: a', y :: b' => (x =? y) && str_eqb a' b'
  | _, _ => false
  end.

Fixpoint prefixb (p s : str) : bool :=
  match p with
  | [] => true
  | x :: p' => match s with [] => false | y :: s' => (x =? y) && prefixb p' s' end
  end.

Definition memz (c : Z) (s : str) : bool := existsb (Z.eqb c) s.

(* does pat occur in s ? *)
Fixpoint occurs (pat s : str) : bool :=
  match s with
  | [] => prefixb pat []
  | _ :: r => prefixb pat s || occurs pat r
  end.

(* Python  s.replace(pat, rep)  for non-empty pat: leftmost, non-overlapping *)
Fixpoint replace_go (pat rep : str) (skip : nat) (s : str) : str :=
  match s with
  | [] => []
  | c :: r =>
    match skip with
    | S k => replace_go pat rep k r
    | O => if prefixb pat s then rep ++ replace_go pat rep (Nat.pred (length pat)) r
           else c :: replace_go pat rep O r
    end
  end.
Definition replace_all (pat rep s : str) : str := replace_go pat rep O s.

(* valid text: Unicode scalar values *)
Definition scalarb (c : Z) : bool :=
  ((0 <=? c) && (c <? 55296)) || ((57344 <=? c) && (c <? 1114112)).
Definition is_hi (c : Z) : bool := (55296 <=? c) && (c <? 56320).
Definition is_lo (c : Z) : bool := (56320 <=? c) && (c <? 57344).

(* ------------------------------------------------------------------ hexadecimal *)
Definition hexdigit (d : Z) : Z := if d <? 10 then 48 + d else 87 + d.   (* lowercase *)
Definition hexval (c : Z) : option Z :=
  if (48 <=? c) && (c <=? 57) then Some (c - 48)
  else if (97 <=? c) && (c <=? 102) then Some (c - 87)
  else if (65 <=? c) && (c <=? 70) then Some (c - 55)
  else None.
Definition hex2 (n : Z) : str := [hexdigit (n / 16 mod 16); hexdigit (n mod 16)].
Definition hex4 (n : Z) : str :=
  [hexdigit (n / 4096 mod 16); hexdigit (n / 256 mod 16); hexdigit (n / 16 mod 16); hexdigit (n mod 16)].
Definition hex8 (n : Z) : str := hex4 (n / 65536) ++ hex4 (n mod 65536).

(* read exactly k hexadecimal digits *)
Fixpoint read_hex (k : nat) (acc : Z) (s : str) : option (Z * str) :=
  match k with
  | O => Some (acc, s)
  | S k' => match s with
            | [] => None
            | c :: r => match hexval c with Some d => read_hex k' (acc * 16 + d) r | None => None end
            end
  end.

(* ================================================================== 1. source literal -> value *)
(* tokenizer.py __parse_string/__parse_newline for single- and double-quoted strings: `raw` is the text between
   the quotes.  A backslash-newline pair is dropped, an unescaped newline is a diagnostic; an
   unescaped quote / a trailing lone backslash means `raw` is not the body of one literal. *)
Fixpoint scan (q : Z) (esc : bool) (raw : str) : res str :=
  match raw with
  | [] => if esc then Unmodelled else Ok []
  | c :: r =>
    if esc then (if c =? 10 then scan q false r else rmap (fun t => 92 :: c :: t) (scan q false r))
    else if c =? 92 then scan q true r
    else if c =? 10 then Diag
    else if c =? q then Unmodelled
    else rmap (cons c) (scan q false r)
  end.

(* Python string-literal escapes (what ast.literal_eval does to the body) as a state machine.
   `bad` = what a malformed \x \u \U \N escape yields (Diag after the fix, Crash on the pinned tree);
   `nm`  = the Unicode name table used by \N{name} (unicodedata: a parameter of the model, like the
           isprintable table; the theorems hold for every table, the harness passes Python's answers).
           The name is collected in reverse up to the closing brace. *)
Inductive pst := PNorm | PEsc | PHex (remaining : nat) (acc : Z) | POct (remaining : nat) (acc : Z)
               | PNameOpen | PName (acc_rev : str).

Definition is_oct (c : Z) : bool := (48 <=? c) && (c <=? 55).

Definition simple_escape (c : Z) : option Z :=
  if c =? 92 then Some 92 else if c =? 39 then Some 39 else if c =? 34 then Some 34
  else if c =? 97 then Some 7 else if c =? 98 then Some 8 else if c =? 102 then Some 12
  else if c =? 110 then Some 10 else if c =? 114 then Some 13 else if c =? 116 then Some 9
  else if c =? 118 then Some 11 else None.

Definition names := str -> option Z.

Fixpoint pyun (nm : names) (bad : res str) (st : pst) (s : str) : res str :=
  match s with
  | [] => match st with
          | PNorm => Ok []
          | PEsc => Unmodelled
          | PHex _ _ => bad
          | POct _ acc => Ok [acc]
          | PNameOpen | PName _ => bad
          end
  | c :: r =>
    match st with
    | PNorm => if c =? 92 then pyun nm bad PEsc r else rmap (cons c) (pyun nm bad PNorm r)
    | PEsc =>
      match simple_escape c with
      | Some v => rmap (cons v) (pyun nm bad PNorm r)
      | None =>
        if is_oct c then pyun nm bad (POct 2 (c - 48)) r
        else if c =? 120 then pyun nm bad (PHex 2 0) r          (* \xhh *)
        else if c =? 117 then pyun nm bad (PHex 4 0) r          (* \uhhhh *)
        else if c =? 85 then pyun nm bad (PHex 8 0) r           (* \Uhhhhhhhh *)
        else if c =? 78 then pyun nm bad PNameOpen r            (* \N{name} *)
        else rmap (fun t => 92 :: c :: t) (pyun nm bad PNorm r) (* unknown escape: kept verbatim *)
      end
    | PHex k acc =>
      match hexval c with
      | None => bad
      | Some d =>
        let acc' := acc * 16 + d in
        match k with
        | O => Unmodelled
        | S O => if acc' <=? 1114111 then rmap (cons acc') (pyun nm bad PNorm r) else bad
        | S k' => pyun nm bad (PHex k' acc') r
        end
      end
    | POct k acc =>
      if is_oct c then
        let acc' := acc * 8 + (c - 48) in
        match k with
        | O => Unmodelled
        | S O => rmap (cons acc') (pyun nm bad PNorm r)
        | S k' => pyun nm bad (POct k' acc') r
        end
      else if c =? 92 then rmap (cons acc) (pyun nm bad PEsc r)
      else rmap (fun t => acc :: c :: t) (pyun nm bad PNorm r)
    | PNameOpen => if c =? 123 then pyun nm bad (PName []) r else bad     (* "malformed \N character escape" *)
    | PName acc =>
      if c =? 125 then
        match nm (rev acc) with
        | Some v => rmap (cons v) (pyun nm bad PNorm r)
        | None => bad                                                    (* "unknown Unicode character name" *)
        end
      else pyun nm bad (PName (c :: acc)) r
    end
  end.

Definition decode_with (nm : names) (bad : res str) (q : Z) (raw : str) : res str :=
  rbind (scan q false raw) (pyun nm bad PNorm).
Definition decode (nm : names) := decode_with nm Diag.            (* with fixes/C09-bad-escape.patch *)
Definition decode_pinned (nm : names) := decode_with nm Crash.    (* pinned tree: SyntaxError escapes *)

(* ------------------------------------------------------------------ backtick (multi-line) strings *)
(* tokenizer.py __parse_string (quote = backtick) + __parse_multiline_string, with
   fixes/C09-backtick-*.patch: the text between the backticks is decoded like a Python literal
   (double quotes are protected first), split into lines; the first and the last line must be
   empty or white space and are dropped.  Unmodelled: backslash directly before a line feed. *)
Fixpoint scan_bt (esc : bool) (raw : str) : res str :=
  match raw with
  | [] => if esc then Unmodelled else Ok []
  | c :: r =>
    if esc then (if c =? 10 then Unmodelled else rmap (fun t => 92 :: c :: t) (scan_bt false r))
    else if c =? 92 then scan_bt true r
    else if c =? 96 then Unmodelled
    else rmap (cons c) (scan_bt false r)
  end.

(* Python str.isspace / regular expression \s on str *)
Definition py_space (c : Z) : bool :=
  ((9 <=? c) && (c <=? 13)) || ((28 <=? c) && (c <=? 32)) || (c =? 133) || (c =? 160) || (c =? 5760)
  || ((8192 <=? c) && (c <=? 8202)) || (c =? 8232) || (c =? 8233) || (c =? 8239) || (c =? 8287)
  || (c =? 12288).

Fixpoint split_lf (s : str) : list str :=
  match s with
  | [] => [[]]
  | c :: r => if c =? 10 then [] :: split_lf r
              else match split_lf r with h :: t => (c :: h) :: t | [] => [[c]] end
  end.

Fixpoint join_lf (l : list str) : str :=
  match l with
  | [] => []
  | [x] => x
  | x :: r => x ++ 10 :: join_lf r
  end.

Fixpoint split_last {A} (l : list A) : option (list A * A) :=
  match l with
  | [] => None
  | [x] => Some ([], x)
  | x :: r => match split_last r with Some (i, z) => Some (x :: i, z) | None => None end
  end.

Definition blank_line (l : str) : bool := forallb py_space l.

Definition bt_lines (v : str) : res str :=
  match split_lf v with
  | first :: rest =>
    match split_last rest with
    | Some (mid, last) =>
      match mid with
      | [] => Diag                                    (* fewer than three lines *)
      | _ => if blank_line first && blank_line last then Ok (join_lf mid) else Diag
      end
    | None => Diag
    end
  | [] => Diag
  end.

Definition decode_bt (nm : names) (raw : str) : res str :=
  rbind (scan_bt false raw) (fun body => rbind (pyun nm Diag PNorm body) bt_lines).

(* pinned tree: `re.match` (a prefix match) instead of a full match -- a first / last line that
   merely STARTS with white space is accepted and dropped together with its text *)
Definition lead_blank (l : str) : bool := match l with [] => true | c :: _ => py_space c end.
Definition bt_lines_pinned (v : str) : res str :=
  match split_lf v with
  | first :: rest =>
    match split_last rest with
    | Some (mid, last) =>
      match mid with
      | [] => Diag
      | _ => if lead_blank first && lead_blank last then Ok (join_lf mid) else Diag
      end
    | None => Diag
    end
  | [] => Diag
  end.
Definition decode_bt_pinned (nm : names) (raw : str) : res str :=
  rbind (scan_bt false raw) (fun body => rbind (pyun nm Crash PNorm body) bt_lines_pinned).

(* q = 96: backtick string; 34 / 39: ordinary string *)
Definition decode_any (nm : names) (q : Z) (raw : str) : res str :=
  if q =? 96 then decode_bt nm raw else decode nm q raw.

(* a canonical way to *write* any value s inside quotes q (specification side) *)
Definition py_quote_char (q c : Z) : str :=
  if c =? 92 then [92; 92] else if c =? q then [92; q] else if c =? 10 then [92; 110] else [c].
Definition py_quote (q : Z) (s : str) : str := flat_map (py_quote_char q) s.

(* ------------------------------------------------------------------ spellings (specification side) *)
(* Everything a user may type between the quotes to denote a value, item by item: the character itself,
   a one-letter escape, an escape Python does not know (kept with its backslash), a backslash-newline
   (nothing), \o \oo \ooo, \xhh \uhhhh \Uhhhhhhhh (any mix of upper / lower case digits), \N{name}. *)
Definition plain_char (q c : Z) : bool := negb (c =? 92) && negb (c =? 10) && negb (c =? q).

Inductive sp :=
| SpRaw (c : Z)
| SpSimple (e : Z)
| SpKeep (c : Z)
| SpCont
| SpOct (ds : str)
| SpHex (ds : str)        (* 2 digits: \x, 4: \u, 8: \U *)
| SpName (name : str).

Definition hex_letter (n : nat) : Z := match n with 2%nat => 120 | 4%nat => 117 | _ => 85 end.
Definition octfold (ds : str) : Z := fold_left (fun acc c => acc * 8 + (c - 48)) ds 0.
Definition hexfold (ds : str) : Z :=
  fold_left (fun acc c => acc * 16 + match hexval c with Some d => d | None => 0 end) ds 0.

(* the source text of an item, and what the tokenizer hands to literal_eval (backslash-newline removed) *)
Definition sp_src1 (x : sp) : str :=
  match x with
  | SpRaw c => [c]
  | SpSimple e => [92; e]
  | SpKeep c => [92; c]
  | SpCont => [92; 10]
  | SpOct ds => 92 :: ds
  | SpHex ds => 92 :: hex_letter (length ds) :: ds
  | SpName n => 92 :: 78 :: 123 :: n ++ [125]
  end.
Definition sp_scanned1 (x : sp) : str := match x with SpCont => [] | _ => sp_src1 x end.
Definition sp_src (l : list sp) : str := flat_map sp_src1 l.
Definition sp_scanned (l : list sp) : str := flat_map sp_scanned1 l.

Definition sp_val1 (nm : names) (x : sp) : str :=
  match x with
  | SpRaw c => [c]
  | SpSimple e => match simple_escape e with Some v => [v] | None => [] end
  | SpKeep c => [92; c]
  | SpCont => []
  | SpOct ds => [octfold ds]
  | SpHex ds => [hexfold ds]
  | SpName n => match nm n with Some v => [v] | None => [] end
  end.
Definition sp_val (nm : names) (l : list sp) : str := flat_map (sp_val1 nm) l.

Definition is_hex (c : Z) : bool := match hexval c with Some _ => true | None => false end.
Definition starts_oct (s : str) : bool := match s with c :: _ => is_oct c | [] => false end.

(* `next` = the text that follows the item once continuations are gone (a short octal escape must not be
   followed by another octal digit) *)
Definition sp_ok (q : Z) (nm : names) (next : str) (x : sp) : bool :=
  match x with
  | SpRaw c => plain_char q c
  | SpSimple e => match simple_escape e with Some _ => true | None => false end
  | SpKeep c => match simple_escape c with Some _ => false | None => true end
                && negb (is_oct c) && negb (c =? 120) && negb (c =? 117) && negb (c =? 85) && negb (c =? 78)
                && negb (c =? 10)
  | SpCont => true
  | SpOct ds => forallb is_oct ds &&
                match length ds with
                | 1%nat | 2%nat => negb (starts_oct next)
                | 3%nat => true
                | _ => false
                end
  | SpHex ds => forallb is_hex ds && (hexfold ds <=? 1114111) &&
                match length ds with 2%nat | 4%nat | 8%nat => true | _ => false end
  | SpName n => match nm n with Some _ => true | None => false end
                && forallb (plain_char q) n && negb (memz 125 n)
  end.
Fixpoint sp_all_ok (q : Z) (nm : names) (l : list sp) : bool :=
  match l with
  | [] => true
  | x :: r => sp_ok q nm (sp_scanned r) x && sp_all_ok q nm r
  end.

(* ================================================================== 2. emitters *)
(* json.dumps(s) with ensure_ascii=True (py_encode_basestring_ascii) *)
Definition json_esc (c : Z) : str :=
  if c =? 34 then [92; 34] else if c =? 92 then [92; 92]
  else if c =? 10 then [92; 110] else if c =? 13 then [92; 114] else if c =? 9 then [92; 116]
  else if c =? 12 then [92; 102] else if c =? 8 then [92; 98]
  else if (32 <=? c) && (c <=? 126) then [c]
  else if c <? 65536 then 92 :: 117 :: hex4 c
  else let v := c - 65536 in
       (92 :: 117 :: hex4 (55296 + v / 1024)) ++ (92 :: 117 :: hex4 (56320 + v mod 1024)).
Definition json_emit (s : str) : str := 34 :: flat_map json_esc s ++ [34].

(* clean_up_paren_token, is_nbt branch:  r = repr(s); if r holds no double quote, its outer quotes become double quotes.
   `pr c` = Python's str.isprintable for the non-ASCII code point c (Unicode table: a parameter). *)
Definition nbt_quote_of (s : str) : Z := if memz 34 s then 39 else 34.
Definition nbt_esc (pr : Z -> bool) (q c : Z) : str :=
  if (c =? q) || (c =? 92) then [92; c]
  else if c =? 9 then [92; 116] else if c =? 10 then [92; 110] else if c =? 13 then [92; 114]
  else if (c <? 32) || (c =? 127) then 92 :: 120 :: hex2 c
  else if c <? 127 then [c]
  else if pr c then [c]
  else if c <=? 255 then 92 :: 120 :: hex2 c
  else if c <=? 65535 then 92 :: 117 :: hex4 c
  else 92 :: 85 :: hex8 c.
Definition nbt_emit (pr : Z -> bool) (s : str) : str :=
  let q := nbt_quote_of s in q :: flat_map (nbt_esc pr q) s ++ [q].

(* ================================================================== 2b. formatted text (Text.*, printf, ...) *)
(* command/utils.py class FormattedText: `&<code>`, `&&`, `&<prop, prop, ...>`.  Ported statement by statement:
   __parse (the character loop), __push, __parse_code, __parse_bracket, __str__.  A component is an ordered
   dictionary; "text" is always its first key when present, so it is a field of its own and the other keys
   keep their insertion order.  Fragment: the 22 one-letter codes, named / #rrggbb colours, the five styles
   (also negated), `$var` and `objective:name` scores, `@selector`; pack formats below 19 (no "type" key; the
   default of JMCTestPack); no TextProp declared (any other property = "Unknown property" diagnostic);
   `a::b` (nbt) = Unmodelled.  An unknown one-letter code is a diagnostic (fixes/C09-unknown-format-code.patch;
   on the tree before that patch the exception object was built but never raised: `strict = false`). *)
Inductive fkey := FColor | FBold | FItalic | FUnderlined | FStrike | FObf | FScore | FSelector.
Inductive fval := FStr (s : str) | FBool (b : bool) | FScoreV (name obj : str).
Definition attrs := list (fkey * fval).

Definition fkey_eqb (a b : fkey) : bool :=
  match a, b with
  | FColor, FColor | FBold, FBold | FItalic, FItalic | FUnderlined, FUnderlined | FStrike, FStrike
  | FObf, FObf | FScore, FScore | FSelector, FSelector => true
  | _, _ => false
  end.

Fixpoint aset (k : fkey) (v : fval) (a : attrs) : attrs :=
  match a with
  | [] => [(k, v)]
  | (k', v') :: r => if fkey_eqb k k' then (k, v) :: r else (k', v') :: aset k v r
  end.
Definition ahas (k : fkey) (a : attrs) : bool := existsb (fun p => fkey_eqb k (fst p)) a.
Definition adel (k : fkey) (a : attrs) : attrs := filter (fun p => negb (fkey_eqb k (fst p))) a.
Fixpoint aget (k : fkey) (a : attrs) : option fval :=
  match a with
  | [] => None
  | (k', v) :: r => if fkey_eqb k k' then Some v else aget k r
  end.

Record fcomp := mkComp { ctext : option str; cattrs : attrs }.
Record fstate := mkF { f_text : str; f_cur : attrs; f_res : list fcomp; f_color : str }.
Definition f_init : fstate := mkF [] [] [] [].

Definition RESET : str := lit "reset".
Definition COLOR_NAMES : list str :=
  [lit "dark_red"; lit "red"; lit "gold"; lit "yellow"; lit "dark_green"; lit "green"; lit "aqua"; lit "dark_aqua";
   lit "blue"; lit "dark_blue"; lit "light_purple"; lit "dark_purple"; lit "white"; lit "gray"; lit "dark_gray";
   lit "black"; lit "reset"].
Definition is_color_name (p : str) : bool := existsb (str_eqb p) COLOR_NAMES.
Definition style_key (p : str) : option fkey :=
  if str_eqb p (lit "bold") then Some FBold else if str_eqb p (lit "italic") then Some FItalic
  else if str_eqb p (lit "underlined") then Some FUnderlined
  else if str_eqb p (lit "strikethrough") then Some FStrike
  else if str_eqb p (lit "obfuscated") then Some FObf else None.

(* PROPS: the one-letter codes *)
Definition code_prop (c : Z) : option (str + fkey) :=
  if c =? 49 then Some (inl (lit "dark_blue")) else if c =? 50 then Some (inl (lit "dark_green"))
  else if c =? 51 then Some (inl (lit "dark_aqua")) else if c =? 52 then Some (inl (lit "dark_red"))
  else if c =? 53 then Some (inl (lit "dark_purple")) else if c =? 54 then Some (inl (lit "gold"))
  else if c =? 55 then Some (inl (lit "gray")) else if c =? 56 then Some (inl (lit "dark_gray"))
  else if c =? 57 then Some (inl (lit "blue")) else if c =? 48 then Some (inl (lit "black"))
  else if c =? 97 then Some (inl (lit "green")) else if c =? 98 then Some (inl (lit "aqua"))
  else if c =? 99 then Some (inl (lit "red")) else if c =? 100 then Some (inl (lit "light_purple"))
  else if c =? 101 then Some (inl (lit "yellow")) else if c =? 102 then Some (inl (lit "white"))
  else if c =? 107 then Some (inr FObf) else if c =? 108 then Some (inr FBold)
  else if c =? 109 then Some (inr FStrike) else if c =? 110 then Some (inr FUnderlined)
  else if c =? 111 then Some (inr FItalic) else if c =? 114 then Some (inl RESET)
  else None.

(* __can_merge / __push *)
Definition color_only (a : attrs) : option str :=
  match a with [(FColor, FStr c)] => Some c | _ => None end.
Definition drop_reset (a : attrs) : attrs :=
  match aget FColor a with
  | Some (FStr c) => if str_eqb c RESET then adel FColor a else a
  | _ => a
  end.
Definition f_push (st : fstate) : fstate :=
  match f_text st with
  | [] => st                                        (* `if not self.current_json["text"]: return` *)
  | _ =>
    let fresh := mkF [] [] (f_res st ++ [mkComp (Some (f_text st)) (drop_reset (f_cur st))]) (f_color st) in
    match split_last (f_res st) with
    | Some (init, mkComp (Some t) a) =>
      match color_only a, color_only (f_cur st) with
      | Some c, Some c' =>
        if str_eqb c c' then mkF [] [] (init ++ [mkComp (Some (t ++ f_text st)) a]) (f_color st) else fresh
      | _, _ => fresh
      end
    | _ => fresh
    end
  end.

(* __parse_code *)
Definition f_code (strict : bool) (c : Z) (st : fstate) : res fstate :=
  match code_prop c with
  | None => if strict then Diag else Ok st
  | Some (inl color) => Ok (mkF (f_text st) (aset FColor (FStr color) (f_cur st)) (f_res st) color)
  | Some (inr k) =>
    let a := match f_color st with [] => f_cur st | col => aset FColor (FStr col) (f_cur st) end in
    Ok (mkF (f_text st) (aset k (FBool true) a) (f_res st) (f_color st))
  end.

(* str.split(",") / str.strip() / str.count *)
Fixpoint split_on (d : Z) (s : str) : list str :=
  match s with
  | [] => [[]]
  | c :: r => if c =? d then [] :: split_on d r
              else match split_on d r with h :: t => (c :: h) :: t | [] => [[c]] end
  end.
Fixpoint lstrip (s : str) : str :=
  match s with c :: r => if py_space c then lstrip r else s | [] => [] end.
Definition strip (s : str) : str := rev (lstrip (rev (lstrip s))).
Definition count_char (d : Z) (s : str) : nat := length (filter (Z.eqb d) s).
Fixpoint count_cc (s : str) : nat :=          (* "::", non-overlapping, leftmost first *)
  match s with
  | [] => O
  | a :: r => match r with
              | b :: r' => if (a =? 58) && (b =? 58) then S (count_cc r') else count_cc r
              | [] => O
              end
  end.
Fixpoint split_colon (s : str) : str * str :=
  match s with
  | [] => ([], [])
  | c :: r => if c =? 58 then ([], r) else let (a, b) := split_colon r in (c :: a, b)
  end.
Definition ends_with (c : Z) (s : str) : bool :=
  match split_last s with Some (_, x) => x =? c | None => false end.

(* one property of a bracket; the assignments Python makes before it raises are not observable *)
Definition has_content (a : attrs) : bool := ahas FScore a || ahas FSelector a.
Definition f_prop (var : str) (prop0 : str) (st : fstate) : res fstate :=
  let p0 := strip prop0 in
  let neg := match p0 with c :: _ => c =? 33 | [] => false end in
  let p := if neg then tl p0 else p0 in
  let cur := f_cur st in
  let upd a col := Ok (mkF (f_text st) a (f_res st) col) in
  if is_color_name p then
    if ahas FColor cur || neg then Diag else upd (aset FColor (FStr p) cur) p
  else match style_key p with
  | Some k => upd (aset k (FBool (negb neg)) cur) (f_color st)
  | None =>
    if match p with c :: _ => (c =? 35) && (length p =? 7)%nat | [] => false end then
      if ahas FColor cur || neg then Diag else upd (aset FColor (FStr p) cur) (f_color st)
    else if match p with c :: _ => c =? 36 | [] => false end then
      if has_content cur || neg then Diag else upd (aset FScore (FScoreV p var) cur) (f_color st)
    else if (count_char 58 p =? 1)%nat then
      if has_content cur || neg then Diag
      else let (obj, name) := split_colon p in upd (aset FScore (FScoreV name obj) cur) (f_color st)
    else if (count_cc p =? 1)%nat then Unmodelled                 (* nbt *)
    else if match p with c :: _ => c =? 64 | [] => false end then
      if has_content cur || neg then Diag else upd (aset FSelector (FStr p) cur) (f_color st)
    else Diag                                                     (* no TextProp declared: "Unknown property" *)
  end.

Fixpoint f_props (var : str) (ps : list str) (st : fstate) : res fstate :=
  match ps with
  | [] => Ok st
  | p :: r => rbind (f_prop var p st) (f_props var r)
  end.

Definition is_style_or_color (k : fkey) : bool :=
  match k with FScore | FSelector => false | _ => true end.

(* __parse_bracket *)
Definition f_bracket (var : str) (content : str) (st : fstate) : res fstate :=
  rbind (f_props var (split_on 44 content) st) (fun st1 =>
    let cur := if ahas FColor (f_cur st1) then f_cur st1
               else match f_color st1 with [] => f_cur st1 | col => aset FColor (FStr col) (f_cur st1) end in
    if has_content cur then
      (* `del current_json["text"]`; the styles and the colour carry over to the next component *)
      Ok (mkF [] (filter (fun p => is_style_or_color (fst p)) cur)
              (f_res st1 ++ [mkComp None (drop_reset cur)]) (f_color st1))
    else Ok (mkF (f_text st1) cur (f_res st1) (f_color st1))).

(* __parse: the character loop *)
Inductive fmode := FNorm | FCode | FBracket (content_rev : str).

Fixpoint f_run (strict : bool) (var : str) (m : fmode) (s : str) (st : fstate) : res fstate :=
  match s with
  | [] => match m with
          | FNorm => Ok (f_push st)
          | FCode => Diag             (* "Unexpected trailing '&'" *)
          | FBracket _ => Diag        (* "'<' was never closed" *)
          end
  | c :: r =>
    match m with
    | FBracket acc =>
      if c =? 62 then rbind (f_bracket var (rev acc) st) (f_run strict var FNorm r)
      else f_run strict var (FBracket (c :: acc)) r st
    | FCode =>
      if c =? 38 then f_run strict var FNorm r (mkF (f_text st ++ [38]) (f_cur st) (f_res st) (f_color st))
      else if c =? 60 then f_run strict var (FBracket []) r (f_push st)
      else rbind (f_code strict c (f_push st)) (f_run strict var FNorm r)
    | FNorm =>
      if c =? 38 then f_run strict var FCode r st
      else f_run strict var FNorm r (mkF (f_text st ++ [c]) (f_cur st) (f_res st) (f_color st))
    end
  end.

Definition fmt_parse (strict : bool) (var : str) (s : str) : res (list fcomp) :=
  rmap f_res (f_run strict var FNorm s f_init).

(* __str__ : json.dumps(.., separators=(",", ":")) of the component list *)
Definition fkey_name (k : fkey) : str :=
  match k with
  | FColor => lit "color" | FBold => lit "bold" | FItalic => lit "italic" | FUnderlined => lit "underlined"
  | FStrike => lit "strikethrough" | FObf => lit "obfuscated" | FScore => lit "score" | FSelector => lit "selector"
  end.
Definition fval_json (v : fval) : str :=
  match v with
  | FStr s => json_emit s
  | FBool true => lit "true"
  | FBool false => lit "false"
  | FScoreV n o => lit "{""name"":" ++ json_emit n ++ lit ",""objective"":" ++ json_emit o ++ lit "}"
  end.
Fixpoint join_comma (l : list str) : str :=
  match l with
  | [] => []
  | [x] => x
  | x :: r => x ++ 44 :: join_comma r
  end.
Definition comp_json (c : fcomp) : str :=
  let fields := match ctext c with Some t => [lit """text"":" ++ json_emit t] | None => [] end
                ++ map (fun p => 34 :: fkey_name (fst p) ++ 34 :: 58 :: fval_json (snd p)) (cattrs c) in
  123 :: join_comma fields ++ [125].
Definition fmt_render (no_italic : bool) (cs : list fcomp) : str :=
  match cs with
  | [] => [34; 34]
  | [c] =>
    match ctext c, cattrs c with
    | Some t, [] => json_emit t
    | _, _ => comp_json (if no_italic && negb (ahas FItalic (cattrs c))
                         then mkComp (ctext c) (cattrs c ++ [(FItalic, FBool false)]) else c)
    end
  | _ => 91 :: join_comma ((if no_italic then lit "{""text"":"""",""italic"":false}" else [34; 34]) :: map comp_json cs)
         ++ [93]
  end.

Definition fmt_emit (strict : bool) (var : str) (no_italic : bool) (s : str) : res str :=
  rmap (fmt_render no_italic) (fmt_parse strict var s).

(* what the reader sees: the text of the literal without the codes (`&&` is one `&`) *)
Fixpoint fmt_plain (m : fmode) (s : str) : str :=
  match s with
  | [] => []
  | c :: r =>
    match m with
    | FBracket _ => if c =? 62 then fmt_plain FNorm r else fmt_plain m r
    | FCode => if c =? 38 then 38 :: fmt_plain FNorm r
               else if c =? 60 then fmt_plain (FBracket []) r else fmt_plain FNorm r
    | FNorm => if c =? 38 then fmt_plain FCode r else c :: fmt_plain FNorm r
    end
  end.
Definition comp_texts (cs : list fcomp) : str :=
  flat_map (fun c => match ctext c with Some t => t | None => [] end) cs.

(* ================================================================== 3. what Minecraft reads back *)
(* RFC 8259 string -> UTF-16 units; returns (units, text after the closing quote) *)
Fixpoint json_units (s : str) : option (str * str) :=
  match s with
  | [] => None
  | c :: r =>
    if c =? 34 then Some ([], r)
    else if c =? 92 then
      match r with
      | [] => None
      | e :: r1 =>
        let simple v := match json_units r1 with Some (u, t) => Some (v :: u, t) | None => None end in
        if e =? 34 then simple 34 else if e =? 92 then simple 92 else if e =? 47 then simple 47
        else if e =? 98 then simple 8 else if e =? 102 then simple 12 else if e =? 110 then simple 10
        else if e =? 114 then simple 13 else if e =? 116 then simple 9
        else if e =? 117 then
          match r1 with
          | a :: b :: c2 :: d :: r2 =>
            match hexval a, hexval b, hexval c2, hexval d with
            | Some x3, Some x2, Some x1, Some x0 =>
              match json_units r2 with
              | Some (u, t) => Some ((((x3 * 16 + x2) * 16 + x1) * 16 + x0) :: u, t)
              | None => None
              end
            | _, _, _, _ => None
            end
          | _ => None
          end
        else None
      end
    else if c <? 32 then None
    else match json_units r with Some (u, t) => Some (c :: u, t) | None => None end
  end.

(* UTF-16 units -> code points (a high surrogate followed by a low one is one code point) *)
Fixpoint utf16_join (s : str) : str :=
  match s with
  | [] => []
  | h :: r =>
    match r with
    | l :: r' => if is_hi h && is_lo l then (65536 + (h - 55296) * 1024 + (l - 56320)) :: utf16_join r'
                 else h :: utf16_join r
    | [] => [h]
    end
  end.

(* s must start with the opening quote; returns the value and what follows the closing quote *)
Definition json_unquote_rest (s : str) : option (str * str) :=
  match s with
  | c :: r => if c =? 34 then match json_units r with Some (u, t) => Some (utf16_join u, t) | None => None end
              else None
  | [] => None
  end.
Definition json_unquote (s : str) : option str :=
  match json_unquote_rest s with Some (v, []) => Some v | _ => None end.

(* SNBT quoted string.  modern = true: Minecraft 1.21.5+ (escapes \n \t \r \b \f \s \xHH \uHHHH
   \UHHHHHHHH besides \\ and the quotes); modern = false: <= 1.21.4 (only \\ and the closing quote) *)
Fixpoint nbt_body (modern : bool) (q : Z) (fuel : nat) (s : str) : option (str * str) :=
  match fuel with
  | O => None
  | S fuel' =>
    match s with
    | [] => None
    | c :: r =>
      if c =? q then Some ([], r)
      else if c =? 92 then
        match r with
        | [] => None
        | e :: r1 =>
          let simple v rest := match nbt_body modern q fuel' rest with
                               | Some (u, t) => Some (v :: u, t) | None => None end in
          if (e =? 92) || (e =? q) then simple e r1
          else if negb modern then None
          else if (e =? 39) || (e =? 34) then simple e r1
          else if e =? 110 then simple 10 r1 else if e =? 116 then simple 9 r1
          else if e =? 114 then simple 13 r1 else if e =? 98 then simple 8 r1
          else if e =? 102 then simple 12 r1 else if e =? 115 then simple 32 r1
          else
            let k := if e =? 120 then 2%nat else if e =? 117 then 4%nat else if e =? 85 then 8%nat else 0%nat in
            match k with
            | O => None
            | _ => match read_hex k 0 r1 with
                   | Some (v, rest) => if v <=? 1114111 then simple v rest else None
                   | None => None
                   end
            end
        end
      else match nbt_body modern q fuel' r with Some (u, t) => Some (c :: u, t) | None => None end
    end
  end.

Definition nbt_unquote_rest (modern : bool) (s : str) : option (str * str) :=
  match s with
  | q :: r => if (q =? 34) || (q =? 39) then nbt_body modern q (S (length r)) r else None
  | [] => None
  end.
Definition nbt_unquote (s : str) : option str :=
  match nbt_unquote_rest true s with Some (v, []) => Some v | _ => None end.
Definition nbt_unquote_legacy (s : str) : option str :=
  match nbt_unquote_rest false s with Some (v, []) => Some v | _ => None end.

(* ================================================================== 4. carriers *)
(* A carrier is a command template with one hole for a string literal:
     KSay                      say "<lit>";
     KJson pre post            tellraw @a "<lit>";  tellraw @a {"text":"<lit>"};  title .. (json.dumps)
     KNbt pre post             data merge entity @s {CustomName:"<lit>"};  give @s stone{..:"<lit>"}
     KText pre post var        Text.tellraw(@a, "<lit>"), Text.title, printf, ...  (FormattedText: section 2b; var = the
                               objective of `$var` scores)
   pre/post are the emitted text around the hole (tied by correspondence). *)
Inductive carrier :=
| KSay
| KJson (pre post : str)
| KNbt (pre post : str)
| KText (pre post var : str).

Definition SAY_ : str := lit "say ".

Definition emit (pr : Z -> bool) (k : carrier) (s : str) : res str :=
  match k with
  | KSay => if memz 10 s || memz 13 s then Diag else Ok (SAY_ ++ s)   (* LF (pinned) and CR (C09-say-carriage-return.patch) *)
  | KJson pre post => Ok (pre ++ json_emit s ++ post)
  | KNbt pre post => Ok (pre ++ nbt_emit pr s ++ post)
  | KText pre post var => rmap (fun j => pre ++ j ++ post) (fmt_emit true var false s)
  end.

Definition strip_prefix (p s : str) : option str :=
  if prefixb p s then Some (skipn (length p) s) else None.

(* read the literal back from an emitted command line (specification side) *)
Definition read (k : carrier) (line : str) : option str :=
  match k with
  | KSay => strip_prefix SAY_ line
  | KJson pre post | KText pre post _ =>
    match strip_prefix pre line with
    | Some t => match json_unquote_rest t with
                | Some (v, rest) => if str_eqb rest post then Some v else None
                | None => None
                end
    | None => None
    end
  | KNbt pre post =>
    match strip_prefix pre line with
    | Some t => match nbt_unquote_rest true t with
                | Some (v, rest) => if str_eqb rest post then Some v else None
                | None => None
                end
    | None => None
    end
  end.

Definition carrier_pre (k : carrier) : str :=
  match k with KSay => SAY_ | KJson pre _ | KNbt pre _ | KText pre _ _ => pre end.
(* the emitted command does not begin with the letter e (so it is not an `execute`) *)
Definition carrier_wf (k : carrier) : bool :=
  match carrier_pre k with c :: _ => negb (c =? 101) | [] => false end.

(* ================================================================== 5. contexts *)
Definition EXECUTE_ : str := lit "execute ".     (* test of append_commands / parse_if_else / _join_run *)
Definition EXECUTE : str := lit "execute".       (* test of `$x = <command>` (var_operation.py) *)
Definition EXECUTE_STORE : str := lit "execute store".  (* test of `$x = $y = ...` after the fix *)
Definition RUN_ : str := lit " run ".
Definition RETURN_RUN_ : str := lit "return run ".

(* A wrapper puts a generated `execute <mods> run ` in front of an assembled command, merging
   `run execute ` at the junction (and only there) when the command passes `test`. *)
Inductive wrapper :=
| WJoin (test : str) (mods : str)
| WReturn.

Definition w_prefix (mods : str) : str := EXECUTE_ ++ mods ++ RUN_.

Definition apply_w (w : wrapper) (c : str) : str :=
  match w with
  | WJoin test mods =>
    if prefixb test c then EXECUTE_ ++ mods ++ [32] ++ skipn 8 c      (* p[:-4] + c[8:] *)
    else w_prefix mods ++ c
  | WReturn => RETURN_RUN_ ++ c
  end.

Definition IF_ELSE_ (var : str) : str :=
  lit "if score __if_else__ " ++ var ++ lit " matches 0".
Definition STORE_ (holder obj : str) : str :=
  lit "store result score " ++ holder ++ [32] ++ obj.

Definition UNLESS_SET_ (holder obj : str) : str :=
  lit "unless score " ++ holder ++ [32] ++ obj ++ lit " = " ++ holder ++ [32] ++ obj.

Inductive ctx :=
(* the command gets a function (file) of its own: the line is the command itself *)
| CTop            (* top level of the file -> __load__ *)
| CFunc           (* function f() { .. } *)
| CMethod         (* class c { function m() { .. } } *)
| CLoop           (* body of while / for / do-while *)
| CSwitchCase     (* switch (..) { case n: .. } *)
| CSched          (* schedule 5t { .. } *)
| CIfThen         (* if (..) { HERE } else .. *)
| CElseIfMid      (* .. else if (..) { HERE } else .. *)
| CBlock          (* any { .. } holding more than one command *)
(* the command is inlined behind a generated prefix *)
| CIfOnly (cond : str)            (* if (cond) { cmd }            : execute <cond> run cmd *)
| CElse (var : str)               (* .. else { cmd }              : execute if score __if_else__ <var> matches 0 run cmd *)
| CElseIfLast (var cond : str)    (* .. else if (cond) { cmd }    : both prefixes *)
| CExec (mods : str)              (* execute <mods> run cmd  /  execute <mods> run { cmd } *)
| CReturn                         (* return run cmd *)
| CAssign (holder obj : str)      (* $x = cmd;                   : execute store result score .. run cmd *)
| CAssign2 (h1 o1 h2 o2 : str)    (* $x = $y = cmd; *)
| CAssignOver (holder obj : str)  (* $x = <variable operation>;  : junction test is `execute store` *)
| CAssignNull (holder obj : str). (* $y ??= cmd;                  : execute unless score y = y store result score y run cmd *)

Definition ctx_boundary (c : ctx) : bool :=
  match c with
  | CTop | CFunc | CMethod | CLoop | CSwitchCase | CSched | CIfThen | CElseIfMid | CBlock => true
  | _ => false
  end.

(* outermost wrapper first *)
Definition ctx_wrappers (c : ctx) : list wrapper :=
  match c with
  | CIfOnly cond => [WJoin EXECUTE_ cond]
  | CElse var => [WJoin EXECUTE_ (IF_ELSE_ var)]
  | CElseIfLast var cond => [WJoin EXECUTE_ (IF_ELSE_ var); WJoin EXECUTE_ cond]
  | CExec mods => [WJoin EXECUTE_ mods]
  | CReturn => [WReturn]
  | CAssign h o => [WJoin EXECUTE (STORE_ h o)]
  | CAssign2 h1 o1 h2 o2 => [WJoin EXECUTE_STORE (STORE_ h1 o1); WJoin EXECUTE (STORE_ h2 o2)]
  | CAssignOver h o => [WJoin EXECUTE_STORE (STORE_ h o)]
  | CAssignNull h o => [WJoin EXECUTE (UNLESS_SET_ h o ++ [32] ++ STORE_ h o)]
  | _ => []
  end.

(* `if .. else ..` chains compile to several lines (flag reset, branches, last stage): a block
   that holds one is a multi-command block, i.e. gets a function of its own.  Such a context
   still wraps the command (last stage) but hides everything outside it. *)
Definition ctx_cuts (c : ctx) : bool :=
  match c with CElse _ | CElseIfLast _ _ => true | _ => false end.
Definition ctx_hides_outer (c : ctx) : bool := ctx_boundary c || ctx_cuts c.

(* contexts from the outermost to the innermost; everything outside the innermost boundary is
   irrelevant for the line that carries the command *)
Fixpoint effective (cs : list ctx) : list wrapper :=
  match cs with
  | [] => []
  | c :: r => if existsb ctx_hides_outer r then effective r
              else if ctx_boundary c then effective r
              else ctx_wrappers c ++ effective r
  end.

Fixpoint wrap_ws (ws : list wrapper) (c : str) : str :=
  match ws with
  | [] => c
  | w :: inner => apply_w w (wrap_ws inner c)
  end.

Definition wrap (cs : list ctx) (c : str) : str := wrap_ws (effective cs) c.
(* the literal-independent text in front of the command *)
Definition ctx_prefix (cs : list ctx) : str := wrap cs [].

Definition mods_wf (m : str) : bool := match m with [] => false | _ => true end.
Definition wrapper_wf (w : wrapper) : bool :=
  match w with WJoin _ m => mods_wf m | WReturn => true end.
Definition ctx_wf (c : ctx) : bool := forallb wrapper_wf (ctx_wrappers c).

(* ------------------------------------------------------------------ pinned tree *)
Definition RUN_EXECUTE_ : str := lit "run execute ".
Definition RUN_EXECUTE_STORE : str := lit "run execute store".
Definition STORE : str := lit "store".
(* lexer.py:1012  (outputs[-1][-1] + last_output).replace("run execute ", "") *)
Definition else_pinned (var : str) (c : str) : str :=
  replace_all RUN_EXECUTE_ [] (w_prefix (IF_ELSE_ var) ++ c).
Definition else_if_last_pinned (var cond : str) (c : str) : str :=
  replace_all RUN_EXECUTE_ [] (w_prefix (IF_ELSE_ var) ++ w_prefix cond ++ c).
(* var_operation.py:516  f"execute store result score X O run {inner}".replace("run execute store", "store") *)
Definition assign2_pinned (h1 o1 h2 o2 : str) (c : str) : str :=
  replace_all RUN_EXECUTE_STORE STORE
    (w_prefix (STORE_ h1 o1) ++ apply_w (WJoin EXECUTE (STORE_ h2 o2)) c).

(* ================================================================== 6. whole pipeline *)
Definition compile_lit (nm : names) (pr : Z -> bool) (q : Z) (raw : str) (k : carrier) (cs : list ctx) : res str :=
  rbind (decode_any nm q raw) (fun s => rmap (wrap cs) (emit pr k s)).
