(* Model.FS — a file system as a finite tree, primitive mutations, strict and lenient execution.
   (C10, C11.)  No proofs here.

   The tree is rooted at a *virtual parent* of the output directory: the output directory itself is the
   child "." of the root, so that "the output directory does not exist yet" is representable
   (root = TDir []) and `Mkdir ["."]` is an ordinary mutation.  A path is the list of its components,
   e.g. ["."; "data"; "ns"; "jmc.txt"].  The order of a directory's child list is the order in which the
   operating system lists it (os.scandir): deletions follow it. *)
From Coq Require Import String List Bool Arith.
Import ListNotations.

Definition path := list string.

(* File contents.  Function-tag files (load.json / tick.json) are kept in parsed form: [Tag vs] is the
   JSON document {"values": vs}; every other file is [Raw bytes].  A [Raw] file at a tag path is a tag file
   JMC cannot parse (malformed JSON or no "values" key). *)
Inductive content := Raw (b : string) | Tag (vs : list string).

Inductive tree := TFile (c : content) | TDir (cs : list (string * tree)).
Definition fs := tree.

Inductive node := NFile (c : content) | NDir.
Definition shape (t : tree) : node := match t with TFile c => NFile c | TDir _ => NDir end.

Fixpoint path_eqb (a b : path) : bool :=
  match a, b with
  | [], [] => true
  | x :: a', y :: b' => String.eqb x y && path_eqb a' b'
  | _, _ => false
  end.

Fixpoint is_prefix (a b : path) : bool :=
  match a, b with
  | [], _ => true
  | x :: a', y :: b' => String.eqb x y && is_prefix a' b'
  | _ :: _, [] => false
  end.

Fixpoint assoc {A} (x : string) (l : list (string * A)) : option A :=
  match l with
  | [] => None
  | (y, v) :: r => if String.eqb x y then Some v else assoc x r
  end.

Fixpoint lookup (t : tree) (p : path) : option tree :=
  match p with
  | [] => Some t
  | x :: q => match t with
              | TDir cs => match assoc x cs with Some c => lookup c q | None => None end
              | TFile _ => None
              end
  end.

Definition node_at (t : fs) (p : path) : option node := option_map shape (lookup t p).
Definition file_at (t : fs) (p : path) : option content :=
  match lookup t p with Some (TFile c) => Some c | _ => None end.
Definition is_dir (t : fs) (p : path) : bool := match lookup t p with Some (TDir _) => true | _ => false end.
Definition is_file (t : fs) (p : path) : bool := match lookup t p with Some (TFile _) => true | _ => false end.

(* replace (Some) / insert at the end (Some, absent) / delete (None: every entry named x) the child x *)
Fixpoint set_child (x : string) (v : option tree) (cs : list (string * tree)) : list (string * tree) :=
  match cs with
  | [] => match v with Some t => [(x, t)] | None => [] end
  | (y, c) :: r =>
      if String.eqb x y then match v with Some t => (y, t) :: r | None => set_child x None r end
      else (y, c) :: set_child x v r
  end.

(* [alter p f t]: apply f to the (possibly absent) node at p; every proper ancestor of p must be a directory.
   f returns None when the mutation is not permitted (Python would raise), Some v for the new node. *)
Fixpoint alter (p : path) (f : option tree -> option (option tree)) (t : tree) : option tree :=
  match p with
  | [] => None
  | x :: q =>
      match t with
      | TFile _ => None
      | TDir cs =>
          match q with
          | [] => match f (assoc x cs) with
                  | Some v => Some (TDir (set_child x v cs))
                  | None => None
                  end
          | _ :: _ => match assoc x cs with
                      | Some c => match alter q f c with
                                  | Some c' => Some (TDir (set_child x (Some c') cs))
                                  | None => None
                                  end
                      | None => None
                      end
          end
      end
  end.

(* primitive mutations *)
Inductive op :=
| Mkdir (p : path)
| Create (p : path)               (* open(p, "w"): create or truncate *)
| Write (p : path) (c : content)  (* the file's bytes reach the disk *)
| Unlink (p : path)
| Rmdir (p : path)
| Replace (p : path) (c : content).
(* [Replace p c]: the name p atomically becomes a regular file holding c — what os.replace(tmp, p) does to p when
   tmp is a completely written file with the bytes c.  Never torn: the bytes were on disk under another name. *)

Definition op_path (o : op) : path :=
  match o with Mkdir p | Create p | Write p _ | Unlink p | Rmdir p | Replace p _ => p end.

Definition f_mkdir (c : option tree) : option (option tree) :=
  match c with None => Some (Some (TDir [])) | Some _ => None end.
Definition f_create (c : option tree) : option (option tree) :=
  match c with None | Some (TFile _) => Some (Some (TFile (Raw ""))) | Some (TDir _) => None end.
Definition f_write (c' : content) (c : option tree) : option (option tree) :=
  match c with Some (TFile _) => Some (Some (TFile c')) | _ => None end.
Definition f_unlink (c : option tree) : option (option tree) :=
  match c with Some (TFile _) => Some None | _ => None end.
Definition f_rmdir (c : option tree) : option (option tree) :=
  match c with Some (TDir []) => Some None | _ => None end.
Definition f_replace (c' : content) (c : option tree) : option (option tree) :=
  match c with None | Some (TFile _) => Some (Some (TFile c')) | Some (TDir _) => None end.

(* strict: None = the operating system would refuse the call *)
Definition apply (o : op) (t : fs) : option fs :=
  match o with
  | Mkdir p => alter p f_mkdir t
  | Create p => alter p f_create t
  | Write p c => alter p (f_write c) t
  | Unlink p => alter p f_unlink t
  | Rmdir p => alter p f_rmdir t
  | Replace p c => alter p (f_replace c) t
  end.

Fixpoint exec (ops : list op) (t : fs) : option fs :=
  match ops with
  | [] => Some t
  | o :: r => match apply o t with Some t' => exec r t' | None => None end
  end.

(* lenient: used only to thread the state through the plan generator *)
Definition apply' (o : op) (t : fs) : fs := match apply o t with Some t' => t' | None => t end.
Fixpoint run_ops (ops : list op) (t : fs) : fs :=
  match ops with [] => t | o :: r => run_ops r (apply' o t) end.

(* ---- composites expanded into primitives ---- *)

(* os.replace(src, dst) / rename(2) of the regular file src, which holds the bytes c, onto dst (absent or a regular
   file): dst takes the bytes and the name src disappears.  The kernel does both in one step; the model lists the two
   halves, so the crash prefixes of a plan also contain the state between them (both names present), which the real
   system cannot reach: theorems over all crash prefixes cover a superset of the real crash states.
   (Proofs/FS.v, rename_ops_spec: on a tree where src holds c this is exactly the effect of rename.) *)
Definition rename_ops (src dst : path) (c : content) : list op := [Replace dst c; Unlink src].

(* os.makedirs(p, exist_ok=True) / Path.mkdir(parents=True, exist_ok=True): missing ancestors first *)
Fixpoint mkdir_p_from (t : fs) (done todo : path) : list op :=
  match todo with
  | [] => []
  | x :: r => let d := done ++ [x] in
              (if is_dir t d then [] else [Mkdir d]) ++ mkdir_p_from t d r
  end.
Definition mkdir_p (t : fs) (p : path) : list op := mkdir_p_from t [] p.

(* shutil.rmtree on the subtree [t] located at [here] (Python 3.12 _rmtree_safe_fd: depth first, in listing order) *)
Fixpoint rm_entries (here : path) (t : tree) : list op :=
  match t with
  | TFile _ => [Unlink here]
  | TDir cs =>
      flat_map (fun e => rm_entries (here ++ [fst e]) (snd e)) cs ++ [Rmdir here]
  end.
Definition rmtree_shutil (t : fs) (d : path) : list op :=
  match lookup t d with Some sub => rm_entries d sub | None => [] end.

(* Path.glob("**/*") of Python 3.12 below [here] (pathlib._RecursiveWildcardSelector on top of Path.walk):
   the directories are visited in the order  here, then for every directory d of the top-down walk (pre-order)
   the sub-directories of d;  of each visited directory the entries are produced in listing order.
   Result: (path, is_file). *)
Fixpoint walk_pre (here : path) (t : tree) : list (path * tree) :=
  match t with
  | TFile _ => []
  | TDir cs =>
      (here, t) :: flat_map (fun e => walk_pre (here ++ [fst e]) (snd e)) cs
  end.
Definition child_dirs (d : path * tree) : list (path * tree) :=
  match snd d with
  | TDir cs => flat_map (fun e => match snd e with TDir _ => [(fst d ++ [fst e], snd e)] | TFile _ => [] end) cs
  | TFile _ => []
  end.
Definition entries (d : path * tree) : list (path * bool) :=
  match snd d with
  | TDir cs => map (fun e => (fst d ++ [fst e], match snd e with TFile _ => true | TDir _ => false end)) cs
  | TFile _ => []
  end.
Definition glob_all (here : path) (t : tree) : list (path * bool) :=
  flat_map entries ((here, t) :: flat_map child_dirs (walk_pre here t)).

(* copy of a source tree [t] (outside the output directory) to destination [dst]:
   shutil.copytree(dirs_exist_ok=True) / shutil.copy *)
Fixpoint copy_ops (cur : fs) (dst : path) (t : tree) : list op :=
  match t with
  | TFile c => [Create dst; Write dst c]
  | TDir cs =>
      (if is_dir cur dst then [] else [Mkdir dst]) ++
      flat_map (fun e => copy_ops cur (dst ++ [fst e]) (snd e)) cs
  end.

(* every node of a tree as (path, node), pre-order; used to compare with a real snapshot *)
Fixpoint flatten (here : path) (t : tree) : list (path * node) :=
  match t with
  | TFile c => [(here, NFile c)]
  | TDir cs =>
      (here, NDir) :: flat_map (fun e => flatten (here ++ [fst e]) (snd e)) cs
  end.
