(* Model.PrivAlloc — the part of DataPack that numbers and stores private functions
   (src/jmc/compile/datapack.py): `private_function_count` / `get_count`, `call_func`,
   `private_functions[name][count] = Function(commands)`, and `add_arrow_function`'s
   "inline a single one-line command instead of creating a function".
   Properties C04, C05. *)
From Coq Require Import ZArith String List Bool.
From JMCV Require Import Base.Dec MC.Syntax Model.Names.
Import ListNotations.
Open Scope string_scope.

(* a generated function: full resource name ("ns:__private__/group/k") and its lines *)
Definition fdef := (string * list cmd)%type.

Record alloc := mkAlloc {
  counts : list (string * nat);   (* private_function_count: group name -> next number (absent = 0) *)
  fns : list fdef                 (* private_functions, in order of creation *)
}.
Definition alloc0 : alloc := mkAlloc [] [].

Fixpoint count_of (l : list (string * nat)) (g : string) : nat :=
  match l with
  | [] => O
  | (g', n) :: r => if String.eqb g g' then n else count_of r g
  end.
Fixpoint bump (l : list (string * nat)) (g : string) : list (string * nat) :=
  match l with
  | [] => [(g, 1%nat)]
  | (g', n) :: r => if String.eqb g g' then (g', S n) :: r else (g', n) :: bump r g
  end.

(* DataPack.get_count *)
Definition get_count (g : string) (a : alloc) : nat * alloc :=
  (count_of (counts a) g, mkAlloc (bump (counts a) g) (fns a)).

(* DataPack.call_func: "function {namespace}:{private_name}/{name}/{count}" *)
Definition priv_fn (nm : names) (g : string) (k : nat) : string :=
  ns nm ++ ":" ++ private_name nm ++ "/" ++ g ++ "/" ++ z_dec (Z.of_nat k).
Definition call_func (nm : names) (g : string) (k : nat) : cmd := CCall (priv_fn nm g k).

(* private_functions[name][count] = Function(lines): a later definition of the same
   name replaces the earlier one (dict assignment) *)
Fixpoint put_fn (l : list fdef) (d : fdef) : list fdef :=
  match l with
  | [] => [d]
  | d' :: r => if String.eqb (fst d) (fst d') then d :: r else d' :: put_fn r d
  end.
Definition add_fn (d : fdef) (a : alloc) : alloc := mkAlloc (counts a) (put_fn (fns a) d).
Definition add_fns (ds : list fdef) (a : alloc) : alloc := fold_left (fun a d => add_fn d a) ds a.

Fixpoint lookup_fn (l : list fdef) (f : string) : option (list cmd) :=
  match l with
  | [] => None
  | (f', b) :: r => if String.eqb f f' then Some b else lookup_fn r f
  end.

(* add_arrow_function (force_create_func = False), given the already compiled lines of the
   body and the number the function gets *if* one is created: a body that is exactly one
   one-line command is returned as is (no function), otherwise a function is created.
   Result: the command to put after `run`, and the function created (if any). *)
Definition arrow_inline (body : list cmd) : bool :=
  match body with [_] => true | _ => false end.
Definition arrow (nm : names) (g : string) (body : list cmd) (k : nat) : cmd * list fdef :=
  match body with
  | [c] => (c, [])
  | _ => (call_func nm g k, [(priv_fn nm g k, body)])
  end.
