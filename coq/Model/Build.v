(* Model.Build — the disk build of JMC (`compile_jmc`, compile/compiling.py) as a generator of primitive
   file-system mutations.  (C10, C11.)  No proofs here.

   What is modelled: the order  read_header -> read_cert -> Lexer -> build;  read_cert's refusal and (pinned
   behaviour) its early make_cert on a fresh namespace;  build(): the deletion phase (static-aware `rmtree`
   vs `shutil.rmtree`, which folders, in which order), make_cert, #copy, the function-tag merge
   (read_func_tag), function / JSON / pack.mcmeta writes, and the OSError branch.
   What is abstracted: the compiler front end.  Its result is the [outcome] (which stage failed, or the
   compiled functions/JSON files as (resource path, text)), supplied by the harness from the same real run.

   [variant] selects between the pinned behaviour of the unchanged tree and the repaired behaviours
   (fixes/C10-*.patch, fixes/C11-*.patch).  The theorems of Props/C10.v, Props/C11.v are about every [sound]
   variant ([fixed] = the first round of repairs, [hardened] = fixes/C10-function-tags-read-first.patch and
   fixes/C11-atomic-cert.patch on top), the `_refuted_pinned` ones about [pinned]; which variant a source tree
   has is detected by the harness with witness builds. *)
From Coq Require Import String Ascii List Bool Arith.
From JMCV Require Import Model.FS.
Import ListNotations.
Open Scope string_scope.
Open Scope list_scope.

Record variant := mkVariant {
  v_cert_early : bool;   (* read_cert writes jmc.txt for a fresh namespace before lexing *)
  v_mc_static : bool;    (* data/minecraft is deleted with the #static-aware rmtree when statics are declared *)
  v_ns_last : bool;      (* the namespace folder (holder of jmc.txt) is deleted after overrides and data/minecraft *)
  v_tags_early : bool;   (* the function-tag files are read (and rejected) before the first mutation, the parsed values kept *)
  v_cert_atomic : bool;  (* jmc.txt is written as jmc.txt.tmp and moved over the certificate with os.replace *)
  v_ns_checked : bool;   (* the header rejects an #override / #link argument that is not a plain foreign namespace name *)
  v_paths_checked : bool;(* build() rejects a function / JSON resource path with an empty, "." or ".." segment before the first mutation *)
  v_tick_refresh : bool  (* a tick.json that outlives deletion and #copy is rewritten without this pack's entries when there is no tick function *)
}.
Definition pinned : variant := mkVariant true false false false false false false false.
Definition fixed : variant := mkVariant false true true false false false false false.
Definition hardened : variant := mkVariant false true true true true false false false.
(* [guarded] = [hardened] + fixes/C10-reject-non-namespace-override.patch (v_ns_checked),
   fixes/C10-reject-resource-path-outside-folder.patch (v_paths_checked), fixes/C11-stale-own-tick-entry.patch (v_tick_refresh) *)
Definition guarded : variant := mkVariant false true true true true true true true.
(* the repairs every theorem needs; the two later flags are free *)
Definition sound (v : variant) : Prop := v_cert_early v = false /\ v_mc_static v = true /\ v_ns_last v = true.

Record cfg := mkCfg {
  c_ns : string;      (* namespace *)
  c_ff : string;      (* "function" (pack format >= 48) or "functions" *)
  c_cert : string;    (* text written to jmc.txt *)
  c_load : string;    (* DataPack.load_name *)
  c_tick : string     (* DataPack.tick_name *)
}.

Record hdr := mkHdr {
  h_statics : list path;                       (* #static folders (resolved, relative to the virtual root) *)
  h_overrides : list string;                   (* #override namespaces, in the iteration order of the Python set *)
  h_copy : option (list (string * tree));      (* #copy: the entries of the copied folder, in listing order *)
  h_nometa : bool
}.

Record output := mkOutput {
  o_funcs : list (path * string);   (* datapack.functions: resource path components, post-processed text *)
  o_jsons : list (path * string);   (* non-empty datapack.jsons: path components, dumped text *)
  o_tick : bool;                    (* the tick function exists and is non-empty *)
  o_meta : string                   (* text of pack.mcmeta *)
}.

Inductive outcome := FailHeader | FailLex | FailBuild | Success (o : output).
Inductive result := RHeaderErr | RRefused | RLexErr | RBuildErr | ROsErr | RTagErr | RDone.

Definition root_dir : path := ["."].
Definition data_dir : path := ["."; "data"].
Definition ns_dir (c : cfg) : path := ["."; "data"; c_ns c].
Definition cert_path (c : cfg) : path := ["."; "data"; c_ns c; "jmc.txt"].
Definition cert_tmp (c : cfg) : path := ["."; "data"; c_ns c; "jmc.txt.tmp"].
Definition mc_dir : path := ["."; "data"; "minecraft"].
Definition tags_dir (c : cfg) : path := ["."; "data"; "minecraft"; "tags"; c_ff c].
Definition load_path (c : cfg) : path := tags_dir c ++ ["load.json"].
Definition tick_path (c : cfg) : path := tags_dir c ++ ["tick.json"].
Definition meta_path : path := ["."; "pack.mcmeta"].
Definition ov_dir (o : string) : path := ["."; "data"; o].

Definition mem (x : string) (l : list string) : bool := existsb (String.eqb x) l.

Fixpoint add_ext (ext : string) (p : path) : path :=
  match p with
  | [] => [ext]
  | x :: r => match r with [] => [(x ++ ext)%string] | _ :: _ => x :: add_ext ext r end
  end.

(* compiling.py:356-367 *)
Definition func_file (c : cfg) (h : hdr) (fp : path) : path :=
  match fp with
  | x :: r => if mem x (h_overrides h) then ov_dir x ++ [c_ff c] ++ add_ext ".mcfunction" r
              else ns_dir c ++ [c_ff c] ++ add_ext ".mcfunction" fp
  | [] => ns_dir c ++ [c_ff c] ++ add_ext ".mcfunction" fp
  end.
(* compiling.py:377-387 *)
Definition json_file (c : cfg) (h : hdr) (jp : path) : path :=
  match jp with
  | x :: r => if mem x (h_overrides h) then ov_dir x ++ add_ext ".json" r
              else ns_dir c ++ add_ext ".json" jp
  | [] => ns_dir c ++ add_ext ".json" jp
  end.

Definition out_files (c : cfg) (h : hdr) (o : output) : list (path * string) :=
  map (fun e => (func_file c h (fst e), snd e)) (o_funcs o) ++
  map (fun e => (json_file c h (fst e), snd e)) (o_jsons o).

(* path.parent.mkdir(parents=True, exist_ok=True); with path.open("w+") as f: f.write(text) *)
Definition write_file (cur : fs) (p : path) (ct : content) : list op :=
  mkdir_p cur (removelast p) ++ [Create p; Write p ct].

Fixpoint write_files (cur : fs) (l : list (path * string)) : list op :=
  match l with
  | [] => []
  | (p, s) :: r => let ops := write_file cur p (Raw s) in ops ++ write_files (run_ops ops cur) r
  end.

(* make_cert: path.parent.mkdir(parents=True, exist_ok=True), then the text — in place, or (atomic) into
   jmc.txt.tmp followed by os.replace(jmc.txt.tmp, jmc.txt) *)
Definition cert_tail (atomic : bool) (c : cfg) : list op :=
  if atomic then [Create (cert_tmp c); Write (cert_tmp c) (Raw (c_cert c))] ++
                 rename_ops (cert_tmp c) (cert_path c) (Raw (c_cert c))
  else [Create (cert_path c); Write (cert_path c) (Raw (c_cert c))].
Definition make_cert (atomic : bool) (c : cfg) (cur : fs) : list op := mkdir_p cur (ns_dir c) ++ cert_tail atomic c.

(* ---- deletion ---- *)
Definition excepted (h : hdr) (p : path) : bool := existsb (fun s => is_prefix s p) (h_statics h).

(* folder.rmdir() inside try/except OSError: only empty directories go *)
Fixpoint rmdirs (cur : fs) (ds : list path) : list op :=
  match ds with
  | [] => []
  | d :: r => match apply (Rmdir d) cur with
              | Some cur' => Rmdir d :: rmdirs cur' r
              | None => rmdirs cur r
              end
  end.

(* compiling.rmtree(path, statics): files first, then folders, both in glob order; exceptions skipped;
   the folder itself stays *)
Definition rmtree_static (h : hdr) (cur : fs) (d : path) : list op :=
  match lookup cur d with
  | Some sub =>
      let g := filter (fun e => negb (excepted h (fst e))) (glob_all d sub) in
      let u := map (fun e => Unlink (fst e)) (filter (fun e => snd e) g) in
      u ++ rmdirs (run_ops u cur) (map fst (filter (fun e => negb (snd e)) g))
  | None => []
  end.

Definition rm_folder (h : hdr) (cur : fs) (d : path) (static_aware : bool) : list op :=
  if is_dir cur d then
    match h_statics h with
    | [] => rmtree_shutil cur d
    | _ :: _ => if static_aware then rmtree_static h cur d else rmtree_shutil cur d
    end
  else [].

Definition del_list (v : variant) (c : cfg) (h : hdr) : list (path * bool) :=
  let ov := map (fun o => (ov_dir o, true)) (filter (fun o => negb (String.eqb o (c_ns c))) (h_overrides h)) in
  if v_ns_last v then ov ++ [(mc_dir, v_mc_static v); (ns_dir c, true)]
  else (ns_dir c, true) :: ov ++ [(mc_dir, v_mc_static v)].

Fixpoint del_phase (h : hdr) (cur : fs) (l : list (path * bool)) : list op :=
  match l with
  | [] => []
  | (d, s) :: r => let ops := rm_folder h cur d s in ops ++ del_phase h (run_ops ops cur) r
  end.

(* injected fault: the first deletion of path P raises OSError *)
Definition is_del_of (P : path) (o : op) : bool :=
  match o with Unlink p | Rmdir p => path_eqb p P | _ => false end.
Fixpoint cut (P : path) (ops : list op) : list op * bool :=
  match ops with
  | [] => ([], false)
  | o :: r => if is_del_of P o then ([], true) else let (a, b) := cut P r in (o :: a, b)
  end.

(* ---- writing ---- *)
Fixpoint copy_items (cur : fs) (items : list (string * tree)) : list op :=
  match items with
  | [] => []
  | (x, t) :: r => let ops := copy_ops cur ["."; x] t in ops ++ copy_items (run_ops ops cur) r
  end.
Definition copy_phase (h : hdr) (cur : fs) : list op :=
  match h_copy h with Some items => copy_items cur items | None => [] end.

Definition own_entry (c : cfg) (v : string) : bool := String.prefix (c_ns c ++ ":")%string v.

(* read_func_tag: None = JMCBuildError (malformed JSON / no "values") *)
Definition read_content (c : cfg) (f : option content) : option (list string) :=
  match f with
  | Some (Tag vs) => Some (filter (fun v => negb (own_entry c v)) vs)
  | Some (Raw _) => None
  | None => Some []
  end.
Definition read_tag (c : cfg) (cur : fs) (p : path) : option (list string) :=
  match lookup cur p with
  | Some (TFile (Tag vs)) => Some (filter (fun v => negb (own_entry c v)) vs)
  | Some (TFile (Raw _)) => None
  | _ => Some []
  end.

(* the regular file the #copy folder holds at the output-relative path p *)
Definition copy_file (h : hdr) (p : path) : option content :=
  match h_copy h, p with
  | Some items, _ :: rel => match lookup (TDir items) rel with Some (TFile ct) => Some ct | _ => None end
  | _, _ => None
  end.

(* build(), merged_func_tag ([v_tags_early]): the tag file as it will be once the previous output is deleted and #copy
   is done — the copied one; else nothing when the old output is deleted and no #static shields the file; else the
   file that is there — read BEFORE the first mutation. *)
Definition early_tag (c : cfg) (h : hdr) (is_delete : bool) (cur : fs) (p : path) : option (list string) :=
  match copy_file h p with
  | Some ct => read_content c (Some ct)
  | None => if is_delete && negb (excepted h p) then Some [] else read_tag c cur p
  end.

Fixpoint strs_eqb (a b : list string) : bool :=
  match a, b with
  | [], [] => true
  | x :: a', y :: b' => String.eqb x y && strs_eqb a' b'
  | _, _ => false
  end.

(* [v_tick_refresh], no tick function: the tick.json that is on disk once deletion and #copy are done (inside a #static
   folder, copied in, or left in a tree whose namespace folder was removed by hand) is rewritten with the values read
   for the merge (this pack's entries filtered out) when it holds anything else *)
Definition tick_refresh_ops (c : cfg) (tv : list string) (cur3 : fs) : list op :=
  match file_at cur3 (tick_path c) with
  | Some (Tag vs) => if strs_eqb vs tv then [] else [Create (tick_path c); Write (tick_path c) (Tag tv)]
  | _ => []
  end.

Definition tag_ops (v : variant) (c : cfg) (o : output) (lv tv : list string) (cur3 : fs) : list op :=
  [Create (load_path c); Write (load_path c) (Tag (lv ++ [(c_ns c ++ ":" ++ c_load c)%string]))] ++
  (if o_tick o then [Create (tick_path c); Write (tick_path c) (Tag (tv ++ [(c_ns c ++ ":" ++ c_tick c)%string]))]
   else if v_tick_refresh v then tick_refresh_ops c tv cur3 else []).

Definition meta_ops (h : hdr) (o : output) : list op :=
  if h_nometa h then [] else [Create meta_path; Write meta_path (Raw (o_meta o))].

(* [tags]: the values read before the first mutation ([v_tags_early]), or None: the tag files are read here *)
Definition write_phase (v : variant) (c : cfg) (h : hdr) (o : output) (tags : option (list string * list string))
                       (cur : fs) : list op * result :=
  let ops1 := make_cert (v_cert_atomic v) c cur in
  let cur1 := run_ops ops1 cur in
  let ops2 := copy_phase h cur1 in
  let cur2 := run_ops ops2 cur1 in
  let ops3 := mkdir_p cur2 (tags_dir c) in
  let cur3 := run_ops ops3 cur2 in
  match (match tags with
         | Some (lv, tv) => (Some lv, Some tv)
         | None => (read_tag c cur3 (load_path c), read_tag c cur3 (tick_path c))
         end) with
  | (Some lv, Some tv) =>
      let ops4 := tag_ops v c o lv tv cur3 in
      let cur4 := run_ops ops4 cur3 in
      let ops5 := write_files cur4 (out_files c h o) in
      (ops1 ++ ops2 ++ ops3 ++ ops4 ++ ops5 ++ meta_ops h o, RDone)
  | _ => (ops1 ++ ops2 ++ ops3, RTagErr)
  end.

Definition build_with (v : variant) (c : cfg) (h : hdr) (o : output) (tags : option (list string * list string))
                      (is_delete : bool) (fault : option path) (cur : fs) : list op * result :=
  let dops := if is_delete then del_phase h cur (del_list v c h) else [] in
  let '(pre, hit) := match fault with Some P => cut P dops | None => (dops, false) end in
  if hit then (pre, ROsErr)
  else let (w, r) := write_phase v c h o tags (run_ops dops cur) in (dops ++ w, r).

Definition build (v : variant) (c : cfg) (h : hdr) (o : output) (is_delete : bool) (fault : option path)
                 (cur : fs) : list op * result :=
  if v_tags_early v then
    match early_tag c h is_delete cur (load_path c), early_tag c h is_delete cur (tick_path c) with
    | Some lv, Some tv => build_with v c h o (Some (lv, tv)) is_delete fault cur
    | _, _ => ([], RTagErr)
    end
  else build_with v c h o None is_delete fault cur.

(* compile_jmc, once header and sources have been accepted or refused ([gate] below) *)
Definition run_core (v : variant) (c : cfg) (h : hdr) (out : outcome) (fault : option path) (cur : fs)
  : list op * result :=
  match out with
  | FailHeader => ([], RHeaderErr)
  | _ =>
      if is_dir cur (ns_dir c) then
        if is_file cur (cert_path c) then
          match out with
          | Success o => build v c h o true fault cur
          | FailLex => ([], RLexErr)
          | _ => ([], RBuildErr)
          end
        else ([], RRefused)
      else
        let ops0 := if v_cert_early v then make_cert (v_cert_atomic v) c cur else [] in
        match out with
        | Success o => let (ops, r) := build v c h o false fault (run_ops ops0 cur) in (ops0 ++ ops, r)
        | FailLex => (ops0, RLexErr)
        | _ => (ops0, RBuildErr)
        end
  end.

Definition plan_core v c h out fault cur : list op := fst (run_core v c h out fault cur).

(* ---- names that become path segments ---- *)
(* A [path] of this model is a list of segments and [lookup] / [alter] treat every segment as the name of a child.  That is
   the meaning the operating system gives the path only when no segment is "", "." or ".." or contains a separator.
   Segments that come from directory listings (deletion, #copy) are such names by nature; the ones that come from the
   header (#override / #link namespaces) and from the sources (function / JSON resource paths, which include names taken
   from string arguments of built-in functions and from jmc.txt) are checked:
   - header_parse.py __check_namespace ([v_ns_checked]): an #override / #link argument is a namespace name
     ([a-z0-9_.-]+, not "." / ".."; the model only needs [plain]) and not the pack's own namespace  -> HeaderSyntaxException;
   - compiling.py check_resource_paths ([v_paths_checked]): after DataPack.build(), before the first mutation, every key
     of datapack.functions / datapack.jsons is split at "/" and must have [plain] segments  -> JMCBuildError. *)
Fixpoint no_sep (s : string) : bool :=
  match s with
  | EmptyString => true
  | String a r => negb (Ascii.eqb a "/"%char) && negb (Ascii.eqb a "\"%char) && no_sep r
  end.
Definition plain (s : string) : bool :=
  negb (String.eqb s "") && negb (String.eqb s ".") && negb (String.eqb s "..") && no_sep s.
Definition hdr_ok (c : cfg) (h : hdr) : bool :=
  forallb (fun o => plain o && negb (String.eqb o (c_ns c))) (h_overrides h).
Definition res_ok (p : path) : bool := match p with [] => false | _ :: _ => forallb plain p end.
Definition out_ok (o : output) : bool :=
  forallb (fun e => res_ok (fst e)) (o_funcs o) && forallb (fun e => res_ok (fst e)) (o_jsons o).

(* what the checks turn the front end's outcome into *)
Definition gate (v : variant) (c : cfg) (h : hdr) (out : outcome) : outcome :=
  if v_ns_checked v && negb (hdr_ok c h) then FailHeader
  else match out with
       | Success o => if v_paths_checked v && negb (out_ok o) then FailBuild else out
       | _ => out
       end.

(* compile_jmc *)
Definition run (v : variant) (c : cfg) (h : hdr) (out : outcome) (fault : option path) (cur : fs)
  : list op * result := run_core v c h (gate v c h out) fault cur.
Definition plan v c h out fault cur : list op := fst (run v c h out fault cur).

(* ---- the territory of a build (C10) ---- *)
Definition tree_paths (here : path) (t : tree) : list path := map fst (flatten here t).
Definition copy_paths (h : hdr) : list path :=
  match h_copy h with
  | Some items => flat_map (fun e => tree_paths ["."; fst e] (snd e)) items
  | None => []
  end.

Definition in_folders (c : cfg) (h : hdr) (p : path) : bool :=
  is_prefix (ns_dir c) p || existsb (fun o => is_prefix (ov_dir o) p) (h_overrides h) || is_prefix mc_dir p.

Definition terr_b (c : cfg) (h : hdr) (p : path) : bool :=
  in_folders c h p || path_eqb p meta_path || existsb (path_eqb p) (copy_paths h).

(* the two ancestors a build may have to create *)
Definition anc_b (p : path) : bool := path_eqb p root_dir || path_eqb p data_dir.

(* every file a successful build writes (certificate and its temporary name, copies, tags, outputs, pack.mcmeta) *)
Definition copy_file_paths (h : hdr) : list path :=
  match h_copy h with
  | Some items => flat_map (fun e => map fst (filter (fun q => match snd q with NFile _ => true | NDir => false end)
                                                     (flatten ["."; fst e] (snd e)))) items
  | None => []
  end.
Definition written_paths (c : cfg) (h : hdr) (o : output) : list path :=
  cert_path c :: cert_tmp c :: copy_paths h ++ [load_path c; tick_path c] ++ map fst (out_files c h o) ++ [meta_path].

(* declared statics do not collide with what the build writes *)
Definition static_safe (c : cfg) (h : hdr) (o : output) : bool :=
  forallb (fun p => negb (excepted h p)) (written_paths c h o).

(* ---- C11: what "JMC-owned" means ---- *)
(* strictly inside one of the folders a build deletes *)
Definition inside (c : cfg) (h : hdr) (p : path) : bool := in_folders c h (removelast p).

(* ---- C11: only make_cert writes the certificate ---- *)
(* neither #copy nor an emitted function / JSON file lands on jmc.txt *)
Definition cert_exclusive (c : cfg) (h : hdr) (out : outcome) : bool :=
  forallb (fun p => negb (path_eqb p (cert_path c)))
          (copy_paths h ++ match out with Success o => map fst (out_files c h o) | _ => [] end).
