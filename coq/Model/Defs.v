(* Model.Defs — where the definitions of a program are placed (property C08).

   Ports (src/jmc/compile):
     lexer.py   parse_func_tokens (409-439: name conversion, private-prefix, load, duplicate, private checks),
                parse_func (480-486: body parsed *before* the insert), parse_class / parse_class_content
                (744-788, 855-901: prefix threading), parse_new (609-671, 741-742: type normalisation incl. the
                legacy plural and tag/ -> tags/, #override namespaces, upper-case, private-prefix and duplicate checks),
                lexer_func_content.py 198-217 (functions and `new` inside a function body)
     datapack.py add_private_json / add_json (410-437)
   A program is a tree of definitions, each carrying a unique marker (its body / content).
   The flags [fixes] select between the pinned behaviour and the behaviour repaired by
   fixes/C07-reject-empty-path-segment.patch and fixes/C08-duplicate-definitions.patch. *)
From Coq Require Import String Ascii List Bool Arith.
From JMCV Require Import Model.ResLoc.
Import ListNotations.
Open Scope string_scope.

Record fixes := mkFx {
  fx_strict : bool;     (* convention_jmc_to_mc rejects "a..b" *)
  fx_nested : bool;     (* parse_func re-checks for a duplicate after the body was parsed *)
  fx_privjson : bool;   (* parse_new refuses json *names* under the private prefix *)
  fx_gendup : bool      (* add_json / add_private_json refuse to replace a different json; parse_new reports a
                           duplicate of a generated json instead of raising KeyError *)
}.
Definition pinned : fixes := mkFx false false false false.
Definition repaired : fixes := mkFx true true true true.

Record dcfg := mkD {
  d_private : string; d_load : string;
  d_overrides : list string;
  d_legacy : bool;                   (* pack_format < 48 *)
  d_types : list string;             (* lexer.JSON_FILE_TYPES *)
  d_legacy_types : list string       (* lexer.LEGACY_JSON_FILE_TYPES *)
}.

Inductive item :=
| IFunc (name : string) (mk : nat) (inner : list item)   (* function name() { <marker> <inner definitions> } *)
| IClass (name : string) (members : list item)
| INew (jtype name : string) (mk : nat)                  (* new jtype(name) { <marker> } *)
| IGenPriv (jtype name : string) (mk : nat)              (* a built-in function calling add_private_json(jtype, name, <marker>) *)
| IGenJson (jtype name : string) (mk : nat)              (* a built-in function calling add_json(jtype, name, <marker>) *)
| IAt (pre : string) (inner : list item).                (* (round 3) the expansion of a call of a @lazy function that was declared under
                                                            the class prefix `pre`: PreFunction.handle_lazy parses the template's body with
                                                            the TEMPLATE's prefix (self.prefix), whatever class the call is written in, so the
                                                            definitions of the body are placed like those of a function body under `pre` *)

Inductive ctxk := CTop | CClass | CFunc.

Inductive derr :=
| DConv (e : cerr)        (* JMCSyntaxException / MinecraftSyntaxWarning from convention_jmc_to_mc *)
| DPrivate                (* "may override private function of JMC" *)
| DLoad                   (* "Load function is defined" *)
| DDup                    (* "Duplicate function declaration" / "Duplicate JSON" *)
| DPrivateName            (* "Private function is defined" *)
| DClassInFunc            (* "'class' keyword found in function" *)
| DType                   (* "Unrecognized JSON file's type" *)
| DUpper                  (* "Uppercase letter found in JSON file's path" *)
| DGenDup                 (* repaired: JMCBuildError "Duplicate JSON" from add_json / add_private_json *)
| DGenInClass             (* (a built-in call is not a class member / function-body definition in this model) *)
| DCrash.                 (* KeyError: an internal error, not a diagnostic *)

Record dstate := mkDS {
  funs : list (string * nat);               (* datapack.functions: path -> marker *)
  jsons : list (string * (nat * bool))      (* datapack.jsons: path -> (marker, has a defined_file_pos entry) *)
}.

Fixpoint dget {V} (k : string) (l : list (string * V)) : option V :=
  match l with [] => None | (k', v) :: r => if String.eqb k k' then Some v else dget k r end.
Fixpoint dset {V} (k : string) (v : V) (l : list (string * V)) : list (string * V) :=
  match l with
  | [] => [(k, v)]
  | (k', v') :: r => if String.eqb k k' then (k, v) :: r else (k', v') :: dset k v r
  end.
Definition dmem {V} (k : string) (l : list (string * V)) : bool :=
  match dget k l with Some _ => true | None => false end.

Definition has_upper (s : string) : bool := negb (sall (fun c => negb (is_upper_az c)) s).
Fixpoint ends_with_s (s : string) : bool :=
  match s with
  | EmptyString => false
  | String c EmptyString => Ascii.eqb c "s"
  | String _ r => ends_with_s r
  end.
Fixpoint drop_last (s : string) : string :=
  match s with
  | EmptyString => EmptyString
  | String c EmptyString => EmptyString
  | String c r => String c (drop_last r)
  end.
(* str.replace("tag/", "tags/") — every occurrence *)
Fixpoint replace_tag (fuel : nat) (s : string) : string :=
  match fuel with
  | O => s
  | S k =>
      if String.prefix "tag/" s then "tags/" ++ replace_tag k (sdrop 4 s)
      else match s with EmptyString => EmptyString | String c r => String c (replace_tag k r) end
  end.

(* parse_new: json type normalisation *)
Definition norm_type (d : dcfg) (t : string) : option string :=
  if mem_str t (d_types d) || String.prefix "tags/" t then Some t
  else if mem_str (t ++ "s") (d_legacy_types d) then Some (t ++ "s")
  else if String.prefix "tag/" t then Some (replace_tag (S (String.length t)) t)
  else None.

Definition bindd {A} (x : derr + A) (f : A -> derr + dstate) : derr + dstate :=
  match x with inl e => inl e | inr a => f a end.
Definition conv_d (fx : fixes) (lw : bool) (s : string) : derr + string :=
  match convention (fx_strict fx) lw "" s with inl e => inl (DConv e) | inr p => inr p end.

(* path of a json definition: (json_path, json_name) *)
Definition new_path (d : dcfg) (fx : fixes) (prefix jtype name : string) : derr + (string * string) :=
  match conv_d fx false jtype with
  | inl e => inl e
  | inr t0 =>
      match norm_type d t0 with
      | None => inl DType
      | Some t =>
          match conv_d fx false name with
          | inl e => inl e
          | inr jn =>
              let json_name := prefix ++ jn in
              match split_first ch_slash json_name with
              | (f, Some rest) => if mem_str f (d_overrides d) then inr (f ++ "/" ++ t ++ "/" ++ rest, json_name)
                                  else inr (t ++ "/" ++ json_name, json_name)
              | (f, None) => if mem_str f (d_overrides d) then inr (f ++ "/" ++ t ++ "/", json_name)
                             else inr (t ++ "/" ++ json_name, json_name)
              end
          end
      end
  end.

Definition place_new (d : dcfg) (fx : fixes) (prefix jtype name : string) (mk : nat) (st : dstate) : derr + dstate :=
  match new_path d fx prefix jtype name with
  | inl e => inl e
  | inr (json_path, json_name) =>
      if has_upper json_path then inl DUpper
      else if String.prefix (d_private d ++ "/") json_path
              || (fx_privjson fx && String.prefix (d_private d ++ "/") json_name) then inl DPrivate
      else match dget json_path (jsons st) with
           | Some (_, true) => inl DDup
           | Some (_, false) => if fx_gendup fx then inl DDup else inl DCrash
           | None => inr (mkDS (funs st) (dset json_path (mk, true) (jsons st)))
           end
  end.

Definition gen_insert (fx : fixes) (path : string) (mk : nat) (st : dstate) : derr + dstate :=
  match dget path (jsons st) with
  | Some (m, u) =>
      if fx_gendup fx && negb (Nat.eqb m mk) then inl DGenDup
      else inr (mkDS (funs st) (dset path (mk, false) (jsons st)))
  | None => inr (mkDS (funs st) (dset path (mk, false) (jsons st)))
  end.
Definition priv_json_path (d : dcfg) (jtype name : string) : string :=
  (if negb (d_legacy d) && ends_with_s jtype then drop_last jtype else jtype) ++ "/" ++ d_private d ++ "/" ++ name.

(* the checks of parse_func_tokens on the path of a function *)
Definition check_func (d : dcfg) (path : string) (st : dstate) : option derr :=
  if String.prefix (d_private d ++ "/") path then Some DPrivate
  else if String.eqb path (d_load d) then Some DLoad
  else if dmem path (funs st) then Some DDup
  else if String.eqb path (d_private d) then Some DPrivateName
  else None.

Fixpoint place_item (d : dcfg) (fx : fixes) (prefix : string) (ctx : ctxk) (it : item) (st : dstate)
  {struct it} : derr + dstate :=
  match it with
  | IFunc name mk inner =>
      bindd (conv_d fx true name) (fun p =>
      let path := prefix ++ p in
      match check_func d path st with
      | Some e => inl e
      | None =>
          (* the body is parsed (its definitions are placed) before functions[path] is assigned *)
          bindd ((fix go (l : list item) (s : dstate) : derr + dstate :=
                    match l with
                    | [] => inr s
                    | x :: r => match place_item d fx prefix CFunc x s with inl e => inl e | inr s' => go r s' end
                    end) inner st) (fun st1 =>
          if fx_nested fx && dmem path (funs st1) then inl DDup
          else inr (mkDS (dset path mk (funs st1)) (jsons st1)))
      end)
  | IClass name members =>
      match ctx with
      | CFunc => inl DClassInFunc
      | _ =>
          bindd (conv_d fx true name) (fun cp =>
          (fix go (l : list item) (s : dstate) : derr + dstate :=
             match l with
             | [] => inr s
             | x :: r => match place_item d fx (prefix ++ cp ++ "/") CClass x s with inl e => inl e | inr s' => go r s' end
             end) members st)
      end
  | INew jtype name mk =>
      (* `new` inside a function body is parsed without the class prefix (lexer_func_content.py:216) *)
      place_new d fx (match ctx with CFunc => "" | _ => prefix end) jtype name mk st
  | IGenPriv jtype name mk =>
      match ctx with CTop => gen_insert fx (priv_json_path d jtype name) mk st | _ => inl DGenInClass end
  | IGenJson jtype name mk =>
      match ctx with CTop => gen_insert fx (jtype ++ "/" ++ name) mk st | _ => inl DGenInClass end
  | IAt pre inner =>
      (* a call statement is not a class member (parse_class_content accepts definitions only) *)
      match ctx with
      | CClass => inl DGenInClass
      | _ =>
          (fix go (l : list item) (s : dstate) : derr + dstate :=
             match l with
             | [] => inr s
             | x :: r => match place_item d fx pre CFunc x s with inl e => inl e | inr s' => go r s' end
             end) inner st
      end
  end.

Fixpoint place_list (d : dcfg) (fx : fixes) (prefix : string) (ctx : ctxk) (l : list item) (st : dstate) : derr + dstate :=
  match l with
  | [] => inr st
  | x :: r => match place_item d fx prefix ctx x st with inl e => inl e | inr s' => place_list d fx prefix ctx r s' end
  end.

Definition place (d : dcfg) (fx : fixes) (prog : list item) : derr + dstate :=
  place_list d fx "" CTop prog (mkDS [] []).

(* ------------------------------------------------------------------ the documented placement (specification) *)
(* documented path of every definition of a program, in source order:
   (is_json, path, marker).  A function `name` declared in classes C1 … Cn lives at
   lower(C1)/…/lower(Cn)/lower(name) with dots as slashes; a json `new t(name)` at <type>/<classes>/<name>. *)
Definition ok_or_nil {A} (x : derr + A) (f : A -> list (bool * string * nat)) : list (bool * string * nat) :=
  match x with inl _ => [] | inr a => f a end.

Fixpoint docs_item (d : dcfg) (fx : fixes) (prefix : string) (ctx : ctxk) (it : item) {struct it}
  : list (bool * string * nat) :=
  match it with
  | IFunc name mk inner =>
      ok_or_nil (conv_d fx true name) (fun p =>
        ((fix go (l : list item) := match l with [] => [] | x :: r => docs_item d fx prefix CFunc x ++ go r end) inner
         ++ [(false, (prefix ++ p)%string, mk)])%list)
  | IClass name members =>
      ok_or_nil (conv_d fx true name) (fun cp =>
        (fix go (l : list item) := match l with [] => [] | x :: r => (docs_item d fx (prefix ++ cp ++ "/")%string CClass x ++ go r)%list end) members)
  | INew jtype name mk =>
      ok_or_nil (new_path d fx (match ctx with CFunc => "" | _ => prefix end) jtype name) (fun pn => [(true, fst pn, mk)])
  | IGenPriv jtype name mk => [(true, priv_json_path d jtype name, mk)]
  | IGenJson jtype name mk => [(true, jtype ++ "/" ++ name, mk)]
  | IAt pre inner =>
      (* documented: a lazy body means what it means where it is WRITTEN (its own class), not where it is expanded *)
      (fix go (l : list item) := match l with [] => [] | x :: r => (docs_item d fx pre CFunc x ++ go r)%list end) inner
  end.
Fixpoint docs_list (d : dcfg) (fx : fixes) (prefix : string) (ctx : ctxk) (l : list item) : list (bool * string * nat) :=
  match l with [] => [] | x :: r => (docs_item d fx prefix ctx x ++ docs_list d fx prefix ctx r)%list end.
Definition docs (d : dcfg) (fx : fixes) (prog : list item) := docs_list d fx "" CTop prog.

(* the definitions placed in the final state: (is_json, path, marker) *)
Definition placed (st : dstate) : list (bool * string * nat) :=
  (map (fun e => (false, fst e, snd e)) (funs st) ++ map (fun e : string * (nat * bool) => (true, fst e, fst (snd e))) (jsons st))%list.

(* side conditions under which the pinned behaviour loses nothing *)
Fixpoint no_gen (it : item) : bool :=
  match it with
  | IFunc _ _ inner => forallb no_gen inner
  | IClass _ ms => forallb no_gen ms
  | INew _ _ _ => true
  | IGenPriv _ _ _ | IGenJson _ _ _ => false
  | IAt _ inner => forallb no_gen inner
  end.
Fixpoint no_nested (it : item) : bool :=
  match it with
  | IFunc _ _ inner => match inner with [] => true | _ => false end
  | IClass _ ms => forallb no_nested ms
  | IAt _ inner => forallb no_nested inner
  | _ => true
  end.
Definition side (fx : fixes) (prog : list item) : bool :=
  (fx_nested fx || forallb no_nested prog) && (fx_gendup fx || forallb no_gen prog).
