(* Model.TokCite — the position a diagnostic CITES (strengthening round 3 of C14).  Definitions only
   (proofs: Proofs/TokCite.v).

   exception.py `error_msg(message, token, tokenizer, col_length, display_col_length, entire_line, ...)`, token given,
   keeps two pairs of variables:

     (line, col)                   what the header `In <file>:<line>:<col>` and the sentence
                                   `<message> at line <line> col <col>.` say  (entire_line: `In <file>:<line>`, `at line <line>.`)
     (display_line, display_col)   layout of the source excerpt printed below: which source line is shown and where the
                                   row of carets ends

   Both start as the token's own (line, col).  (line, col) move - to the position right after the token - only when
   `col_length` is set (Model.Tok.cite_end).  display_line moves to the token's LAST line whenever `display_col_length`
   (the default) is set and the token's full string holds a newline, i.e. for every bracket token that spans several lines.

     cite cl t            the cited (line, col)                                       (the tree)
     display_line dcl t   the excerpt's line
     cite_display dcl cl t  header and sentence built from display_line instead of line: the variant the third round of
                          bug seeding planted; it differs from `cite` exactly on tokens that span several lines *)
From Coq Require Import ZArith NArith List Bool.
From JMCV Require Import Model.Tok Model.TokPos.
Import ListNotations.
Open Scope Z_scope.

Section Cite.
Variable printable : char -> bool.

(* string.count("\n") of Token.get_full_string(): a backtick string is written "`\n" + repr + "\n`", any other string
   literal is repr()'d (no raw newline), everything else is the token's own text *)
Definition full_string_nl_count (t : token) : Z :=
  if ttype_eqb (t_type t) STRING then (if t_bt t then 2 else 0) else count_nl (t_str t).

Definition cite (col_length : bool) (t : token) : Z * Z :=
  if col_length then cite_end printable t else (t_line t, t_col t).

Definition display_line (display_col_length : bool) (t : token) : Z :=
  if display_col_length && full_string_has_nl t then t_line t + full_string_nl_count t else t_line t.

Definition cite_display (display_col_length col_length : bool) (t : token) : Z * Z :=
  (if col_length then fst (cite_end printable t) else display_line display_col_length t, snd (cite col_length t)).
End Cite.
