(* Model.LayoutArg — the ARGUMENT TEXT of a call whose arguments are substituted into a body as text
   (property C15, strengthening round 4):

     utils.clean_up_paren_token(token, tokenizer, is_nbt)      -> clean_paren
         "cleaned text" of a bracket token = canonical re-spelling of its token tree: the content
         `string[1:-1]` is re-tokenised (argument mode; `allow_semicolon` for square brackets), the first
         statement's tokens are written one after the other WITHOUT the layout between them; nested
         brackets recursively; string tokens re-quoted (repr with a preference for double quotes in NBT
         mode, json.dumps in JSON mode = a curly bracket whose first token is a string);
     Tokenizer.merge_tokens([token], use_full_string=True)     -> full_string
     datapack.PreFunction.__argument_text(tokens)              -> argument_text (plain argument: one blank
         between tokens that were apart in the source - decided by is_connected - none between
         connected ones) and arrow_text (arrow-function argument `(params)=>{body}`: head and body are
         the RAW source texts - the pinned behaviour, which is layout dependent, see Props/C15.v).

   Python exceptions are `Err e`; `Err EUnsupported` = the model declines (whatever Model.Layout declines,
   exhausted fuel = nesting deeper than the fuel given, and - with `strict` - a content outside the
   theorems' scope: s_ev).  With strict = false the functions are the faithful ones that the
   correspondence compares with the real compiler; the theorems are about strict = true and
   `strict_ok` links the two. *)
From Coq Require Import ZArith String List Bool Ascii.
From JMCV Require Import Model.Layout.
Import ListNotations.
Open Scope Z_scope.

(* ------------------------------------------------------------------ repr() and json.dumps() of an ASCII str *)
Definition hex_digit (n : nat) : ascii := nth n (s2l "0123456789abcdef") zero.
Definition hex2 (n : nat) : str := [hex_digit (Nat.div n 16); hex_digit (Nat.modulo n 16)].

Definition repr_char (esc_sq : bool) (c : ascii) : str :=
  let n := nat_of_ascii c in
  if Ascii.eqb c BSLASH then [BSLASH; BSLASH]
  else if Ascii.eqb c NL then [BSLASH; ch "n"]
  else if Ascii.eqb c TAB then [BSLASH; ch "t"]
  else if Ascii.eqb c CR then [BSLASH; ch "r"]
  else if Ascii.eqb c SQ then (if esc_sq then [BSLASH; SQ] else [SQ])
  else if Nat.ltb n 32 || Nat.eqb n 127 then BSLASH :: ch "x" :: hex2 n
  else [c].

(* repr(s): single quotes unless s has a single quote and no double quote *)
Definition py_repr (s : str) : str :=
  let sq := has_char SQ s in
  let dq := has_char DQ s in
  let q := if sq && negb dq then DQ else SQ in
  q :: flat_map (repr_char (sq && dq)) s ++ [q].

(* clean_up_paren_token, is_nbt: repr(s), and if that text has no double quote at all its two quote
   characters are replaced by double quotes *)
Definition nbt_string (s : str) : str :=
  let r := py_repr s in
  if has_char DQ r then r else DQ :: inner r ++ [DQ].

Definition json_char (c : ascii) : str :=
  let n := nat_of_ascii c in
  if Ascii.eqb c DQ then [BSLASH; DQ]
  else if Ascii.eqb c BSLASH then [BSLASH; BSLASH]
  else if Ascii.eqb c NL then [BSLASH; ch "n"]
  else if Ascii.eqb c CR then [BSLASH; ch "r"]
  else if Ascii.eqb c TAB then [BSLASH; ch "t"]
  else if Nat.eqb n 8 then [BSLASH; ch "b"]
  else if Nat.eqb n 12 then [BSLASH; ch "f"]
  else if Nat.ltb n 32 then BSLASH :: ch "u" :: ch "0" :: ch "0" :: hex2 n
  else [c].
Definition json_dumps (s : str) : str := DQ :: flat_map json_char s ++ [DQ].

(* a token that is not a bracket, inside a cleaned bracket *)
Definition leaf_text (nbt : bool) (t : token) : str :=
  match t_ty t with
  | STRING => if nbt then nbt_string (t_str t) else json_dumps (t_str t)
  | _ => t_str t
  end.

Fixpoint concat_res (l : list (result str)) : result str :=
  match l with
  | [] => Ok []
  | Ok x :: r => match concat_res r with Ok y => Ok (x ++ y) | Err e => Err e end
  | Err e :: _ => Err e
  end.

Definition ok_of {A} (r : result A) : option A := match r with Ok x => Some x | Err _ => None end.

Section Arg.
Variable cf : bool.

(* `tokenizer.programs[0]` of the Tokenizer that clean_up_paren_token builds for the content ([] = no statement) *)
Definition first_stmt (strict : bool) (t : token) : result (list token) :=
  match parse_st [] cf false (ttype_eqb (t_ty t) PAREN_SQUARE) (t_line t) (t_col t + 1) (inner (t_str t)) with
  | Err e => Err e
  | Ok st =>
      if strict && s_ev st then Err EUnsupported
      else match finish [] false false st with
           | Err e => Err e
           | Ok [] => Ok []
           | Ok (toks :: _) => Ok toks
           end
  end.

Definition starts_with_string (toks : list token) : bool :=
  match toks with u :: _ => ttype_eqb (t_ty u) STRING | [] => false end.

(* utils.clean_up_paren_token (default keyword callback) *)
Fixpoint clean_paren (strict : bool) (fuel : nat) (nbt : bool) (t : token) {struct fuel} : result str :=
  if len (t_str t) =? 2 then Ok (t_str t)
  else
    match fuel with
    | O => Err EUnsupported
    | S f =>
        match first_stmt strict t with
        | Err e => Err e
        | Ok toks =>
            let o := hd zero (t_str t) in
            let c := last (t_str t) zero in
            let nbt' := if Ascii.eqb o (ch "{") && starts_with_string toks then false else nbt in
            match concat_res (map (fun u => if is_paren_ty (t_ty u) then clean_paren strict f nbt' u
                                            else Ok (leaf_text nbt' u)) toks) with
            | Ok body => Ok (o :: body ++ [c])
            | Err e => Err e
            end
        end
    end.

(* Tokenizer.merge_tokens([t], use_full_string=True).string  ('...' / "..." string tokens) *)
Definition full_string (strict : bool) (fuel : nat) (t : token) : result str :=
  if is_paren_ty (t_ty t) then clean_paren strict fuel true t
  else match t_ty t with
       | STRING => Ok (py_repr (t_str t))
       | _ => Ok (t_str t)
       end.

(* PreFunction.__argument_text, plain argument *)
Fixpoint arg_go (strict : bool) (fuel : nat) (prev : option token) (l : list token) : result str :=
  match l with
  | [] => Ok []
  | t :: r =>
      match full_string strict fuel t with
      | Err e => Err e
      | Ok x =>
          match arg_go strict fuel (Some t) r with
          | Err e => Err e
          | Ok y =>
              Ok ((match prev with
                   | Some p => if is_connected t p then [] else [SP]
                   | None => []
                   end) ++ x ++ y)
          end
      end
  end.
Definition argument_text (strict : bool) (fuel : nat) (toks : list token) : result str :=
  arg_go strict fuel None toks.
End Arg.

(* PreFunction.__argument_text, arrow-function argument (a FUNC token: string = the source text of the body
   `{...}`, _embeded_data = the round bracket of the parameters or None): raw texts *)
Definition arrow_text (params : option str) (body : str) : str :=
  (match params with Some p => p | None => s2l "()" end) ++ s2l "=>" ++ body.
