(* Model.ResLoc — names, paths and resource locations (properties C07, C08).

   Gallina ports of
     * convention_jmc_to_mc            (src/jmc/compile/utils.py:198-244)
     * DataPack.format_func_path       (datapack.py:603-615)
     * DataPack.call_func              (datapack.py:397-408, without #show_private_command comments)
     * the path mapping of build()     (compiling.py:356-394)
   and the written specification of a "legal lower-case resource location".
   Strings are byte strings; only ASCII names are modelled (Python's str.lower() on
   non-ASCII letters is outside the model). *)
From Coq Require Import String Ascii List Bool Arith.
Import ListNotations.
Open Scope string_scope.

(* ------------------------------------------------------------------ characters *)
Definition ch_slash : ascii := "/"%char.
Definition ch_dot : ascii := "."%char.
Definition ch_colon : ascii := ":"%char.

Definition is_lower_az (c : ascii) : bool := let n := nat_of_ascii c in Nat.leb 97 n && Nat.leb n 122.
Definition is_upper_az (c : ascii) : bool := let n := nat_of_ascii c in Nat.leb 65 n && Nat.leb n 90.
Definition is_digit (c : ascii) : bool := let n := nat_of_ascii c in Nat.leb 48 n && Nat.leb n 57.
Definition is_word (c : ascii) : bool := is_lower_az c || is_digit c || Ascii.eqb c "_".
(* the class [a-z0-9_\.] of the regular expression in convention_jmc_to_mc *)
Definition name_char (c : ascii) : bool := is_word c || Ascii.eqb c ch_dot.
(* characters Minecraft allows in one path segment / in a namespace: [a-z0-9_.-] *)
Definition seg_char (c : ascii) : bool := is_word c || Ascii.eqb c ch_dot || Ascii.eqb c "-".

Definition lower_char (c : ascii) : ascii :=
  if is_upper_az c then ascii_of_nat (nat_of_ascii c + 32) else c.
Definition dot_to_slash (c : ascii) : ascii := if Ascii.eqb c ch_dot then ch_slash else c.
Definition slash_to_dot (c : ascii) : ascii := if Ascii.eqb c ch_slash then ch_dot else c.

(* ------------------------------------------------------------------ string helpers *)
Fixpoint smap (f : ascii -> ascii) (s : string) : string :=
  match s with EmptyString => EmptyString | String c r => String (f c) (smap f r) end.
Fixpoint sall (f : ascii -> bool) (s : string) : bool :=
  match s with EmptyString => true | String c r => f c && sall f r end.
Fixpoint sdrop (n : nat) (s : string) : string :=
  match n, s with O, _ => s | S k, String _ r => sdrop k r | S _, EmptyString => EmptyString end.
Definition lower (s : string) : string := smap lower_char s.
Definition no_char (x : ascii) (s : string) : bool := sall (fun c => negb (Ascii.eqb c x)) s.

Fixpoint ends_with_dot (s : string) : bool :=
  match s with
  | EmptyString => false
  | String c EmptyString => Ascii.eqb c ch_dot
  | String _ r => ends_with_dot r
  end.
Definition starts_with_dot (s : string) : bool :=
  match s with String c _ => Ascii.eqb c ch_dot | EmptyString => false end.
(* ".." occurs in s *)
Fixpoint has_dotdot (s : string) : bool :=
  match s with
  | String c ((String d _) as r) => (Ascii.eqb c ch_dot && Ascii.eqb d ch_dot) || has_dotdot r
  | _ => false
  end.

(* s.split(x, 1): text before the first x, and the rest after it (None if x does not occur) *)
Fixpoint split_first (x : ascii) (s : string) : string * option string :=
  match s with
  | EmptyString => (EmptyString, None)
  | String c r => if Ascii.eqb c x then (EmptyString, Some r)
                  else let (a, b) := split_first x r in (String c a, b)
  end.
Definition first_seg (p : string) : string := fst (split_first ch_slash p).

Fixpoint mem_str (x : string) (l : list string) : bool :=
  match l with [] => false | y :: r => String.eqb x y || mem_str x r end.

(* ------------------------------------------------------------------ legal resource locations (specification) *)
(* A legal path: non-empty segments separated by '/', every character in [a-z0-9_.-],
   no segment consisting of dots only.  [fresh] = at the start of a segment,
   [alldots] = the current segment consists of dots only so far. *)
Fixpoint lp (fresh alldots : bool) (s : string) : bool :=
  match s with
  | EmptyString => negb fresh && negb alldots
  | String c r =>
      if Ascii.eqb c ch_slash then negb fresh && negb alldots && lp true true r
      else seg_char c && lp false (alldots && Ascii.eqb c ch_dot) r
  end.
Definition legal_path (s : string) : bool := lp true true s.
(* a namespace is one legal segment *)
Definition legal_ns (s : string) : bool := legal_path s && no_char ch_slash s.

(* ------------------------------------------------------------------ convention_jmc_to_mc *)
Inductive cerr := EStartDot | EEndDot | EEmptySegment | EInvalidChar.

(* [strict]: the repaired behaviour (fixes/C08-*.patch) rejects names with an empty
   segment ("a..b"); the pinned tree accepts them (strict = false) and produces "a//b". *)
Definition convention (strict mk_lower : bool) (prefix s : string) : cerr + string :=
  if starts_with_dot s then inl EStartDot
  else if ends_with_dot s then inl EEndDot
  else if strict && has_dotdot s then inl EEmptySegment
  else
    let s1 := if mk_lower then lower s else s in
    let s2 := if negb (String.eqb prefix "") && String.prefix "this." s1
              then smap slash_to_dot prefix ++ sdrop 5 s1 else s1 in
    match s2 with
    | EmptyString => inl EInvalidChar
    | _ => if sall name_char s2 then inr (smap dot_to_slash s2) else inl EInvalidChar
    end.

(* ------------------------------------------------------------------ call sites and file keys *)
Record fkey := mkKey {
  k_ns : string;               (* namespace folder under data/ *)
  k_folder : option string;    (* Some "function" | Some "functions" for function files, None for json *)
  k_path : string;             (* path below that folder, without extension *)
  k_json : bool                (* extension: .json (true) / .mcfunction (false) *)
}.
Definition opt_str_eqb (a b : option string) : bool :=
  match a, b with Some x, Some y => String.eqb x y | None, None => true | _, _ => false end.
Definition fkey_eqb (a b : fkey) : bool :=
  String.eqb (k_ns a) (k_ns b) && opt_str_eqb (k_folder a) (k_folder b) &&
  String.eqb (k_path a) (k_path b) && Bool.eqb (k_json a) (k_json b).

Definition pr_key (k : fkey) : string :=
  "VIRTUAL/data/" ++ k_ns k ++ "/" ++
  (match k_folder k with Some f => f ++ "/" | None => "" end) ++ k_path k ++
  (if k_json k then ".json" else ".mcfunction").

Definition func_folder (legacy : bool) : string := if legacy then "functions" else "function".

(* format_func_path: `ns:path` for a function path, honouring #override namespaces.
   Python: first = func.split("/")[0]; rest = func.replace(first + "/", "", 1). *)
Definition format_func_path (ns : string) (overrides : list string) (p : string) : string :=
  match split_first ch_slash p with
  | (f, Some rest) => if mem_str f overrides then f ++ ":" ++ rest else ns ++ ":" ++ p
  | (f, None) => if mem_str f overrides then f ++ ":" ++ f else ns ++ ":" ++ p
  end.

(* compiling.build: where datapack.functions[p] is written.
   Python: path = data/<first>/<folder>/(p[len(first)+1:] + ".mcfunction") for an override namespace. *)
Definition func_key (ns : string) (legacy : bool) (overrides : list string) (p : string) : fkey :=
  match split_first ch_slash p with
  | (f, Some rest) => if mem_str f overrides then mkKey f (Some (func_folder legacy)) rest false
                      else mkKey ns (Some (func_folder legacy)) p false
  | (f, None) => if mem_str f overrides then mkKey f (Some (func_folder legacy)) "" false
                 else mkKey ns (Some (func_folder legacy)) p false
  end.
Definition json_key (ns : string) (overrides : list string) (p : string) : fkey :=
  match split_first ch_slash p with
  | (f, Some rest) => if mem_str f overrides then mkKey f None rest true else mkKey ns None p true
  | (f, None) => if mem_str f overrides then mkKey f None "" true else mkKey ns None p true
  end.

(* the file a resource location `ns:path` of a function denotes *)
Definition resolve_func (legacy : bool) (loc : string) : option fkey :=
  match split_first ch_colon loc with
  | (n, Some path) => Some (mkKey n (Some (func_folder legacy)) path false)
  | (_, None) => None
  end.
(* the file a function-tag location `ns:path` (written `#ns:path` in commands) denotes *)
Definition resolve_tag (legacy : bool) (loc : string) : option fkey :=
  match split_first ch_colon loc with
  | (n, Some path) => Some (mkKey n None ("tags/" ++ func_folder legacy ++ "/" ++ path) true)
  | (_, None) => None
  end.
Definition loc_ns (loc : string) : string := fst (split_first ch_colon loc).

(* DataPack.call_func(name, count) *)
Definition private_path (private g c : string) : string := private ++ "/" ++ g ++ "/" ++ c.
Definition call_func_loc (ns private g c : string) : string := ns ++ ":" ++ private_path private g c.
Definition call_func_str (ns private g c : string) : string := "function " ++ call_func_loc ns private g c.

(* a function/json path may be used as a key: it is not a bare #override namespace
   (`function minecraft() {}` under `#override minecraft` would be written to "data/minecraft/function/.mcfunction") *)
Definition path_ok (overrides : list string) (p : string) : bool :=
  match split_first ch_slash p with
  | (f, None) => negb (mem_str f overrides)
  | _ => true
  end.
