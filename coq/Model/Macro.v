(* Model.Macro — Gallina port of the macro-defining part of `header_parse.__parse_header`
   (#define object-like, #enum, #env, #bind __namespace__; parameterised #define / EVAL / NOT are
   recorded with their arity only), of the macro factories' position synthesis
   for object-like bodies (`__copy_macro_token`, in Model/Layout.v `expand_macro`)
   and of `Header.number_macros` (used by Hardcode.calc and `matches` ranges).  Property C16.
   Macro application itself (`Tokenizer.append_token`) is in Model/Layout.v.
   Models the *repaired* code: every #enum member is entered in number_macros with its own value
   (fixes/C16-enum-number-macros.patch; flag pinned_enum keeps the pinned rule) and the tokens of a #define body are
   laid out again by their connectedness (fixes/C16-macro-in-macro-body-adjacency.patch; flag nest_fix = false keeps
   the columns of the header line). *)
From Coq Require Import ZArith String List Bool Ascii.
From JMCV Require Import Base.Dec Model.Layout.
Import ListNotations.
Open Scope Z_scope.

(* ------------------------------------------------------------------ small string helpers *)
Fixpoint split_lines (s : str) (cur : str) : list str :=
  match s with
  | [] => [rev cur]
  | c :: r => if is_nl c then rev cur :: split_lines r [] else split_lines r (c :: cur)
  end.

Definition is_digit (c : ascii) : bool := let n := nat_of_ascii c in Nat.leb 48 n && Nat.leb n 57.
Definition all_digits (s : str) : bool := match s with [] => false | _ => forallb is_digit s end.
Definition digitish (s : str) : bool :=
  match s with [] => false | _ => forallb (fun c => is_digit c || Ascii.eqb c (ch "_")) s end.
Fixpoint digits_val (s : str) (acc : Z) : Z :=
  match s with
  | [] => acc
  | c :: r => digits_val r (acc * 10 + Z.of_nat (nat_of_ascii c - 48))
  end.
Definition starts_with (p s : str) : bool := str_eqb p (firstn (length p) s).
(* str.isspace() on an ASCII line *)
Definition all_space (s : str) : bool := match s with [] => false | _ => forallb is_ws s end.

Definition tt_of (t : token) : ttok := mkTT (t_ty t) (t_col t) (t_str t).
(* Token.empty(string): KEYWORD at line -1 col -1 *)
Definition tt_empty (s : str) : ttok := mkTT KEYWORD (-1) s.

Definition nmacros := list (str * str).
Fixpoint lookup_num (nm : nmacros) (k : str) : option str :=
  match nm with
  | [] => None
  | (k', v) :: r => if str_eqb k' k then Some v else lookup_num r k
  end.

Record hstate := mkH { h_mt : mtable; h_num : nmacros; h_envs : list str }.

Definition has_key (mt : mtable) (k : str) : bool :=
  match lookup_macro mt k with Some _ => true | None => false end.

Fixpoint remove_str (x : str) (l : list str) : list str :=
  match l with
  | [] => []
  | y :: r => if str_eqb x y then r else y :: remove_str x r
  end.

(* header_parse.__template_columns (fixes/C16-macro-in-macro-body-adjacency.patch): the tokens of a macro body are
   laid out again so that a token starts at `col + length` of the previous one EXACTLY when it is connected to it
   (Token.end: a token that came out of another macro used in the body ends where that macro's NAME ended in the
   header line).  `prev` = the previous source token and the column right after its re-positioned copy. *)
Fixpoint norm_body (prev : option (token * Z)) (toks : list token) : list ttok :=
  match toks with
  | [] => []
  | t :: r =>
      let col := match prev with
                 | None => t_col t
                 | Some (p, pend) => if is_connected t p then pend
                                     else if t_col t <=? pend then pend + 1 else t_col t
                 end in
      let tt := mkTT (t_ty t) col (t_str t) in
      tt :: norm_body (Some (t, col + tt_length tt)) r
  end.

(* `#enum Class [start] members...`: the optional start.  header_parse:
       start = 0
       if is_number(arg_tokens[1].string): start = int(arg_tokens[1].string); del arg_tokens[1]
   A start WAS GIVEN iff the token after the class name is an integer literal - whatever its value (an explicit
   `0` is a start, not a member).  A header token never carries a sign (`-5` is the operator `-` and the word `5`),
   so int() accepts exactly digit strings, and digit groups joined by `_` (declined here: EUnsupported). *)
Definition enum_args (a1 : token) (rest : list token) : result (Z * list token) :=
  if digitish (t_str a1) && negb (all_digits (t_str a1)) then Err EUnsupported
  else if all_digits (t_str a1) then Ok (digits_val (t_str a1) 0, rest)
  else Ok (0, a1 :: rest).

(* ------------------------------------------------------------------ directives *)
Section Header.
Variable pinned_enum : bool.      (* true: number_macros rule of the pinned tree for #enum *)
Variable nest_fix : bool.         (* true: macro bodies are laid out again (norm_body); false: the tree without that fix *)
Variable namespace : str.

Definition body_of (toks : list token) : list ttok := if nest_fix then norm_body None toks else map tt_of toks.

(* enum members: Token(KEYWORD, line, 0, str(start)), start += 1; a later key overrides an earlier one *)
Fixpoint enum_items (cls : str) (items : list token) (start : Z) (first_text : str) (h : hstate) : hstate :=
  match items with
  | [] => h
  | it :: r =>
      let key := cls ++ [ch "."] ++ t_str it in
      let v := s2l (z_dec start) in
      let num := if pinned_enum
                 then (if all_digits first_text then (key, first_text) :: h_num h else h_num h)
                 else (key, v) :: h_num h in
      enum_items cls r (start + 1) first_text
                 (mkH (mkMacro key 0 [mkTT KEYWORD 0 v] :: h_mt h) num (h_envs h))
  end.

Definition directive (h : hstate) (toks : list token) : result hstate :=
  match toks with
  | [] => Err EUnsupported
  | d :: args =>
      if negb (ttype_eqb (t_ty d) KEYWORD) then Err EUnexpectedBracket
      else if str_eqb (t_str d) (s2l "define") then
        match args with
        | [] => Err EExpectedSemicolon
        | k :: rest =>
            if negb (ttype_eqb (t_ty k) KEYWORD) then Err EExpectedSemicolon
            else if has_key (h_mt h) (t_str k) then Err EUnnecessarySemicolon
            else
              match rest with
              | [] => Ok (mkH (mkMacro (t_str k) 0 [] :: h_mt h) (h_num h) (h_envs h))
              | p :: body =>
                  if ttype_eqb (t_ty p) PAREN_ROUND && is_connected p k then
                    (* #define KEY(a, b) body : recorded with a non-zero arity (not expanded by the model) *)
                    Ok (mkH (mkMacro (t_str k) 1 (body_of body) :: h_mt h) (h_num h) (h_envs h))
                  else if digitish (t_str p) && negb (all_digits (t_str p)) then Err EUnsupported
                  else
                    Ok (mkH (mkMacro (t_str k) 0 (body_of rest) :: h_mt h)
                            (if all_digits (t_str p) then (t_str k, t_str p) :: h_num h else h_num h)
                            (h_envs h))
              end
        end
      else if str_eqb (t_str d) (s2l "env") then
        match args with
        | [k] =>
            if negb (ttype_eqb (t_ty k) KEYWORD) then Err EExpectedSemicolon
            else if has_key (h_mt h) (t_str k) then Err EUnnecessarySemicolon
            else
              let v := if mem_str (t_str k) (h_envs h) then s2l "1" else s2l "0" in
              Ok (mkH (mkMacro (t_str k) 0 [tt_empty v] :: h_mt h) ((t_str k, v) :: h_num h)
                      (remove_str (t_str k) (h_envs h)))
        | _ => Err EExpectedSemicolon
        end
      else if str_eqb (t_str d) (s2l "enum") then
        match args with
        | cls :: a1 :: rest =>
            match enum_args a1 rest with
            | Err e => Err e
            | Ok (start, items) =>
                match items with
                | [] => Err EExpectedSemicolon
                | f :: _ => Ok (enum_items (t_str cls) items start (t_str f) h)
                end
            end
        | _ => Err EExpectedSemicolon
        end
      else if str_eqb (t_str d) (s2l "bind") then
        match args with
        | [] => Err EExpectedSemicolon
        | b :: keys =>
            if str_eqb (t_str b) (s2l "__namespace__") then
              let ks := match keys with [] => [t_str b] | _ => map t_str keys end in
              fold_left (fun (acc : result hstate) k =>
                           match acc with
                           | Err e => Err e
                           | Ok h' => if has_key (h_mt h') k then Err EUnnecessarySemicolon
                                      else Ok (mkH (mkMacro k 0 [tt_empty namespace] :: h_mt h') (h_num h') (h_envs h'))
                           end) ks (Ok h)
            else if str_eqb (t_str b) (s2l "EVAL") || str_eqb (t_str b) (s2l "NOT") then
              let ks := match keys with [] => [t_str b] | _ => map t_str keys end in
              Ok (mkH (map (fun k => mkMacro k 1 []) (rev ks) ++ h_mt h) (h_num h) (h_envs h))
            else Err EUnsupported
        end
      else if mem_str (t_str d) (map s2l ["credit"; "forcebst"; "override"; "link"; "command"; "del"; "resource";
                                          "nometa"; "show_private_command"]%string)
      then Ok h
      else Err EUnsupported
  end.

Fixpoint header_lines (lines : list str) (n : Z) (h : hstate) : result hstate :=
  match lines with
  | [] => Ok h
  | l :: r =>
      if all_space l || starts_with (s2l "//") l || match l with [] => true | _ => false end
      then header_lines r (n + 1) h
      else
        match l with
        | c :: body =>
            if negb (Ascii.eqb c HASH) then Err EUnexpectedBracket
            else if starts_with (s2l "deepdefine") body then Err EUnsupported
            else
              match parse (h_mt h) false false false false n 2 body with
              | Err e => Err e
              | Ok [] => Err EUnsupported
              | Ok (toks :: _) =>
                  match directive h toks with
                  | Ok h' => header_lines r (n + 1) h'
                  | Err e => Err e
                  end
              end
        | [] => header_lines r (n + 1) h
        end
  end.

Definition parse_header (text : str) (envs : list str) : result hstate :=
  header_lines (split_lines text []) 1 (mkH [] [] envs).
End Header.

