(* Model.DeclNames — the two name tables a function DECLARATION is checked against (property C08, misc triage 4a/4b).

   Ports (src/jmc/compile):
     lexer.py            parse_func_tokens: `if func_path in self.datapack.functions` (pinned) /
                         `… or func_path in self.datapack.lazy_func` (fixes/C08-lazy-duplicate-declaration.patch)
                         -> "Duplicate function declaration(<path>)"; parse_func / parse_decorated_function:
                         functions[path] = <body>  for a plain / saved-decorated (@add, @private, @root) function
     decorator_parse.py  Lazy.modify / If.modify: lazy_func[path] = pre_func (a dict assignment: replaces) — a
                         TEMPLATE (@lazy / @if): no file, its body is expanded at every call
     lexer_func_content.py  a call `name()`: `if func in lazy_func` -> the template's body is expanded in place,
                         else `function <ns>:<path>` is printed and the path is recorded in functions_called
     datapack.py build() every recorded call must name a key of `functions` ("… was never defined" /
                         "Lazy function … used before definition")
   An event is a declaration (kind, path) or a call of a path, in source order; the index of an event is its
   position.  `fixed` selects the repaired (true) or the pinned (false) membership test.
   Outside THIS model: the `_` idiom (a template whose last path segment is `_` is deleted from lazy_func by its
   first call; `@if` on `_` is an instant call that is never stored) and bodies — both are in Model/DeclUse.v
   (strengthening round 4: what a USE does to the tables, template bodies re-run at every use); parameters. *)
From Coq Require Import String List Bool Arith.
Import ListNotations.

Inductive dkind := KPlain | KSaved | KTemplate.
Inductive event := Decl (k : dkind) (p : string) | Call (p : string).

Record tables := mkT {
  t_funs : list (string * nat);     (* datapack.functions : path -> index of the declaration *)
  t_lazy : list (string * nat)      (* datapack.lazy_func : path -> index of the declaration (newest first) *)
}.
Definition no_tables : tables := mkT [] [].

Fixpoint aget (k : string) (l : list (string * nat)) : option nat :=
  match l with [] => None | (k', v) :: r => if String.eqb k k' then Some v else aget k r end.
Definition amem (k : string) (l : list (string * nat)) : bool :=
  match aget k l with Some _ => true | None => false end.

(* how a call was compiled *)
Inductive resolution :=
| RExpand (i : nat)      (* the body of the template declared by event i was expanded in place *)
| RFile.                 (* `function <ns>:<path>` *)

Inductive outcome :=
| Rej (i : nat)                                             (* "Duplicate function declaration" raised at event i *)
| Done (t : tables) (cs : list (nat * string * resolution)). (* every declaration accepted; the calls in source order *)

Definition declared (fixed : bool) (p : string) (t : tables) : bool :=
  amem p (t_funs t) || (fixed && amem p (t_lazy t)).

Definition store (k : dkind) (p : string) (i : nat) (t : tables) : tables :=
  match k with
  | KTemplate => mkT (t_funs t) ((p, i) :: t_lazy t)
  | _ => mkT ((p, i) :: t_funs t) (t_lazy t)
  end.

Definition resolve (p : string) (t : tables) : resolution :=
  match aget p (t_lazy t) with Some j => RExpand j | None => RFile end.

Fixpoint run (fixed : bool) (i : nat) (evs : list event) (t : tables) : outcome :=
  match evs with
  | [] => Done t []
  | Decl k p :: r => if declared fixed p t then Rej i else run fixed (S i) r (store k p i t)
  | Call p :: r =>
      match run fixed (S i) r t with
      | Rej j => Rej j
      | Done t' cs => Done t' ((i, p, resolve p t) :: cs)
      end
  end.

(* the verdict of the whole compile *)
Inductive verdict :=
| VDup (i : nat)                 (* JMCSyntaxException "Duplicate function declaration", citing event i *)
| VUndefined (lazy : bool)       (* build(): JMCValueError "never defined" / JMCSyntaxException "Lazy function used before definition" *)
| VOk (t : tables) (cs : list (nat * string * resolution)).

Definition dangling (t : tables) (c : nat * string * resolution) : bool :=
  match c with (_, p, RFile) => negb (amem p (t_funs t)) | _ => false end.

Definition compile (fixed : bool) (evs : list event) : verdict :=
  match run fixed 0 evs no_tables with
  | Rej i => VDup i
  | Done t cs =>
      match find (dangling t) cs with
      | Some (_, p, _) => VUndefined (amem p (t_lazy t))
      | None => VOk t cs
      end
  end.

(* ------------------------------------------------------------------ specification vocabulary *)
Fixpoint dpaths (evs : list event) : list string :=         (* the declared paths, in source order *)
  match evs with [] => [] | Decl _ p :: r => p :: dpaths r | Call _ :: r => dpaths r end.
Fixpoint fpaths (evs : list event) : list string :=         (* … of the file-producing declarations *)
  match evs with
  | [] => []
  | Decl KTemplate _ :: r => fpaths r
  | Decl _ p :: r => p :: fpaths r
  | Call _ :: r => fpaths r
  end.
