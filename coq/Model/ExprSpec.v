(* Model.ExprSpec — the SPECIFICATION side of property C02: source expressions, their meaning
   (standard precedence, left associativity, 32-bit wrap-around, floor division), and the
   token list the JMC tokenizer hands to `variable_operation` for them.  Trusted, not verified:
   `render` prints an expression with the parentheses standard precedence needs (the harness
   cross-checks it against Python's own grammar on every generated case). *)
From Coq Require Import ZArith String Ascii List Bool.
From JMCV Require Import Base.Int32 Base.Dec MC.Syntax Model.Names Model.Expr.
Import ListNotations.
Open Scope Z_scope.

(* a source-level score operand: `$name` or `objective:selector`.  `sel` is the selector AS WRITTEN
   in the source (`@e[tag=x, limit=1]`, possibly with blanks, tabs and line breaks in the bracket):
   the score holder JMC emits — and compares when it asks "does the target occur in the expression" —
   is the CLEANED text, for the target (merge_obj_selector: clean_up_paren_token) and for every
   operand (tokens_to_tokens: merge_tokens, which cleans the bracket) alike. *)
Inductive svar := SDollar (name : string) | SObjSel (obj sel : string).

(* clean_up_paren_token (src/jmc/compile/utils.py) on a selector bracket, for the spellings the harness
   generates: the bracket is re-tokenised and the token strings are concatenated, so blanks, tabs and
   line breaks OUTSIDE double-quoted strings disappear; a double-quoted string is printed back
   verbatim.  Restriction (outside this model): single-quoted strings, escapes or a quote character
   inside a string (clean_up re-quotes them with repr), comments and back-ticks inside the bracket.  A blank between
   the selector and its bracket (`@e [tag=x]`) is dropped the same way (the tokens are merged). *)
Definition is_blank (c : ascii) : bool :=
  (Ascii.eqb c " " || Ascii.eqb c "009" || Ascii.eqb c "010")%char.
Definition is_dquote (c : ascii) : bool := Ascii.eqb c """"%char.
Fixpoint clean_from (in_string : bool) (s : string) : string :=
  match s with
  | EmptyString => EmptyString
  | String c r =>
      let in_string' := if is_dquote c then negb in_string else in_string in
      if negb in_string && is_blank c then clean_from in_string' r
      else String c (clean_from in_string' r)
  end.
Definition clean_sel (s : string) : string := clean_from false s.

Definition score_of (nm : names) (v : svar) : score :=
  match v with
  | SDollar n => (n, var_name nm)          (* n includes the `$` *)
  | SObjSel o s => (clean_sel s, o)        (* (holder, objective) *)
  end.

Inductive binop := BAdd | BSub | BMul | BDiv | BMod | BPow.
Inductive expr :=
| EVar (v : svar)
| EConst (z : Z)                (* integer literal, written `-n` when negative *)
| ENeg (e : expr)               (* unary minus *)
| EPar (e : expr)               (* explicit (redundant) parentheses *)
| EBin (o : binop) (l r : expr).

(* ---- meaning.  None = no defined value (division by zero, negative exponent). *)
Definition binop_sem (o : binop) (a b : Z) : option Z :=
  match o with
  | BAdd => Some (wrap (a + b))
  | BSub => Some (wrap (a - b))
  | BMul => Some (wrap (a * b))
  | BDiv => if b =? 0 then None else Some (wrap (a / b))
  | BMod => if b =? 0 then None else Some (wrap (a mod b))
  | BPow => if b <? 0 then None else Some (wrap (a ^ b))
  end.

Fixpoint eval (nm : names) (rdv : score -> Z) (e : expr) : option Z :=
  match e with
  | EVar v => Some (rdv (score_of nm v))
  | EConst z => Some z
  | ENeg e => match eval nm rdv e with Some a => Some (wrap (- a)) | None => None end
  | EPar e => eval nm rdv e
  | EBin o l r =>
      match eval nm rdv l, eval nm rdv r with
      | Some a, Some b => binop_sem o a b
      | _, _ => None
      end
  end.

(* ---- re-spelling: the same expression with its variables written differently *)
Fixpoint respell (f : svar -> svar) (e : expr) : expr :=
  match e with
  | EVar v => EVar (f v)
  | EConst z => EConst z
  | ENeg e1 => ENeg (respell f e1)
  | EPar e1 => EPar (respell f e1)
  | EBin o l r => EBin o (respell f l) (respell f r)
  end.
(* f changes the spelling only: every variable still denotes the same score *)
Definition same_scores (nm : names) (f : svar -> svar) : Prop :=
  forall v, score_of nm (f v) = score_of nm v.
(* e.g. writing every selector compactly *)
Definition canon_svar (v : svar) : svar :=
  match v with SObjSel o s => SObjSel o (clean_sel s) | SDollar _ => v end.

(* the six assignment forms: PEmpty is `:=`, the others `:+= :-= :*= :/= :%=` *)
Definition form_sem (form : opc) (old v : Z) : option Z :=
  match form with
  | PEmpty => Some v
  | PAdd => binop_sem BAdd old v | PSub => binop_sem BSub old v | PMul => binop_sem BMul old v
  | PDiv => binop_sem BDiv old v | PMod => binop_sem BMod old v
  | PPow => None
  end.

(* literals are 32-bit *)
Fixpoint lits_ok (e : expr) : bool :=
  match e with
  | EVar _ => true
  | EConst z => in_int32b z
  | ENeg e | EPar e => lits_ok e
  | EBin _ l r => lits_ok l && lits_ok r
  end.

(* ---- tokens, as produced by the JMC tokenizer for the text after the assignment operator *)
Inductive tok :=
| KNum (z : Z)              (* KEYWORD that is a number *)
| KVarT (v : svar)          (* KEYWORD `$name` or `obj:selector` *)
| KOp (o : opc)             (* OPERATOR + - * / % ** *)
| KParen (l : list tok).    (* PAREN_ROUND, re-tokenised by tokens_to_tokens *)

Definition opc_of (o : binop) : opc :=
  match o with BAdd => PAdd | BSub => PSub | BMul => PMul | BDiv => PDiv | BMod => PMod | BPow => PPow end.

(* binding strength of the outermost construct: atoms 5, power 4, unary minus / negative literal 3,
   * / % 2, + - 1 *)
Definition lvl (e : expr) : nat :=
  match e with
  | EVar _ | EPar _ => 5%nat
  | EConst z => if (z <? 0)%Z then 3%nat else 5%nat
  | ENeg _ => 3%nat
  | EBin BPow _ _ => 4%nat
  | EBin (BMul | BDiv | BMod) _ _ => 2%nat
  | EBin _ _ _ => 1%nat
  end.
Definition need_l (o : binop) : nat :=
  match o with BAdd | BSub => 1 | BMul | BDiv | BMod => 2 | BPow => 5 end%nat.
Definition need_r (o : binop) : nat :=
  match o with BAdd | BSub => 2 | BMul | BDiv | BMod => 3 | BPow => 3 end%nat.

Fixpoint render (e : expr) : list tok :=
  let ctx (need : nat) (e' : expr) (r : list tok) := if Nat.ltb (lvl e') need then [KParen r] else r in
  match e with
  | EVar v => [KVarT v]
  | EConst z => if z <? 0 then [KOp PSub; KNum (- z)] else [KNum z]
  | ENeg e1 => KOp PSub :: ctx 5%nat e1 (render e1)
  | EPar e1 => [KParen (render e1)]
  | EBin o l r => ctx (need_l o) l (render l) ++ [KOp (opc_of o)] ++ ctx (need_r o) r (render r)
  end.

(* source text of a token list (single spaces), used to cross-check the harness's renderer;
   a selector is printed as it was WRITTEN (raw), not cleaned *)
Definition show_svar (v : svar) : string :=
  match v with SDollar n => n | SObjSel o s => o ++ ":" ++ s end.
Definition show_opc (o : opc) : string :=
  match o with PEmpty => "" | PAdd => "+" | PSub => "-" | PMul => "*" | PDiv => "/" | PMod => "%" | PPow => "**" end.
Fixpoint show_tok (t : tok) : string :=
  match t with
  | KNum z => z_dec z
  | KVarT v => show_svar v
  | KOp o => show_opc o
  | KParen l => "( " ++ String.concat " " (map show_tok l) ++ " )"
  end.
Definition show_toks (l : list tok) : string := String.concat " " (map show_tok l).
