(* Model.ExprCtx — WHERE a variable statement stands.  Property C02 (used by the narrow context probes of C01 / C20 too).

   A statement such as `$x := $a * $b + 1;` is lowered to SEVERAL commands.  The language accepts it in
   positions that take exactly ONE command:

       execute if score … [unless score …] run  <statement>;            (lexer_func_content.py, after `run`)
       return run <statement>;      execute if … run return run <statement>;
       $o = <statement>;            (chained assignment: var_operation.py, the nested variable_operation)

   This file is the port of what the compiler does there, as repaired by fixes/C02-10-statement-after-run.patch
   and fixes/C02-11-chained-assignment.patch:

   * FuncContent.__handle_startswith_var: a statement that is not the first token of its command
     (key_pos != 0: it follows `run`) and whose lowering is not exactly one line becomes a private function
     `<ns>:<private>/anonymous/<count>` (add_raw_private_function("anonymous", lines)); the single command
     `function …` takes its place.  After `return run` the last line of that function is itself put behind
     `return run`, so that the value of the statement is handed on.
   * variable_operation, `target = <inner statement>`: an inner statement of exactly one command C gives
     `execute store result score target run C` (merged with a leading `execute store …` of C); any other
     inner statement runs first and its target is copied: `lines…; target = inner target`.

   The tree before the patches put the one-line prefix in front of the FIRST line only (`naive_under`,
   `naive_chain` below): the other lines ran unconditionally / outside `return run` / outside `store`.

   `return` is not a command of MC.Syntax.  `line` adds exactly what is needed here — a command that may
   stand behind `execute <tests> run` and / or `return run` — and `xrun` is its meaning on top of MC.Sem
   (specification, trusted like MC.Sem: `return run C` runs C and leaves the function it is written in with
   C's result; a function that ends without `return` is void; `return run` of a void function returns
   failure; a guarded line whose test fails is skipped). *)
From Coq Require Import ZArith String List Bool.
From JMCV Require Import Base.Int32 Base.Dec MC.Syntax MC.Sem MC.Print Model.Names.
Import ListNotations.

(* ------------------------------------------------------------------ guards *)
Definition guard := list (bool * test).          (* (true, t) = `if t`, (false, t) = `unless t` *)
Definition guard_holds (st : state) (g : guard) : bool :=
  forallb (fun p => Bool.eqb (fst p) (test_true st (snd p))) g.
Definition mods_of_guard (g : guard) : list modifier := map (fun p => MIf (fst p) (snd p)) g.

(* `execute A run execute B` is written `execute A B` (append_commands) *)
Definition exec_under (g : guard) (c : cmd) : cmd :=
  match c with
  | CExecute ms b => CExecute (mods_of_guard g ++ ms)%list b
  | _ => CExecute (mods_of_guard g) c
  end.

(* ------------------------------------------------------------------ lines of a function that may `return` *)
Record line := mkLine {
  l_guard : guard;       (* [] = no `execute … run` in front *)
  l_ret : bool;          (* `return run` in front of the command *)
  l_cmd : cmd
}.
Definition plain (c : cmd) : line := mkLine [] false c.

Definition pr_line (l : line) : string :=
  match l_guard l, l_ret l with
  | [], false => pr_cmd (l_cmd l)
  | [], true => ("return run " ++ pr_cmd (l_cmd l))%string
  | g, false => pr_cmd (exec_under g (l_cmd l))
  | g, true => ("execute " ++ String.concat " " (map pr_mod (mods_of_guard g)) ++ " run return run " ++ pr_cmd (l_cmd l))%string
  end.
Definition pr_lines (l : list line) : string :=
  String.concat (String (Ascii.ascii_of_nat 10) EmptyString) (map pr_line l).

(* ------------------------------------------------------------------ meaning *)
Inductive xout := Fell (st : state) | Returned (st : state) (r : res).

Section XSem.
  Variable ft : string -> option (list cmd).         (* functions without `return` (MC.Sem) *)
  Variable env : nat -> state -> state.
  Variable xft : string -> option (list line).       (* functions that may `return` *)

  (* one command standing in a line: `function p` of a returning function yields its return value
     (None = the function is void) *)
  Definition xcmd (xrun : list line -> state -> option xout) (fuel : nat) (c : cmd) (st : state)
    : option (state * option res) :=
    match c with
    | CCall p =>
      match xft p with
      | Some body => match xrun body st with
                     | Some (Fell st') => Some (st', None)
                     | Some (Returned st' r) => Some (st', Some r)
                     | None => None
                     end
      | None => match exec ft env fuel no_menv c st with Some (st', r) => Some (st', Some r) | None => None end
      end
    | _ => match exec ft env fuel no_menv c st with Some (st', r) => Some (st', Some r) | None => None end
    end.

  Fixpoint xrun (fuel : nat) (l : list line) (st : state) : option xout :=
    match fuel with
    | O => None
    | S f =>
      match l with
      | [] => Some (Fell st)
      | ln :: rest =>
        if guard_holds st (l_guard ln) then
          match xcmd (xrun f) f (l_cmd ln) st with
          | None => None
          | Some (st', r) =>
            if l_ret ln then Some (Returned st' (match r with Some r => r | None => r_fail end))
            else xrun f rest st'
          end
        else xrun f rest st
      end
    end.

  (* `execute store result score o run function f` for a function f with these lines: a void function stores nothing *)
  Definition observe (fuel : nat) (o : score) (body : list line) (st : state) : option state :=
    match xrun fuel body st with
    | Some (Returned st' r) => Some (set_sc st' o (val r))
    | Some (Fell st') => Some st'
    | None => None
    end.
End XSem.

(* ------------------------------------------------------------------ chained assignment `o = <inner statement>` *)
(* inner statement of exactly one command *)
Definition store_under (o : score) (c : cmd) : cmd :=
  match c with
  | CExecute (MStore k d :: ms) b => CExecute (MStore SResult (DScore o) :: MStore k d :: ms) b
  | _ => CExecute [MStore SResult (DScore o)] c
  end.
Definition chain_stmt (o out : score) (cmds : list cmd) : list cmd :=
  match cmds with
  | [c] => [store_under o c]
  | _ => (cmds ++ [COp o OAssign out])%list
  end.
(* `o_n = … = o_1 = <statement with target out>`: chain = [o_1; …; o_n] (innermost first) *)
Fixpoint chain_all (chain : list score) (out : score) (cmds : list cmd) : list cmd :=
  match chain with
  | [] => cmds
  | o :: r => chain_all r o (chain_stmt o out cmds)
  end.

(* ------------------------------------------------------------------ the statement in its position *)
Record ctx := mkCtx {
  k_guard : guard;          (* `execute if/unless score … run` in front ([] = none) *)
  k_ret : bool;             (* `return run` in front *)
  k_chain : list score      (* outer targets of a chained assignment, innermost first *)
}.
Definition k_plain (k : ctx) : bool := match k_guard k with [] => negb (k_ret k) | _ => false end.

Definition anon_fn (nm : names) (count : nat) : string :=
  (ns nm ++ ":" ++ private_name nm ++ "/anonymous/" ++ z_dec (Z.of_nat count))%string.

Definition ret_last (body : list cmd) : list line :=
  match body with
  | [] => []
  | _ => (map plain (removelast body) ++ [mkLine [] true (last body (COther ""))])%list
  end.

Definition fdef := (string * list line)%type.

(* -> lines standing in the enclosing function, private functions created *)
Definition place (nm : names) (k : ctx) (count : nat) (out : score) (cmds : list cmd) : list line * list fdef :=
  let body := chain_all (k_chain k) out cmds in
  if k_plain k then (map plain body, [])
  else match body with
       | [c] => ([mkLine (k_guard k) (k_ret k) c], [])
       | _ => let p := anon_fn nm count in
              ([mkLine (k_guard k) (k_ret k) (CCall p)],
               [(p, if k_ret k then ret_last body else map plain body)])
       end.

(* several statements of one function, the `anonymous` counter threaded *)
Fixpoint place_all (nm : names) (count : nat) (l : list (ctx * score * list cmd)) : list line * list fdef :=
  match l with
  | [] => ([], [])
  | (k, out, cmds) :: r =>
    let '(ls, fs) := place nm k count out cmds in
    let '(ls', fs') := place_all nm (count + length fs) r in
    ((ls ++ ls')%list, (fs ++ fs')%list)
  end.

(* ------------------------------------------------------------------ MC.Sem only: `execute <tests> run <statement>` *)
(* the same placement without `return` (k_ret = false, no chain), as a command of MC.Syntax *)
Definition wrap_under (nm : names) (g : guard) (count : nat) (cmds : list cmd) : cmd * list (string * list cmd) :=
  match cmds with
  | [c] => (exec_under g c, [])
  | _ => (CExecute (mods_of_guard g) (CCall (anon_fn nm count)), [(anon_fn nm count, cmds)])
  end.

(* ------------------------------------------------------------------ the tree before the patches *)
(* the prefix goes in front of the first line only; a statement without lines leaves `… run ` (not a command) *)
Definition naive_under (g : guard) (cmds : list cmd) : list cmd :=
  match cmds with
  | [] => [COther "execute <tests> run "]
  | c :: rest => exec_under g c :: rest
  end.
Definition naive_chain (o : score) (cmds : list cmd) : list cmd :=
  match cmds with
  | [] => [COther "execute store result score <o> run "]
  | c :: rest => store_under o c :: rest
  end.
