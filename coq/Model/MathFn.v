(* Model.MathFn — Gallina port of MathSqrt.call and MathRandom.call
   (src/jmc/compile/command/builtin_function/_var_operation.py): the commands they
   emit at the call site, the private functions they create and the __load__ lines /
   integer constants they request.  Property C20.
   The model is for the *repaired* MathRandom (fix: commits a9e13bd and 2cdc990 of /repo,
   = fixes/C20-random-min-alias-and-int32-literals.patch):
   - a variable `min` is added to the result *before* the assignment to the target
     (the pinned tree emitted `target = result; target += min`, which doubles the
     result when the target is the min variable itself);
   - the literals `max+1` / `-min+1` of the mixed cases are wrapped to int32 and
     `min = -2147483648` goes through the __int__ constant (the pinned tree emitted
     `scoreboard players set … 2147483648` / `remove … 2147483648`, not valid commands). *)
From Coq Require Import ZArith String List Bool.
From JMCV Require Import Base.Int32 Base.Dec MC.Syntax Model.Names.
Import ListNotations.
Open Scope Z_scope.

(* `<holder> <VAR objective>` and `<n> <INT objective>` *)
Definition vs (nm : names) (h : string) : score := (h, var_name nm).
Definition kscore (nm : names) (z : Z) : score := (z_dec z, int_name nm).

(* DataPack.call_func: "function {namespace}:{private_name}/{name}/{count}" *)
Definition priv_fn (nm : names) (grp sub : string) : string :=
  (ns nm ++ ":" ++ private_name nm ++ "/" ++ grp ++ "/" ++ sub)%string.

(* What one call produces: the text at the call site, the private functions created
   *by this call* (not the shared ones created on first use) and __int__ constants. *)
Record emitted := mkEmitted {
  e_inline : list cmd;
  e_funcs : list (string * list cmd);
  e_ints : list Z
}.

(* `execute <mods> run <call>`: is_execute = True moves the commands into a fresh
   private function numbered by get_count(name). *)
Definition wrap_exec (nm : names) (grp : string) (ex : option (list modifier * Z))
           (run : list cmd) (ints : list Z) : emitted :=
  match ex with
  | None => mkEmitted run [] ints
  | Some (ms, count) =>
    let f := priv_fn nm grp (z_dec count) in
    mkEmitted [CExecute ms (CCall f)] [(f, run)] ints
  end.

(* ------------------------------------------------------------------ Math.sqrt *)
Definition sq_x (nm : names) := vs nm "__math__.x".
Definition sq_xn (nm : names) := vs nm "__math__.x_n".
Definition sq_xsq (nm : names) := vs nm "__main__.x_n_sq".      (* sic: __main__ *)
Definition sq_N (nm : names) := vs nm "__math__.N".
Definition sq_diff (nm : names) := vs nm "__math__.different".
Definition sqrt_scratch (nm : names) : list score :=
  [sq_x nm; sq_xn nm; sq_xsq nm; sq_N nm; sq_diff nm].

Definition sqrt_nr_name (nm : names) := priv_fn nm "math_sqrt" "newton_raphson".
Definition sqrt_main_name (nm : names) := priv_fn nm "math_sqrt" "main".

Definition sqrt_nr_ops (nm : names) : list cmd :=
  [ COp (sq_x nm) OAssign (sq_xn nm);
    COp (sq_xn nm) OAssign (sq_N nm);
    COp (sq_xn nm) ODiv (sq_x nm);
    COp (sq_xn nm) OAdd (sq_x nm);
    COp (sq_xn nm) ODiv (kscore nm 2);
    COp (sq_diff nm) OAssign (sq_x nm);
    COp (sq_diff nm) OSub (sq_xn nm) ].
Definition sqrt_nr_loop (nm : names) : cmd :=
  CExecute [MIf false (Matches (sq_diff nm) (Between 0 1))] (CCall (sqrt_nr_name nm)).
Definition sqrt_nr_body (nm : names) : list cmd := sqrt_nr_ops nm ++ [sqrt_nr_loop nm].

Definition sqrt_main_body (nm : names) : list cmd :=
  [ CSet (sq_xn nm) 1225;
    CCall (sqrt_nr_name nm);
    COp (sq_xsq nm) OAssign (sq_xn nm);
    COp (sq_xsq nm) OMul (sq_xn nm);
    CExecute [MIf true (Cmp (sq_xsq nm) CGt (sq_N nm))] (CRemove (sq_xn nm) 1) ].

(* private functions and constants created on first use (is_never_used) *)
Definition sqrt_shared (nm : names) : list (string * list cmd) :=
  [ (sqrt_nr_name nm, sqrt_nr_body nm); (sqrt_main_name nm, sqrt_main_body nm) ].
Definition sqrt_shared_ints : list Z := [2].

Definition sqrt_run (nm : names) (target arg : score) : list cmd :=
  [ COp (sq_N nm) OAssign arg;
    CCall (sqrt_main_name nm);
    COp target OAssign (sq_xn nm) ].

Definition sqrt_code (nm : names) (ex : option (list modifier * Z)) (target arg : score) : emitted :=
  wrap_exec nm "math_sqrt" ex (sqrt_run nm target arg) [].

(* ------------------------------------------------------------------ Math.random *)
Definition rn_seed (nm : names) := vs nm "__math__.seed".
Definition rn_result (nm : names) := vs nm "__math__.rng.result".
Definition rn_a (nm : names) := vs nm "__math__.rng.a".
Definition rn_c (nm : names) := vs nm "__math__.rng.c".
Definition rn_bound (nm : names) := vs nm "__math__.rng.bound".
Definition rn_tmp (nm : names) := vs nm "__math__.tmp".
Definition random_scratch (nm : names) : list score :=
  [rn_seed nm; rn_result nm; rn_a nm; rn_c nm; rn_bound nm; rn_tmp nm].

Definition LCG_A : Z := 656891.
Definition LCG_C : Z := 875773.

Definition random_main_name (nm : names) := priv_fn nm "math_random" "main".
Definition random_setup_name (nm : names) := priv_fn nm "math_random" "setup".

Definition random_main_ops (nm : names) : list cmd :=
  [ COp (rn_seed nm) OMul (rn_a nm);
    COp (rn_seed nm) OAdd (rn_c nm);
    COp (rn_result nm) OAssign (rn_seed nm);
    COp (rn_tmp nm) OAssign (rn_result nm);
    COp (rn_result nm) OMod (rn_bound nm);
    COp (rn_tmp nm) OSub (rn_result nm);
    COp (rn_tmp nm) OAdd (rn_bound nm) ].
Definition random_main_loop (nm : names) : cmd :=
  CExecute [MIf true (Matches (rn_tmp nm) (To 0))] (CCall (random_main_name nm)).
Definition random_main_body (nm : names) : list cmd := random_main_ops nm ++ [random_main_loop nm].

Definition random_tag (nm : names) : string := (private_name nm ++ ".math_random")%string.
Definition random_setup_body (nm : names) : list cmd :=
  [ COther ("summon area_effect_cloud ~ ~ ~ {Tags:[""" ++ random_tag nm ++ """]}")%string;
    CExecute [MStore SResult (DScore (rn_seed nm))]
             (COther ("data get entity @e[limit=1,type=area_effect_cloud,tag=" ++ random_tag nm ++ "] UUID[0] 1")%string);
    COther ("kill @e[type=area_effect_cloud,tag=" ++ random_tag nm ++ "]")%string;
    CSet (rn_a nm) LCG_A;
    CSet (rn_c nm) LCG_C ].
(* line added to __load__ on first use *)
Definition random_load_line (nm : names) : cmd :=
  CExecute [MIf false (Matches (rn_seed nm) (Between INT_MIN INT_MAX))] (CCall (random_setup_name nm)).

Definition random_shared (nm : names) : list (string * list cmd) :=
  [ (random_setup_name nm, random_setup_body nm); (random_main_name nm, random_main_body nm) ].

(* an argument of Math.random: integer literal, or $variable / objective:selector *)
Inductive opnd := PLit (z : Z) | PScore (s : score).

Definition random_bound_cmds (nm : names) (lo hi : opnd) : list cmd :=
  let bound := rn_bound nm in
  match lo, hi with
  | PLit a, PLit b => [CSet bound (b - a + 1)]
  | PScore s, PLit b => [CSet bound (wrap (b + 1)); COp bound OSub s]
  | PLit a, PScore t => [CSet bound (wrap (- a + 1)); COp bound OAdd t]
  | PScore s, PScore t => [COp bound OAssign t; COp bound OSub s; CAdd bound 1]
  end.

Definition random_tail_cmds (nm : names) (target : score) (lo : opnd) : list cmd :=
  match lo with
  | PLit a =>
    COp target OAssign (rn_result nm) ::
    (if a =? INT_MIN then [COp target OAdd (kscore nm a)]
     else if a <? 0 then [CRemove target (- a)]
     else if 0 <? a then [CAdd target a]
     else [])
  | PScore s => [COp (rn_result nm) OAdd s; COp target OAssign (rn_result nm)]
  end.

Definition random_ints (lo : opnd) : list Z :=
  match lo with PLit a => if a =? INT_MIN then [a] else [] | PScore _ => [] end.

Definition random_run (nm : names) (target : score) (lo hi : opnd) : list cmd :=
  random_bound_cmds nm lo hi ++ [CCall (random_main_name nm)] ++ random_tail_cmds nm target lo.

(* None = JMCValueError("max cannot be less than min") *)
Definition random_code (nm : names) (ex : option (list modifier * Z)) (target : score) (lo hi : opnd)
  : option emitted :=
  match lo, hi with
  | PLit a, PLit b => if b <? a then None
                      else Some (wrap_exec nm "math_random" ex (random_run nm target lo hi) (random_ints lo))
  | _, _ => Some (wrap_exec nm "math_random" ex (random_run nm target lo hi) (random_ints lo))
  end.

(* ------------------------------------------------------------------ ideal arithmetic *)
(* One Newton step as the emitted code computes it (x_n = N / x; += x; /= 2), on
   unbounded integers. *)
Definition nstep (n x : Z) : Z := (n / x + x) / 2.
(* the values the step writes into scores *)
Definition nstep_vals (n x : Z) : list Z := [n / x; n / x + x; nstep n x; x - nstep n x].

(* The loop of newton_raphson.mcfunction on unbounded integers, started with x_n = x:
   all values written on the way and the final x_n.  Division by 0 is excluded: in
   Minecraft it is a failed command, not 0. *)
Inductive nr_run (n : Z) : Z -> list Z -> Z -> Prop :=
| nr_stop x : x <> 0 -> 0 <= x - nstep n x <= 1 -> nr_run n x (nstep_vals n x) (nstep n x)
| nr_more x vs y : x <> 0 -> ~ (0 <= x - nstep n x <= 1) -> nr_run n (nstep n x) vs y ->
                   nr_run n x (nstep_vals n x ++ vs) y.

(* main.mcfunction on unbounded integers: every value written (the Newton run from 1225,
   then x_n_sq = y*y and, only when y*y > n, the decrement) and the final x_n *)
Definition sqrt_trace (n : Z) (vs : list Z) (r : Z) : Prop :=
  exists vs0 y, nr_run n 1225 vs0 y /\
    vs = vs0 ++ [y * y] ++ (if y * y >? n then [y - 1] else []) /\
    r = (if y * y >? n then y - 1 else y).

(* the generator step `seed *= a; seed += c` *)
Definition lcg (s : Z) : Z := wrap (wrap (s * LCG_A) + LCG_C).
(* a fresh seed is accepted by the rejection test of math_random/main for bound b *)
Definition lcg_acc (b s : Z) : Prop := 0 <= s /\ s - s mod b + b <= INT_MAX.
(* some later seed is accepted *)
Inductive lcg_reaches (b : Z) : Z -> Prop :=
| lr_now s : lcg_acc b (lcg s) -> lcg_reaches b s
| lr_later s : lcg_reaches b (lcg s) -> lcg_reaches b s.
