(* Model.Switch — Gallina port of the lowering of `switch` (property C06):
     src/jmc/compile/command/_flow_control.py
        switch()                  label parsing: first label, contiguity rule, `default`, `break` removal
        is_macro_switch()         strategy choice  (version >= VANILLA_MACRO and not #forcebst)
        parse_switch()            count allocation, macro dispatcher (__found_case__ / default / switch_key),
                                  binary-search root call (guard of a one-case tree)
        __parse_switch_binary()   range halving, match_less / match_more, pre-order count allocation
     src/jmc/compile/command/builtin_function/execute_excluded.py   HardcodeSwitch.call (begin_at .. count)
     src/jmc/compile/pack_version.py                                PackVersion.__ge__, PackVersion.require
     src/jmc/compile/datapack.py / datapack_data.py                 get_count, add_raw_private_function
                                                                    (dict assignment: a later function of the same
                                                                    name replaces the earlier), call_func,
                                                                    get_current_switch
   No proofs here.  The model is of the tree *with* the three fixes/C06-*.patch applied
   (single-case guard, strategy-based label rule, label-aware statement termination). *)
From Coq Require Import ZArith String List Bool.
From JMCV Require Import Base.Int32 Base.Dec MC.Syntax Model.Names.
Import ListNotations.
Open Scope Z_scope.

Local Notation "a +++ b" := (String.append a b) (at level 60, right associativity).

(* ------------------------------------------------------------------ configuration *)

Record cfg := mkCfg { pack_format : Z; force_bst : bool }.

Definition VANILLA_MACRO : Z := 16.                 (* PackVersionFeature.VANILLA_MACRO *)
Definition ANY_FORMAT : Z := -1.                    (* the pack_format PackVersion.require never rejects *)

(* PackVersion.__ge__ *)
Definition version_ge (pf v : Z) : bool := v <=? pf.
(* PackVersion.require(v) raises MinecraftVersionTooLow *)
Definition require_fails (pf v : Z) : bool := negb (pf =? ANY_FORMAT) && (pf <? v).

Inductive strategy := Bst | Macro.
Definition is_macro (c : cfg) : bool := version_ge (pack_format c) VANILLA_MACRO && negb (force_bst c).
Definition strategy_of (c : cfg) : strategy := if is_macro c then Macro else Bst.

Inductive error := EVersionTooLow | ESyntax | EValueError | EFuel.
Inductive result (A : Type) := Ok (a : A) | Err (e : error).
Arguments Ok {A} a.
Arguments Err {A} e.

(* ------------------------------------------------------------------ names *)

Definition func := (string * list cmd)%type.

(* f"{namespace}:{private_name}/{group}/{leaf}" *)
Definition priv_path (nm : names) (group leaf : string) : string :=
  ns nm +++ ":" +++ private_name nm +++ "/" +++ group +++ "/" +++ leaf.

Definition SWITCH_CASE_NAME : string := "switch_case".
Definition HARDCODE_SWITCH_NAME : string := "hardcode_switch".

(* data.get_current_switch():  __switch__<n>  in the VAR objective *)
Definition tmp_score (nm : names) (sid : Z) : score := ("__switch__" +++ z_dec sid, var_name nm).
Definition found_score (nm : names) : score := ("__found_case__"%string, var_name nm).
Definition storage_id (nm : names) : string := ns nm +++ ":" +++ storage_name nm.
Definition switch_key_path (nm : names) : string := storage_id nm +++ " switch_key".

(* a later definition of the same name replaces the earlier one (Python dict assignment) *)
Fixpoint fget_last (l : list func) (k : string) : option (list cmd) :=
  match l with
  | [] => None
  | (k', b) :: r => match fget_last r k with
                    | Some x => Some x
                    | None => if String.eqb k' k then Some b else None
                    end
  end.

(* ------------------------------------------------------------------ binary search tree *)

(* match_less / match_more:  f"{a}..{b}" if a != b else a *)
Definition match_range (a b : Z) : range := if a =? b then Exact a else Between a b.

Definition guarded_call (tmp : score) (r : range) (f : string) : cmd :=
  CExecute [MIf true (Matches tmp r)] (CCall f).

(* __parse_switch_binary(min_=lo, max_=hi, count=my, …).  `next` is private_function_count[group];
   fuel = number of labels is always enough (Proofs.Switch.bst_fuel_irrelevant). *)
Fixpoint bst (fuel : nat) (nm : names) (group : string) (tmp : score) (bodies : list (list cmd))
         (start lo hi my next : Z) : list func * Z :=
  match fuel with
  | O => ([], next)
  | S f =>
    if hi =? lo then
      ([(priv_path nm group (z_dec my), nth (Z.to_nat (lo - start)) bodies [])], next)
    else
      let count_less := next in
      let count_more := next + 1 in
      let half2 := lo + (hi - lo + 1) / 2 in
      let half1 := half2 - 1 in
      let node := (priv_path nm group (z_dec my),
                   [guarded_call tmp (match_range lo half1) (priv_path nm group (z_dec count_less));
                    guarded_call tmp (match_range half2 hi) (priv_path nm group (z_dec count_more))]) in
      let '(fl, n1) := bst f nm group tmp bodies start lo half1 count_less (next + 2) in
      let '(fr, n2) := bst f nm group tmp bodies start half2 hi count_more n1 in
      (node :: fl ++ fr, n2)
  end.

(* compile-time state threaded through one group: (private function count of the group, switch id counter) *)

(* parse_switch, binary-search branch.  guard1 = guard_single_case *)
Definition parse_switch_bst (nm : names) (group : string) (x : score) (bodies : list (list cmd))
           (start : Z) (guard1 : bool) (pc sid : Z) : result (list cmd * list func * Z * Z) :=
  let n := Z.of_nat (length bodies) in
  if n =? 0 then Err EValueError           (* "min_ is more than max_ in __parse_switch_binary" *)
  else
    let tmp := tmp_score nm sid in
    let '(fs, pc') := bst (length bodies) nm group tmp bodies start start (start + n - 1) pc (pc + 1) in
    let root := CCall (priv_path nm group (z_dec pc)) in
    let call := if guard1 && (n =? 1) then CExecute [MIf true (Matches tmp (Exact start))] root else root in
    Ok ([COp tmp OAssign x; call], fs, pc', sid + 1).

(* ------------------------------------------------------------------ macro dispatch *)

Inductive label := LNum (z : Z) | LDefault.
Definition is_default (l : label) : bool := match l with LDefault => true | _ => false end.
Definition label_eqb (a b : label) : bool :=
  match a, b with LNum x, LNum y => x =? y | LDefault, LDefault => true | _, _ => false end.
Definition label_str (l : label) : string := match l with LNum z => z_dec z | LDefault => "default" end.

Definition macro_prefix (nm : names) (group : string) (pc : Z) : string :=
  priv_path nm group (z_dec pc +++ "/").
Definition macro_case_name (nm : names) (group : string) (pc : Z) (l : label) : string :=
  priv_path nm group (z_dec pc +++ "/" +++ label_str l).
Definition macro_select_name (nm : names) (group : string) (pc : Z) : string :=
  priv_path nm group (z_dec pc +++ "/select").

Definition has_default (cases : list (label * list cmd)) : bool := existsb (fun c => is_default (fst c)) cases.

Definition macro_case_body (nm : names) (hd : bool) (c : label * list cmd) : list cmd :=
  if hd && negb (is_default (fst c)) then snd c ++ [CSet (found_score nm) 1] else snd c.

Definition parse_switch_macro (nm : names) (group : string) (x : score) (cases : list (label * list cmd))
           (pc : Z) : list cmd * list func * Z :=
  let hd := has_default cases in
  let case_fn := fun c => (macro_case_name nm group pc (fst c), macro_case_body nm hd c) in
  let select := (macro_select_name nm group pc, [CMacroCall (macro_prefix nm group pc) "switch_key"]) in
  let cmds :=
      (if hd then [CSet (found_score nm) 0] else []) ++
      [CExecute [MStore SResult (DStorage (switch_key_path nm))] (CGet x);
       CCallWith (macro_select_name nm group pc) (storage_id nm)] ++
      (if hd then [CExecute [MIf false (Matches (found_score nm) (Exact 1))]
                            (CCall (macro_case_name nm group pc LDefault))] else []) in
  (cmds, map case_fn cases ++ [select], pc + 1).

(* parse_switch: func_count = get_count(name); then the strategy *)
Definition parse_switch (nm : names) (c : cfg) (group : string) (x : score)
           (cases : list (label * list cmd)) (start : Z) (guard1 : bool) (pc sid : Z)
  : result (list cmd * list func * Z * Z) :=
  if is_macro c then
    let '(cmds, fs, pc') := parse_switch_macro nm group x cases pc in Ok (cmds, fs, pc', sid)
  else parse_switch_bst nm group x (map snd cases) start guard1 pc sid.

(* ------------------------------------------------------------------ switch(): labels, default, break *)

(* one statement of a case body: a lone `break;` (dropped wherever it stands) or a statement
   that compiles to the commands cs *)
Inductive item := IBreak | ICmds (cs : list cmd).
Definition body_of (its : list item) : list cmd :=
  flat_map (fun i => match i with IBreak => [] | ICmds cs => cs end) its.

(* the loop over the statements of the switch body: `expected_case` starts at the first label and is
   incremented after every `case`; a label different from the expected one, and `default`, need the
   macro strategy:  version.require(VANILLA_MACRO) first, then (fix) the strategy itself *)
Fixpoint check_labels (c : cfg) (expected : Z) (ls : list label) : result unit :=
  match ls with
  | [] => Ok tt
  | LNum z :: r =>
    if z =? expected then check_labels c (expected + 1) r
    else if require_fails (pack_format c) VANILLA_MACRO then Err EVersionTooLow
    else if negb (is_macro c) then Err ESyntax
    else check_labels c (expected + 1) r
  | LDefault :: r =>
    if require_fails (pack_format c) VANILLA_MACRO then Err EVersionTooLow
    else if negb (is_macro c) then Err ESyntax
    else check_labels c expected r
  end.

Definition entry := (label * list item)%type.

Definition compile_switch (nm : names) (c : cfg) (x : score) (entries : list entry) (pc sid : Z)
  : result (list cmd * list func * Z * Z) :=
  match entries with
  | (LNum start, _) :: _ =>
    match check_labels c start (map fst entries) with
    | Err e => Err e
    | Ok _ => parse_switch nm c SWITCH_CASE_NAME x
                           (map (fun e => (fst e, body_of (snd e))) entries) start true pc sid
    end
  | _ => Err ESyntax            (* "Expected 'case'" / "Switch content cannot be empty" *)
  end.

(* ------------------------------------------------------------------ Hardcode.switch *)

(* range(begin_at, count + 1) *)
Definition hardcode_labels (begin_at count : Z) : list Z :=
  map (fun i => begin_at + Z.of_nat i) (seq 0 (Z.to_nat (count - begin_at + 1))).

Definition compile_hardcode (nm : names) (c : cfg) (x : score) (body : Z -> list cmd)
           (begin_at count : Z) (pc sid : Z) : result (list cmd * list func * Z * Z) :=
  parse_switch nm c HARDCODE_SWITCH_NAME x
               (map (fun i => (LNum i, body i)) (hardcode_labels begin_at count)) begin_at true pc sid.

(* ------------------------------------------------------------------ whole function bodies
   (used by the correspondence only: threads the counters through sequences and nesting;
   bodies of the cases are compiled before parse_switch allocates its count) *)

Inductive stmt :=
| SSay (t : string)
| SBreak
| SSet (x : score) (z : Z)          (* `$x = z;`  (so that a case body can change the switched score) *)
| SCall (f : string)                (* `f();`     a call of the user function f of the same pack *)
| SSwitch (x : score) (entries : list (label * list stmt))
| SHard (x : score) (begin_at count : Z) (tmpl : list (string * string)) (tail : list stmt).
    (* Hardcode.switch(x, (idx)=>{ say "<pre>$idx<post>"; … <tail> }, …): the arrow function's text is
       instantiated and compiled once per index, in order, so the statements of `tail` (which do not
       mention the index) are compiled — and take their counters — once per index *)

Record cstate := mkCS { cs_switch : Z; cs_hard : Z; cs_id : Z }.
Definition cs0 : cstate := mkCS 0 0 0.

Definition hard_body (tmpl : list (string * string)) (i : Z) : list cmd :=
  map (fun p => CSay (fst p +++ z_dec i +++ snd p)) tmpl.

Fixpoint compile_items (fuel : nat) (nm : names) (c : cfg) (l : list stmt) (st : cstate)
  : result (list item * list func * cstate) :=
  match fuel with
  | O => Err EFuel
  | S f =>
    match l with
    | [] => Ok ([], [], st)
    | s :: r =>
      let one : result (item * list func * cstate) :=
          match s with
          | SSay t => Ok (ICmds [CSay t], [], st)
          | SBreak => Ok (IBreak, [], st)
          | SSwitch x entries =>
            (* bodies first, in order *)
            let fix go (es : list (label * list stmt)) (st : cstate)
                : result (list entry * list func * cstate) :=
                match es with
                | [] => Ok ([], [], st)
                | (lb, b) :: es' =>
                  match compile_items f nm c b st with
                  | Err e => Err e
                  | Ok (its, fs1, st1) =>
                    match go es' st1 with
                    | Err e => Err e
                    | Ok (ents, fs2, st2) => Ok ((lb, its) :: ents, fs1 ++ fs2, st2)
                    end
                  end
                end in
            match go entries st with
            | Err e => Err e
            | Ok (ents, fs1, st1) =>
              match compile_switch nm c x ents (cs_switch st1) (cs_id st1) with
              | Err e => Err e
              | Ok (cmds, fs2, pc', sid') =>
                Ok (ICmds cmds, fs1 ++ fs2, mkCS pc' (cs_hard st1) sid')
              end
            end
          | SSet x z => Ok (ICmds [CSet x z], [], st)
          | SCall g => Ok (ICmds [CCall (ns nm +++ ":" +++ g)], [], st)
          | SHard x b cnt tmpl tail =>
            (* the bodies first, one instance per index, in order *)
            let fix go (ls : list Z) (st : cstate) : result (list (list cmd) * list func * cstate) :=
                match ls with
                | [] => Ok ([], [], st)
                | i :: ls' =>
                  match compile_items f nm c tail st with
                  | Err e => Err e
                  | Ok (its, fs1, st1) =>
                    match go ls' st1 with
                    | Err e => Err e
                    | Ok (bs, fs2, st2) => Ok ((hard_body tmpl i ++ body_of its) :: bs, fs1 ++ fs2, st2)
                    end
                  end
                end in
            match go (hardcode_labels b cnt) st with
            | Err e => Err e
            | Ok (bodies, fs1, st1) =>
              match compile_hardcode nm c x (fun i => nth (Z.to_nat (i - b)) bodies []) b cnt
                                     (cs_hard st1) (cs_id st1) with
              | Err e => Err e
              | Ok (cmds, fs2, pc', sid') => Ok (ICmds cmds, fs1 ++ fs2, mkCS (cs_switch st1) pc' sid')
              end
            end
          end in
      match one with
      | Err e => Err e
      | Ok (it, fs1, st1) =>
        match compile_items f nm c r st1 with
        | Err e => Err e
        | Ok (its, fs2, st2) => Ok (it :: its, fs1 ++ fs2, st2)
        end
      end
    end
  end.

(* the user functions of a pack, compiled in source order with the counters threaded through *)
Fixpoint compile_functions (fuel : nat) (nm : names) (c : cfg) (fl : list (string * list stmt)) (st : cstate)
  : result (list func) :=
  match fl with
  | [] => Ok []
  | (name, l) :: r =>
    match compile_items fuel nm c l st with
    | Err e => Err e
    | Ok (its, fs, st1) =>
      match compile_functions fuel nm c r st1 with
      | Err e => Err e
      | Ok more => Ok ((ns nm +++ ":" +++ name, body_of its) :: fs ++ more)
      end
    end
  end.

(* a user function `name` whose body is the statements l *)
Definition compile_function (fuel : nat) (nm : names) (c : cfg) (name : string) (l : list stmt)
  : result (list func) :=
  match compile_items fuel nm c l cs0 with
  | Err e => Err e
  | Ok (its, fs, _) => Ok ((ns nm +++ ":" +++ name, body_of its) :: fs)
  end.
