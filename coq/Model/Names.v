(* Model.Names — the configurable internal names (jmc.txt) and namespace. *)
From Coq Require Import String.
Record names := mkNames {
  ns : string;            (* datapack namespace, e.g. TEST *)
  var_name : string;      (* VAR, default __variable__ *)
  int_name : string;      (* INT, default __int__ *)
  private_name : string;  (* PRIVATE, default __private__ *)
  load_name : string;     (* LOAD *)
  tick_name : string;     (* TICK *)
  storage_name : string   (* STORAGE *)
}.
Definition default_names : names :=
  mkNames "TEST" "__variable__" "__int__" "__private__" "__load__" "__tick__" "__storage__".
