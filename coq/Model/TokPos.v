(* Model.TokPos — positions: what "the (line, col) of a character of the file" is, what the nested
   re-tokenisations of JMC hand to the inner tokenizer, and what it means for a token to be cited at its
   true position.  Definitions only (proofs: Proofs/TokPos.v).

   pos_after p l      position of the character that follows the text l, when l starts at position p
                      (lines and columns are 1-based; a newline character is the last character of its line)
   pos_of file off    position of the character at offset off of file  (= pos_after (1,1) (firstn off file))
   handovers          the column offsets added by the three kinds of hand-over to a nested tokenizer:
                        d_body  : `{...}` bodies of function / class / if / else / while / for / do / switch-less
                                  blocks / `execute ... run {}` / `expand {}`      (lexer.py parse_func_tokens,
                                  parse_class; datapack.py parse_function_token on a PAREN_CURLY token)
                        d_arrow : bodies of arrow functions `() => {...}` (FUNC token: col + 1 when the token is
                                  made, + 0 in parse_function_token)
                        d_args  : argument lists, conditions, lists, JS objects, switch/for headers (col + 1)
                      pinned   = (0, 1, 1)  the tree before fixes/C14-body-handover-col.patch
                      repaired = (1, 1, 1)
   reach h file t     t is a token of the top-level tokenisation of file or of any nested re-tokenisation of
                      the text between the brackets of a reachable bracket token, handed over according to h
   faithful file t    t's (line, col) is the position of an occurrence in file of t's own source text *)
From Coq Require Import ZArith NArith List Bool.
From JMCV Require Import Model.Tok.
Import ListNotations.
Open Scope Z_scope.

Definition pos := (Z * Z)%type.
Definition adv (p : pos) (c : char) : pos :=
  if ceqb c c_nl then (fst p + 1, 1) else (fst p, snd p + 1).
Definition pos_after (p : pos) (l : str) : pos := fold_left adv l p.
Definition pos_of (file : str) (off : nat) : pos := pos_after (1, 1) (firstn off file).

(* ---- hand-overs *)
Record handovers := mkHO { d_body : Z; d_arrow : Z; d_args : Z }.
Definition pinned : handovers := mkHO 0 1 1.
Definition repaired : handovers := mkHO 1 1 1.
Inductive hkind := HBody | HArrow | HArgs.
Definition delta (h : handovers) (k : hkind) : Z :=
  match k with HBody => d_body h | HArrow => d_arrow h | HArgs => d_args h end.

Definition is_bracket (ty : ttype) : bool :=
  match ty with PAREN_ROUND | PAREN_SQUARE | PAREN_CURLY => true | _ => false end.
(* token.string[1:-1] *)
Definition inner (t : token) : str := removelast (tl (t_str t)).

(* ---- the source text a token stands for, as a prefix of the text r that starts at its position *)
Definition token_src (t : token) (r : str) : Prop :=
  match t_type t with
  | STRING => exists q r', r = q :: r' /\ is_quote q = true
  | _ => t_str t <> [] /\ exists r', r = t_str t ++ r'
  end.
(* relative to a sub-text s that starts at position p0 *)
Definition faithful_from (p0 : pos) (s : str) (t : token) : Prop :=
  exists d r, s = d ++ r /\ (t_line t, t_col t) = pos_after p0 d /\ token_src t r.
Definition faithful (file : str) (t : token) : Prop := faithful_from (1, 1) file t.

Section Reach.
Variable uni : str -> option char.
Variable printable : char -> bool.
Variable h : handovers.

Inductive reach (file : str) : token -> Prop :=
| reach_top : forall progs stmt t,
    parse uni printable false true false file 1 1 = Ok progs -> In stmt progs -> In t stmt -> reach file t
| reach_nested : forall outer k alms es asemi progs stmt t,
    reach file outer -> is_bracket (t_type outer) = true ->
    parse uni printable alms es asemi (inner outer) (t_line outer) (t_col outer + delta h k) = Ok progs ->
    In stmt progs -> In t stmt -> reach file t.

(* ---- executable deep search used by the plants of the correspondence: positions of every KEYWORD token
        equal to needle in the deep tree.  A `{...}` is re-tokenised as a body (statements) when that
        succeeds, else as an argument list; `(...)`/`[...]` as argument lists. *)
Definition str_arrow : str := [61%N; 62%N].
Fixpoint deep_find (fuel : nat) (s : str) (line col : Z) (body : bool) (needle : str) : list pos :=
  match fuel with
  | O => []
  | S f =>
    let walk := fix walk (prev_arrow : bool) (l : list token) : list pos :=
      match l with
      | [] => []
      | t :: r =>
        (if ttype_eqb (t_type t) KEYWORD && seqb (t_str t) needle then [(t_line t, t_col t)] else [])
        ++ (if is_bracket (t_type t) then
              if ttype_eqb (t_type t) PAREN_CURLY then
                let k := if prev_arrow then HArrow else HBody in
                match parse uni printable false true false (inner t) (t_line t) (t_col t + delta h k) with
                | Ok _ => deep_find f (inner t) (t_line t) (t_col t + delta h k) true needle
                | _ => deep_find f (inner t) (t_line t) (t_col t + delta h HArgs) false needle
                end
              else deep_find f (inner t) (t_line t) (t_col t + delta h HArgs) false needle
            else [])
        ++ walk (ttype_eqb (t_type t) OPERATOR && seqb (t_str t) str_arrow) r
      end in
    match (if body then parse uni printable false true false s line col
           else parse uni printable false false false s line col) with
    | Ok progs => flat_map (walk false) progs
    | _ => []
    end
  end.
End Reach.
