(* Model.ExprFront — Gallina port of the front half of the `:=` pipeline
   (src/jmc/compile/expression_eval.py, with the C02 repairs fixes/C02-01 .. C02-07 applied):
     tokens_to_tokens      unary minus (a prefix operator token), parentheses flattening
     expression_to_tree    shunting-yard with CustomOrder (only operators that bind at least as
                           tightly as the incoming one are reduced); Expression.__post_init__
     search_for_output_in_tree
     tree_to_operations    temporaries, can_inject, renumbering, fold_constants
   Python object identity is modelled explicitly: a TemporaryVariable object is its creation
   index (NTemp i), the final renaming is a map on indices.
   An `objective:selector[...]` operand is ONE token (KVarT) carrying the selector as written; its
   score is `score_of` = the CLEANED text, which is what the merge of KEYWORD, `:` and the PAREN_SQUARE
   token (merge_tokens -> clean_up_paren_token) leaves in Variable.content (ExprSpec.clean_sel).
   Not modelled: `{command}` operands (CommandNumber), `::` tokens, float literals. *)
From Coq Require Import ZArith String List Bool.
From JMCV Require Import Base.Int32 Base.Dec MC.Syntax Model.Names Model.Expr Model.ExprSpec.
Import ListNotations.
Open Scope Z_scope.

(* ------------------------------------------------------------------ tokens_to_tokens *)
Inductive ftok :=
| FNum (z : Z)                  (* KEYWORD, is_float *)
| FVar (s : score)              (* KEYWORD `$v` / `obj:sel`, already resolved to (holder, objective) *)
| FOp (o : opc)                 (* OPERATOR + - * / % ** *)
| FNeg                          (* OPERATOR "-1*" (NEGATION_STRING): what a unary minus before a variable / parenthesis becomes *)
| FOpen | FClose                (* OPERATOR "(" / ")" *)
| FBad.                         (* KEYWORD that expression_to_tree rejects ("Unrecognized expression token") *)

Definition is_keyword (t : ftok) : bool :=
  match t with FNum _ | FVar _ | FBad => true | _ => false end.
(* return_tokens[-1].token_type == OPERATOR and return_tokens[-1].string != ")" *)
Definition is_open_operator (t : ftok) : bool :=
  match t with FOp _ | FNeg | FOpen => true | _ => false end.

(* state of one call: return_tokens (REVERSED: head = return_tokens[-1]) and is_hanging_negative_sign *)
Definition tt_state := (list ftok * bool)%type.

(* replace the hanging "-" by the negation operator token *)
Definition neg_to_mul (rt : list ftok) : M (list ftok) :=
  match rt with
  | _ :: rest => ret (FNeg :: rest)
  | [] => crash "IndexError"
  end.

Section TTT.
  Variable nm : names.

  Fixpoint ttt_tok (t : tok) (st : tt_state) : M tt_state :=
    let '(rt, hang) := st in
    match t with
    | KOp o =>
        let hang' := hang || (opc_eqb o PSub &&
                              match rt with [] => true | last :: _ => is_open_operator last end) in
        ret (FOp o :: rt, hang')                                  (* `continue`: no check *)
    | KParen l =>
        rt1 <- (if hang then neg_to_mul rt else ret rt) ;;
        inner <- (fix go (l : list tok) (st : tt_state) : M tt_state :=
                    match l with
                    | [] => ret st
                    | x :: r => st' <- ttt_tok x st ;; go r st'
                    end) l ([], false) ;;
        ret (FClose :: fst inner ++ FOpen :: rt1, false)
    | KNum _ | KVarT _ =>
        let this := match t with KNum z => FNum z | KVarT v => FVar (score_of nm v) | _ => FBad end in
        match rt with
        | last :: rest =>
            if is_keyword last then unmodelled "adjacent keyword tokens are merged"
            else if hang then
              match t with
              | KNum z =>
                  (* is_number: merge "-" and the digits into one KEYWORD *)
                  match last with
                  | FOp PSub => ret (FNum (- z) :: rest, false)     (* "-0" is read back as 0 by int() / float() *)
                  | _ => unmodelled "sign merged with a non-minus operator"
                  end
              | _ => rt1 <- neg_to_mul rt ;; ret (this :: rt1, false)
              end
            else ret (this :: rt, false)
        | [] => ret ([this], false)        (* hang is False when return_tokens is empty here *)
        end
    end.

  Fixpoint ttt_list (l : list tok) (st : tt_state) : M tt_state :=
    match l with
    | [] => ret st
    | x :: r => st' <- ttt_tok x st ;; ttt_list r st'
    end.

  Definition tokens_to_tokens (l : list tok) : M (list ftok) :=
    st <- ttt_list l ([], false) ;; ret (rev (fst st)).
End TTT.

(* ------------------------------------------------------------------ trees *)
(* Python classes Constant / Variable / TemporaryVariable / Expression.  An Expression has
   `content` (the operator text at construction) AND `operator` (an Operator object whose content
   __post_init__ may replace): they differ after the E1 - E2 rewrite. *)
Inductive num :=
| NConst (z : Z)
| NVar (s : score)
| NTemp (i : nat)
| NExpr (content oper : opc) (l r : num).

Definition is_expr (n : num) : bool := match n with NExpr _ _ _ _ => true | _ => false end.
Definition is_const (n : num) : bool := match n with NConst _ => true | _ => false end.

(* Expression(op.content, op.token, (left, right), op) followed by __post_init__ *)
Definition mk_expr (o : opc) (l r : num) : num :=
  if is_reflective o && negb (is_expr l) && is_expr r then NExpr o o r l
  else if is_reflective o && is_const l && negb (is_const r) then NExpr o o r l
  else if opc_eqb o PSub && is_expr l && is_expr r
       then NExpr PAdd PAdd (NExpr PMul PMul r (NConst (-1))) l
  else NExpr o o l r.

(* ------------------------------------------------------------------ expression_to_tree *)
(* operator_stack entries: Operator, Negation (an Operator "*" whose get_order is 25), OPEN_BRACKET *)
Inductive sitem := SOp (o : opc) | SNegate | SBracket.

Definition item_order (s : sitem) : Z :=
  match s with SOp o => op_order o | SNegate => 25 | SBracket => 0 end.
Definition item_opc (s : sitem) : opc := match s with SOp o => o | _ => PMul end.

(* incoming.get_order() < operator.get_order()  (CustomOrder.__lt__; the incoming operator is a
   binary Operator: equal orders are decided by its associativity) *)
Definition order_lt (o : opc) (top : sitem) : bool :=
  if op_order o =? item_order top then left_prec o else op_order o <? item_order top.

(* process_stack(is_consume_bracket, incoming): reduce the operators on top of the stack, down to
   the first bracket or — when an operator is coming in — the first operator that binds less tightly *)
Fixpoint process_stack (incoming : option opc) (consume : bool) (ops : list sitem) (nums : list num)
  : M (list sitem * list num) :=
  match ops with
  | [] => ret ([], nums)
  | SBracket :: ops' => ret (if consume then ops' else ops, nums)
  | top :: ops' =>
      if match incoming with Some i => negb (order_lt i top) | None => false end then ret (ops, nums)
      else
        match nums with
        | r :: l :: nums' => process_stack incoming consume ops' (mk_expr (item_opc top) l r :: nums')
        | _ => diag "Number stack is empty when trying to evaluate the expression"
        end
  end.

Fixpoint ett_loop (l : list ftok) (ops : list sitem) (nums : list num) : M (list sitem * list num) :=
  match l with
  | [] => ret (ops, nums)
  | t :: rest =>
      match t with
      | FNum z => ett_loop rest ops (NConst z :: nums)
      | FVar s => ett_loop rest ops (NVar s :: nums)
      | FOp o =>
          '(ops1, nums1) <- process_stack (Some o) false ops nums ;;
          ett_loop rest (SOp o :: ops1) nums1
      | FNeg => ett_loop rest (SNegate :: ops) (NConst (-1) :: nums)     (* a prefix operator reduces nothing *)
      | FOpen => ett_loop rest (SBracket :: ops) nums
      | FClose => '(ops1, nums1) <- process_stack None true ops nums ;; ett_loop rest ops1 nums1
      | FBad => diag "Unrecognized expression token"
      end
  end.

Definition expression_to_tree (l : list ftok) : M num :=
  '(ops, nums) <- ett_loop l [] [] ;;
  '(_, nums1) <- process_stack None false ops nums ;;
  match nums1 with
  | [x] => ret x
  | [] => crash "IndexError"
  | _ => diag "Number stack is not empty at the end of expression evaluation"
  end.

(* ------------------------------------------------------------------ search_for_output_in_tree *)
Fixpoint count_out (out : score) (t : num) : nat :=
  match t with
  | NVar s => if score_eqb s out then 1 else 0
  | NExpr _ _ l r => count_out out l + count_out out r
  | _ => 0
  end%nat.

(* t contains the output exactly once: swap the children of every node entered to the RIGHT, provided
   all of them are reflective (checked on the whole path before any swap) *)
Fixpoint swap_path (out : score) (t : num) : option num :=
  match t with
  | NExpr c o l r =>
      if Nat.ltb 0 (count_out out l) then
        match swap_path out l with Some l' => Some (NExpr c o l' r) | None => None end
      else if is_reflective o then
        match swap_path out r with Some r' => Some (NExpr c o r' l) | None => None end
      else None
  | _ => Some t
  end.

Definition search_for_output (tree : num) (out : score) : bool * num :=
  match count_out out tree with
  | O => (true, tree)
  | S O => match swap_path out tree with Some t' => (true, t') | None => (false, tree) end
  | _ => (false, tree)
  end.

(* ------------------------------------------------------------------ tree_to_operations *)
Definition oper := (num * opc * num)%type.      (* (variable, Operator.content, number) *)

Record tstate := mkT {
  t_ops : list oper;          (* REVERSED *)
  t_max : nat;                (* max_index; all_temporary_variable = [1 .. max_index] *)
  t_free : list nat;          (* free_temporary_variable, sorted by index *)
  t_out : option nat          (* output_variable *)
}.
Definition push (o : oper) (st : tstate) : tstate := mkT (o :: t_ops st) (t_max st) (t_free st) (t_out st).
Definition push_n (n : Z) (o : oper) (st : tstate) : tstate :=
  mkT (repeat o (Z.to_nat n) ++ t_ops st) (t_max st) (t_free st) (t_out st).
Definition set_out (i : nat) (st : tstate) : tstate := mkT (t_ops st) (t_max st) (t_free st) (Some i).
Definition fresh_variable (st : tstate) : nat * tstate :=
  (S (t_max st), mkT (t_ops st) (S (t_max st)) (t_free st) (t_out st)).
(* new_variable(is_reusing) *)
Definition new_variable (st : tstate) : nat * tstate :=
  match t_free st with
  | i :: f => (i, mkT (t_ops st) (t_max st) f (t_out st))
  | [] => fresh_variable st
  end.
(* bisect.insort(free, v, key=index): insort_right *)
Fixpoint insort (i : nat) (l : list nat) : list nat :=
  match l with
  | [] => [i]
  | j :: r => if Nat.ltb i j then i :: l else j :: insort i r
  end.
Definition free_var (i : nat) (st : tstate) : tstate :=
  mkT (t_ops st) (t_max st) (insort i (t_free st)) (t_out st).
Definition free_if_temp (n : num) (st : tstate) : tstate :=
  match n with NTemp j => free_var j st | _ => st end.

(* node.content == "**" : expand  v **= right_var  (lines 342-371 and 393-422, identical) *)
Definition pow_ops (v : num) (rv : num) (st : tstate) : M (num * tstate) :=
  match rv with
  | NConst z =>
      if z <? 0 then tell T_pow_nonconst ;;;
                     diag "Power operator (**) only works on a positive number"
      else if z =? 0 then ret (v, push (v, PEmpty, NConst 1) st)
      else if z =? 1 then ret (v, st)
      else if POW_CAP <? z then unmodelled "huge exponent"
      else
        let power := Z.log2 z in
        let remainder := z - 2 ^ power in
        let '(k2, st1) := new_variable st in
        let st2 := free_var k2 st1 in
        let st3 := if remainder =? 0 then st2 else push (NTemp k2, PEmpty, v) st2 in
        let st4 := push_n power (v, PMul, v) st3 in
        ret (v, push_n remainder (v, PMul, NTemp k2) st4)
  | _ => tell T_pow_nonconst ;;; diag "Power operator (**) only works on a constant"
  end.

(* output.content != left_var.content *)
Definition differs_from_output (out : score) (n : num) : bool :=
  match n with NVar s => negb (score_eqb s out) | _ => true end.

(* fold_constants(left.content, node.content, right.content), None -> JMCSyntaxException *)
Definition fold_node (content : opc) (a b : Z) : M Z :=
  match fold_constants content a b with
  | FVal v => ret v
  | FNone => diag "Constant expression has no value"
  | FFloat => unmodelled "negative exponent (float)"
  end.

Fixpoint tto (out : score) (can_inject : bool) (node : num) (first : bool) (st : tstate)
  : M (num * tstate) :=
  match node with
  | NExpr content oper l r =>
      '(lv, st1) <- tto out can_inject l false st ;;
      '(rv, st2) <- tto out can_inject r false st1 ;;
      match lv with
      | NTemp i =>
          let st3 := if first then set_out i st2 else st2 in
          let st4 := free_if_temp rv st3 in
          if opc_eqb content PPow then pow_ops lv rv st4
          else ret (lv, push (lv, oper, rv) st4)
      | _ =>
          match lv, rv with
          | NConst a, NConst b =>
              v <- fold_node content a b ;;
              if first then
                let '(k, st3) := new_variable st2 in
                ret (NConst v, push (NTemp k, PEmpty, NConst v) (set_out k st3))
              else ret (NConst v, st2)
          | _, _ =>
              (* no copy: k is going to be renamed to the target, which is read here for the first
                 time — k is a temporary that has never been written *)
              let copy := negb can_inject || differs_from_output out lv in
              let '(k, st3) := if copy then new_variable st2 else fresh_variable st2 in
              let st4 := if first then set_out k st3 else st3 in
              let st5 := free_if_temp rv st4 in
              let st6 := if copy then push (NTemp k, PEmpty, lv) st5 else st5 in
              if opc_eqb content PPow then pow_ops (NTemp k) rv st6
              else ret (NTemp k, push (NTemp k, oper, rv) st6)
          end
      end
  | _ => ret (node, st)
  end.

(* operands after the final renaming: scores and constants *)
Inductive onum := CConst (z : Z) | CVar (s : score).
Definition oper2 := (score * opc * onum)%type.

Definition temp_score (nm : names) (k : nat) : score :=
  (("__temp" ++ z_dec (Z.of_nat k) ++ "__")%string, var_name nm).

Section Rename.
  Variable nm : names.
  Variable out : score.
  Variable inject : bool.     (* output_variable.index = -1, content = output.content *)
  Variable ov : nat.          (* index of output_variable *)

  (* temporaries are renumbered 0,1,… in creation order, skipping index -1 *)
  Definition rename_temp (k : nat) : score :=
    if inject && Nat.eqb k ov then out
    else temp_score nm (if inject && Nat.ltb ov k then k - 2 else k - 1)%nat.

  Definition rename_var (n : num) : M score :=
    match n with
    | NTemp k => ret (rename_temp k)
    | NVar s => ret s
    | _ => crash "AttributeError"     (* never: the first component is always a variable *)
    end.
  Definition rename_num (n : num) : M onum :=
    match n with
    | NTemp k => ret (CVar (rename_temp k))
    | NVar s => ret (CVar s)
    | NConst z => ret (CConst z)
    | NExpr _ _ _ _ => crash "AttributeError"
    end.
  Fixpoint rename_ops (l : list oper) : M (list oper2) :=
    match l with
    | [] => ret []
    | (v, o, n) :: r =>
        v' <- rename_var v ;; n' <- rename_num n ;; r' <- rename_ops r ;; ret ((v', o, n') :: r')
    end.
End Rename.

Definition tree_to_operations (nm : names) (tree : num) (out : score) (form : opc) : M (list oper2) :=
  match tree with
  | NExpr _ _ _ _ =>
      let '(can_inject0, tree1) :=
          if opc_eqb form PEmpty then search_for_output tree out else (false, tree) in
      '(_, st) <- tto out can_inject0 tree1 true (mkT [] O [] None) ;;
      match t_out st with
      | None => crash "AssertionError"
      | Some ov =>
          (* `output op= expression`: the value is computed into a temporary first, never injected *)
          let can_inject := can_inject0 in
          ops2 <- rename_ops nm out can_inject ov (rev (t_ops st)) ;;
          ret (ops2 ++ (if can_inject then []
                        else [(out, form, CVar (rename_temp nm out can_inject ov ov))]))
      end
  | NConst z => ret [(out, form, CConst z)]
  | NVar s => ret [(out, form, CVar s)]
  | NTemp _ => crash "AttributeError"
  end.
