(* Model.Layout — Gallina port of the character-level state machine `Tokenizer.parse`
   (src/jmc/compile/tokenizer.py: __parse_chars, __parse_none, __parse_keyword_and_operator,
   __parse_newline, __parse_string, __parse_paren, append_token (object-like macros),
   append_keywords, __should_terminate_line, __is_shorten_if, parse), of `Token.end` /
   `utils.is_connected`, and of `CustomOrder.__lt__` (expression_eval.py).
   Properties C15 (layout independence) and C16 (macros; see Model/Macro.v).

   The model is of the *repaired* code (fixes/C15-*.patch, fixes/C16-*.patch):
     - `is_connected` compares the end position of the previous token (multi-line aware,
       `_macro_end` aware) with the start of the current one;
     - `is_slash` is cleared on newline, on skipped whitespace and when a comment starts.
   The pinned variants are kept as `is_connected_pinned` / `custom_lt_pinned` so that the
   defects they cause can be stated and proved (Props/C15.v, Props/C16.v).

   Ghost instrumentation (write-only, never read by a transition that produces output):
     s_gap    "a character that belongs to no token was consumed since the last token"
     s_pglued "the pending token started right after the previous token"
     t_glued  the value of s_pglued when the token was appended (ideal adjacency)
     s_ev     set when a transition outside the theorems' scope fires: a `#` line comment,
              a string literal whose repr() length differs from its source length, a
              multi-line string literal.
   Python failure modes are explicit: `Err k`.  `EUnsupported` = the model declines
   (escape sequences other than backslash-backslash, backslash-quote, \n \t \r and
   backslash-newline, backtick strings, macros with
   parameters at a use site, non-ASCII text): such inputs are skipped by the tie and counted. *)
From Coq Require Import ZArith String List Bool Ascii.
Import ListNotations.
Open Scope Z_scope.

Definition str := list ascii.
Definition s2l (s : string) : str := list_ascii_of_string s.
Definition l2s (l : str) : string := string_of_list_ascii l.

Fixpoint str_eqb (a b : str) : bool :=
  match a, b with
  | [], [] => true
  | x :: a', y :: b' => Ascii.eqb x y && str_eqb a' b'
  | _, _ => false
  end.
Definition mem_str (x : str) (l : list str) : bool := existsb (str_eqb x) l.
Definition len (l : str) : Z := Z.of_nat (length l).

(* ------------------------------------------------------------------ characters *)
Definition ch (s : string) : ascii := match s with String c _ => c | EmptyString => zero end.
Definition NL : ascii := ascii_of_nat 10.
Definition TAB : ascii := ascii_of_nat 9.
Definition CR : ascii := ascii_of_nat 13.
Definition SP : ascii := ch " ".
Definition SLASH : ascii := ch "/".
Definition BSLASH : ascii := ch "\".
Definition SEMI : ascii := ch ";".
Definition COMMA_C : ascii := ch ",".
Definition HASH : ascii := ch "#".
Definition SQ : ascii := ch "'".
Definition DQ : ascii := ascii_of_nat 34.
Definition BT : ascii := ch "`".
Definition DOLLAR : ascii := ch "$".
Definition AT : ascii := ch "@".

Definition is_nl (c : ascii) : bool := Ascii.eqb c NL.
(* Python's re.match(r"\s+", c) for a one-character ASCII str *)
Definition is_ws (c : ascii) : bool :=
  let n := nat_of_ascii c in
  (Nat.leb 9 n && Nat.leb n 13) || Nat.eqb n 32 || (Nat.leb 28 n && Nat.leb n 31).
Definition is_quote (c : ascii) : bool := Ascii.eqb c SQ || Ascii.eqb c DQ || Ascii.eqb c BT.
Definition is_lparen (c : ascii) : bool := Ascii.eqb c (ch "(") || Ascii.eqb c (ch "[") || Ascii.eqb c (ch "{").
Definition is_rparen (c : ascii) : bool := Ascii.eqb c (ch ")") || Ascii.eqb c (ch "]") || Ascii.eqb c (ch "}").
Definition rparen_of (c : ascii) : ascii :=
  if Ascii.eqb c (ch "(") then ch ")" else if Ascii.eqb c (ch "[") then ch "]" else ch "}".
(* OPERATORS = + - * / > < = % : ! | & ? \ *)
Definition is_op (c : ascii) : bool :=
  existsb (Ascii.eqb c) (s2l "+-*/><=%:!|&?\").

(* ------------------------------------------------------------------ tokens *)
Inductive ttype := KEYWORD | OPERATOR | PAREN_ROUND | PAREN_SQUARE | PAREN_CURLY | STRING | COMMA | FUNC.
Definition ttype_eqb (a b : ttype) : bool :=
  match a, b with
  | KEYWORD, KEYWORD | OPERATOR, OPERATOR | PAREN_ROUND, PAREN_ROUND | PAREN_SQUARE, PAREN_SQUARE
  | PAREN_CURLY, PAREN_CURLY | STRING, STRING | COMMA, COMMA | FUNC, FUNC => true
  | _, _ => false
  end.
Definition is_paren_ty (t : ttype) : bool :=
  match t with PAREN_ROUND | PAREN_SQUARE | PAREN_CURLY => true | _ => false end.

Record token := mkTok {
  t_ty : ttype; t_line : Z; t_col : Z; t_str : str;
  t_mlen : Z;                       (* Token._macro_length *)
  t_mend : option (Z * Z);          (* Token._macro_end (fix) *)
  t_glued : bool                    (* ghost *)
}.

Definition count_nl (s : str) : Z := len (filter is_nl s).
(* number of characters after the last newline *)
Fixpoint after_last_nl (s : str) (acc : Z) : Z :=
  match s with
  | [] => acc
  | c :: r => if is_nl c then after_last_nl r 0 else after_last_nl r (acc + 1)
  end.

(* len(repr(s)) for an ASCII str *)
Definition has_char (c : ascii) (s : str) : bool := existsb (Ascii.eqb c) s.
Definition repr_len (s : str) : Z :=
  let esc_sq := has_char SQ s && has_char DQ s in
  2 + fold_right (fun c acc =>
        let n := nat_of_ascii c in
        (if Ascii.eqb c BSLASH then 2
         else if Ascii.eqb c NL || Ascii.eqb c TAB || Ascii.eqb c CR then 2
         else if Ascii.eqb c SQ then (if esc_sq then 2 else 1)
         else if Nat.ltb n 32 || Nat.eqb n 127 then 4
         else 1) + acc) 0 s.

(* Token.length *)
Definition tok_length (t : token) : Z :=
  match t_ty t with STRING => repr_len (t_str t) | _ => len (t_str t) end.

(* Token.end (fix): position right after the source text the token stands for *)
Definition tok_end (t : token) : Z * Z :=
  match t_mend t with
  | Some e => e
  | None =>
      match t_ty t with
      | STRING => (t_line t, t_col t + tok_length t)
      | _ => if 0 <? count_nl (t_str t)
             then (t_line t + count_nl (t_str t), after_last_nl (t_str t) 0 + 1)
             else (t_line t, t_col t + tok_length t)
      end
  end.

Definition pos_eqb (a b : Z * Z) : bool := (fst a =? fst b) && (snd a =? snd b).

(* utils.is_connected(current, previous), repaired *)
Definition is_connected (cur prev : token) : bool := pos_eqb (tok_end prev) (t_line cur, t_col cur).

(* utils.is_connected(current, previous) of the pinned tree *)
Definition is_connected_pinned (cur prev : token) : bool :=
  if t_mlen prev =? 0
  then (t_line prev =? t_line cur) && (t_col prev + tok_length prev =? t_col cur)
  else (t_line prev =? t_line cur) &&
       ((t_col cur =? t_col prev + tok_length prev) || (t_col cur =? t_col prev + t_mlen prev)).

(* ------------------------------------------------------------------ CustomOrder.__lt__ *)
Record corder := mkOrd { o_order : Z; o_line : Z; o_col : Z; o_left : bool }.
(* pinned: ties broken by position *)
Definition custom_lt_pinned (a b : corder) : bool :=
  if negb (o_order a =? o_order b) then o_order a <? o_order b
  else if negb (o_line a =? o_line b)
       then (if o_left a then o_line b <? o_line a else o_line a <? o_line b)
       else (if o_left a then o_col b <? o_col a else o_col a <? o_col b).
(* repaired: `a` is always the later operator; associativity alone decides *)
Definition custom_lt (a b : corder) : bool :=
  if negb (o_order a =? o_order b) then o_order a <? o_order b else o_left a.

(* ------------------------------------------------------------------ macros (object-like) *)
(* a template token of a macro body: type, column in the header line, text *)
Record ttok := mkTT { tt_ty : ttype; tt_col : Z; tt_str : str }.
Record macro := mkMacro { m_key : str; m_arity : nat; m_body : list ttok }.
Definition mtable := list macro.

Fixpoint lookup_macro (mt : mtable) (k : str) : option macro :=
  match mt with
  | [] => None
  | m :: r => if str_eqb (m_key m) k then Some m else lookup_macro r k
  end.

Definition tt_length (t : ttok) : Z :=
  match tt_ty t with STRING => repr_len (tt_str t) | _ => len (tt_str t) end.

(* ideal adjacency inside a body: as written in the header line *)
Definition tt_adjacent (prev cur : ttok) : bool := tt_col prev + tt_length prev =? tt_col cur.

(* header_parse.__copy_macro_token for every template token (no parameters):
   col + token.col - replaced_token_col, _macro_length = len(key) *)
Fixpoint expand_body (key_len : Z) (line col base : Z) (prev : option ttok) (first_glued : bool)
         (body : list ttok) : list token :=
  match body with
  | [] => []
  | t :: r =>
      let g := match prev with None => first_glued | Some p => tt_adjacent p t end in
      mkTok (tt_ty t) line (col + tt_col t - base) (tt_str t) key_len None g
      :: expand_body key_len line col base (Some t) first_glued r
  end.

(* Tokenizer.__end_macro (fix): the last token ends where the replaced text ends *)
Fixpoint end_macro (toks : list token) (e : Z * Z) : list token :=
  match toks with
  | [] => []
  | [t] => [mkTok (t_ty t) (t_line t) (t_col t) (t_str t) (t_mlen t) (Some e) (t_glued t)]
  | t :: r => t :: end_macro r e
  end.

Definition expand_macro (m : macro) (line col : Z) (first_glued : bool) : list token :=
  let base := match m_body m with t :: _ => tt_col t | [] => 0 end in
  end_macro (expand_body (len (m_key m)) line col base None first_glued (m_body m))
            (line, col + len (m_key m)).

(* ------------------------------------------------------------------ tokenizer state *)
Inductive skind := SNone | SKeyword | SOperator | SString | SParen | SComment.

Inductive err :=
| EUnexpectedSemicolon | EUnnecessarySemicolon | EUnexpectedBracket | EStringNewline
| EStringUnterminated | EBracketNeverClosed | EExpectedSemicolon | EMacroBracket
| EUnsupported.

Inductive result (A : Type) := Ok (a : A) | Err (e : err).
Arguments Ok {A} a.
Arguments Err {A} e.

Record tstate := mkSt {
  s_line : Z; s_col : Z;
  s_kind : skind;
  s_tstr : str;                 (* token_str, newest character first *)
  s_tpos : Z * Z;               (* token_pos (meaningful while a token is pending) *)
  s_quote : ascii; s_esc : bool;
  s_paren : ascii; s_pcount : Z; s_instr : bool; s_incmt : bool;
  s_slash : bool; s_allowsc : bool;
  s_kws : list token;           (* keywords, newest first *)
  s_lkws : list (list token);   (* list_of_keywords, newest first *)
  s_gap : bool; s_pglued : bool; s_ev : bool
}.

Definition init_state (line col : Z) (allow_sc : bool) : tstate :=
  mkSt line (col - 1) SNone [] (0, 0) zero false zero 0 false false false allow_sc [] [] true false false.

Definition set_pos (st : tstate) (l c : Z) : tstate :=
  mkSt l c (s_kind st) (s_tstr st) (s_tpos st) (s_quote st) (s_esc st) (s_paren st) (s_pcount st)
       (s_instr st) (s_incmt st) (s_slash st) (s_allowsc st) (s_kws st) (s_lkws st) (s_gap st) (s_pglued st) (s_ev st).
Definition set_slash (st : tstate) (b : bool) : tstate :=
  mkSt (s_line st) (s_col st) (s_kind st) (s_tstr st) (s_tpos st) (s_quote st) (s_esc st) (s_paren st) (s_pcount st)
       (s_instr st) (s_incmt st) b (s_allowsc st) (s_kws st) (s_lkws st) (s_gap st) (s_pglued st) (s_ev st).
Definition set_gap (st : tstate) (b : bool) : tstate :=
  mkSt (s_line st) (s_col st) (s_kind st) (s_tstr st) (s_tpos st) (s_quote st) (s_esc st) (s_paren st) (s_pcount st)
       (s_instr st) (s_incmt st) (s_slash st) (s_allowsc st) (s_kws st) (s_lkws st) b (s_pglued st) (s_ev st).
Definition set_ev (st : tstate) : tstate :=
  mkSt (s_line st) (s_col st) (s_kind st) (s_tstr st) (s_tpos st) (s_quote st) (s_esc st) (s_paren st) (s_pcount st)
       (s_instr st) (s_incmt st) (s_slash st) (s_allowsc st) (s_kws st) (s_lkws st) (s_gap st) (s_pglued st) true.
Definition set_incmt (st : tstate) (b : bool) : tstate :=
  mkSt (s_line st) (s_col st) (s_kind st) (s_tstr st) (s_tpos st) (s_quote st) (s_esc st) (s_paren st) (s_pcount st)
       (s_instr st) b (s_slash st) (s_allowsc st) (s_kws st) (s_lkws st) (s_gap st) (s_pglued st) (s_ev st).
Definition set_kind (st : tstate) (k : skind) : tstate :=
  mkSt (s_line st) (s_col st) k (s_tstr st) (s_tpos st) (s_quote st) (s_esc st) (s_paren st) (s_pcount st)
       (s_instr st) (s_incmt st) (s_slash st) (s_allowsc st) (s_kws st) (s_lkws st) (s_gap st) (s_pglued st) (s_ev st).
Definition set_tstr (st : tstate) (t : str) : tstate :=
  mkSt (s_line st) (s_col st) (s_kind st) t (s_tpos st) (s_quote st) (s_esc st) (s_paren st) (s_pcount st)
       (s_instr st) (s_incmt st) (s_slash st) (s_allowsc st) (s_kws st) (s_lkws st) (s_gap st) (s_pglued st) (s_ev st).
Definition set_esc (st : tstate) (b : bool) : tstate :=
  mkSt (s_line st) (s_col st) (s_kind st) (s_tstr st) (s_tpos st) (s_quote st) b (s_paren st) (s_pcount st)
       (s_instr st) (s_incmt st) (s_slash st) (s_allowsc st) (s_kws st) (s_lkws st) (s_gap st) (s_pglued st) (s_ev st).
Definition set_allowsc (st : tstate) (b : bool) : tstate :=
  mkSt (s_line st) (s_col st) (s_kind st) (s_tstr st) (s_tpos st) (s_quote st) (s_esc st) (s_paren st) (s_pcount st)
       (s_instr st) (s_incmt st) (s_slash st) b (s_kws st) (s_lkws st) (s_gap st) (s_pglued st) (s_ev st).
(* paren registers *)
Definition set_preg (st : tstate) (q : ascii) (e : bool) (pc : Z) (instr incmt slash : bool) : tstate :=
  mkSt (s_line st) (s_col st) (s_kind st) (s_tstr st) (s_tpos st) q e (s_paren st) pc
       instr incmt slash (s_allowsc st) (s_kws st) (s_lkws st) (s_gap st) (s_pglued st) (s_ev st).
(* start a token at the current character: kind, first character; pglued := negb gap *)
Definition start_token (st : tstate) (k : skind) (c : ascii) : tstate :=
  mkSt (s_line st) (s_col st) k [c] (s_line st, s_col st) (s_quote st) (s_esc st) (s_paren st) (s_pcount st)
       (s_instr st) (s_incmt st) (s_slash st) (s_allowsc st) (s_kws st) (s_lkws st) (s_gap st) (negb (s_gap st)) (s_ev st).
Definition set_quote (st : tstate) (q : ascii) : tstate :=
  mkSt (s_line st) (s_col st) (s_kind st) (s_tstr st) (s_tpos st) q (s_esc st) (s_paren st) (s_pcount st)
       (s_instr st) (s_incmt st) (s_slash st) (s_allowsc st) (s_kws st) (s_lkws st) (s_gap st) (s_pglued st) (s_ev st).
Definition set_paren (st : tstate) (p : ascii) : tstate :=
  mkSt (s_line st) (s_col st) (s_kind st) (s_tstr st) (s_tpos st) (s_quote st) (s_esc st) p 0
       (s_instr st) (s_incmt st) (s_slash st) (s_allowsc st) (s_kws st) (s_lkws st) (s_gap st) (s_pglued st) (s_ev st).
(* after append_token: token_str is empty, state = None; the new tokens are pushed; gap := false
   (an empty macro expansion leaves the gap as it was before the macro's name) *)
Definition push_tokens (st : tstate) (toks : list token) : tstate :=
  mkSt (s_line st) (s_col st) SNone [] (s_tpos st) (s_quote st) (s_esc st) (s_paren st) (s_pcount st)
       (s_instr st) (s_incmt st) (s_slash st) (s_allowsc st) (rev toks ++ s_kws st) (s_lkws st)
       (match toks with [] => negb (s_pglued st) | _ => false end) (s_pglued st) (s_ev st).
Definition set_out (st : tstate) (kws : list token) (lkws : list (list token)) : tstate :=
  mkSt (s_line st) (s_col st) (s_kind st) (s_tstr st) (s_tpos st) (s_quote st) (s_esc st) (s_paren st) (s_pcount st)
       (s_instr st) (s_incmt st) (s_slash st) (s_allowsc st) kws lkws true (s_pglued st) (s_ev st).

(* ------------------------------------------------------------------ append_token / append_keywords *)
Definition append_token (mt : mtable) (ty : ttype) (st : tstate) : result tstate :=
  let s := rev (s_tstr st) in
  let (l, c) := s_tpos st in
  let plain := push_tokens st [mkTok ty l c s 0 None (s_pglued st)] in
  match ty with
  | KEYWORD =>
      match lookup_macro mt s with
      | Some m => match m_arity m with
                  | O => Ok (push_tokens st (expand_macro m l c (s_pglued st)))
                  | S _ => Err EUnsupported
                  end
      | None => Ok plain
      end
  | _ => Ok plain
  end.

Definition append_keywords (st : tstate) : result tstate :=
  match s_kws st with
  | [] => Err EUnnecessarySemicolon
  | k => Ok (set_out st [] (rev k :: s_lkws st))
  end.

(* ------------------------------------------------------------------ statement termination *)
Definition TERMINATE_LINE : list str :=
  map s2l ["function"; "class"; "new"; "schedule"; "if"; "else"; "do"; "while"; "for"; "switch"]%string.
Definition strip_dollar (s : str) : str :=
  match s with c :: r => if Ascii.eqb c DOLLAR then r else s | [] => s end.
Definition is_decorator (s : str) : bool :=
  (2 <? len s) && match s with c :: _ => Ascii.eqb c AT | [] => false end.
Definition nth_str (l : list token) (n : nat) : str :=
  match nth_error l n with Some t => t_str t | None => [] end.

(* Optional variant (fixes/C06-switch-label-block-termination.patch, owned by property C06): when
   `case_fix` is set, a leading switch label `case <n>:` / `default:` is skipped before the
   statement-termination tests.  Which variant /repo has is probed by the tie on every run. *)
Fixpoint label_colon (l : list token) (n : nat) (i : nat) : nat :=
  match n, l with
  | S n', t :: r => if ttype_eqb (t_ty t) OPERATOR && str_eqb (t_str t) (s2l ":") then S i else label_colon r n' (S i)
  | _, _ => O
  end.
Definition case_label_length (case_fix : bool) (kws : list token) : nat :=
  if case_fix && mem_str (nth_str kws 0) [s2l "case"; s2l "default"] then label_colon kws 4 0 else O.

(* kws : keywords, oldest first; rk = newest first *)
Definition should_terminate_line (case_fix : bool) (kws rk : list token) (start_at : nat) : bool :=
  let s := strip_dollar (nth_str kws (start_at + case_label_length case_fix kws)) in
  mem_str s TERMINATE_LINE
  || (str_eqb s (s2l "execute") && mem_str (nth_str rk 1) [s2l "run"; s2l "expand"])
  || is_decorator s
  || ((3 <=? Z.of_nat (length kws)) && str_eqb (nth_str rk 1) (s2l "run") && str_eqb (nth_str rk 2) (s2l "return")).

Definition is_shorten_if (case_fix : bool) (kws : list token) : bool :=
  let k := case_label_length case_fix kws in
  str_eqb (nth_str kws k) (s2l "if") && (Z.of_nat k + 3 <=? Z.of_nat (length kws)) &&
  negb (str_eqb (nth_str kws (k + 2)) (s2l "expand")) &&
  match nth_error kws (k + 2) with Some t => negb (ttype_eqb (t_ty t) PAREN_CURLY) | None => true end.

(* ------------------------------------------------------------------ string literals *)
(* ast.literal_eval of a '…' / "…" literal body (text between the quotes, in source order) *)
Fixpoint unescape (s : str) : option str :=
  match s with
  | [] => Some []
  | c :: r =>
      if Ascii.eqb c BSLASH then
        match r with
        | [] => None
        | d :: r' =>
            match unescape r' with
            | None => None
            | Some u =>
                if Ascii.eqb d BSLASH || Ascii.eqb d SQ || Ascii.eqb d DQ then Some (d :: u)
                else if Ascii.eqb d (ch "n") then Some (NL :: u)
                else if Ascii.eqb d (ch "t") then Some (TAB :: u)
                else if Ascii.eqb d (ch "r") then Some (CR :: u)
                else if existsb (Ascii.eqb d) (s2l "abfvxuUN01234567") then None
                else if Nat.ltb 127 (nat_of_ascii d) then None
                else Some (c :: d :: u)
            end
        end
      else if Nat.ltb 127 (nat_of_ascii c) then None
      else match unescape r with Some u => Some (c :: u) | None => None end
  end.

(* ------------------------------------------------------------------ the transitions *)
Section Step.
Variable mt : mtable.
Variable case_fix : bool.
Variable expect_semicolon : bool.

Definition kind_ty (k : skind) : ttype := match k with SOperator => OPERATOR | _ => KEYWORD end.

Definition parse_none (st : tstate) (c : ascii) : result (tstate * bool) :=
  if is_quote c then
    Ok (set_quote (start_token st SString c) c, false)
  else if is_ws c then Ok (set_gap st true, true)
  else if Ascii.eqb c SEMI then
    match append_keywords st with Ok st' => Ok (st', false) | Err e => Err e end
  else if is_lparen c then Ok (set_paren (start_token st SParen c) c, false)
  else if is_rparen c then Err EUnexpectedBracket
  else if Ascii.eqb c HASH && match s_kws st with [] => true | _ => false end then
    Ok (set_ev (set_kind st SComment), false)
  else if Ascii.eqb c COMMA_C then
    match append_token mt COMMA (start_token st SNone c) with Ok st' => Ok (st', false) | Err e => Err e end
  else if is_op c then Ok (start_token st SOperator c, false)
  else Ok (start_token st SKeyword c, false).

Definition push_char (st : tstate) (c : ascii) : tstate := set_tstr st (c :: s_tstr st).

(* returns (state, continue?) *)
Definition parse_kw_op (st : tstate) (c : ascii) : result (tstate * bool) :=
  if Ascii.eqb c SQ || Ascii.eqb c DQ || is_lparen c || Ascii.eqb c COMMA_C || is_ws c then
    match append_token mt (kind_ty (s_kind st)) st with Ok st' => Ok (st', false) | Err e => Err e end
  else
    let r1 :=
      match s_kind st with
      | SKeyword =>
          if is_op c then
            match append_token mt KEYWORD st with
            | Ok st' => Ok (start_token st' SOperator c, true)   (* token_str gets c below; start_token already holds it *)
            | Err e => Err e
            end
          else Ok (st, false)
      | _ =>
          if negb (is_op c) && negb (Ascii.eqb c SEMI) then
            match append_token mt OPERATOR st with
            | Ok st' => Ok (start_token st' SKeyword c, true)
            | Err e => Err e
            end
          else Ok (st, false)
      end in
    match r1 with
    | Err e => Err e
    | Ok (st1, started) =>
        if Ascii.eqb c SEMI then
          if expect_semicolon then
            match append_token mt (kind_ty (s_kind st1)) st1 with Ok st' => Ok (st', false) | Err e => Err e end
          else if negb (s_allowsc st1) then Err EUnexpectedSemicolon
          else
            let s := rev (s_tstr st1) in
            if mem_str s [s2l "I"; s2l "B"; s2l "L"]
            then Ok (push_char (set_allowsc st1 false) c, true)
            else Err EUnexpectedSemicolon
        else if started then Ok (st1, true)
        else Ok (push_char st1 c, true)
    end.

Definition tail_str (s : str) : str := match s with _ :: r => r | [] => [] end.

Definition parse_newline (st : tstate) : result tstate :=
  let st := set_incmt st false in
  let after :=
    match s_kind st with
    | SString =>
        if Ascii.eqb (s_quote st) BT then Err EUnsupported
        else if s_esc st then Ok (set_ev (set_esc (set_tstr st (tail_str (s_tstr st))) false))
        else Err EStringNewline
    | SComment => Ok (set_gap (set_kind st SNone) true)
    | SKeyword | SOperator =>
        match append_token mt (kind_ty (s_kind st)) st with Ok st' => Ok (set_gap st' true) | Err e => Err e end
    | SParen => Ok (push_char st NL)
    | SNone => Ok (set_gap st true)
    end in
  match after with
  | Err e => Err e
  | Ok st' => Ok (set_slash (set_pos st' (s_line st' + 1) 0) false)
  end.

Definition parse_string (st : tstate) (c : ascii) : result tstate :=
  let st := push_char st c in
  if Ascii.eqb c BSLASH && negb (s_esc st) then Ok (set_esc st true)
  else if Ascii.eqb c (s_quote st) && negb (s_esc st) then
    if Ascii.eqb (s_quote st) BT then Err EUnsupported
    else
      let raw := rev (s_tstr st) in
      let body := removelast (tail_str raw) in
      match unescape body with
      | None => Err EUnsupported
      | Some v =>
          let st1 := if repr_len v =? len raw then st else set_ev st in
          append_token mt STRING (set_tstr st1 (rev v))
      end
  else if s_esc st then Ok (set_esc st false)
  else Ok st.

Definition paren_ty (p : ascii) : ttype :=
  if Ascii.eqb p (ch "{") then PAREN_CURLY else if Ascii.eqb p (ch "(") then PAREN_ROUND else PAREN_SQUARE.

(* returns (state, continue?) *)
Definition parse_paren (st : tstate) (c : ascii) : result (tstate * bool) :=
  let st := push_char st c in
  if s_instr st then
    if Ascii.eqb c BSLASH && negb (s_esc st) then Ok (set_esc st true, false)
    else if Ascii.eqb c (s_quote st) && negb (s_esc st) then
      Ok (set_preg st (s_quote st) (s_esc st) (s_pcount st) false (s_incmt st) (s_slash st), false)
    else if s_esc st then Ok (set_esc st false, false)
    else Ok (st, false)
  else if s_incmt st then Ok (st, false)
  else
    let st := set_slash st (s_slash st && Ascii.eqb c SLASH) in
    if Ascii.eqb c (rparen_of (s_paren st)) && (s_pcount st =? 0) then
      let ty := paren_ty (s_paren st) in
      match append_token mt ty st with
      | Err e => Err e
      | Ok st' =>
          let rk := s_kws st' in
          let kws := rev rk in
          if ttype_eqb ty PAREN_CURLY && expect_semicolon && should_terminate_line case_fix kws rk 0 then
            if is_shorten_if case_fix kws && negb (should_terminate_line case_fix kws rk 2) then Ok (st', true)
            else match append_keywords st' with Ok st'' => Ok (st'', true) | Err e => Err e end
          else Ok (st', true)
      end
    else if Ascii.eqb c (s_paren st) then
      Ok (set_preg st (s_quote st) (s_esc st) (s_pcount st + 1) (s_instr st) (s_incmt st) (s_slash st), false)
    else if Ascii.eqb c (rparen_of (s_paren st)) then
      Ok (set_preg st (s_quote st) (s_esc st) (s_pcount st - 1) (s_instr st) (s_incmt st) (s_slash st), false)
    else if is_quote c then
      Ok (set_preg st c (s_esc st) (s_pcount st) true (s_incmt st) (s_slash st), false)
    else if Ascii.eqb c HASH && match s_kws st with [] => true | _ => false end then
      Ok (set_ev (set_incmt st true), false)
    else if Ascii.eqb c SLASH then
      if s_slash st then Ok (set_incmt st true, false) else Ok (set_slash st true, false)
    else Ok (st, false).

Definition is_pending_kind (k : skind) : bool :=
  match k with SKeyword | SOperator => true | _ => false end.

(* one iteration of the loop of __parse_chars *)
Definition step (st : tstate) (c : ascii) : result tstate :=
  let st := set_pos st (s_line st) (s_col st + 1) in
  if Ascii.eqb c SEMI && match s_kind st with SNone => true | _ => false end && negb expect_semicolon
  then Err EUnexpectedSemicolon
  else if is_nl c then parse_newline st
  else if Ascii.eqb c SLASH && s_slash st &&
          match s_kind st with SParen | SString => false | _ => true end then
    (* `//` : drop the first slash, flush what precedes it, enter COMMENT *)
    let st1 := set_tstr st (tail_str (s_tstr st)) in
    let r := match s_tstr st1 with
             | [] => Ok st1
             | _ => append_token mt (kind_ty (s_kind st1)) st1
             end in
    match r with
    | Err e => Err e
    | Ok st2 => Ok (set_gap (set_slash (set_tstr (set_kind st2 SComment) []) false) true)
    end
  else
    let r1 : result (tstate * bool) :=
      if is_pending_kind (s_kind st) then parse_kw_op st c else Ok (st, false) in
    match r1 with
    | Err e => Err e
    | Ok (st1, true) => Ok (set_slash st1 (Ascii.eqb c SLASH))
    | Ok (st1, false) =>
        let r2 : result (tstate * bool) :=
          match s_kind st1 with
          | SNone =>
              match parse_none st1 c with
              | Ok (st2, true) => Ok (set_slash st2 false, true)
              | x => x
              end
          | SString => match parse_string st1 c with Ok st2 => Ok (st2, false) | Err e => Err e end
          | SParen => parse_paren st1 c
          | _ => Ok (st1, false)
          end in
        match r2 with
        | Err e => Err e
        | Ok (st2, true) => Ok st2
        | Ok (st2, false) => Ok (set_slash st2 (Ascii.eqb c SLASH))
        end
    end.

Fixpoint run (st : tstate) (s : str) : result tstate :=
  match s with
  | [] => Ok st
  | c :: r => match step st c with Ok st' => run st' r | Err e => Err e end
  end.

(* the end of Tokenizer.parse *)
Definition finish (allow_last : bool) (st : tstate) : result (list (list token)) :=
  match s_kind st with
  | SString => Err EStringUnterminated
  | SParen => Err EBracketNeverClosed
  | _ =>
      let flush (st : tstate) : result tstate :=
        match s_tstr st with
        | [] => Ok st
        | _ => append_token mt (kind_ty (s_kind st)) st
        end in
      if expect_semicolon then
        match s_kws st, s_tstr st with
        | [], [] => Ok (rev (s_lkws st))
        | _, _ =>
            match flush st with
            | Err e => Err e
            | Ok st1 =>
                if allow_last then
                  match append_keywords st1 with Ok st2 => Ok (rev (s_lkws st2)) | Err e => Err e end
                else Err EExpectedSemicolon
            end
        end
      else
        match flush st with
        | Err e => Err e
        | Ok st1 =>
            match s_kws st1 with
            | [] => Ok (rev (s_lkws st1))
            | _ => match append_keywords st1 with Ok st2 => Ok (rev (s_lkws st2)) | Err e => Err e end
            end
        end
  end.

Definition parse_st (allow_sc : bool) (line col : Z) (s : str) : result tstate :=
  run (init_state line col allow_sc) s.

Definition parse (allow_last allow_sc : bool) (line col : Z) (s : str) : result (list (list token)) :=
  match parse_st allow_sc line col s with
  | Ok st => finish allow_last st
  | Err e => Err e
  end.

End Step.

(* ------------------------------------------------------------------ shape *)
(* content of a bracket token: string[1:-1] *)
Definition inner (s : str) : str := removelast (tail_str s).

(* what the rest of the compiler can observe of a token stream besides positions:
   types, texts, and for each token whether it is connected to its predecessor *)
Inductive shape :=
| ShTok (ty : ttype) (s : str) (conn : bool)
| ShParen (ty : ttype) (conn : bool) (as_args : option (list (list shape))) (as_body : option (list (list shape))).

Definition conn_flags (toks : list token) : list bool :=
  match toks with
  | [] => []
  | t :: r => false :: map (fun p => is_connected (snd p) (fst p)) (combine toks r)
  end.

Section Shape.
Variable mt : mtable.
Variable case_fix : bool.
(* fuel = nesting depth explored; None below it *)
Fixpoint shape_of (fuel : nat) (toks : list token) : list shape :=
  let fix go (prev : option token) (l : list token) : list shape :=
    match l with
    | [] => []
    | t :: r =>
        let conn := match prev with Some p => is_connected t p | None => false end in
        (if is_paren_ty (t_ty t) then
           match fuel with
           | O => ShParen (t_ty t) conn None None
           | S f =>
               (* None: the content is rejected in that mode, or is outside the theorems' scope (s_ev) *)
               let sub (es : bool) :=
                 match parse_st mt case_fix es false (t_line t) (t_col t + 1) (inner (t_str t)) with
                 | Ok st =>
                     if s_ev st then None
                     else match finish mt es false st with
                          | Ok sts => Some (map (shape_of f) sts)
                          | Err _ => None
                          end
                 | Err _ => None
                 end in
               ShParen (t_ty t) conn (sub false) (sub true)
           end
         else ShTok (t_ty t) (t_str t) conn) :: go (Some t) r
    end in
  go None toks.

Definition shape_parse (fuel : nat) (es allow_last allow_sc : bool) (line col : Z) (s : str)
  : result (list (list shape)) :=
  match parse mt case_fix es allow_last allow_sc line col s with
  | Ok sts => Ok (map (shape_of fuel) sts)
  | Err e => Err e
  end.
End Shape.

(* ------------------------------------------------------------------ relayout *)
(* The relation of property C15 on character lists.  A layout run is a non-empty sequence of
   space / tab / newline characters and of `// ...` comments, each comment preceded by one of those
   characters and ended by a newline.  `relayout m s s'`: s' is s with every layout run that occurs
   outside string literals replaced by an arbitrary layout run (m = lexical mode at the start).
   Scope (exact side conditions of the theorems): string literals are '...' or "..." without raw
   newlines, no backtick, and two slashes never follow each other outside strings and comments. *)
Definition is_lay_ws (c : ascii) : bool := Ascii.eqb c SP || Ascii.eqb c TAB || Ascii.eqb c NL.

Inductive lay_item : str -> Prop :=
| li_ws c : is_lay_ws c = true -> lay_item [c]
| li_cmt c body : is_lay_ws c = true -> Forall (fun x => x <> NL) body ->
                  lay_item (c :: SLASH :: SLASH :: body ++ [NL]).
Inductive lay_run : str -> Prop :=
| lr_one i : lay_item i -> lay_run i
| lr_cons i r : lay_item i -> lay_run r -> lay_run (i ++ r).

Inductive lmode := MCode | MStr (q : ascii) (esc : bool).
Definition is_sdq (c : ascii) : bool := Ascii.eqb c SQ || Ascii.eqb c DQ.
Definition code_char (c : ascii) : bool := negb (is_ws c) && negb (is_quote c).
Definition hd_not_slash (s : str) : Prop := match s with c :: _ => c <> SLASH | [] => True end.

Inductive relayout : lmode -> str -> str -> Prop :=
| rl_nil m : relayout m [] []
| rl_code c s s' : code_char c = true -> (c = SLASH -> hd_not_slash s /\ hd_not_slash s') ->
                   relayout MCode s s' -> relayout MCode (c :: s) (c :: s')
| rl_open q s s' : is_sdq q = true -> relayout (MStr q false) s s' -> relayout MCode (q :: s) (q :: s')
| rl_lay w w' s s' : lay_run w -> lay_run w' -> relayout MCode s s' -> relayout MCode (w ++ s) (w' ++ s')
| rl_str_esc q c s s' : c <> NL -> relayout (MStr q false) s s' -> relayout (MStr q true) (c :: s) (c :: s')
| rl_str_bs q s s' : relayout (MStr q true) s s' -> relayout (MStr q false) (BSLASH :: s) (BSLASH :: s')
| rl_str_close q s s' : relayout MCode s s' -> relayout (MStr q false) (q :: s) (q :: s')
| rl_str_char q c s s' : c <> q -> c <> BSLASH -> c <> NL ->
                         relayout (MStr q false) s s' -> relayout (MStr q false) (c :: s) (c :: s').
