(* Model.LitFmtRead — C09 (round 4): what a reader of a JSON text component DISPLAYS as text (specification side).

   `jt_scan` walks over the JSON text of a component, a list of components or a bare string, token by token:
   a string followed by ':' is a key; a string in value position is displayed when it is the value of the key
   "text" or stands on its own (a bare string component, e.g. the leading "" of a list); the values of every
   other key (colour names, selectors, the name / objective of a score) are not text.  Strings are read with
   the RFC 8259 reader of Model.Lit (json_unquote_rest).  One unit of fuel per token; no fuel left = None. *)
From Coq Require Import ZArith Bool String Ascii List.
From JMCV Require Import Model.Lit.
Import ListNotations.
Open Scope Z_scope.

Definition TEXT_KEY : str := lit "text".

Definition is_struct (c : Z) : bool :=
  (c =? 123) || (c =? 125) || (c =? 91) || (c =? 93) || (c =? 44).

Fixpoint jt_scan (fuel : nat) (pending : option str) (s : str) : option str :=
  match fuel with
  | O => None
  | S f =>
    match s with
    | [] => Some []
    | c :: r =>
      if c =? 34 then
        match json_unquote_rest s with
        | None => None
        | Some (v, rest) =>
          let value :=
            let shown := match pending with
                         | None => v
                         | Some k => if str_eqb k TEXT_KEY then v else []
                         end in
            match jt_scan f None rest with Some t => Some (shown ++ t) | None => None end in
          match rest with
          | c2 :: rest' => if c2 =? 58 then jt_scan f (Some v) rest' else value
          | [] => value
          end
        end
      else if is_struct c then jt_scan f None r
      else jt_scan f pending r              (* the letters of true / false *)
    end
  end.

(* every string a component holds is Unicode text (scalar values) *)
Definition fval_scalar (v : fval) : bool :=
  match v with
  | FStr s => forallb scalarb s
  | FBool _ => true
  | FScoreV n o => forallb scalarb n && forallb scalarb o
  end.
Definition comp_scalar (c : fcomp) : bool :=
  match ctext c with Some t => forallb scalarb t | None => true end
  && forallb (fun p => fval_scalar (snd p)) (cattrs c).

(* fuel that certainly suffices for the rendering of a component list: one unit per character *)
Definition jt_read (s : str) : option str := jt_scan (S (length s)) None s.

(* every `&x` of the literal is one of the 22 format codes (or `&&`, or opens a bracket): nothing but codes is
   taken out of the text *)
Fixpoint fmt_codes_known (m : fmode) (s : str) : bool :=
  match s with
  | [] => true
  | c :: r =>
    match m with
    | FBracket _ => if c =? 62 then fmt_codes_known FNorm r else fmt_codes_known m r
    | FCode => if c =? 38 then fmt_codes_known FNorm r
               else if c =? 60 then fmt_codes_known (FBracket []) r
               else match code_prop c with Some _ => fmt_codes_known FNorm r | None => false end
    | FNorm => if c =? 38 then fmt_codes_known FCode r else fmt_codes_known FNorm r
    end
  end.
