(* Model/Import.v — C17: `Lexer.parse_file` (lexer.py:173-286) as a fuelled DFS over a
   source tree, with the `_imported` set keyed as the code keys it, pathlib path
   arithmetic on component lists, the load-buffer flush at every non-load item, and
   the specification `flat_file` ("paste every imported file in place of its first
   import"), keyed by the true identity of a file (its canonical absolute path).
   Strengthening round 3: the shared load tokenizer (`Lexer.load_tokenizer`, switched by
   `__update_load`) is the field `cur`; a buffered load statement remembers the file it was
   read from, a batch the file of the tokenizer it is parsed with (EvBatch tok l).

   No proofs here (Proofs/Import.v). *)
From Coq Require Import String List Bool Arith Ascii.
Import ListNotations.

(* ------------------------------------------------------------------ paths *)

Definition comp := string.
Definition apath := list comp.          (* canonical absolute path, root = [] *)
(* a pathlib.PurePosixPath: absolute flag + components (no "" and no "." components) *)
Record rpath := mkR { r_abs : bool; r_comps : list comp }.

Fixpoint path_eqb (a b : list comp) : bool :=
  match a, b with
  | [], [] => true
  | x :: a', y :: b' => String.eqb x y && path_eqb a' b'
  | _, _ => false
  end.
Definition rpath_eqb (a b : rpath) : bool :=
  Bool.eqb (r_abs a) (r_abs b) && path_eqb (r_comps a) (r_comps b).

(* PurePath parsing drops empty and "." components (but keeps "..") *)
Definition keep_comp (c : comp) : bool :=
  negb (String.eqb c "") && negb (String.eqb c ".").
Definition pynorm (raw : list comp) : list comp := filter keep_comp raw.

(* Path.resolve() on a tree without symbolic links: ".." pops, at the root it stays *)
Definition rstep (acc : list comp) (c : comp) : list comp :=
  if String.eqb c ".." then tl acc else c :: acc.
Definition canon_from (base : apath) (l : list comp) : apath :=
  rev (fold_left rstep l (rev base)).
Definition resolve (cwd : apath) (p : rpath) : apath :=
  canon_from (if r_abs p then [] else cwd) (r_comps p).

Definition absr (p : apath) : rpath := mkR true p.
(* Path.parent is lexical: drop the last component *)
Definition parent (p : rpath) : rpath := mkR (r_abs p) (removelast (r_comps p)).
(* a / b *)
Definition join (a b : rpath) : rpath :=
  if r_abs b then b else mkR (r_abs a) (r_comps a ++ r_comps b).

Fixpoint ends_with (suf s : string) : bool :=
  if String.eqb suf s then true
  else match s with EmptyString => false | String _ r => ends_with suf r end.
(* PurePath.suffix == ".jmc"  (name[i:] with i = rfind('.'), 0 < i < len-1) *)
Definition has_jmc_suffix (name : string) : bool :=
  ends_with ".jmc" name && (4 <? String.length name).

(* `string + ".jmc"`: the text is appended to the last raw component *)
Fixpoint add_suffix (raw : list comp) : list comp :=
  match raw with
  | [] => [".jmc"%string]
  | [c] => [(c ++ ".jmc")%string]
  | c :: r => c :: add_suffix r
  end.

(* strengthening round 4: `folder.is_dir()` of a wildcard import is answered by the operating system, which WALKS the unresolved
   path `file_path.parent / text`: every name on the way has to be an existing folder.  A detour `zz/..` through a name that does
   not exist (or through a file) makes the folder "not found", although resolve() - used for the diagnostic, and for named
   imports - folds the detour away lexically.  A folder exists iff the listing table has an entry for it. *)
Definition step_comp (cur : apath) (c : comp) : apath :=
  if String.eqb c ".." then removelast cur else cur ++ [c].
Definition has_dir {A} (ds : list (apath * A)) (d : apath) : bool :=
  existsb (fun kv => path_eqb (fst kv) d) ds.
Fixpoint walk_ok {A} (ds : list (apath * A)) (cur : apath) (l : list comp) : bool :=
  match l with
  | [] => true
  | c :: r => (String.eqb c ".." || has_dir ds (step_comp cur c)) && walk_ok ds (step_comp cur c) r
  end.

(* ------------------------------------------------------------------ source trees *)

(* A top-level item of a .jmc file.  Load/Def carry an identifier; the import forms carry
   the string of the import statement split at "/" (raw components) and whether it starts
   with "/".  IWild is `import "<dir>/*"`; its components are those of <dir>. *)
Inductive item :=
| ILoad (n : nat)
| IDef (n : nat)
| IImport (abs : bool) (raw : list comp)
| IWild (abs : bool) (raw : list comp).

Definition tree := list (apath * list item).       (* the .jmc files *)
Definition dirs := list (apath * list apath).      (* directory -> result of glob("**/*.jmc"), in OS order *)

Fixpoint lookup {A} (l : list (apath * A)) (p : apath) : option A :=
  match l with
  | [] => None
  | (k, v) :: r => if path_eqb k p then Some v else lookup r p
  end.

Inductive err := ENotFound (p : apath) | EDirNotFound (p : apath) | EFuel.
Inductive result (A : Type) := Ok (a : A) | Err (e : err).
Arguments Ok {A} a. Arguments Err {A} e.

(* ------------------------------------------------------------------ the code *)

(* strengthening round 3: a load statement remembers the file it was READ from; the shared `load_tokenizer`
   (Lexer.load_tokenizer, switched by `__update_load`) is the field `cur`; a batch records the tokenizer
   file it was PARSED with.  That the two coincide is C17_load_batch_file. *)
Record lstmt := mkL { l_id : nat; l_file : apath }.

Inductive event :=
| EvOpen (p : apath)             (* the file with this identity is read and tokenised *)
| EvDef (n : nat)                (* parse_func / parse_new / parse_class / decorated function *)
| EvBatch (tok : apath) (l : list lstmt).
                                 (* parse_current_load on a non-empty buffer, load_tokenizer.file_path = tok *)

Record st := mkSt {
  imported : list rpath;         (* DataPack._imported *)
  pending : list lstmt;          (* DataPack.load_function, newest first *)
  cur : apath;                   (* Lexer.load_tokenizer.file_path (and raw_string / file_string with it) *)
  out : list event               (* newest first *)
}.
Definition st0 : st := mkSt [] [] [] [].

Definition flush (s : st) : st :=
  match pending s with
  | [] => s
  | _ => mkSt (imported s) [] (cur s) (EvBatch (cur s) (rev (pending s)) :: out s)
  end.
Definition push (f : apath) (n : nat) (s : st) : st :=
  mkSt (imported s) (mkL n f :: pending s) (cur s) (out s).
Definition emit (e : event) (s : st) : st := mkSt (imported s) (pending s) (cur s) (e :: out s).
Definition mark (k : rpath) (s : st) : st := mkSt (k :: imported s) (pending s) (cur s) (out s).
(* Lexer.__update_load(file_path_str, raw_string) *)
Definition set_cur (f : apath) (s : st) : st := mkSt (imported s) (pending s) f (out s).
Definition is_imported (k : rpath) (s : st) : bool := existsb (rpath_eqb k) (imported s).

(* Pinned = /repo before the C17 fix; Repaired = with fixes/C17-import-key-and-wildcard.patch *)
Inductive mode := Pinned | Repaired.

Section Code.
  Variables (m : mode) (t : tree) (ds : dirs) (cwd : apath).

  (* the Path that parse_file works with *)
  Definition self_of (p : rpath) : rpath :=
    match m with Pinned => p | Repaired => absr (resolve cwd p) end.

  Definition import_target (self : rpath) (abs : bool) (raw : list comp) : apath :=
    let p1 := resolve cwd (join (parent self) (mkR abs (pynorm raw))) in
    if has_jmc_suffix (last p1 ""%string) then p1
    else resolve cwd (join (parent self) (mkR abs (pynorm (add_suffix raw)))).

  Definition wild_dir (self : rpath) (abs : bool) (raw : list comp) : apath :=
    match m with
    | Pinned => resolve cwd (mkR abs (pynorm raw))
    | Repaired => resolve cwd (join (parent self) (mkR abs (pynorm raw)))
    end.

  (* where the walk to the folder of a wildcard starts *)
  Definition wild_base (self : rpath) (abs : bool) : apath :=
    match m with
    | Pinned => resolve cwd (mkR abs [])
    | Repaired => resolve cwd (join (parent self) (mkR abs []))
    end.
  (* `folder.is_dir()` and then `folder.glob("**/*.jmc")` *)
  Definition wild_listing (self : rpath) (abs : bool) (raw : list comp) : option (list apath) :=
    if walk_ok ds (wild_base self abs) (pynorm raw) then lookup ds (wild_dir self abs raw) else None.

  (* `for new_path in folder.glob(..): self.parse_file(new_path); self.__update_load(file_path_str, raw_string)` *)
  Fixpoint each_file (rec : rpath -> st -> result st) (id : apath) (fl : list apath) (s : st) : result st :=
    match fl with
    | [] => Ok s
    | q :: r => match rec (absr q) s with Ok s' => each_file rec id r (set_cur id s') | Err e => Err e end
    end.

  (* id = file_path_str of the file being read = resolve cwd self *)
  Fixpoint parse_items (rec : rpath -> st -> result st) (self : rpath) (items : list item) (s : st)
    : result st :=
    match items with
    | [] => Ok (flush s)
    | ILoad n :: r => parse_items rec self r (push (resolve cwd self) n s)
    | IDef n :: r => parse_items rec self r (emit (EvDef n) (flush s))
    | IImport abs raw :: r =>
        match rec (absr (import_target self abs raw)) (flush s) with
        | Ok s' => parse_items rec self r (set_cur (resolve cwd self) s')
        | Err e => Err e
        end
    | IWild abs raw :: r =>
        let d := wild_dir self abs raw in
        match wild_listing self abs raw with
        | None => Err (EDirNotFound d)
        | Some fl =>
            match each_file rec (resolve cwd self) fl (flush s) with
            | Ok s' => parse_items rec self r s'
            | Err e => Err e
            end
        end
    end.

  Fixpoint parse_file (fuel : nat) (p : rpath) (s : st) : result st :=
    match fuel with
    | O => Err EFuel
    | S f =>
        let self := self_of p in
        if is_imported self s then Ok s
        else
          let id := resolve cwd self in
          match lookup t id with
          | None => Err (ENotFound id)
          | Some items =>
              parse_items (parse_file f) self items (set_cur id (emit (EvOpen id) (mark self s)))
          end
    end.
End Code.

(* Lexer.__init__: parse_file(Path(config.target)) on a fresh DataPack *)
Definition parse_project (m : mode) (t : tree) (ds : dirs) (cwd : apath)
           (main_abs : bool) (main_raw : list comp) (fuel : nat) : result (list event) :=
  match parse_file m t ds cwd fuel (mkR main_abs (pynorm main_raw)) st0 with
  | Ok s => Ok (rev (out s))
  | Err e => Err e
  end.

(* ------------------------------------------------------------------ the specification *)

Inductive fitem := FLoad (n : nat) | FDef (n : nat).

Definition seen_in (p : apath) (seen : list apath) : bool := existsb (path_eqb p) seen.

Section Spec.
  Variables (t : tree) (ds : dirs).

  (* the file an import statement of the file `self` (canonical path) denotes *)
  Definition spec_base (self : apath) (abs : bool) : apath := if abs then [] else removelast self.
  Definition spec_target (self : apath) (abs : bool) (raw : list comp) : apath :=
    let p1 := canon_from (spec_base self abs) (pynorm raw) in
    if has_jmc_suffix (last p1 ""%string) then p1
    else canon_from (spec_base self abs) (pynorm (add_suffix raw)).
  Definition spec_dir (self : apath) (abs : bool) (raw : list comp) : apath :=
    canon_from (spec_base self abs) (pynorm raw).

  Definition spec_listing (self : apath) (abs : bool) (raw : list comp) : option (list apath) :=
    if walk_ok ds (spec_base self abs) (pynorm raw) then lookup ds (spec_dir self abs raw) else None.

  Definition fres := result (list apath * list fitem).

  Fixpoint flat_each (rec : apath -> list apath -> fres) (fl : list apath) (seen : list apath) : fres :=
    match fl with
    | [] => Ok (seen, [])
    | q :: r =>
        match rec q seen with
        | Ok (seen1, l1) =>
            match flat_each rec r seen1 with
            | Ok (seen2, l2) => Ok (seen2, l1 ++ l2)
            | Err e => Err e
            end
        | Err e => Err e
        end
    end.

  Fixpoint flat_items (rec : apath -> list apath -> fres) (self : apath) (items : list item)
           (seen : list apath) : fres :=
    match items with
    | [] => Ok (seen, [])
    | ILoad n :: r =>
        match flat_items rec self r seen with
        | Ok (seen', l) => Ok (seen', FLoad n :: l) | Err e => Err e end
    | IDef n :: r =>
        match flat_items rec self r seen with
        | Ok (seen', l) => Ok (seen', FDef n :: l) | Err e => Err e end
    | IImport abs raw :: r =>
        match rec (spec_target self abs raw) seen with
        | Ok (seen1, l1) =>
            match flat_items rec self r seen1 with
            | Ok (seen2, l2) => Ok (seen2, l1 ++ l2) | Err e => Err e end
        | Err e => Err e
        end
    | IWild abs raw :: r =>
        let d := spec_dir self abs raw in
        match spec_listing self abs raw with
        | None => Err (EDirNotFound d)
        | Some fl =>
            match flat_each rec fl seen with
            | Ok (seen1, l1) =>
                match flat_items rec self r seen1 with
                | Ok (seen2, l2) => Ok (seen2, l1 ++ l2) | Err e => Err e end
            | Err e => Err e
            end
        end
    end.

  (* the text of file p with every import replaced by the text it stands for;
     a file already pasted (same identity) contributes nothing *)
  Fixpoint flat_file (fuel : nat) (p : apath) (seen : list apath) : fres :=
    match fuel with
    | O => Err EFuel
    | S f =>
        if seen_in p seen then Ok (seen, [])
        else match lookup t p with
             | None => Err (ENotFound p)
             | Some items => flat_items (flat_file f) p items (p :: seen)
             end
    end.
End Spec.

Definition flatten (t : tree) (ds : dirs) (cwd : apath) (main_abs : bool) (main_raw : list comp)
           (fuel : nat) : result (list fitem) :=
  match flat_file t ds fuel (resolve cwd (mkR main_abs (pynorm main_raw))) [] with
  | Ok (_, l) => Ok l
  | Err e => Err e
  end.

(* ------------------------------------------------------------------ observations *)

Definition items_of_event (e : event) : list fitem :=
  match e with
  | EvOpen _ => []
  | EvDef n => [FDef n]
  | EvBatch _ l => map (fun x => FLoad (l_id x)) l
  end.
Definition items_of (evs : list event) : list fitem := flat_map items_of_event evs.

Fixpoint opens (evs : list event) : list apath :=
  match evs with
  | [] => []
  | EvOpen p :: r => p :: opens r
  | _ :: r => opens r
  end.

(* the single file holding the flattened text *)
Definition item_of_fitem (f : fitem) : item :=
  match f with FLoad n => ILoad n | FDef n => IDef n end.
Definition single_file (p : apath) (l : list fitem) : tree := [(p, map item_of_fitem l)].

(* any back end that consumes the events: definitions one by one, load commands in batches *)
Section Consumer.
  Variables (S : Type) (on_def : S -> nat -> S) (on_batch : S -> list nat -> S).
  Definition consume1 (s : S) (e : event) : S :=
    match e with
    | EvOpen _ => s
    | EvDef n => on_def s n
    | EvBatch _ l => on_batch s (map l_id l)
    end.
  Definition consume (s : S) (evs : list event) : S := fold_left consume1 evs s.
End Consumer.

(* ------------------------------------------------------------------ strengthening round 3: the file of a load batch *)

(* the load statement x is written in the file it claims to come from *)
Definition written_in (t : tree) (x : lstmt) : Prop :=
  exists items, lookup t (l_file x) = Some items /\ In (ILoad (l_id x)) items.
(* a batch is parsed with the tokenizer of the file every one of its statements was read from *)
Definition batch_file_ok (e : event) : Prop :=
  match e with EvBatch tok l => Forall (fun x => l_file x = tok) l | _ => True end.
Definition batch_ok (t : tree) (e : event) : Prop :=
  match e with EvBatch tok l => Forall (fun x => l_file x = tok /\ written_in t x) l | _ => True end.

(* what a FILE-SENSITIVE back end sees: every load statement together with the file whose tokenizer compiles it
   (diagnostics, Debug.watch source lines, JMC.pythonFile's folder) *)
Inductive sitem := SLoad (f : apath) (n : nat) | SDef (n : nat).
Definition sitems_of_event (e : event) : list sitem :=
  match e with
  | EvOpen _ => []
  | EvDef n => [SDef n]
  | EvBatch _ l => map (fun x => SLoad (l_file x) (l_id x)) l
  end.
Definition sitems_of (evs : list event) : list sitem := flat_map sitems_of_event evs.
Definition erase_file (i : sitem) : fitem := match i with SLoad _ n => FLoad n | SDef n => FDef n end.

Section FileConsumer.
  Variables (S : Type) (on_def : S -> nat -> S) (on_load : S -> apath -> nat -> S).
  (* the code: every statement of a batch is compiled with the batch's tokenizer *)
  Definition fconsume1 (s : S) (e : event) : S :=
    match e with
    | EvOpen _ => s
    | EvDef n => on_def s n
    | EvBatch tok l => fold_left (fun s x => on_load s tok (l_id x)) l s
    end.
  Definition fconsume (s : S) (evs : list event) : S := fold_left fconsume1 evs s.
  (* the reference: every statement compiled with the tokenizer of its own file *)
  Definition sstep (s : S) (i : sitem) : S :=
    match i with SLoad f n => on_load s f n | SDef n => on_def s n end.
End FileConsumer.

(* no wildcard import anywhere in the tree *)
Definition item_no_wild (i : item) : bool := match i with IWild _ _ => false | _ => true end.
Definition tree_no_wild (t : tree) : bool := forallb (fun kv => forallb item_no_wild (snd kv)) t.
Definition no_dotdot (l : list comp) : bool := forallb (fun c => negb (String.eqb c "..")) l.
