(* Model.DeclUse — declarations and USES of functions / templates in ONE compile (property C08, strengthening round 4).

   Extends Model/DeclNames.v (flat declaration sequences, no state carried by a use) by
     * the lazy table WITH its content: a template (@lazy / @if) keeps its body, which is parsed again at every use,
       so the declarations and uses written in a template body happen at each EXPANSION, in the expansion's order;
     * the bodies of file-producing functions (parsed at the declaration, BEFORE the function is stored);
     * the "instant call" rule: a use of a template whose LAST PATH SEGMENT IS EXACTLY `_` deletes it from the table
       after the expansion, and `@if(..) function _()` (name `_` as spelled, whatever the class prefix) is expanded at
       its declaration and never stored;
     * the text a function is made of: its marker line, one line per use (`function <ns>:<path>` / the expansion).

   Ports (src/jmc/compile):
     lexer.py               parse_func_tokens: `func_path in functions or func_path in lazy_func`
                            -> "Duplicate function declaration(<path>)";  parse_func / parse_decorated_function:
                            the body is parsed, the test is repeated ("A function declared inside this function has the
                            same path"), functions[path] = <commands>
     decorator_parse.py     Lazy.modify: lazy_func[path] = pre_func;  If.modify: `pre_func.func_name == "_"` -> instant call
                            (return_command = the expansion), else lazy_func[path] = pre_func
     lexer_func_content.py  the two call sites (`name()` and `name(args)`): `if func in lazy_func:` expansion =
                            handle_lazy(…), `if func.split("/")[-1] == "_": del lazy_func[func]`, inside `execute … run`
                            an expansion must be exactly one command; otherwise functions_called[func] = … and
                            `function <ns>:<path>` (with the macro arguments for the `name(key="v")` form)
     datapack.py build()    every key of functions_called must be a key of functions ("… was never defined" /
                            "Lazy function … used before definition" when it is in lazy_func at that time)
   Paths are absolute (class prefixes / `this.` are resolved by Run/C08.v with Model/ResLoc.v's convention: a template
   body is parsed with the prefix of the class the template is WRITTEN in, so its paths are static).  Every declaration
   carries a unique id (its marker).  Outside: parameters (the harness passes exactly the declared ones), `@if(0)`,
   an instant call written directly in a class body (refused), recursion of templates (fuel runs out: RFuel). *)
From Coq Require Import String List Bool Arith Ascii.
Import ListNotations.

Inductive ukind :=
| UPlain        (* function p() {…} *)
| USaved        (* @add / @root / @private function: a file, like UPlain *)
| UTemplate     (* @lazy, or @if whose spelled name is not `_`: no file, stored in lazy_func *)
| UInstant.     (* @if(..) function _(): expanded where it is declared, never stored *)

Inductive cform :=
| FStmt         (* p(); *)
| FExec         (* execute … run p(); *)
| FArgs         (* p(k="v");  — the call site with arguments *)
| FExecArgs.    (* execute … run p(k="v"); *)
Definition is_exec (f : cform) : bool := match f with FExec | FExecArgs => true | _ => false end.
Definition has_args (f : cform) : bool := match f with FArgs | FExecArgs => true | _ => false end.

Inductive uev :=
| UDecl (id : nat) (k : ukind) (p : string) (body : list uev)
| UCall (f : cform) (p : string).

Inductive line :=
| LMark (id : nat)          (* the marker command of declaration id *)
| LFun (p : string)         (* function <ns>:<p> *)
| LFunArgs (p : string)     (* function <ns>:<p> {…} *)
| LRun (l : line).          (* execute … run <l> *)

(* ------------------------------------------------------------------ the instant-call rule: func.split("/")[-1] == "_" *)
Fixpoint last_seg_from (acc s : string) : string :=
  match s with
  | EmptyString => acc
  | String c r => if Ascii.eqb c "/"%char then last_seg_from EmptyString r else last_seg_from (acc ++ String c EmptyString) r
  end.
Definition last_segment (s : string) : string := last_seg_from EmptyString s.
Definition instant (p : string) : bool := String.eqb (last_segment p) "_".

(* If.modify: the kind of `@if(..) function <name>` — decided by the NAME AS SPELLED (converted, without class prefix) *)
Definition if_kind (converted_name : string) : ukind :=
  if String.eqb converted_name "_" then UInstant else UTemplate.

(* ------------------------------------------------------------------ the tables *)
Record tables := mkT {
  t_funs : list (string * (nat * list line));    (* datapack.functions : path -> (declaration, its commands) *)
  t_lazy : list (string * (nat * list uev));     (* datapack.lazy_func : path -> (declaration, its body) *)
  t_called : list string                         (* datapack.functions_called, in insertion order (oldest first) *)
}.
Definition no_tables : tables := mkT [] [] [].

Fixpoint aget {A : Type} (k : string) (l : list (string * A)) : option A :=
  match l with [] => None | (k', v) :: r => if String.eqb k k' then Some v else aget k r end.
Definition amem {A : Type} (k : string) (l : list (string * A)) : bool :=
  match aget k l with Some _ => true | None => false end.
Fixpoint adel {A : Type} (k : string) (l : list (string * A)) : list (string * A) :=
  match l with [] => [] | (k', v) :: r => if String.eqb k k' then adel k r else (k', v) :: adel k r end.

Definition declared (p : string) (t : tables) : bool := amem p (t_funs t) || amem p (t_lazy t).
Definition add_fun (p : string) (id : nat) (ls : list line) (t : tables) : tables :=
  mkT ((p, (id, ls)) :: t_funs t) (t_lazy t) (t_called t).
Definition add_lazy (p : string) (id : nat) (body : list uev) (t : tables) : tables :=
  mkT (t_funs t) ((p, (id, body)) :: t_lazy t) (t_called t).
Definition forget (p : string) (t : tables) : tables := mkT (t_funs t) (adel p (t_lazy t)) (t_called t).
Definition after_use (p : string) (t : tables) : tables := if instant p then forget p t else t.
Definition note_call (p : string) (t : tables) : tables :=
  mkT (t_funs t) (t_lazy t) (if existsb (String.eqb p) (t_called t) then t_called t else t_called t ++ [p]).

(* a use inside `execute … run` prints its one command behind the execute *)
Definition wrap (f : cform) (l : line) : line := if is_exec f then LRun l else l.
Definition fline (f : cform) (p : string) : line := wrap f (if has_args f then LFunArgs p else LFun p).

Inductive res :=
| RRej (id : nat)          (* "Duplicate function declaration" citing declaration id *)
| RExecForm                (* "Lazy function with multiple commands / without any command cannot be used with execute." *)
| RFuel
| ROk (ls : list line) (t : tables).

(* the commands `evs` (the content of one body) contribute to the enclosing function, and the tables afterwards *)
Fixpoint exec (fuel : nat) (evs : list uev) (t : tables) : res :=
  match fuel with
  | O => RFuel
  | S f =>
      match evs with
      | [] => ROk [] t
      | UDecl id k p body :: r =>
          if declared p t then RRej id else
          match k with
          | UTemplate => exec f r (add_lazy p id body t)
          | UInstant =>
              match exec f body t with
              | ROk ls t1 =>
                  match exec f r t1 with
                  | ROk ls2 t2 => ROk (LMark id :: ls ++ ls2) t2
                  | e => e
                  end
              | e => e
              end
          | _ =>
              match exec f body t with
              | ROk ls t1 => if declared p t1 then RRej id else exec f r (add_fun p id (LMark id :: ls) t1)
              | e => e
              end
          end
      | UCall form p :: r =>
          match aget p (t_lazy t) with
          | Some (id, body) =>
              match exec f body t with
              | ROk ls t1 =>
                  let t2 := after_use p t1 in
                  if is_exec form && negb (Nat.eqb (length ls) 0) then RExecForm else
                  match exec f r t2 with
                  | ROk ls2 t3 => ROk (if is_exec form then LRun (LMark id) :: ls2 else LMark id :: ls ++ ls2) t3
                  | e => e
                  end
              | e => e
              end
          | None =>
              match exec f r (note_call p t) with
              | ROk ls2 t3 => ROk (fline form p :: ls2) t3
              | e => e
              end
          end
      end
  end.

(* ------------------------------------------------------------------ the whole compile *)
Inductive verdict :=
| VDup (id : nat)
| VExecForm
| VFuel
| VUndefined (lazy : bool)      (* build(): "never defined" (false) / "Lazy function … used before definition" (true) *)
| VOk (t : tables) (load : list line).

(* the top level of a file is a body like any other: its statements are the load function's commands, and parse_file
   parses the pending load statements before every declaration, so everything happens in source order *)
Definition compile (fuel : nat) (evs : list uev) : verdict :=
  match exec fuel evs no_tables with
  | RRej i => VDup i | RExecForm => VExecForm | RFuel => VFuel
  | ROk ls t' =>
      match find (fun p => negb (amem p (t_funs t'))) (t_called t') with
      | Some p => VUndefined (amem p (t_lazy t'))
      | None => VOk t' ls
      end
  end.

(* ------------------------------------------------------------------ specification vocabulary: flat operation sequences *)
Definition flat_ev (e : uev) : Prop := match e with UDecl _ _ _ b => b = [] | UCall _ _ => True end.
Definition flat (evs : list uev) : Prop := Forall flat_ev evs.

(* after the operations `evs`, the template declared by `id` is what the path p means:
   it was declared, and — only for the genuine `_` — not used since *)
Definition template_live (evs : list uev) (p : string) (id : nat) : Prop :=
  exists i, nth_error evs i = Some (UDecl id UTemplate p []) /\
            (instant p = true -> forall j f, i < j -> nth_error evs j <> Some (UCall f p)).
Definition file_kind (k : ukind) : Prop := k = UPlain \/ k = USaved.
Definition function_known (evs : list uev) (p : string) (id : nat) : Prop :=
  exists i k, file_kind k /\ nth_error evs i = Some (UDecl id k p []).
Definition known (evs : list uev) (p : string) : Prop :=
  exists id, template_live evs p id \/ function_known evs p id.
