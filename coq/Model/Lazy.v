(* Model/Lazy.v — C19: PreFunction.handle_lazy (datapack.py:104-166): binding of the call's
   positional / keyword arguments to the parameters of a @lazy function, substitution of the
   argument texts for `$param` in the body, Hardcode.calc loop.  The result is the text that
   is handed to the function-content parser.  No proofs here. *)
From Coq Require Import String List Bool Arith.
From JMCV Require Import Model.StrOps Model.Hardcode.
Import ListNotations.

Inductive berr :=
| BTooMany                  (* "takes N positional arguments, got M" (more arguments than parameters) *)
| BMissing                  (* "takes N positional arguments, got M" (a parameter without argument) *)
| BUnexpectedKw (k : string).   (* "got an unexpected keyword argument" *)
Inductive bres := BOk (b : list (string * string)) | BErr (e : berr).

Fixpoint kw_get (k : string) (kw : list (string * string)) : option string :=
  match kw with
  | [] => None
  | (k', v) :: r => if String.eqb k k' then Some v else kw_get k r
  end.
Fixpoint kw_del (k : string) (kw : list (string * string)) : list (string * string) :=
  match kw with
  | [] => []
  | (k', v) :: r => if String.eqb k k' then r else (k', v) :: kw_del k r
  end.

(* for index, param in enumerate(params): keyword argument if given, else args[index] *)
Fixpoint bind_loop (index : nat) (params : list string) (pos : list string)
         (kw : list (string * string)) (acc : list (string * string)) : bres :=
  match params with
  | [] =>
      match rev kw with
      | [] => BOk acc
      | (k, _) :: _ => BErr (BUnexpectedKw k)        (* list(kwargs.keys())[-1] *)
      end
  | p :: ps =>
      match kw_get p kw with
      | Some v => bind_loop (S index) ps pos (kw_del p kw) (dict_set p v acc)
      | None =>
          match nth_error pos index with
          | Some v => bind_loop (S index) ps pos kw (dict_set p v acc)
          | None => BErr BMissing
          end
      end
  end.
(* `kw` is the call's keyword dictionary (keys distinct, insertion order) *)
Definition bind (params pos : list string) (kw : list (string * string)) : bres :=
  if length params <? length pos then BErr BTooMany
  else bind_loop 0 params pos kw [].

Definition dollar_keys (b : list (string * string)) : list (string * string) :=
  map (fun pa => (dollar (fst pa), snd pa)) b.

(* HPinned : for param, arg in sorted(param_arg.items(), key=len(param), reverse=True): content = content.replace("$"+param, arg)
   HRepaired: substitute_params(content, {"$"+param: arg})  — one simultaneous pass *)
Definition lazy_subst (m : hmode) (body : string) (b : list (string * string)) : string :=
  match m with
  | HPinned => subst_seq (sort_by_len_desc (dollar_keys b)) body
  | HRepaired => subst_sim (sort_by_len_desc (dollar_keys b)) body
  end.

Definition lazy_text (m : hmode) (macros : list (string * string)) (body : string)
           (b : list (string * string)) : cres string :=
  calc_all macros (lazy_subst m body b).
