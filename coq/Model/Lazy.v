(* Model/Lazy.v — C19: PreFunction.handle_lazy (datapack.py:104-166): binding of the call's
   positional / keyword arguments to the parameters of a @lazy function, substitution of the
   argument texts for `$param` in the body, Hardcode.calc loop.  The result is the text that
   is handed to the function-content parser.  No proofs here. *)
From Coq Require Import String List Bool Arith Ascii.
From JMCV Require Import Model.StrOps Model.Hardcode.
Import ListNotations.

Inductive berr :=
| BTooMany                  (* "takes N positional arguments, got M" (more arguments than parameters) *)
| BMissing                  (* "takes N positional arguments, got M" (a parameter without argument) *)
| BUnexpectedKw (k : string).   (* "got an unexpected keyword argument" *)
Inductive bres := BOk (b : list (string * string)) | BErr (e : berr).

Fixpoint kw_get (k : string) (kw : list (string * string)) : option string :=
  match kw with
  | [] => None
  | (k', v) :: r => if String.eqb k k' then Some v else kw_get k r
  end.
Fixpoint kw_del (k : string) (kw : list (string * string)) : list (string * string) :=
  match kw with
  | [] => []
  | (k', v) :: r => if String.eqb k k' then r else (k', v) :: kw_del k r
  end.

(* for index, param in enumerate(params): keyword argument if given, else args[index] *)
Fixpoint bind_loop (index : nat) (params : list string) (pos : list string)
         (kw : list (string * string)) (acc : list (string * string)) : bres :=
  match params with
  | [] =>
      match rev kw with
      | [] => BOk acc
      | (k, _) :: _ => BErr (BUnexpectedKw k)        (* list(kwargs.keys())[-1] *)
      end
  | p :: ps =>
      match kw_get p kw with
      | Some v => bind_loop (S index) ps pos (kw_del p kw) (dict_set p v acc)
      | None =>
          match nth_error pos index with
          | Some v => bind_loop (S index) ps pos kw (dict_set p v acc)
          | None => BErr BMissing
          end
      end
  end.
(* `kw` is the call's keyword dictionary (keys distinct, insertion order) *)
Definition bind (params pos : list string) (kw : list (string * string)) : bres :=
  if length params <? length pos then BErr BTooMany
  else bind_loop 0 params pos kw [].

Definition dollar_keys (b : list (string * string)) : list (string * string) :=
  map (fun pa => (dollar (fst pa), snd pa)) b.

(* HPinned : for param, arg in sorted(param_arg.items(), key=len(param), reverse=True): content = content.replace("$"+param, arg)
   HRepaired: substitute_params(content, {"$"+param: arg})  — one simultaneous pass *)
Definition lazy_subst (m : hmode) (body : string) (b : list (string * string)) : string :=
  match m with
  | HPinned => subst_seq (sort_by_len_desc (dollar_keys b)) body
  | HRepaired => subst_sim (sort_by_len_desc (dollar_keys b)) body
  end.

Definition lazy_text (m : hmode) (macros : list (string * string)) (body : string)
           (b : list (string * string)) : cres string :=
  calc_all macros (lazy_subst m body b).


(* what handle_lazy binds to the parameters, written directly: the keyword argument of that name if the
   call has one, else the positional argument at the parameter's index *)
Fixpoint expected_bind (i : nat) (params pos : list string) (kw : list (string * string))
  : list (string * string) :=
  match params with
  | [] => []
  | p :: ps =>
      (p, match kw_get p kw with Some v => v | None => nth i pos EmptyString end)
        :: expected_bind (S i) ps pos kw
  end.

(* ------------------------------------------------------------------ argument -> text
   (strengthening round 1)  What is bound to a parameter is not the argument's source text but
   `Tokenizer.merge_tokens(tokens, use_full_string=True).string` of the argument's tokens
   (tokenizer.py: merge_tokens / Token.get_full_string):
     - a STRING token gives `repr(token.string)`: the content written again as a Python literal (the
       function-content tokenizer reads string literals back with ast.literal_eval); a back-tick
       (multi-line) string is written between "`\n" and "\n`";
     - a bracket token gives clean_up_paren_token(token) — OUTSIDE the model, the cleaned text is an input;
     - an arrow function `(params)=>{body}` reaches handle_lazy folded into ONE token holding the body: its
       head is written again in front (HRepaired = fixes/C19-lazy-keyword-arrow-function.patch: for
       positional AND keyword arguments, with the parameter list as written; HPinned: `()=>` for a
       positional argument only, nothing for a keyword argument);
     - any other token gives its text;
     - HRepaired (fixes/C19-lazy-argument-spacing.patch): tokens that were apart in the source (`~ ~1 ~`) are
       joined by one blank, adjacent ones (`@a[tag=x]`) by nothing; AGap marks a place where the source had
       blanks between two tokens (utils.is_connected is false).  HPinned: everything is glued together. *)
Inductive atok :=
| AStr (backtick : bool) (s : string)        (* string literal: decoded content *)
| AParen (cleaned : string)
| AFunc (params body : string)               (* "(i)" and "{ ... }" *)
| AOther (s : string)
| AGap.                                      (* not a token: blanks between the neighbouring tokens *)

(* repr(str) of CPython on the characters 9, 10, 13 and 32..126 (the harness excludes anything else):
   single quotes unless the text contains a single and no double quote; backslash, the chosen quote,
   newline, tab and carriage return are escaped. *)
Definition SQ : ascii := "'"%char.
Definition DQ : ascii := """"%char.
Definition BS : ascii := "\"%char.
Definition repr_quote (s : string) : ascii :=
  if contains_char SQ s && negb (contains_char DQ s) then DQ else SQ.
Fixpoint repr_body (q : ascii) (s : string) : string :=
  match s with
  | EmptyString => EmptyString
  | String c r =>
      let rest := repr_body q r in
      if Ascii.eqb c BS then String BS (String BS rest)
      else if Ascii.eqb c q then String BS (String q rest)
      else if Ascii.eqb c "010"%char then String BS (String "n"%char rest)
      else if Ascii.eqb c "009"%char then String BS (String "t"%char rest)
      else if Ascii.eqb c "013"%char then String BS (String "r"%char rest)
      else String c rest
  end.
Definition py_repr (s : string) : string :=
  let q := repr_quote s in String q (repr_body q s ++ String q EmptyString).

Definition NL : string := String "010"%char EmptyString.
Definition tok_text (full : bool) (t : atok) : string :=
  match t with
  | AStr bt s =>
      if full then
        if bt then ("`" ++ NL ++ repr_body (repr_quote s) s ++ NL ++ "`")%string else py_repr s
      else s
  | AParen c => c
  | AFunc _ body => body
  | AOther s => s
  | AGap => " "%string
  end.
Definition is_gap (t : atok) : bool := match t with AGap => true | _ => false end.
Definition keep_gaps (m : hmode) (toks : list atok) : list atok :=
  match m with HRepaired => toks | HPinned => filter (fun t => negb (is_gap t)) toks end.
Definition arrow_head (m : hmode) (is_kw : bool) (toks : list atok) : string :=
  match toks with
  | AFunc ps _ :: _ =>
      match m with
      | HRepaired => (ps ++ "=>")%string
      | HPinned => if is_kw then EmptyString else "()=>"%string
      end
  | _ => EmptyString
  end.
(* `full` is use_full_string: True at both call sites of handle_lazy *)
Definition arg_text_gen (full : bool) (m : hmode) (is_kw : bool) (toks : list atok) : string :=
  (arrow_head m is_kw toks ++ String.concat EmptyString (map (tok_text full) (keep_gaps m toks)))%string.
Definition arg_text := arg_text_gen true.

(* the call as handle_lazy sees it: token lists; binding, then text *)
Definition bind_toks (m : hmode) (params : list string) (pos : list (list atok))
           (kw : list (string * list atok)) : bres :=
  bind params (map (arg_text m false) pos) (map (fun kv => (fst kv, arg_text m true (snd kv))) kw).

(* reading a Python string literal back (ast.literal_eval on the escapes repr produces):
   None = not a literal of that form *)
Fixpoint unquote_body (q : ascii) (s : string) : option string :=
  match s with
  | EmptyString => None                                   (* closing quote missing *)
  | String c r =>
      if Ascii.eqb c q then match r with EmptyString => Some EmptyString | _ => None end
      else if Ascii.eqb c "010"%char then None            (* a raw line break ends the literal: SyntaxError *)
      else if Ascii.eqb c BS then
        match r with
        | EmptyString => None
        | String e r' =>
            let dec := if Ascii.eqb e "n"%char then Some "010"%char
                       else if Ascii.eqb e "t"%char then Some "009"%char
                       else if Ascii.eqb e "r"%char then Some "013"%char
                       else if Ascii.eqb e BS || Ascii.eqb e SQ || Ascii.eqb e DQ then Some e
                       else None in
            match dec, unquote_body q r' with
            | Some d, Some t => Some (String d t)
            | _, _ => None
            end
        end
      else match unquote_body q r with Some t => Some (String c t) | None => None end
  end.
Definition py_unquote (s : string) : option string :=
  match s with
  | String q r => if Ascii.eqb q SQ || Ascii.eqb q DQ then unquote_body q r else None
  | EmptyString => None
  end.
