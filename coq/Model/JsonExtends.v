(* C08 (round 5): JSON definitions made with `new <type>(<child>) extends (<base>) { .. }`.
   lexer.py parse_new: path = type/name; refused if the path is already in datapack.jsons, if the body is empty, if the
   base path (SAME type) is unknown, if the child's body / the base is not an object; otherwise
   jsons[path] = utils.deep_merge(jsons[base], body) and jsons[base] is left alone.
   utils.deep_merge(first, second): output = copy of first; for key in second (in order): when key is in output and both values
   are objects, output[key] = deep_merge(output[key], second[key]) else output[key] = second[key] (an existing key keeps its
   position, a new key is appended).  Lists and scalars replace whatever was there, an object replaces a non-object. *)
From Coq Require Import String List Bool Arith.
Import ListNotations.
Open Scope string_scope.

Inductive json :=
| JNull | JBool (b : bool) | JNum (n : nat) | JStr (s : string)
| JList (l : list json)
| JObj (m : list (string * json)).

Definition members := list (string * json).

Fixpoint get_key (k : string) (m : members) : option json :=
  match m with
  | [] => None
  | (k', v) :: r => if String.eqb k k' then Some v else get_key k r
  end.

(* dict assignment: an existing key keeps its position and gets (f old), a new key is appended with v *)
Fixpoint upsert (k : string) (f : json -> json) (v : json) (m : members) : members :=
  match m with
  | [] => [(k, v)]
  | (k', old) :: r => if String.eqb k k' then (k', f old) :: r else (k', old) :: upsert k f v r
  end.

Fixpoint merge (a b : json) {struct b} : json :=
  match a, b with
  | JObj ma, JObj mb =>
      JObj ((fix go (out : members) (l : members) {struct l} : members :=
               match l with
               | [] => out
               | (k, v) :: r => go (upsert k (fun old => merge old v) v out) r
               end) ma mb)
  | _, _ => b
  end.

Fixpoint merge_members (out : members) (l : members) : members :=
  match l with
  | [] => out
  | (k, v) :: r => merge_members (upsert k (fun old => merge old v) v out) r
  end.

Definition is_obj (j : json) : bool := match j with JObj _ => true | _ => false end.
Definition is_empty (j : json) : bool := match j with JObj [] | JList [] => true | _ => false end.

Fixpoint get (p : list string) (j : json) : option json :=
  match p with
  | [] => Some j
  | k :: r => match j with JObj m => match get_key k m with Some v => get r v | None => None end | _ => None end
  end.

(* ---- the table of JSON definitions (datapack.jsons restricted to what the program declares) *)
Inductive decl :=
| DNew (ty name : string) (body : json)
| DExt (ty name base : string) (body : json).

Definition path (ty name : string) : string := ty ++ "/" ++ name.
Definition decl_path (d : decl) : string := match d with DNew ty n _ | DExt ty n _ _ => path ty n end.

Inductive err := EDup | EEmpty | ENoBase | EChildNotObj | EBaseNotObj.
Inductive res (A : Type) := Ok (a : A) | Err (e : err) (at_ : nat).
Arguments Ok {A}. Arguments Err {A}.

Definition table := list (string * json).

Definition stored (d : decl) (t : table) : err + json :=
  match d with
  | DNew _ _ body => if is_empty body then inl EEmpty else inr body
  | DExt ty _ base body =>
      if is_empty body then inl EEmpty else
      match get_key (path ty base) t with
      | None => inl ENoBase
      | Some bj =>
          if negb (is_obj body) then inl EChildNotObj
          else if negb (is_obj bj) then inl EBaseNotObj
          else inr (merge bj body)
      end
  end.

Definition step (d : decl) (t : table) : err + table :=
  match get_key (decl_path d) t with
  | Some _ => inl EDup
  | None => match stored d t with inl e => inl e | inr j => inr (t ++ [(decl_path d, j)])%list end
  end.

Fixpoint run_from (i : nat) (ds : list decl) (t : table) : res table :=
  match ds with
  | [] => Ok t
  | d :: r => match step d t with inl e => Err e i | inr t' => run_from (S i) r t' end
  end.
Definition run (ds : list decl) : res table := run_from 0 ds [].

(* ---- comparison with emitted files: key order is not significant *)
Fixpoint json_eqb (a b : json) {struct a} : bool :=
  match a, b with
  | JNull, JNull => true
  | JBool x, JBool y => Bool.eqb x y
  | JNum x, JNum y => Nat.eqb x y
  | JStr x, JStr y => String.eqb x y
  | JList la, JList lb =>
      (fix go (l1 l2 : list json) {struct l1} : bool :=
         match l1, l2 with
         | [], [] => true
         | x :: r1, y :: r2 => json_eqb x y && go r1 r2
         | _, _ => false
         end) la lb
  | JObj ma, JObj mb =>
      Nat.eqb (length ma) (length mb) &&
      (fix go (l : members) {struct l} : bool :=
         match l with
         | [] => true
         | (k, v) :: r => match get_key k mb with Some v' => json_eqb v v' | None => false end && go r
         end) ma
  | _, _ => false
  end.
