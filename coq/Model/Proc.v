(* Model.Proc — process-global state of a JMC process and the three compile entry points (property C12).

   The process state G assigns a value to every FIELD: the fields of the Header singleton
   (`HF name`), the class attributes of DataPack that hold the jmc.txt names (`DF name`), the
   Python globals of `JMC.python` (`PyEnv`) and its pending emitted content (`PyPending`).
   An ENTRY POINT (CLI `compile`, JMCTestPack.build, PyJMC) is a list of STEPS in the order the
   code performs them; the step lists — which fields `Header.__clear` assigns, which DataPack
   attributes read_cert assigns, from what default, under what condition, where the environment
   of JMC.python is reset, the order of the calls — are REGENERATED from the source by
   harness/translate_proc.py (coq/Gen/C12/ProcTable.v).

   The compiler proper is abstract: a `Run` step is ANY function of the input and of the values of
   the fields it is allowed to see (all fields, or only the Header's), returning new values for
   exactly those fields and possibly the final output (file map or diagnostic).  Nothing else of
   the process is visible to it — that is the modelling assumption of C12.

   No proofs here. *)
From Coq Require Import String List Bool.
Import ListNotations.

Inductive field :=
| HF (name : string)      (* Header().<name> *)
| DF (name : string)      (* DataPack.<name> (class attribute) *)
| PyEnv                   (* ISOLATED_ENVIRONMENT.exec_global *)
| PyPending               (* ISOLATED_ENVIRONMENT.content (emitted but not yet collected) *)
| OS (name : string).     (* round 4: process-global state of the interpreter / operating system that a compile can see and
                             must PRESERVE: "cwd", "environ", "sys.path", "sys.modules", "signal", "locale", "warnings", "logging" *)

Definition field_eqb (a b : field) : bool :=
  match a, b with
  | HF x, HF y | DF x, DF y | OS x, OS y => String.eqb x y
  | PyEnv, PyEnv | PyPending, PyPending => true
  | _, _ => false
  end.

Definition mem (f : field) (l : list field) : bool := existsb (field_eqb f) l.

(* where an assigned value comes from *)
Inductive source :=
| SrcConst                      (* a constant of the program: set(), {}, "__load__", … *)
| SrcInput                      (* a function of the compile's input only: the jmc.txt value or a constant default, the --env list *)
| SrcInputOrPrev (g : field).   (* a function of the input and of the CURRENT value of field g: cert.get(KEY, <value of g>) *)

Inductive readset :=
| RAll
| RHeaderOnly
| RHeaderPlus (l : list field).  (* round 4: the Header's fields and the listed further fields (the reads of the phase's code found in
                                    the source: jmc.txt names read by a check that runs while the header is parsed, the working directory) *)

Inductive step :=
| Assign (f : field) (s : source)                   (* unconditional assignment *)
| AssignWhen (c : string) (f : field) (s : source)  (* assignment performed only when condition c of the input holds *)
| Guard (name : string)                             (* may end the compile with a diagnostic that depends on the input only *)
| Run (name : string) (r : readset).                (* a phase of the compiler: reads/writes the fields of r, may end the compile *)

Definition is_header (f : field) : bool := match f with HF _ => true | _ => false end.
Definition visible (r : readset) (f : field) : bool :=
  match r with RAll => true | RHeaderOnly => is_header f | RHeaderPlus l => is_header f || mem f l end.

(* ------------------------------------------------------------------ the decidable predicate *)

(* D = fields whose value is, at this point, a function of the current input alone *)
Definition src_determined (D : list field) (s : source) : bool :=
  match s with SrcConst | SrcInput => true | SrcInputOrPrev g => mem g D end.

Definition remove_field (f : field) (D : list field) : list field := filter (fun x => negb (field_eqb f x)) D.

(* returns None if some Run would read a field that is not determined *)
Fixpoint analyse (U : list field) (steps : list step) (D : list field) : option (list field) :=
  match steps with
  | [] => Some D
  | Assign f s :: r => analyse U r (if src_determined D s then f :: D else remove_field f D)
  | AssignWhen _ f s :: r => analyse U r (if src_determined D s && mem f D then D else remove_field f D)
  | Guard _ :: r => analyse U r D
  | Run _ rs :: r => if forallb (fun f => implb (visible rs f) (mem f D)) U then analyse U r D else None
  end.

Definition history_free (U : list field) (steps : list step) : bool :=
  match analyse U steps [] with Some _ => true | None => false end.

(* round 4: the same analysis started from a set A of AMBIENT fields (working directory, environment, sys.path, ...): fields no compile
   assigns, whose value is the one the process started with as long as every earlier compile PRESERVED it *)
Definition history_free_from (A U : list field) (steps : list step) : bool :=
  match analyse U steps A with Some _ => true | None => false end.

(* step lists of the simple shape the current source has: assignments from constants / from the input only *)
Definition simple_step (s : step) : bool :=
  match s with Assign _ SrcConst | Assign _ SrcInput | Guard _ | Run _ _ => true | _ => false end.
Definition simple (steps : list step) : bool := forallb simple_step steps.
Definition no_assign_when (steps : list step) : bool :=
  forallb (fun s => match s with AssignWhen _ _ _ => false | _ => true end) steps.

(* "no read of a stale value": wherever a phase stands in the step list, every field of U it can see is ambient or has been
   assigned EARLIER IN THE SAME COMPILE (on this entry point's path) *)
Definition resets_before_reads (A U : list field) (steps : list step) : Prop :=
  forall pre n rs post, steps = pre ++ Run n rs :: post ->
    forall f, In f U -> visible rs f = true -> mem f A = true \/ exists s, In (Assign f s) pre.

(* the first Run that reads an undetermined field, with the offending fields (for diagnostics) *)
Fixpoint first_leak (U : list field) (steps : list step) (D : list field) : option (string * list field) :=
  match steps with
  | [] => None
  | Assign f s :: r => first_leak U r (if src_determined D s then f :: D else remove_field f D)
  | AssignWhen _ f s :: r => first_leak U r (if src_determined D s && mem f D then D else remove_field f D)
  | Guard _ :: r => first_leak U r D
  | Run n rs :: r =>
      match filter (fun f => visible rs f && negb (mem f D)) U with
      | [] => first_leak U r D
      | l => Some (n, l)
      end
  end.

(* ------------------------------------------------------------------ semantics *)

Section Sem.
  Variables V I O : Type.
  Definition G := field -> V.

  (* everything the steps can do, for an arbitrary compiler *)
  Record world := mkWorld {
    w_const : field -> V;                       (* value of a constant reset *)
    w_input : field -> I -> V;                  (* value of an input-determined assignment *)
    w_mixed : field -> I -> V -> V;             (* cert.get(KEY, prev) *)
    w_cond : string -> I -> bool;               (* condition of an AssignWhen *)
    w_guard : string -> I -> option O;          (* Guard *)
    (* a phase: sees the input and the values of the visible fields of U (in the order of U),
       returns new values for them (same order; missing entries = unchanged) and maybe the final output *)
    w_run : string -> I -> list V -> list V * option O
  }.

  Variable U : list field.
  Variable W : world.

  Definition upd (g : G) (f : field) (v : V) : G := fun x => if field_eqb f x then v else g x.

  Definition src_val (s : source) (f : field) (i : I) (g : G) : V :=
    match s with
    | SrcConst => w_const W f
    | SrcInput => w_input W f i
    | SrcInputOrPrev h => w_mixed W f i (g h)
    end.

  Definition view (r : readset) (g : G) : list V := map g (filter (visible r) U).

  (* write back the values a phase returned, field by field *)
  Fixpoint write_back (fs : list field) (vs : list V) (g : G) : G :=
    match fs, vs with
    | f :: fr, v :: vr => write_back fr vr (upd g f v)
    | _, _ => g
    end.

  (* state after the steps and the output, if some step ended the compile (later steps are skipped:
     a failing compile leaves the state half-way) *)
  Fixpoint exec (steps : list step) (i : I) (g : G) : G * option O :=
    match steps with
    | [] => (g, None)
    | Assign f s :: r => exec r i (upd g f (src_val s f i g))
    | AssignWhen c f s :: r => exec r i (if w_cond W c i then upd g f (src_val s f i g) else g)
    | Guard n :: r => match w_guard W n i with Some o => (g, Some o) | None => exec r i g end
    | Run n rs :: r =>
        let '(vs, o) := w_run W n i (view rs g) in
        let g' := write_back (filter (visible rs) U) vs g in
        match o with Some o => (g', Some o) | None => exec r i g' end
    end.

  Definition output (steps : list step) (i : I) (g : G) : option O := snd (exec steps i g).

  (* a history: earlier compiles, each through some entry point (its step list) with some input *)
  Fixpoint run_history (h : list (list step * I)) (g : G) : G :=
    match h with
    | [] => g
    | (steps, i) :: r => run_history r (fst (exec steps i g))
    end.

  (* round 4: every compile of the history leaves the ambient fields as it found them (what the sequence runner observes: the snapshot of
     cwd / environ / sys.path / ... after each compile, successful or failing, equals the snapshot before it) *)
  Fixpoint preserves_along (A : list field) (h : list (list step * I)) (g : G) : Prop :=
    match h with
    | [] => True
    | (steps, i) :: r =>
        (forall f, mem f A = true -> fst (exec steps i g) f = g f) /\ preserves_along A r (fst (exec steps i g))
    end.
End Sem.

Arguments mkWorld {V I O}.
Arguments w_const {V I O}.
Arguments w_input {V I O}.
Arguments w_mixed {V I O}.
Arguments w_cond {V I O}.
Arguments w_guard {V I O}.
Arguments w_run {V I O}.
Arguments exec {V I O} U W steps i g.
Arguments output {V I O} U W steps i g.
Arguments run_history {V I O} U W h g.
Arguments preserves_along {V I O} U W A h g.
Arguments upd {V} g f v.

(* ------------------------------------------------------------------ iteration over a set (hash-seed part) *)

(* An emission that walks a set is a left fold over SOME enumeration of its elements; which
   enumeration CPython picks depends on the string-hash seed.  `commutes_on` is the decidable-by-
   enumeration side condition under which the result does not depend on it. *)
Section SetOrder.
  Variables A S : Type.
  Variable stp : S -> A -> S.
  Definition emit (l : list A) (s0 : S) : S := fold_left stp l s0.
  Definition commutes_on (l : list A) : Prop :=
    forall a b s, In a l -> In b l -> stp (stp s a) b = stp (stp s b) a.
End SetOrder.

(* the regenerated table of sites where the source iterates a `set` *)
Inductive set_use :=
| UOrderFree     (* consumed by sorted()/len()/min()/…, or only builds another set: the result is a function of the set *)
| UIntOrdered    (* elements are ints: CPython's int hash, hence the order, does not depend on the string-hash seed (trusted) *)
| UNoOutput      (* ordered iteration whose order cannot reach the output (reviewed list in translate_proc.py) *)
| USeedOrdered.  (* str/Path elements iterated in hash order and the order is used: depends on PYTHONHASHSEED *)
Record set_site := mkSetSite { ss_label : string; ss_use : set_use }.
Definition seed_dependent (s : set_site) : bool := match ss_use s with USeedOrdered => true | _ => false end.
Definition seed_free (l : list set_site) : bool := forallb (fun s => negb (seed_dependent s)) l.

(* insertion sort, the model of `sorted(<set>)` *)
Section ISort.
  Variable A : Type.
  Variable leb : A -> A -> bool.
  Fixpoint insert (x : A) (l : list A) : list A :=
    match l with [] => [x] | y :: r => if leb x y then x :: l else y :: insert x r end.
  Fixpoint isort (l : list A) : list A :=
    match l with [] => [] | x :: r => insert x (isort r) end.
End ISort.
