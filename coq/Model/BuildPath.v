(* Model.BuildPath — how the paths JMC is GIVEN (the output directory of the configuration, the argument of `#static`)
   become the folders Model/Build.v works with.  (C10, C11.)  No proofs here.

   A path of Model/FS.v is a list of child names below the virtual parent of the output directory.  What the user writes is
   a *spelling*: the segments between the "/" of the text, among them "" (`a//b`, a trailing "/"), "." and "..", and the
   names of symbolic links above the output directory (`lnk/out`, `a/lnk/../out`).  JMC canonicalises a spelling with
   `Path.resolve()` (os.path.realpath, strict=False):
     header_parse.py  #static:  static_folder = (namespace_path / arg).resolve()      namespace_path = config.output/"data"/<ns>
     compiling.py     rmtree:   path = path.resolve(); the glob of the resolved folder is compared with the resolved statics
     compiling.py     merged_func_tag:  static in tag.resolve().parents
   and the consumers compare canonical paths only.  [resolve] is that function; [static_of] is the model path the deletion
   phase of Build.v compares with ([Build.excepted]); [run_spelled] = Build.run with the statics computed from the spellings.
   The harness hands the model the spellings AS WRITTEN (header text, configuration), never the paths the code under test
   computed from them. *)
From Coq Require Import String List Bool Arith.
From JMCV Require Import Model.FS Model.Build.
Import ListNotations.
Open Scope string_scope.
Open Scope list_scope.

(* segments as written; an absolute location is the list of its segments below "/" ([] = "/") *)
Definition spelled := list string.

(* Symbolic links: canonical absolute location of the link  |->  canonical absolute location it denotes (what the kernel
   answers for the link itself; chains and relative targets are already followed).  Only links ABOVE the output directory
   are in scope: the trees of Model/FS.v have no links inside. *)
Definition links := list (path * path).

Fixpoint link_at (p : path) (L : links) : option path :=
  match L with
  | [] => None
  | (q, t) :: r => if path_eqb p q then Some t else link_at p r
  end.

(* "" and "." name the directory itself *)
Definition skip (x : string) : bool := String.eqb x "" || String.eqb x ".".
Definition dotdot (x : string) : bool := String.eqb x "..".

(* os.path.realpath(strict=False) from the canonical location [acc]:  "" / "." are dropped, ".." removes the last
   component of what has been resolved SO FAR (the parent of the link's target, not of the link; "/.." = "/"), a name that
   is a symbolic link continues at its target, any other name (existing or not) is appended. *)
Fixpoint resolve (L : links) (acc : path) (s : spelled) : path :=
  match s with
  | [] => acc
  | x :: r =>
      if skip x then resolve L acc r
      else if dotdot x then resolve L (removelast acc) r
      else match link_at (acc ++ [x]) L with
           | Some tgt => resolve L tgt r
           | None => resolve L (acc ++ [x]) r
           end
  end.

(* a spelling that realpath leaves as it is: proper names only, no symbolic link on the way *)
Fixpoint canon_from (L : links) (acc : path) (s : spelled) : bool :=
  match s with
  | [] => true
  | x :: r => negb (skip x) && negb (dotdot x) &&
              match link_at (acc ++ [x]) L with Some _ => false | None => true end &&
              canon_from L (acc ++ [x]) r
  end.
Definition canonical (L : links) (p : path) : bool := canon_from L [] p.
(* every link denotes a canonical location *)
Definition wf_links (L : links) : Prop := forall q t, link_at q L = Some t -> canonical L t = true.

(* where a build runs: the links of the machine and the output directory as handed to JMC (absolute; a relative output is
   the working directory followed by it, as the operating system reads it) *)
Record penv := mkEnv { e_links : links; e_out : spelled }.
Definition out_canon (E : penv) : path := resolve (e_links E) [] (e_out E).

(* the argument of `#static`: `namespace_path / arg` - an argument that starts with "/" replaces namespace_path *)
Record sarg := mkSArg { sa_abs : bool; sa_segs : spelled }.
Definition rel (s : spelled) : sarg := mkSArg false s.

Definition static_abs (E : penv) (c : cfg) (a : sarg) : path :=
  resolve (e_links E) [] (if sa_abs a then sa_segs a else e_out E ++ ["data"; c_ns c] ++ sa_segs a).

(* [p] = [pre ++ r] *)
Fixpoint strip (pre p : path) : option path :=
  match pre, p with
  | [], _ => Some p
  | x :: pre', y :: p' => if String.eqb x y then strip pre' p' else None
  | _ :: _, [] => None
  end.

(* a canonical absolute location as a path of Model/FS.v (virtual root = the parent of the output directory [oc]):
   the output directory is ".", what lies below it follows; a proper ancestor of the output directory contains all of it
   ([] is a prefix of every path); any other location shares nothing with the tree *)
Definition to_model (oc p : path) : path :=
  match strip oc p with
  | Some r => "." :: r
  | None => if is_prefix p oc then [] else "<outside>" :: p
  end.

Definition static_of (E : penv) (c : cfg) (a : sarg) : path := to_model (out_canon E) (static_abs E c a).

(* the header as written *)
Record rhdr := mkRHdr {
  rh_statics : list sarg;
  rh_overrides : list string;
  rh_copy : option (list (string * tree));
  rh_nometa : bool
}.
Definition hdr_of (E : penv) (c : cfg) (rh : rhdr) : hdr :=
  mkHdr (map (static_of E c) (rh_statics rh)) (rh_overrides rh) (rh_copy rh) (rh_nometa rh).

(* compile_jmc given the spellings *)
Definition run_spelled (v : variant) (E : penv) (c : cfg) (rh : rhdr) (out : outcome) (fault : option path) (cur : fs)
  : list op * result := run v c (hdr_of E c rh) out fault cur.
Definition plan_spelled v E c rh out fault cur : list op := fst (run_spelled v E c rh out fault cur).

(* no symbolic link inside the output directory on the way to the namespace folder (Model/FS.v has none at all) *)
Definition ns_unlinked (E : penv) (c : cfg) : bool := canon_from (e_links E) (out_canon E) ["data"; c_ns c].
