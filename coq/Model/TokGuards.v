(* Model.TokGuards — Python's list operations as far as the regenerated length-guard obligations
   (coq/Gen/C13/Guards.v, written by harness/translate_guards.py) talk about them.

   py_index l i   = l[i]      : IndexError unless -len(l) <= i < len(l); a negative i counts from the end
   py_from l k    = l[k:]     (k >= 0)
   py_del l i     = del l[i]
   py_insert/append

   An obligation of Guards.v has the form  facts -> (- len <= idx /\ idx < len) ; C13_guard_sound (Props/C13.v)
   says that this is exactly what keeps `l[idx]` from raising, and the other lemmas justify the facts the
   translator writes after `x = x[k:]`, `del x[k]`, `x.append(..)`, `x.insert(..)` and for `len(x[k:])`. *)
From Coq Require Import ZArith List Bool.
From JMCV Require Import Model.Tok.
Import ListNotations.
Open Scope Z_scope.

Definition zlen {A} (l : list A) : Z := Z.of_nat (List.length l).

Definition py_index {A} (l : list A) (i : Z) : result A :=
  let j := if i <? 0 then zlen l + i else i in
  if (j <? 0) || (zlen l <=? j) then Crash IndexError
  else match nth_error l (Z.to_nat j) with Some x => Ok x | None => Crash IndexError end.

Definition py_from {A} (l : list A) (k : Z) : list A := skipn (Z.to_nat k) l.

Definition py_del {A} (l : list A) (i : Z) : result (list A) :=
  match py_index l i with
  | Ok _ => let j := Z.to_nat (if i <? 0 then zlen l + i else i) in Ok (firstn j l ++ skipn (S j) l)
  | Diag d a b => Diag d a b
  | Crash e => Crash e
  end.

Definition py_append {A} (l : list A) (x : A) : list A := l ++ [x].
(* list.insert never raises: the index is clamped *)
Definition py_insert {A} (l : list A) (i : Z) (x : A) : list A :=
  let j := if i <? 0 then Z.max 0 (zlen l + i) else Z.min i (zlen l) in
  firstn (Z.to_nat j) l ++ x :: skipn (Z.to_nat j) l.
