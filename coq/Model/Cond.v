(* Model.Cond — Gallina port of the lowering of boolean conditions
   (src/jmc/compile/command/condition.py): custom_condition for the score atoms,
   condition_to_ast (precedence split over a token list, one level of parentheses
   unwrapped), negate_ast, ast_to_commands (the __logic__N flag allocation),
   ast_to_strings (precommand emission) and parse_condition.  Property C03.

   The numbering in ast_to_strings is the REPAIRED one (fixes/C03-logic-flag-numbering.patch:
   a precommand writes the flag its entry names; a flag is zeroed the first time it
   is met).  The pinned walk (`current_count`) is kept as [pre_to_cmds_pinned] so that
   the defect stays demonstrable (Props/C03.v, C03_pinned_numbering_refuted).
   No proofs here. *)
From Coq Require Import ZArith String List Bool Arith.
From JMCV Require Import Base.Int32 Base.Dec MC.Syntax MC.Sem Model.Names.
Import ListNotations.
Open Scope Z_scope.

(* ------------------------------------------------------------------ atoms *)

(* operator spellings accepted by custom_condition (condition.py:168-201) *)
Inductive cspell := SEq2 | SEq3 | SEq1 | SNe | SNe3 | SLt | SLe | SGt | SGe.
Inductive cop := OpEq | OpNe | OpLt | OpLe | OpGt | OpGe.
Definition cop_of (s : cspell) : cop :=
  match s with
  | SEq2 | SEq3 | SEq1 => OpEq | SNe | SNe3 => OpNe
  | SLt => OpLt | SLe => OpLe | SGt => OpGt | SGe => OpGe
  end.

Inductive operand := RLit (z : Z) | RScore (s : score).

(* a score is already resolved: `$a` is ("$a", VAR), `obj:@s` is ("@s", "obj") *)
Inductive atom :=
| ATruthy (s : score)                          (* if ($a)            *)
| ACmp (s : score) (o : cspell) (r : operand)  (* $a <op> 5 | $b | obj:sel *)
| AMatches (s : score) (a b : Z).              (* $a matches a..b    *)

(* Condition(string, if_unless): polarity and the test after `if`/`unless` *)
Definition cond := (bool * test)%type.
Definition mif (c : cond) : modifier := MIf (fst c) (snd c).

Definition cmpop_of (o : cop) : cmpop :=
  match o with OpLt => CLt | OpLe => CLe | OpGt => CGt | OpGe => CGe | _ => CEq end.

(* custom_condition, score branch.  None = JMCSyntaxException (extract_matches refuses
   a..b unless a < b).  Integer arithmetic is Python's (unbounded). *)
Definition custom_condition (a : atom) : option cond :=
  match a with
  | ATruthy s => Some (true, Matches s (From 1))
  | ACmp s o (RLit z) =>
    Some (match cop_of o with
          | OpEq => (true, Matches s (Exact z))
          | OpNe => (false, Matches s (Exact z))
          | OpGe => (true, Matches s (From z))
          | OpGt => (true, Matches s (From (z + 1)))
          | OpLe => (true, Matches s (To z))
          | OpLt => (true, Matches s (To (z - 1)))
          end)
  | ACmp s o (RScore s2) =>
    Some (match cop_of o with
          | OpNe => (false, Cmp s CEq s2)
          | o' => (true, Cmp s (cmpop_of o') s2)
          end)
  | AMatches s a b => if a <? b then Some (true, Matches s (Between a b)) else None
  end.

(* ------------------------------------------------------------------ trees *)

Inductive tree (A : Type) :=
| Leaf (a : A)
| And (l : list (tree A))
| Or (l : list (tree A))
| Not (t : tree A).
Arguments Leaf {A}. Arguments And {A}. Arguments Or {A}. Arguments Not {A}.

Definition formula := tree atom.    (* what the user wrote *)
Definition ast := tree cond.        (* AST_TYPE: leaves are Condition objects *)

(* ------------------------------------------------------------------ tokens and condition_to_ast *)

(* the token list of a condition; an atom stands for its own (operator-free) tokens *)
Inductive tok := TAtom (a : atom) | TOr | TAnd | TNot | TParen (l : list tok).

Fixpoint tok_size (t : tok) : nat :=
  match t with
  | TParen l => S (fold_right (fun x n => tok_size x + n)%nat O l)
  | _ => 1%nat
  end.
Definition toks_size (l : list tok) : nat := fold_right (fun x n => tok_size x + n)%nat O l.

Definition is_or (t : tok) : bool := match t with TOr => true | _ => false end.
Definition is_and (t : tok) : bool := match t with TAnd => true | _ => false end.

(* find_operator: split at every top-level occurrence of the operator *)
Fixpoint split_at (isop : tok -> bool) (l : list tok) (cur : list tok) : list (list tok) :=
  match l with
  | [] => [rev cur]
  | t :: r => if isop t then rev cur :: split_at isop r [] else split_at isop r (t :: cur)
  end.
(* find_operator raises when the list starts or ends with the operator; an empty
   token list makes `_tokens[0]` raise IndexError: both are "no output" (None). *)
Definition find_operator (isop : tok -> bool) (l : list tok) : option (list (list tok)) :=
  match l with
  | [] => None
  | t :: _ => if isop t || isop (last l t) then None else Some (split_at isop l [])
  end.

Fixpoint all_some {A} (l : list (option A)) : option (list A) :=
  match l with
  | [] => Some []
  | None :: _ => None
  | Some x :: r => match all_some r with Some r' => Some (x :: r') | None => None end
  end.

(* a condition that is a single round bracket is re-tokenised once; "()" is refused
   (here: find_operator [] = None) *)
Definition unwrap (l : list tok) : list tok := match l with [TParen inner] => inner | _ => l end.

Fixpoint condition_to_ast (fuel : nat) (l : list tok) : option ast :=
  match fuel with
  | O => None
  | S fu =>
    let l := unwrap l in
    match find_operator is_or l with
    | None => None
    | Some ((_ :: _ :: _) as parts) =>
      match all_some (map (condition_to_ast fu) parts) with Some b => Some (Or b) | None => None end
    | Some _ =>
      match find_operator is_and l with
      | None => None
      | Some ((_ :: _ :: _) as parts) =>
        match all_some (map (condition_to_ast fu) parts) with Some b => Some (And b) | None => None end
      | Some _ =>
        match l with
        | TNot :: r => match condition_to_ast fu r with Some b => Some (Not b) | None => None end
        | [TAtom a] => match custom_condition a with Some c => Some (Leaf c) | None => None end
        | _ => None    (* custom_condition on anything else: a JMC diagnostic *)
        end
      end
    end
  end.

(* ------------------------------------------------------------------ negate_ast *)

Definition reverse (c : cond) : cond := (negb (fst c), snd c).

Fixpoint negate_ast (a : ast) : ast :=
  match a with
  | Leaf c => Leaf (reverse c)
  | And l => Or (map negate_ast l)
  | Or l => And (map negate_ast l)
  | Not b => b
  end.

Fixpoint ast_size (a : ast) : nat :=
  match a with
  | Leaf _ => 1%nat
  | And l | Or l => S (fold_right (fun x n => ast_size x + n)%nat O l)
  | Not b => S (ast_size b)
  end.

(* ------------------------------------------------------------------ ast_to_commands *)

Definition logic_name (k : nat) : string := ("__logic__" ++ z_dec (Z.of_nat k))%string.
Definition flag (nm : names) (k : nat) : score := (logic_name k, var_name nm).
Definition flag_is (nm : names) (pos : bool) (k : nat) : cond := (pos, Matches (flag nm k) (Exact 1)).

(* (conditions, n): "set __logic__n when these hold" *)
Definition pre := (list cond * nat)%type.
Definition a2c_res := (list cond * list pre * nat)%type.   (* conditions, precommands, condition_count *)

Section Walks.
  Variable rec : ast -> nat -> option a2c_res.
  (* the AND loop: concatenate conditions and precommands of the operands *)
  Fixpoint and_walk (l : list ast) (c : nat) : option a2c_res :=
    match l with
    | [] => Some ([], [], c)
    | x :: r =>
      match rec x c with
      | None => None
      | Some (cs, ps, c1) =>
        match and_walk r c1 with
        | None => None
        | Some (cs', ps', c2) => Some (cs ++ cs', ps ++ ps', c2)
        end
      end
    end.
  (* the OR loop: operand's precommands, then (operand's conditions, k) *)
  Fixpoint or_walk (k : nat) (l : list ast) (c : nat) : option (list pre * nat) :=
    match l with
    | [] => Some ([], c)
    | x :: r =>
      match rec x c with
      | None => None
      | Some (cs, ps, c1) =>
        match or_walk k r c1 with
        | None => None
        | Some (ps', c2) => Some (ps ++ (cs, k) :: ps', c2)
        end
      end
    end.
End Walks.

Definition is_and_node (a : ast) : bool := match a with And _ => true | _ => false end.

Fixpoint ast_to_commands (nm : names) (fuel : nat) (a : ast) (c : nat) : option a2c_res :=
  match fuel with
  | O => None
  | S fu =>
    match a with
    | Leaf k => Some ([k], [], c)
    | And l => and_walk (ast_to_commands nm fu) l c
    | Or l =>
      (* _count = condition_count; condition_count += 1  — before the operands *)
      match or_walk (ast_to_commands nm fu) c l (S c) with
      | None => None
      | Some (ps, c') => Some ([flag_is nm true c], ps, c')
      end
    | Not b =>
      if is_and_node b then
        (* operands first, then the flag: unless __logic__n matches 1 *)
        match ast_to_commands nm fu b c with
        | None => None
        | Some (cs, ps, c1) => Some ([flag_is nm false c1], ps ++ [(cs, c1)], S c1)
        end
      else ast_to_commands nm fu (negate_ast b) c
    end
  end.

(* ------------------------------------------------------------------ ast_to_strings *)

Definition mem (k : nat) (l : list nat) : bool := existsb (Nat.eqb k) l.

(* repaired numbering: `initialized_counts` *)
Fixpoint pre_to_cmds (nm : names) (init : list nat) (ps : list pre) : list cmd :=
  match ps with
  | [] => []
  | (cs, k) :: r =>
    if mem k init then
      CExecute (mif (flag_is nm false k) :: map mif cs) (CSet (flag nm k) 1)
        :: pre_to_cmds nm init r
    else
      CSet (flag nm k) 0
        :: CExecute (map mif cs) (CSet (flag nm k) 1)
        :: pre_to_cmds nm (k :: init) r
  end.

(* the pinned walk (condition.py:473-495 before the fix): `current_count` starts at -1,
   is incremented when an entry's number exceeds it, and is what gets written *)
Fixpoint pre_to_cmds_pinned (nm : names) (cur : Z) (ps : list pre) : list cmd :=
  match ps with
  | [] => []
  | (cs, k) :: r =>
    if Z.of_nat k >? cur then
      let cur' := Z.to_nat (cur + 1) in
      CSet (flag nm cur') 0
        :: CExecute (map mif cs) (CSet (flag nm cur') 1)
        :: pre_to_cmds_pinned nm (cur + 1) r
    else
      let cur' := Z.to_nat cur in
      CExecute (mif (flag_is nm false cur') :: map mif cs) (CSet (flag nm cur') 1)
        :: pre_to_cmds_pinned nm cur r
  end.

(* ------------------------------------------------------------------ parse_condition *)

(* precommand lines and the conditions that follow `execute` *)
Definition parse_ast (nm : names) (a : ast) : option (list cmd * list cond) :=
  match ast_to_commands nm (ast_size a) a 0 with
  | Some (cs, ps, _) => Some (pre_to_cmds nm [] ps, cs)
  | None => None
  end.
Definition parse_ast_pinned (nm : names) (a : ast) : option (list cmd * list cond) :=
  match ast_to_commands nm (ast_size a) a 0 with
  | Some (cs, ps, _) => Some (pre_to_cmds_pinned nm (-1) ps, cs)
  | None => None
  end.

Definition parse_condition (nm : names) (l : list tok) : option (list cmd * list cond) :=
  match condition_to_ast (S (toks_size l)) l with
  | Some a => parse_ast nm a
  | None => None
  end.
Definition parse_condition_pinned (nm : names) (l : list tok) : option (list cmd * list cond) :=
  match condition_to_ast (S (toks_size l)) l with
  | Some a => parse_ast_pinned nm a
  | None => None
  end.

(* `{precommand}execute {condition} run <body>` — every use site has this shape *)
Definition guarded (cs : list cond) (body : cmd) : cmd := CExecute (map mif cs) body.

(* ------------------------------------------------------------------ canonical printing of a formula *)

Definition needs_paren_in_and (f : formula) : bool := match f with And _ | Or _ => true | _ => false end.
Definition needs_paren_in_or (f : formula) : bool := match f with Or _ => true | _ => false end.
Definition needs_paren_in_not (f : formula) : bool := match f with Leaf _ => false | _ => true end.

Fixpoint sep_by (s : tok) (parts : list (list tok)) : list tok :=
  match parts with
  | [] => []
  | [p] => p
  | p :: r => p ++ s :: sep_by s r
  end.

Fixpoint tokens_of (f : formula) : list tok :=
  match f with
  | Leaf a => [TAtom a]
  | And l => sep_by TAnd (map (fun x => if needs_paren_in_and x then [TParen (tokens_of x)] else tokens_of x) l)
  | Or l => sep_by TOr (map (fun x => if needs_paren_in_or x then [TParen (tokens_of x)] else tokens_of x) l)
  | Not x => TNot :: (if needs_paren_in_not x then [TParen (tokens_of x)] else tokens_of x)
  end.

(* the AST the formula denotes (atoms lowered) *)
Fixpoint ast_of (f : formula) : option ast :=
  match f with
  | Leaf a => match custom_condition a with Some c => Some (Leaf c) | None => None end
  | And l => match all_some (map ast_of l) with Some b => Some (And b) | None => None end
  | Or l => match all_some (map ast_of l) with Some b => Some (Or b) | None => None end
  | Not x => match ast_of x with Some b => Some (Not b) | None => None end
  end.

(* ------------------------------------------------------------------ source-level meaning *)

Definition rel (o : cop) (x y : Z) : bool :=
  match o with
  | OpEq => x =? y | OpNe => negb (x =? y)
  | OpLt => x <? y | OpLe => x <=? y | OpGt => y <? x | OpGe => y <=? x
  end.
Definition operand_val (st : state) (r : operand) : option Z :=
  match r with RLit z => Some z | RScore s => sc st s end.

(* A comparison involving an unset score is false; `!=` is the negation of `==`
   (so it is true when a side is unset).  Bare truthiness is "at least 1". *)
Definition atom_true (st : state) (a : atom) : bool :=
  match a with
  | ATruthy s => match sc st s with Some v => 1 <=? v | None => false end
  | ACmp s o r =>
    match cop_of o with
    | OpNe => match sc st s, operand_val st r with Some x, Some y => negb (x =? y) | _, _ => true end
    | o' => match sc st s, operand_val st r with Some x, Some y => rel o' x y | _, _ => false end
    end
  | AMatches s a b => match sc st s with Some v => (a <=? v) && (v <=? b) | None => false end
  end.

Fixpoint eval (st : state) (f : formula) : bool :=
  match f with
  | Leaf a => atom_true st a
  | And l => forallb (eval st) l
  | Or l => existsb (eval st) l
  | Not x => negb (eval st x)
  end.
