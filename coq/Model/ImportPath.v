(* Model/ImportPath.v — C17, strengthening round 4: the PATH handling of the import branch of `Lexer.parse_file`
   made explicit.  Model/Import.v takes an import statement already classified (IImport / IWild) and cut into
   components; here the model starts from the STRING of the statement, exactly as the tokenizer hands it over
   (`command[1].string`), and from a description of the directory tree:

     spelling  --lower_import-->  kind (named / wildcard) + raw components
               --import_files-->  the list of files the statement hands to parse_file, in order
                                  (one file for a named import; the listing of the folder for a wildcard)

   lexer.py (import branch):
       if string.endswith("/*") or string.endswith("\\*"):
           folder = file_path.parent / string[:-2]
           if not folder.is_dir(): raise "Directory(folder) not found"      (the OS walks the UNRESOLVED path: Import.walk_ok)
           for new_path in folder.glob("**/*.jmc"):  (files only: fixes/C17-wildcard-skips-folders.patch)
               parse_file(new_path.resolve()); __update_load(...)
           continue
       new_path = (file_path.parent / string).resolve()
       if new_path.suffix != ".jmc": new_path = (file_path.parent / (string + ".jmc")).resolve()
       parse_file(new_path); __update_load(...)

   POSIX pathlib: "/" is the only separator; a backslash is an ordinary character of a name (so `import "sub\\c";`
   names the file `sub\c.jmc` of the importer's folder) - except in the test for the wildcard ending, where the
   code accepts `\*` as well as `/*`.  A string starting with exactly two slashes (pathlib keeps `//` as a root of
   its own) and symbolic links are outside the model.

   No proofs here (Proofs/ImportPath.v). *)
From Coq Require Import String List Bool Arith Ascii.
From JMCV Require Import Model.Import.
Import ListNotations.

(* ------------------------------------------------------------------ the string of an import statement *)

Definition is_slash (c : ascii) : bool := Ascii.eqb c "/".
Definition is_sep (c : ascii) : bool := Ascii.eqb c "/" || Ascii.eqb c "\".

(* Python `s.split("/")` = the components PurePosixPath cuts the string into (before "" and "." are dropped) *)
Fixpoint split_slash (s : string) : list comp :=
  match s with
  | EmptyString => [EmptyString]
  | String c r =>
      if is_slash c then EmptyString :: split_slash r
      else match split_slash r with
           | [] => [String c EmptyString]
           | h :: t => String c h :: t
           end
  end.

(* `s.endswith("/*") or s.endswith("\\*")`, and then `s[:-2]` *)
Fixpoint strip_wild (s : string) : option string :=
  match s with
  | EmptyString => None
  | String c r =>
      if is_sep c && String.eqb r "*" then Some EmptyString
      else match strip_wild r with Some d => Some (String c d) | None => None end
  end.

(* PurePosixPath(s).is_absolute() *)
Definition is_abs (s : string) : bool :=
  match s with String c _ => is_slash c | EmptyString => false end.

(* what a file looks like before the import strings are looked at *)
Inductive srcitem :=
| SrcLoad (n : nat)
| SrcDef (n : nat)
| SrcImport (s : string).         (* import "<s>";  s = the VALUE of the string token *)

Definition lower_import (s : string) : item :=
  match strip_wild s with
  | Some d => IWild (is_abs d) (split_slash d)
  | None => IImport (is_abs s) (split_slash s)
  end.
Definition lower_item (i : srcitem) : item :=
  match i with SrcLoad n => ILoad n | SrcDef n => IDef n | SrcImport s => lower_import s end.

Definition srctree := list (apath * list srcitem).
Definition lower_tree (t : srctree) : tree := map (fun kv => (fst kv, map lower_item (snd kv))) t.

(* Lexer.__init__ on a project given as text *)
Definition parse_project_src (m : mode) (t : srctree) (ds : dirs) (cwd : apath)
           (main_abs : bool) (main_raw : list comp) (fuel : nat) : result (list event) :=
  parse_project m (lower_tree t) ds cwd main_abs main_raw fuel.

(* ------------------------------------------------------------------ the files an import statement reads *)

Section Files.
  Variables (ds : dirs) (cwd : apath).

  (* the files the import statement `it`, written in the file with canonical path `self`, hands to parse_file, in order
     (the repaired code: file-relative wildcards) *)
  Definition item_files (self : apath) (it : item) : result (list apath) :=
    match it with
    | IImport abs raw => Ok [import_target cwd (absr self) abs raw]
    | IWild abs raw =>
        let d := wild_dir Repaired cwd (absr self) abs raw in
        match wild_listing Repaired ds cwd (absr self) abs raw with Some fl => Ok fl | None => Err (EDirNotFound d) end
    | _ => Ok []
    end.
  Definition import_files (self : apath) (s : string) : result (list apath) :=
    item_files self (lower_import s).
End Files.

(* the folder `file_path.parent`, or the root for an absolute string *)
Definition base_of (self : apath) (abs : bool) : apath := if abs then [] else removelast self.
(* k levels up (at the root: stays) *)
Definition upk (k : nat) (base : apath) : apath := firstn (length base - k) base.

(* ------------------------------------------------------------------ the spelling grammar *)

(* an ordinary component: a name *)
Definition plain (c : comp) : Prop := c <> ""%string /\ c <> "."%string /\ c <> ".."%string.
Fixpoint noslash (s : string) : bool :=
  match s with EmptyString => true | String c r => negb (is_slash c) && noslash r end.

(* spells k q raw: read from left to right, the components `raw` lead k levels up from where one stands and then down
   along the names q.  "." and "" (doubled slash, trailing slash, leading slash) change nothing, a detour `name/…/..` through
   ANY name (existing or not: resolve() is lexical where nothing exists, and there are no symbolic links) changes nothing. *)
Inductive spells : nat -> list comp -> list comp -> Prop :=
| sp_nil : spells 0 [] []
| sp_dot : forall k q r, spells k q r -> spells k q ("."%string :: r)
| sp_empty : forall k q r, spells k q r -> spells k q (""%string :: r)
| sp_up : forall k q r, spells k q r -> spells (S k) q (".."%string :: r)
| sp_name : forall c q r, plain c -> spells 0 q r -> spells 0 (c :: q) (c :: r)
| sp_detour : forall c d k q r, plain c -> spells 0 [] d -> spells k q r -> spells k q (c :: d ++ ".."%string :: r).

(* "/" between the components: the string a list of components is written as *)
Fixpoint join_slash (l : list comp) : string :=
  match l with
  | [] => EmptyString
  | [c] => c
  | c :: r => (c ++ "/" ++ join_slash r)%string
  end.

(* ------------------------------------------------------------------ the directory tree *)

Inductive node := NFile | NDir.
Definition fsys := list (apath * node).      (* every file and folder, by canonical path; no order assumed *)

Fixpoint prefix_of (d p : apath) : bool :=
  match d, p with
  | [], _ => true
  | x :: d', y :: p' => String.eqb x y && prefix_of d' p'
  | _ :: _, [] => false
  end.
(* p lies strictly below the folder d *)
Definition below (d p : apath) : bool := prefix_of d p && (length d <? length p).
(* the pattern `*.jmc` of Path.glob (fnmatch on the name: `.jmc` itself matches too) *)
Definition glob_jmc (name : string) : bool := ends_with ".jmc" name.

Definition is_dir (fs : fsys) (d : apath) : bool :=
  existsb (fun e => match snd e with NDir => path_eqb (fst e) d | NFile => false end) fs.
Definition jmc_file_below (d : apath) (e : apath * node) : bool :=
  match snd e with NFile => below d (fst e) && glob_jmc (last (fst e) ""%string) | NDir => false end.
Definition jmc_files_below (fs : fsys) (d : apath) : list apath := map fst (filter (jmc_file_below d) fs).

(* the folders of the tree, as a table `walk_ok` can be asked about: `walk_ok (fs_dirs fs) base comps` = every name met while walking
   from `base` along `comps` is an existing folder (what the operating system requires of `folder.is_dir()`) *)
Definition fs_dirs (fs : fsys) : fsys := filter (fun e => match snd e with NDir => true | NFile => false end) fs.

(* the table of listings `ds` (Path.glob results, in the order the OS gives them) describes the directory tree `fs`:
   a folder has a listing, the listing holds every .jmc FILE below the folder exactly once and nothing else;
   what is not a folder has none (`folder.is_dir()` is false) *)
Definition listing_ok (fs : fsys) (ds : dirs) : Prop :=
  forall d, match lookup ds d with
            | Some fl => is_dir fs d = true /\ NoDup fl /\ (forall p, In p fl <-> In p (jmc_files_below fs d))
            | None => is_dir fs d = false
            end.

(* executable version, evaluated on every generated project *)
Definition memp (p : apath) (l : list apath) : bool := existsb (path_eqb p) l.
Fixpoint nodupb (l : list apath) : bool :=
  match l with [] => true | x :: r => negb (memp x r) && nodupb r end.
Definition listing_okb (fs : fsys) (ds : dirs) : bool :=
  forallb (fun e => match snd e with
                    | NFile => true
                    | NDir => match lookup ds (fst e) with
                              | Some fl => nodupb fl && forallb (fun p => memp p (jmc_files_below fs (fst e))) fl
                                           && forallb (fun p => memp p fl) (jmc_files_below fs (fst e))
                              | None => false
                              end
                    end) fs
  && forallb (fun kv => is_dir fs (fst kv)) ds.

(* ------------------------------------------------------------------ which files a project reads *)

Section Reach.
  Variables (t : tree) (ds : dirs) (cwd : apath) (main : apath).
  (* the files import statements lead to, starting from the main file *)
  Inductive reach : apath -> Prop :=
  | reach_main : reach main
  | reach_step : forall f items it fl p,
      reach f -> lookup t f = Some items -> In it items -> item_files ds cwd f it = Ok fl -> In p fl -> reach p.
End Reach.
