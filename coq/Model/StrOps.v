(* Model/StrOps.v — the Python string operations used by the compile-time expansion code
   (str.replace, str.find / slicing, re.sub over an alternation of literals) on Coq strings.
   No proofs here (Proofs/StrOps.v). *)
From Coq Require Import String List Bool Arith Ascii.
Import ListNotations.
Local Open Scope string_scope.

Fixpoint prefixb (p s : string) : bool :=
  match p with
  | EmptyString => true
  | String a p' => match s with
                   | EmptyString => false
                   | String b s' => Ascii.eqb a b && prefixb p' s'
                   end
  end.

Fixpoint drop (n : nat) (s : string) : string :=
  match n with
  | O => s
  | S k => match s with EmptyString => EmptyString | String _ r => drop k r end
  end.

Fixpoint contains_char (c : ascii) (s : string) : bool :=
  match s with
  | EmptyString => false
  | String a r => Ascii.eqb a c || contains_char c r
  end.

(* s.replace(old, new) for a NON-EMPTY `old`: leftmost occurrences, not overlapping, the inserted
   text is not scanned again.  `skip` = characters of the current occurrence still to be dropped.
   (For old = "" Python inserts `new` around every character; no caller in the modelled code can
   pass an empty pattern: they are "$" ++ name, a macro name, or the one-character backslash.) *)
Fixpoint repl (old new : string) (skip : nat) (s : string) : string :=
  match s with
  | EmptyString => EmptyString
  | String c r =>
      match skip with
      | S k => repl old new k r
      | O => if prefixb old s then new ++ repl old new (String.length old - 1) r
             else String c (repl old new 0 r)
      end
  end.
Definition replace_all (old new s : string) : string :=
  match old with EmptyString => s | _ => repl old new 0 s end.

(* re.sub("|".join(map(re.escape, keys)), lambda m: table[m.group(0)], s): at every position the
   first key (in list order) that matches is replaced, scanning continues behind the match, the
   inserted text is never scanned.  Empty keys are dropped by the caller (substitute_params). *)
Fixpoint first_match (pats : list (string * string)) (s : string) : option (string * string) :=
  match pats with
  | [] => None
  | (p, a) :: r =>
      match p with
      | EmptyString => first_match r s
      | _ => if prefixb p s then Some (p, a) else first_match r s
      end
  end.
Fixpoint subst_scan (pats : list (string * string)) (skip : nat) (s : string) : string :=
  match s with
  | EmptyString => EmptyString
  | String c r =>
      match skip with
      | S k => subst_scan pats k r
      | O => match first_match pats s with
             | Some (p, a) => a ++ subst_scan pats (String.length p - 1) r
             | None => String c (subst_scan pats 0 r)
             end
      end
  end.
Definition subst_sim (pats : list (string * string)) (s : string) : string := subst_scan pats 0 s.

(* sequential substitution: one str.replace per pair, in list order (the code before the C19 fix) *)
Definition subst_seq (pats : list (string * string)) (s : string) : string :=
  fold_left (fun acc pa => replace_all (fst pa) (snd pa) acc) pats s.

(* first occurrence of `sub` (non-empty): (text before it, text after it) — s[:i], s[i+len(sub):] with i = s.find(sub) *)
Fixpoint split_on (sub : string) (s : string) : option (string * string) :=
  if prefixb sub s then Some (EmptyString, drop (String.length sub) s)
  else match s with
       | EmptyString => None
       | String c r => match split_on sub r with
                       | Some (a, b) => Some (String c a, b)
                       | None => None
                       end
       end.

(* sorted(items, key=lambda kv: len(kv[0]), reverse=True): stable, longest key first *)
Fixpoint insert_by_len (x : string * string) (l : list (string * string)) : list (string * string) :=
  match l with
  | [] => [x]
  | y :: r => if Nat.ltb (String.length (fst y)) (String.length (fst x)) then x :: l else y :: insert_by_len x r
  end.
Definition sort_by_len_desc (l : list (string * string)) : list (string * string) :=
  fold_left (fun acc x => insert_by_len x acc) l [].

(* dict semantics: the first binding of a key wins (setdefault), insertion order kept *)
Fixpoint has_key (k : string) (l : list (string * string)) : bool :=
  match l with [] => false | (k', _) :: r => String.eqb k k' || has_key k r end.
Definition dict_setdefault_all (l : list (string * string)) : list (string * string) :=
  fold_left (fun acc kv => if has_key (fst kv) acc then acc else (acc ++ [kv])%list) l [].
(* dict semantics: a later binding of a key overwrites the value but keeps the position *)
Fixpoint dict_set (k v : string) (l : list (string * string)) : list (string * string) :=
  match l with
  | [] => [(k, v)]
  | (k', v') :: r => if String.eqb k k' then (k', v) :: r else (k', v') :: dict_set k v r
  end.
