(* Model.TokEnd — where a token ENDS (strengthening round 4 of C14).  Definitions only (proofs: Proofs/TokEnd.v).

   Diagnostics raised with `col_length=True` ("Expected semicolon(;)", "Keyword(x) ... is recognized as a command",
   "Expected (", "Expected {", ...) point right BEHIND a token: error_msg cites `Token.end`.  For every token but a string
   literal the end follows from the token's own text (Model.Tok.cite_end, theorem C14_error_end).  A string literal's token
   holds the DECODED text; how long the literal is in the source (escape sequences such as backslash-backslash, backslash-n, backslash-x41, an escaped quote, a
   backslash-newline continuation, a backtick string's lines) cannot be told from it - `len(repr(string))`, what the tree
   used before fixes/C14-string-literal-end.patch, is right only for literals written the way Python would print them.

   The repaired tokenizer RECORDS the end: `append_token`, called for a STRING in the iteration that reads the closing quote,
   stores `(self.line, self.col + 1)` in the token (`Token._macro_end`), and `Token.end` / `Token.length` / error_msg use it.

     ends_chars      `__parse_chars` (Model.Tok.step, unchanged) + that record: the list of (start, end) of the string
                     literals closed so far, in the order they were closed
     tok_end         Token.end: the recorded end of a string literal (fall-back for a STRING token that was not made by
                     the tokenizer: col + len(repr)), Model.Tok.cite_end for every other token
     parse_ends      Tokenizer.parse, returning the statements and the recorded ends
     parse_r         Tokenizer.parse as `result`: like Model.Tok.parse, but "Expected semicolon(;)" cites tok_end of the
                     last token (Model.Tok.parse keeps the arithmetic of the tree before the patch)
     cite_r          error_msg's cited (line, col) for a token whose recorded end (if any) is given
     plain_len       the variant the fourth seeding round planted: Token.length of a STRING = len(string) + 2 *)
From Coq Require Import ZArith NArith List Bool.
From JMCV Require Import Model.Tok Model.TokPos.
Import ListNotations.
Open Scope Z_scope.

(* every token made so far, in the order they were made *)
Definition all_tokens (st : tk) : list token := concat (s_lok st) ++ s_keywords st.

(* the iteration that appends a STRING token: the state was STRING and is not any more *)
Definition closes_string (st st' : tk) : bool := state_is st STRING && negb (state_is st' STRING).

Definition pos_eqb (a b : pos) : bool := Z.eqb (fst a) (fst b) && Z.eqb (snd a) (snd b).
Fixpoint lookup_end (a : pos) (l : list (pos * pos)) : option pos :=
  match l with
  | [] => None
  | (x, e) :: r => if pos_eqb a x then Some e else lookup_end a r
  end.

Section Ends.
Variable uni : str -> option char.

Fixpoint ends_chars (es : bool) (s : str) (st : tk) (acc : list (pos * pos)) : result (tk * list (pos * pos)) :=
  match s with
  | [] => Ok (st, acc)
  | c :: r =>
    do st' <- step uni true es c st;
    ends_chars es r st'
      (if closes_string st st'
       then match s_tokpos st with Some a => acc ++ [(a, (s_line st', s_col st' + 1))] | None => acc end
       else acc)
  end.

Variable printable : char -> bool.

(* Token.end *)
Definition tok_end (ends : list (pos * pos)) (t : token) : pos :=
  if ttype_eqb (t_type t) STRING then
    match lookup_end (t_line t, t_col t) ends with
    | Some e => e
    | None => (t_line t, t_col t + tok_length printable t)
    end
  else cite_end printable t.

Definition last_opt (l : list token) : option token :=
  match l with [] => None | _ => Some (last l (mkTok KEYWORD 0 0 [] false)) end.

(* the tail of Tokenizer.parse: "Expected semicolon(;)" is raised with col_length=True on keywords[-1]; when there is
   pending text that token is the KEYWORD / OPERATOR made from it (its end is cite_end), else the last token made *)
Definition finish_r (ends : list (pos * pos)) (alms es : bool) (st : tk) : result (list (list token)) :=
  match finish printable alms es st with
  | Diag DExpectedSemicolon l c =>
    match (match s_tokstr st with [] => last_opt (s_keywords st) | _ => None end) with
    | Some t => let '(l', c') := tok_end ends t in Diag DExpectedSemicolon l' c'
    | None => Diag DExpectedSemicolon l c
    end
  | r => r
  end.

Definition parse_r (alms es asemi : bool) (s : str) (line col : Z) : result (list (list token)) :=
  do se <- ends_chars es s (init line col asemi) [];
  finish_r (snd se) alms es (fst se).

Definition parse_ends (alms es asemi : bool) (s : str) (line col : Z) : result (list (list token) * list (pos * pos)) :=
  do se <- ends_chars es s (init line col asemi) [];
  do progs <- finish printable alms es (fst se);
  Ok (progs, snd se).

(* error_msg(message, token, ..., col_length, ...): the cited (line, col); `rec` = the token's recorded end, if it has one *)
Definition cite_r (col_length : bool) (t : token) (rec : option pos) : pos :=
  if col_length then
    match rec with
    | Some e => e
    | None => if ttype_eqb (t_type t) STRING then (t_line t, t_col t + tok_length printable t) else cite_end printable t
    end
  else (t_line t, t_col t).

(* Token.length of a string literal that lies on one line: recorded end column - start column *)
Definition tok_len_r (t : token) (rec : option pos) : Z :=
  if ttype_eqb (t_type t) STRING then
    match rec with
    | Some e => if Z.eqb (fst e) (t_line t) then snd e - t_col t else tok_length printable t
    | None => tok_length printable t
    end
  else tok_length printable t.
End Ends.

(* the seeded variant of Token.length: two quotes around the decoded text *)
Definition plain_len (t : token) : Z := Z.of_nat (List.length (t_str t)) + 2.

(* the source spelling `src` of a token: the token's own text, or for a string literal an opening quote, any text and the
   character on which the tokenizer left the string state (the closing quote) *)
Definition spelled (t : token) (src : str) : Prop :=
  match t_type t with
  | STRING => exists q body cl, src = q :: body ++ [cl] /\ is_quote q = true
  | _ => src = t_str t
  end.
(* the text from position a to position e of s (started at p0) is a string literal *)
Definition lit_span (p0 : pos) (s : str) (a e : pos) : Prop :=
  exists d q body cl r, s = d ++ (q :: body ++ [cl]) ++ r /\ is_quote q = true /\
                        a = pos_after p0 d /\ e = pos_after p0 (d ++ q :: body ++ [cl]).
