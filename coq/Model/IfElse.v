(* Model.IfElse — Gallina port of Lexer.parse_if_else (src/jmc/compile/lexer.py), the lowering
   of an if / else-if / else chain, as repaired by the fix: commits "a last `else if` with ||
   helpers (no else) could run in addition to an earlier branch" (fixes/C04-last-elif-precommand.patch:
   the last `else if` of a chain without `else` is wrapped in its own private function when its
   condition has precommands) and "if/else stage merging …" (`_join_run`: `run execute ` is merged
   at the two junctions only).  Property C04.

   A condition is taken in the form parse_condition returns it: precommand lines
   (empty unless the condition contains `||`) and the `if`/`unless` sub-clauses of the
   `execute` that guards the body.  How a formula is lowered to that pair is property
   C03's subject; here a condition is *any* such pair.

   A body is the list of lines parse_function_token returned for it (arbitrary commands:
   in particular the lowered code of nested chains and loops).

   Not modelled: `if (...) expand {...}` (is_expand), `$if` (is_macro). *)
From Coq Require Import ZArith String List Bool.
From JMCV Require Import Base.Dec MC.Syntax MC.Print Model.Names Model.PrivAlloc.
Import ListNotations.
Open Scope list_scope.

Record cond := mkCond {
  c_pre : list cmd;               (* precommand lines *)
  c_tests : list (bool * test)    (* (true, t) = "if t", (false, t) = "unless t" *)
}.
Definition mods_of (ts : list (bool * test)) : list modifier :=
  map (fun pt => MIf (fst pt) (snd pt)) ts.

Definition IF_ELSE : string := "if_else"%string.
Definition flag (nm : names) : score := ("__if_else__"%string, var_name nm).
Definition set_flag (nm : names) (z : Z) : cmd := CSet (flag nm) z.
Definition flag0 (nm : names) : bool * test := (true, Matches (flag nm) (Exact 0)).

(* "execute <ms> run <c>", where a <c> that is itself an `execute` is merged at the
   junction: "execute <ms> <rest of c>"  (`arrow_func[8:]` in Case 1, `_join_run` in Case 2).
   A command is an `execute` here iff it is a CExecute of MC.Syntax (if/unless score, store);
   other `execute` sub-clauses (as/at/…) are outside MC.Syntax.  On the unrepaired tree line 1012 was a
   global `.replace("run execute ", "")`, equal to this merge unless a body command contains
   inner "run execute " text (property C09). *)
Definition merge1 (ms : list modifier) (c : cmd) : cmd :=
  match c with
  | CExecute ms' b => CExecute (ms ++ ms') b
  | _ => CExecute ms c
  end.

(* f"{precommand}execute {condition} run <x>", <x> a function call (never merged) *)
Definition guarded_call (c : cond) (x : cmd) : list cmd :=
  c_pre c ++ [CExecute (mods_of (c_tests c)) x].

(* Case 1: a lone `if` *)
Definition single_if_code (nm : names) (c : cond) (body : list cmd) (aid : nat)
  : list cmd * list fdef :=
  let (x, fs) := arrow nm IF_ELSE body aid in
  (c_pre c ++ [merge1 (mods_of (c_tests c)) x], fs).

(* add_custom_private_function(..., postcommands_after_return=True), as repaired by
   fixes/C04-return-in-branch.patch: a `return` leaves the function it is written in, so a branch
   body that contains the word `return` (or `$return`) in one of its lines — `return 1`,
   `return fail`, `return run …`, `execute … run return …` — is stored in a function of its own and
   the branch function only calls it; the flag post-command then runs whatever the body did.
   The test is textual, on the lines as written (blank- and newline-separated words). *)
Fixpoint split_words (s cur : string) : list string :=
  match s with
  | EmptyString => [cur]
  | String c r =>
    if (Ascii.eqb c (Ascii.ascii_of_nat 32) || Ascii.eqb c (Ascii.ascii_of_nat 10))%bool then cur :: split_words r EmptyString
    else split_words r (cur ++ String c EmptyString)
  end.
Definition is_return_word (w : string) : bool := (String.eqb w "return" || String.eqb w "$return")%string.
Definition line_can_return (c : cmd) : bool := existsb is_return_word (split_words (pr_cmd c) EmptyString).
Definition can_return (body : list cmd) : bool := existsb line_can_return body.

(* Case 2.  A branch whose body is wrapped by add_custom_private_function with the
   post-command `scoreboard players set __if_else__ <VAR> 1`: *)
Record wbr := mkW { w_cond : cond; w_body : list cmd; w_id : nat }.
Definition wbr_fn (nm : names) (w : wbr) : fdef :=
  (priv_fn nm IF_ELSE (w_id w), w_body w ++ [set_flag nm 1]).
(* the lines of one stage: the guarded call of the branch function, then `tail` *)
Definition stage_lines (nm : names) (w : wbr) (tail : cmd) : list cmd :=
  guarded_call (w_cond w) (call_func nm IF_ELSE (w_id w)) ++ [tail].

(* what comes last: the `else` body, or — in a chain without `else` — the last `else if` *)
Inductive last_part :=
| LElse (body : list cmd) (aid : nat)
| LElif (c : cond) (body : list cmd) (aid wid : nat).

(* last_output (lexer.py:996 repaired, 1008) *)
Definition last_code (nm : names) (l : last_part) : cmd * list fdef :=
  match l with
  | LElse body aid => arrow nm IF_ELSE body aid
  | LElif c body aid wid =>
    let (x, fs) := arrow nm IF_ELSE body aid in
    let inner := merge1 (mods_of (c_tests c)) x in
    match c_pre c with
    | [] => (inner, fs)
    | _ => (call_func nm IF_ELSE wid, fs ++ [(priv_fn nm IF_ELSE wid, c_pre c ++ [inner])])
    end
  end.

(* stages 1.. : each is a private function called under the flag guard by the stage before *)
Fixpoint tail_code (nm : names) (rest : list (wbr * nat)) (final : cmd) : cmd * list fdef :=
  match rest with
  | [] => (final, [])
  | (w, sid) :: rest' =>
    let (t, fs) := tail_code nm rest' final in
    (CExecute [MIf true (snd (flag0 nm))] (call_func nm IF_ELSE sid),
     (priv_fn nm IF_ELSE sid, stage_lines nm w t) :: fs)
  end.

Definition chain_code (nm : names) (first : wbr) (rest : list (wbr * nat)) (last : last_part)
  : list cmd * list fdef :=
  let (lc, lfs) := last_code nm last in
  let final := merge1 [MIf true (snd (flag0 nm))] lc in
  let (t, sfs) := tail_code nm rest final in
  (set_flag nm 0 :: stage_lines nm first t,
   map (wbr_fn nm) (first :: map fst rest) ++ lfs ++ sfs).

(* the functions of a chain other than the branch functions (which the compiler stores as soon
   as each branch body has been lowered): the last part's and the stages' *)
Definition chain_other_fns (nm : names) (rest : list (wbr * nat)) (last : last_part) : list fdef :=
  let (lc, lfs) := last_code nm last in
  lfs ++ snd (tail_code nm rest (merge1 [MIf true (snd (flag0 nm))] lc)).

(* The UNREPAIRED text of the pinned tree for the smallest defective shape, kept only to state
   in Coq what was wrong (Props/C04.v, C04_pinned_lowering_refuted): `if (c0) {b0} else if (c) {b}`
   without else.  lexer.py:996 built last_output = "<precommand lines>execute <c> run <b>" and
   line 1012 appended it to "execute if score __if_else__ … matches 0 run ", so only the FIRST line
   of last_output is guarded. *)
Definition pinned_two_branch_noelse (nm : names) (first : wbr) (c : cond) (body : list cmd) (aid : nat)
  : list cmd * list fdef :=
  let (x, afs) := arrow nm IF_ELSE body aid in
  let inner := merge1 (mods_of (c_tests c)) x in
  let g := [MIf true (snd (flag0 nm))] in
  let final_lines :=
    match c_pre c with
    | [] => [merge1 g inner]
    | p :: ps => merge1 g p :: ps ++ [inner]
    end in
  (set_flag nm 0 :: guarded_call (w_cond first) (call_func nm IF_ELSE (w_id first)) ++ final_lines,
   wbr_fn nm first :: afs).
