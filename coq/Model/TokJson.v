(* Model.TokJson - strengthening round 5 of C14: the position arithmetic of exception.JMCDecodeJSONError.

   json.loads raises JSONDecodeError(msg, doc, pos) with
       lineno = doc.count(NL, 0, pos) + 1,   colno = pos - doc.rindex(NL, 0, pos)   (pos + 1 without a newline in front)
   i.e. (lineno, colno) = the position of offset pos in a file that consists of doc alone       (json_err_pos).
   JMCDecodeJSONError(error, token, tokenizer) maps it back into the user's file                  (json_cite):
       line = token.line + error.lineno - 1
       col  = token.col + error.colno - 1 if token.line == line else error.colno
   json_cite_shape is the variant that decides the column rule by the token's SHAPE (does its text contain a newline)
   instead of by `token.line == line`.  Definitions only (proofs: Proofs/TokJson.v). *)
From Coq Require Import ZArith NArith List Bool.
From JMCV Require Import Model.Tok Model.TokPos.
Import ListNotations.
Open Scope Z_scope.

Definition json_err_pos (doc : str) (off : nat) : pos := pos_after (1, 1) (firstn off doc).

Definition json_cite (tl tc : Z) (e : pos) : pos :=
  let line := tl + fst e - 1 in
  (line, if Z.eqb tl line then tc + snd e - 1 else snd e).

Definition json_cite_shape (multi_line : bool) (tl tc : Z) (e : pos) : pos :=
  (tl + fst e - 1, if multi_line then snd e else tc + snd e - 1).
