(* Model.Tok — Gallina port of `Tokenizer.parse` (src/jmc/compile/tokenizer.py:285-735).

   INTERFACE (what other developments may rely on)
   -----------------------------------------------
   char        := N                      a Unicode code point (Python `str` element); columns count code points
   str         := list char              `of_string : string -> str` embeds (ASCII) Coq string literals
   ttype       the ten members of `TokenType`
   token       {t_type; t_line; t_col; t_str; t_bt}  (t_bt = Token.quote == "`")
   result A    := Ok a | Diag d line col | Crash e
                 Diag  = one of JMC's own diagnostics, with the (line, col) that `error_msg` cites
                 Crash = an internal Python exception escaping from the tokenizer (never a JMC diagnostic)
   parse uni alms es asemi s line col : result (list (list token))
                 = `Tokenizer.parse(s, line, col, expect_semicolon=es, allow_last_missing_semicolon=alms)`
                   on a tokenizer whose attribute `allow_semicolon` is `asemi`; the value is `programs`.
   step / parse_chars / finish / init    the character loop (`__parse_chars`) exposed for the proofs.
   py_str_literal / py_backtick          model of `ast.literal_eval` on the quoted text (Python 3.12 string
                                         literal syntax: escapes, \x \u \U \N{..}, octal, CR/LF translation).

   SCOPE / what is *not* in this model
   * header macros (`Header().macros` is assumed empty: `append_token` never expands a macro);
   * `uni : str -> option char` is the Unicode name table used by `\N{NAME}`; every theorem quantifies over it;
   * (since fix 6178f2f the double quotes of a backtick string are escaped before decoding, so the text can no
     longer leave the Python literal early; `PyOpaque` is kept for that impossible case and treated as a rejection);
   * this is the tokenizer of /repo *after the fix commits 3ea2eae (bad escape), bf12f2c (case labels), cf555df
     (backtick first/last line must be all whitespace), 6178f2f (double quotes in backtick strings) and 9285cea
     (`is_slash` cleared at a newline, at the start of a `//` comment and after `__parse_none` consumed the character;
     d670aea `Token._macro_end` / `Token.end` only concerns header-macro expansions, outside this model)*: a rejected string literal is the diagnostic `DBadString` (pinned tree: a plain SyntaxError /
     ValueError escaped; `parse_gen false` keeps that behaviour, `parse_gen true` = `parse` is the repaired one),
     and `__should_terminate_line` / `__is_shorten_if` look past a `case n:` / `default:` label.
   No proofs in this file. *)
From Coq Require Import ZArith NArith List Bool String Ascii.
Import ListNotations.
Open Scope N_scope.   (* characters / Python literals: N;  positions (below): Z *)

Definition char := N.
Definition str := list char.

Definition of_ascii (a : ascii) : char := N_of_ascii a.
Fixpoint of_string (s : string) : str :=
  match s with EmptyString => [] | String a r => of_ascii a :: of_string r end.

Definition ceqb (a b : char) : bool := N.eqb a b.
Fixpoint seqb (a b : str) : bool :=
  match a, b with
  | [], [] => true
  | x :: a', y :: b' => ceqb x y && seqb a' b'
  | _, _ => false
  end.
Definition mem_str (s : str) (l : list str) : bool := existsb (seqb s) l.
Definition mem_char (c : char) (l : list char) : bool := existsb (ceqb c) l.

(* ---- characters the tokenizer tests for *)
Definition c_nl : char := 10%N.        Definition c_cr : char := 13%N.
Definition c_bslash : char := 92%N.    Definition c_semi : char := 59%N.
Definition c_comma : char := 44%N.     Definition c_hash : char := 35%N.
Definition c_slash : char := 47%N.     Definition c_squote : char := 39%N.
Definition c_dquote : char := 34%N.    Definition c_btick : char := 96%N.
Definition c_lround : char := 40%N.    Definition c_rround : char := 41%N.
Definition c_lsquare : char := 91%N.   Definition c_rsquare : char := 93%N.
Definition c_lcurly : char := 123%N.   Definition c_rcurly : char := 125%N.
Definition c_dollar : char := 36%N.    Definition c_at : char := 64%N.

(* OPERATORS = {"+","-","*","/",">","<","=","%",":","!","|","&","?","\\"} *)
Definition operators : list char := [43; 45; 42; 47; 62; 60; 61; 37; 58; 33; 124; 38; 63; 92]%N.
Definition is_operator (c : char) : bool := mem_char c operators.

(* `re.match(r"\s+", char)` for a one-character str: Python's Unicode whitespace.
   The table is re-derived from the interpreter on every run (harness: Gen/C13/Space.v). *)
Definition space_ranges : list (N * N) :=
  [(9, 13); (28, 32); (133, 133); (160, 160); (5760, 5760); (8192, 8202); (8232, 8233);
   (8239, 8239); (8287, 8287); (12288, 12288)]%N.
Definition in_ranges (c : char) (l : list (N * N)) : bool :=
  existsb (fun r => N.leb (fst r) c && N.leb c (snd r)) l.
Definition is_space (c : char) : bool := in_ranges c space_ranges.

Definition is_quote (c : char) : bool := ceqb c c_squote || ceqb c c_dquote || ceqb c c_btick.
Definition is_lparen (c : char) : bool := ceqb c c_lcurly || ceqb c c_lround || ceqb c c_lsquare.
Definition is_rparen (c : char) : bool := ceqb c c_rcurly || ceqb c c_rround || ceqb c c_rsquare.
(* PAREN_PAIR[c] (only called on a left bracket) *)
Definition paren_pair (c : char) : char :=
  if ceqb c c_lcurly then c_rcurly else if ceqb c c_lsquare then c_rsquare else c_rround.

(* ---- tokens *)
Inductive ttype := KEYWORD | OPERATOR | PAREN | PAREN_ROUND | PAREN_SQUARE | PAREN_CURLY
                 | STRING | COMMENT | COMMA | FUNC.
Definition ttype_eqb (a b : ttype) : bool :=
  match a, b with
  | KEYWORD, KEYWORD | OPERATOR, OPERATOR | PAREN, PAREN | PAREN_ROUND, PAREN_ROUND
  | PAREN_SQUARE, PAREN_SQUARE | PAREN_CURLY, PAREN_CURLY | STRING, STRING | COMMENT, COMMENT
  | COMMA, COMMA | FUNC, FUNC => true
  | _, _ => false
  end.

Record token := mkTok { t_type : ttype; t_line : Z; t_col : Z; t_str : str; t_bt : bool }.

(* ---- outcomes *)
Inductive pyexc := IndexError | ValueError | PySyntaxError | PyValueError | AttributeError | TypeError.
Inductive diag :=
| DUnexpectedSemicolon      (* "Unexpected semicolon(;)" *)
| DUnnecessarySemicolon     (* JMCSyntaxWarning "Unnecessary semicolon(;)" *)
| DUnexpectedBracket        (* "Unexpected bracket" *)
| DStringLineBreak          (* "String literal contains an unescaped line break." (at the newline) *)
| DStringLineBreakEOF       (* same message raised at end of input *)
| DBracketNeverClosed       (* "Bracket was never closed" (cites the opening bracket) *)
| DExpectedSemicolon        (* "Expected semicolon(;)" (cites the end of the last token) *)
| DMultilineOpen | DMultilineClose | DMultilineFirst | DMultilineLast   (* backtick string layout *)
| DBadString.               (* repaired tree: string literal rejected by Python's literal syntax *)
Inductive result (A : Type) := Ok (a : A) | Diag (d : diag) (line col : Z) | Crash (e : pyexc).
Arguments Ok {A} a. Arguments Diag {A} d line col. Arguments Crash {A} e.

Definition bind {A B} (r : result A) (f : A -> result B) : result B :=
  match r with Ok a => f a | Diag d l c => Diag d l c | Crash e => Crash e end.
Notation "'do' x <- r ; f" := (bind r (fun x => f)) (at level 200, x pattern, r at level 100, f at level 200).

(* ================================================================== ast.literal_eval on a quoted text *)
Section PyLiteral.
Variable uni : str -> option char.     (* unicodedata lookup used by \N{NAME} *)

Definition hexval (c : char) : option N :=
  if N.leb 48 c && N.leb c 57 then Some (c - 48)%N
  else if N.leb 97 c && N.leb c 102 then Some (c - 87)%N
  else if N.leb 65 c && N.leb c 70 then Some (c - 55)%N else None.
Definition is_octal (c : char) : bool := N.leb 48 c && N.leb c 55.

(* exactly n hex digits at the head of l *)
Fixpoint take_hex (n : nat) (l : str) (acc : N) : option (N * str) :=
  match n with
  | O => Some (acc, l)
  | S n' => match l with
            | c :: r => match hexval c with Some v => take_hex n' r (acc * 16 + v)%N | None => None end
            | [] => None
            end
  end.
(* up to n further octal digits *)
Fixpoint take_oct (n : nat) (l : str) (acc : N) : N * str :=
  match n with
  | O => (acc, l)
  | S n' => match l with
            | c :: r => if is_octal c then take_oct n' r (acc * 8 + (c - 48))%N else (acc, l)
            | [] => (acc, l)
            end
  end.
Fixpoint split_at (c : char) (l : str) : option (str * str) :=
  match l with
  | [] => None
  | x :: r => if ceqb x c then Some ([], r)
              else match split_at c r with Some (a, b) => Some (x :: a, b) | None => None end
  end.

(* source text is rejected before tokenising: NUL ("source code string cannot contain null bytes")
   and lone surrogates (cannot be encoded as UTF-8) *)
Definition bad_source_char (c : char) : bool := ceqb c 0%N || (N.leb 55296 c && N.leb c 57343).

(* universal-newline translation of the source: \r\n -> \n, \r -> \n *)
Fixpoint translate_newlines (l : str) : str :=
  match l with
  | [] => []
  | c :: r => if ceqb c c_cr
              then c_nl :: (match r with d :: r' => if ceqb d c_nl then translate_newlines r' else translate_newlines r
                                    | [] => [] end)
              else c :: translate_newlines r
  end.

(* decode the escapes of a string-literal body (newlines already translated).  fuel = length *)
Fixpoint unescape (fuel : nat) (l : str) : option str :=
  match fuel with
  | O => match l with [] => Some [] | _ => None end
  | S f =>
    match l with
    | [] => Some []
    | c :: r =>
      if negb (ceqb c c_bslash) then option_map (cons c) (unescape f r)
      else match r with
      | [] => None                                        (* cannot happen for a well delimited literal *)
      | e :: r' =>
        if ceqb e c_nl then unescape f r'                                   (* line continuation *)
        else if ceqb e c_bslash || ceqb e c_squote || ceqb e c_dquote then option_map (cons e) (unescape f r')
        else if ceqb e 97%N then option_map (cons 7%N) (unescape f r')       (* \a *)
        else if ceqb e 98%N then option_map (cons 8%N) (unescape f r')       (* \b *)
        else if ceqb e 102%N then option_map (cons 12%N) (unescape f r')     (* \f *)
        else if ceqb e 110%N then option_map (cons 10%N) (unescape f r')     (* \n *)
        else if ceqb e 114%N then option_map (cons 13%N) (unescape f r')     (* \r *)
        else if ceqb e 116%N then option_map (cons 9%N) (unescape f r')      (* \t *)
        else if ceqb e 118%N then option_map (cons 11%N) (unescape f r')     (* \v *)
        else if is_octal e then
          let '(v, r'') := take_oct 2 r' (e - 48)%N in option_map (cons v) (unescape f r'')
        else if ceqb e 120%N then                                            (* \xhh *)
          match take_hex 2 r' 0%N with Some (v, r'') => option_map (cons v) (unescape f r'') | None => None end
        else if ceqb e 117%N then                                            (* \uhhhh *)
          match take_hex 4 r' 0%N with Some (v, r'') => option_map (cons v) (unescape f r'') | None => None end
        else if ceqb e 85%N then                                             (* \Uhhhhhhhh *)
          match take_hex 8 r' 0%N with
          | Some (v, r'') => if N.leb v 1114111 then option_map (cons v) (unescape f r'') else None
          | None => None end
        else if ceqb e 78%N then                                             (* \N{NAME} *)
          match r' with
          | b :: r'' => if ceqb b c_lcurly then
                          match split_at c_rcurly r'' with
                          | Some (name, rest) => match uni name with
                                                 | Some v => option_map (cons v) (unescape f rest)
                                                 | None => None end
                          | None => None end
                        else None
          | [] => None end
        else option_map (fun x => c :: e :: x) (unescape f r')               (* unknown escape: kept *)
      end
    end
  end.

(* is there an unescaped newline in a '...'/"..." body? (newlines already translated) *)
Fixpoint has_raw_newline (esc : bool) (l : str) : bool :=
  match l with
  | [] => false
  | c :: r => if esc then has_raw_newline false r
              else if ceqb c c_bslash then has_raw_newline true r
              else if ceqb c c_nl then true else has_raw_newline false r
  end.

(* literal_eval(token_str) for token_str = q ++ body ++ q (q = single or double quote, body has no unescaped q and ends
   un-escaped — guaranteed by the tokenizer's own scan).  None = SyntaxError / ValueError. *)
Definition py_str_literal (tokstr : str) : option str :=
  if existsb bad_source_char tokstr then None else
  match tokstr with
  | q :: r =>
    let body := translate_newlines (removelast r) in
    if has_raw_newline false body then None else unescape (List.length body) body
  | [] => None
  end.

(* Python's scan of a triple-quoted body: returns (body, rest after the closing quotes) *)
Fixpoint triple_scan (esc : bool) (l : str) : option (str * str) :=
  match l with
  | [] => None                                                     (* unterminated *)
  | c :: r =>
    if esc then match triple_scan false r with Some (b, t) => Some (c :: b, t) | None => None end
    else if ceqb c c_bslash then match triple_scan true r with Some (b, t) => Some (c :: b, t) | None => None end
    else match l with
         | a :: b :: d :: t => if ceqb a c_dquote && ceqb b c_dquote && ceqb d c_dquote then Some ([], t)
                               else match triple_scan false r with Some (b', t') => Some (c :: b', t') | None => None end
         | _ => match triple_scan false r with Some (b', t') => Some (c :: b', t') | None => None end
         end
  end.

Inductive pyres := PyStr (s : str) | PyFail | PyOpaque.
(* re.sub over the text with the pattern  backslash-any-character | double-quote  (flags=re.DOTALL): every
   double quote that is not already behind a backslash gets one (fix 6178f2f) *)
Fixpoint escape_dquotes (l : str) : str :=
  match l with
  | [] => []
  | c :: r =>
    if ceqb c c_bslash then
      match r with
      | d :: r' => c :: d :: escape_dquotes r'
      | [] => [c]
      end
    else if ceqb c c_dquote then c_bslash :: c_dquote :: escape_dquotes r
    else c :: escape_dquotes r
  end.
(* literal_eval of  three quotes, newline, escape_dquotes(content), newline, three quotes; then [1:-1]
   (content = token_str[1:-1]) *)
Definition py_backtick (content : str) : pyres :=
  if existsb bad_source_char content then PyFail else
  let src := translate_newlines (c_nl :: escape_dquotes content ++ [c_nl; c_dquote; c_dquote; c_dquote]) in
  match triple_scan false src with
  | None => PyFail
  | Some (body, rest) =>
    match rest with
    | [] => match unescape (List.length body) body with
            | Some s => PyStr (removelast (tl s))
            | None => PyFail end
    | _ => PyOpaque                                   (* text after an early closing triple quote: outside the model *)
    end
  end.
End PyLiteral.
Close Scope N_scope.
Open Scope Z_scope.

(* ================================================================== the tokenizer state *)
Record tk := mkTk {
  s_line : Z; s_col : Z;
  s_state : option ttype;
  s_tokstr : str;
  s_tokpos : option (Z * Z);
  s_keywords : list token;
  s_lok : list (list token);          (* list_of_keywords *)
  s_quote : option char;
  s_escaped : bool;
  s_paren : option char; s_rparen : option char; s_pcount : Z;
  s_is_string : bool; s_is_comment : bool; s_is_slash : bool;
  s_allow_semi : bool
}.

Definition init (line col : Z) (asemi : bool) : tk :=
  mkTk line (col - 1) None [] None [] [] None false None None 0 false false false asemi.

(* field updates *)
Definition set_pos (st : tk) (l c : Z) :=
  mkTk l c (s_state st) (s_tokstr st) (s_tokpos st) (s_keywords st) (s_lok st) (s_quote st) (s_escaped st)
       (s_paren st) (s_rparen st) (s_pcount st) (s_is_string st) (s_is_comment st) (s_is_slash st) (s_allow_semi st).
Definition set_state (st : tk) (v : option ttype) :=
  mkTk (s_line st) (s_col st) v (s_tokstr st) (s_tokpos st) (s_keywords st) (s_lok st) (s_quote st) (s_escaped st)
       (s_paren st) (s_rparen st) (s_pcount st) (s_is_string st) (s_is_comment st) (s_is_slash st) (s_allow_semi st).
Definition set_tokstr (st : tk) (v : str) :=
  mkTk (s_line st) (s_col st) (s_state st) v (s_tokpos st) (s_keywords st) (s_lok st) (s_quote st) (s_escaped st)
       (s_paren st) (s_rparen st) (s_pcount st) (s_is_string st) (s_is_comment st) (s_is_slash st) (s_allow_semi st).
Definition set_tokpos (st : tk) (v : option (Z * Z)) :=
  mkTk (s_line st) (s_col st) (s_state st) (s_tokstr st) v (s_keywords st) (s_lok st) (s_quote st) (s_escaped st)
       (s_paren st) (s_rparen st) (s_pcount st) (s_is_string st) (s_is_comment st) (s_is_slash st) (s_allow_semi st).
Definition set_keywords (st : tk) (v : list token) :=
  mkTk (s_line st) (s_col st) (s_state st) (s_tokstr st) (s_tokpos st) v (s_lok st) (s_quote st) (s_escaped st)
       (s_paren st) (s_rparen st) (s_pcount st) (s_is_string st) (s_is_comment st) (s_is_slash st) (s_allow_semi st).
Definition set_lok (st : tk) (v : list (list token)) :=
  mkTk (s_line st) (s_col st) (s_state st) (s_tokstr st) (s_tokpos st) (s_keywords st) v (s_quote st) (s_escaped st)
       (s_paren st) (s_rparen st) (s_pcount st) (s_is_string st) (s_is_comment st) (s_is_slash st) (s_allow_semi st).
Definition set_quote (st : tk) (v : option char) :=
  mkTk (s_line st) (s_col st) (s_state st) (s_tokstr st) (s_tokpos st) (s_keywords st) (s_lok st) v (s_escaped st)
       (s_paren st) (s_rparen st) (s_pcount st) (s_is_string st) (s_is_comment st) (s_is_slash st) (s_allow_semi st).
Definition set_escaped (st : tk) (v : bool) :=
  mkTk (s_line st) (s_col st) (s_state st) (s_tokstr st) (s_tokpos st) (s_keywords st) (s_lok st) (s_quote st) v
       (s_paren st) (s_rparen st) (s_pcount st) (s_is_string st) (s_is_comment st) (s_is_slash st) (s_allow_semi st).
Definition set_parens (st : tk) (p r : option char) (n : Z) :=
  mkTk (s_line st) (s_col st) (s_state st) (s_tokstr st) (s_tokpos st) (s_keywords st) (s_lok st) (s_quote st) (s_escaped st)
       p r n (s_is_string st) (s_is_comment st) (s_is_slash st) (s_allow_semi st).
Definition set_pcount (st : tk) (n : Z) := set_parens st (s_paren st) (s_rparen st) n.
Definition set_is_string (st : tk) (v : bool) :=
  mkTk (s_line st) (s_col st) (s_state st) (s_tokstr st) (s_tokpos st) (s_keywords st) (s_lok st) (s_quote st) (s_escaped st)
       (s_paren st) (s_rparen st) (s_pcount st) v (s_is_comment st) (s_is_slash st) (s_allow_semi st).
Definition set_is_comment (st : tk) (v : bool) :=
  mkTk (s_line st) (s_col st) (s_state st) (s_tokstr st) (s_tokpos st) (s_keywords st) (s_lok st) (s_quote st) (s_escaped st)
       (s_paren st) (s_rparen st) (s_pcount st) (s_is_string st) v (s_is_slash st) (s_allow_semi st).
Definition set_is_slash (st : tk) (v : bool) :=
  mkTk (s_line st) (s_col st) (s_state st) (s_tokstr st) (s_tokpos st) (s_keywords st) (s_lok st) (s_quote st) (s_escaped st)
       (s_paren st) (s_rparen st) (s_pcount st) (s_is_string st) (s_is_comment st) v (s_allow_semi st).
Definition set_allow_semi (st : tk) (v : bool) :=
  mkTk (s_line st) (s_col st) (s_state st) (s_tokstr st) (s_tokpos st) (s_keywords st) (s_lok st) (s_quote st) (s_escaped st)
       (s_paren st) (s_rparen st) (s_pcount st) (s_is_string st) (s_is_comment st) (s_is_slash st) v.

Definition push (st : tk) (c : char) : tk := set_tokstr st (s_tokstr st ++ [c]).   (* self.token_str += char *)
Definition here (st : tk) : option (Z * Z) := Some (s_line st, s_col st).          (* Pos(self.line, self.col) *)
Definition state_is (st : tk) (t : ttype) : bool :=
  match s_state st with Some x => ttype_eqb x t | None => false end.
Definition state_none (st : tk) : bool := match s_state st with None => true | _ => false end.
Definition quote_is (st : tk) (c : char) : bool :=
  match s_quote st with Some q => ceqb q c | None => false end.
Definition opt_is (o : option char) (c : char) : bool := match o with Some q => ceqb q c | None => false end.

(* a diagnostic raised with token=None cites the tokenizer's current (line, col) *)
Definition diag_here {A} (d : diag) (st : tk) : result A := Diag d (s_line st) (s_col st).

(* ---- Token.__post_init__ + Tokenizer.append_token (no header macros) *)
Definition curly_shape_ok (s : str) : bool :=
  match s with c :: _ => ceqb c c_lcurly | [] => false end
  && match rev s with c :: _ => ceqb c c_rcurly | [] => false end.

Definition append_token (st : tk) : result tk :=
  match s_state st with
  | None => Crash ValueError                 (* "append_token() called but state is still None" *)
  | Some ty =>
    match s_tokpos st with
    | None => Crash ValueError               (* "token_pos is still None" *)
    | Some (l, c) =>
      if ttype_eqb ty PAREN_CURLY && negb (curly_shape_ok (s_tokstr st)) then Crash ValueError
      else
        let t := mkTok ty l c (s_tokstr st) (quote_is st c_btick) in
        Ok (set_state (set_tokpos (set_tokstr (set_keywords st (s_keywords st ++ [t])) []) None) None)
    end
  end.

(* ---- Tokenizer.append_keywords *)
Definition append_keywords (st : tk) : result tk :=
  match s_keywords st with
  | [] => diag_here DUnnecessarySemicolon st
  | _ => Ok (set_keywords (set_lok st (s_lok st ++ [s_keywords st])) [])
  end.

(* ---- __parse_none: returns (state, `continue`?) *)
Definition parse_none (c : char) (st : tk) : result (tk * bool) :=
  if is_quote c then
    Ok (push (set_quote (set_tokpos (set_state st (Some STRING)) (here st)) (Some c)) c, false)
  else if is_space c then Ok (st, true)
  else if ceqb c c_semi then
    do st' <- append_keywords st; Ok (st', false)
  else if is_lparen c then
    Ok (set_parens (set_tokpos (push (set_state st (Some PAREN)) c) (here st)) (Some c) (Some (paren_pair c)) 0, false)
  else if is_rparen c then diag_here DUnexpectedBracket st
  else if ceqb c c_hash && (match s_keywords st with [] => true | _ => false end) then
    Ok (set_state st (Some COMMENT), false)
  else if ceqb c c_comma then
    do st' <- append_token (set_state (set_tokpos (push st c) (here st)) (Some COMMA)); Ok (st', false)
  else if is_operator c then
    Ok (push (set_tokpos (set_state st (Some OPERATOR)) (here st)) c, false)
  else
    Ok (push (set_tokpos (set_state st (Some KEYWORD)) (here st)) c, false).

(* ---- __parse_keyword_and_operator *)
Definition str_I : str := [73%N]. Definition str_B : str := [66%N]. Definition str_L : str := [76%N].
Definition parse_kw (c : char) (es : bool) (st : tk) : result (tk * bool) :=
  if ceqb c c_squote || ceqb c c_dquote || is_lparen c || ceqb c c_comma || is_space c then
    do st' <- append_token st; Ok (st', false)
  else
    do st1 <-
      (if state_is st KEYWORD && is_operator c then
         do st' <- append_token st; Ok (set_state (set_tokpos st' (here st')) (Some OPERATOR))
       else if state_is st OPERATOR && negb (is_operator c) && negb (ceqb c c_semi) then
         do st' <- append_token st; Ok (set_state (set_tokpos st' (here st')) (Some KEYWORD))
       else Ok st);
    if ceqb c c_semi then
      if es then do st' <- append_token st1; Ok (st', false)
      else if negb (s_allow_semi st1) then diag_here DUnexpectedSemicolon st1
      else
        let st2 := set_allow_semi st1 false in
        if mem_str (s_tokstr st2) [str_I; str_B; str_L] then Ok (push st2 c, true)
        else diag_here DUnexpectedSemicolon st2
    else Ok (push st1 c, true).

(* ---- __parse_newline (line/col update included) *)
Definition parse_newline (c : char) (st : tk) : result tk :=
  let st0 := set_is_comment st false in
  do st1 <-
    (if state_is st0 STRING then
       if quote_is st0 c_btick then Ok (push st0 c)
       else if s_escaped st0 then Ok (set_tokstr (set_escaped st0 false) (removelast (s_tokstr st0)))
       else diag_here DStringLineBreak st0
     else Ok st0);
  do st2 <-
    (if state_is st1 COMMENT then Ok (set_state st1 None)
     else if state_is st1 KEYWORD || state_is st1 OPERATOR then append_token st1
     else if state_is st1 PAREN then
       (* fix a35cc07: a backslash-newline inside a string of the bracket ends the escape *)
       let st1' := push st1 c in
       Ok (if s_is_string st1' && s_escaped st1' then set_escaped st1' false else st1')
     else Ok st1);
  Ok (set_pos st2 (s_line st2 + 1) 0).

(* ---- str.split("\n") and "\n".join *)
Fixpoint split_nl_aux (cur : str) (l : str) : list str :=
  match l with
  | [] => [rev cur]
  | c :: r => if ceqb c c_nl then rev cur :: split_nl_aux [] r else split_nl_aux (c :: cur) r
  end.
Definition split_nl (l : str) : list str := split_nl_aux [] l.
Fixpoint join_nl (l : list str) : str :=
  match l with [] => [] | [x] => x | x :: r => x ++ c_nl :: join_nl r end.
(* re.fullmatch(r"\s+", line) on a non-empty line (fix cf555df; before: re.match = first character only) *)
Definition all_space (l : str) : bool := forallb is_space l.

(* ---- __parse_multiline_string *)
Definition parse_multiline_string (st : tk) : result tk :=
  let lines := split_nl (s_tokstr st) in
  match lines with
  | [_] => diag_here DMultilineOpen st
  | [_; _] => diag_here DMultilineClose st
  | [] => Crash IndexError     (* str.split never returns [] *)
  | first :: rest =>
    let last_ := last rest [] in
    if (match first with [] => false | _ => true end) && negb (all_space first) then diag_here DMultilineFirst st
    else if (match last_ with [] => false | _ => true end) && negb (all_space last_) then diag_here DMultilineLast st
    else Ok (set_tokstr st (join_nl (removelast rest)))
  end.

Section Parse.
Variable uni : str -> option char.
Variable fixed : bool.       (* true: fixes/C09-bad-escape.patch applied; false: pinned tree *)

Definition bad_literal {A} (st : tk) : result A :=
  if fixed then diag_here DBadString st else Crash PySyntaxError.

(* ---- __parse_string *)
Definition parse_string (c : char) (st : tk) : result tk :=
  let st := push st c in
  if ceqb c c_bslash && negb (s_escaped st) then Ok (set_escaped st true)
  else if opt_is (s_quote st) c && negb (s_escaped st) then
    if quote_is st c_btick then
      match py_backtick uni (removelast (tl (s_tokstr st))) with
      | PyStr s => do st' <- parse_multiline_string (set_tokstr st s); append_token st'
      | _ => bad_literal st
      end
    else
      match py_str_literal uni (s_tokstr st) with
      | Some s => append_token (set_tokstr st s)
      | None => bad_literal st
      end
  else if s_escaped st then Ok (set_escaped st false)
  else Ok st.

(* ---- __should_terminate_line / __is_shorten_if *)
Definition terminate_line : list str :=
  map of_string ["function"; "class"; "new"; "schedule"; "if"; "else"; "do"; "while"; "for"; "switch"]%string.
Definition nth_tok (l : list token) (i : nat) : result token :=
  match nth_error l i with Some t => Ok t | None => Crash IndexError end.
(* l[-k], k >= 1 *)
Definition nth_back (l : list token) (k : nat) : result token :=
  if Nat.ltb (List.length l) k then Crash IndexError else nth_tok l (List.length l - k).
Definition is_decorator (s : str) : bool :=
  Nat.ltb 2 (List.length s) && match s with c :: _ => ceqb c c_at | [] => false end.
Definition strip_dollar (s : str) : str :=
  match s with c :: r => if ceqb c c_dollar then r else s | [] => s end.

(* __case_label_length (fix: switch-case labels in front of a block statement):
   `case <n> :` / `default :` — index of the first `:` OPERATOR among the first four tokens, plus one *)
Fixpoint find_colon (l : list token) (i : nat) : nat :=
  match l with
  | [] => O
  | t :: r => if ttype_eqb (t_type t) OPERATOR && seqb (t_str t) (of_string ":") then S i else find_colon r (S i)
  end.
Definition case_label_length (st : tk) : result nat :=
  do t0 <- nth_tok (s_keywords st) 0;
  if mem_str (t_str t0) [of_string "case"; of_string "default"]
  then Ok (find_colon (firstn 4 (s_keywords st)) 0) else Ok O.

Definition should_terminate_line (st : tk) (start_at : nat) : result bool :=
  do lbl <- case_label_length st;
  do t0 <- nth_tok (s_keywords st) (start_at + lbl);
  let s := strip_dollar (t_str t0) in
  if mem_str s terminate_line then Ok true
  else
    do b2 <- (if seqb s (of_string "execute") then
                do t2 <- nth_back (s_keywords st) 2;
                Ok (mem_str (t_str t2) [of_string "run"; of_string "expand"])
              else Ok false);
    if b2 then Ok true
    else if is_decorator s then Ok true
    else if Nat.leb 3 (List.length (s_keywords st)) then
      do t2 <- nth_back (s_keywords st) 2;
      if seqb (t_str t2) (of_string "run") then
        do t3 <- nth_back (s_keywords st) 3; Ok (seqb (t_str t3) (of_string "return"))
      else Ok false
    else Ok false.

Definition is_shorten_if (st : tk) : result bool :=
  do lbl <- case_label_length st;
  do t0 <- nth_tok (s_keywords st) lbl;
  if seqb (t_str t0) (of_string "if") then
    if Nat.leb (lbl + 3) (List.length (s_keywords st)) then
      do t2 <- nth_tok (s_keywords st) (lbl + 2);
      Ok (negb (seqb (t_str t2) (of_string "expand")) && negb (ttype_eqb (t_type t2) PAREN_CURLY))
    else Ok false
  else Ok false.

(* ---- __parse_paren *)
Definition parse_paren (c : char) (es : bool) (st : tk) : result (tk * bool) :=
  let st := push st c in
  if s_is_string st then
    if ceqb c c_bslash && negb (s_escaped st) then Ok (set_escaped st true, false)
    else if opt_is (s_quote st) c && negb (s_escaped st) then Ok (set_is_string st false, false)
    else if s_escaped st then Ok (set_escaped st false, false)
    else Ok (st, false)
  else if s_is_comment st then Ok (st, false)
  else
    let st := if negb (ceqb c c_slash) && s_is_slash st then set_is_slash st false else st in
    if opt_is (s_rparen st) c && Z.eqb (s_pcount st) 0 then
      let is_curly := opt_is (s_paren st) c_lcurly in
      let st1 := if is_curly then set_state st (Some PAREN_CURLY)
                 else if opt_is (s_paren st) c_lround then set_state st (Some PAREN_ROUND)
                 else if opt_is (s_paren st) c_lsquare then set_state st (Some PAREN_SQUARE)
                 else st in
      do st2 <- append_token st1;
      if is_curly && es then
        do term <- should_terminate_line st2 0;
        if term then
          do sh <- is_shorten_if st2;
          do skip <- (if sh then do t2 <- should_terminate_line st2 2; Ok (negb t2) else Ok false);
          if skip then Ok (st2, true)
          else do st3 <- append_keywords st2; Ok (st3, true)
        else Ok (st2, true)
      else Ok (st2, true)
    else if opt_is (s_paren st) c then Ok (set_pcount st (s_pcount st + 1), false)
    else if opt_is (s_rparen st) c then Ok (set_pcount st (s_pcount st - 1), false)
    else if is_quote c then Ok (set_quote (set_is_string st true) (Some c), false)
    else if ceqb c c_hash && (match s_keywords st with [] => true | _ => false end) then
      Ok (set_is_comment st true, false)
    else if ceqb c c_slash then
      if s_is_slash st then Ok (set_is_comment st true, false) else Ok (set_is_slash st true, false)
    else Ok (st, false).

(* ---- one iteration of the loop of __parse_chars *)
Definition step (es : bool) (c : char) (st : tk) : result tk :=
  let st := set_pos st (s_line st) (s_col st + 1) in
  if ceqb c c_semi && state_none st && negb es then diag_here DUnexpectedSemicolon st
  else if ceqb c c_nl then do st' <- parse_newline c st; Ok (set_is_slash st' false)      (* fix 9285cea *)
  else if ceqb c c_slash && s_is_slash st && negb (state_is st PAREN) && negb (state_is st STRING) then
    let st1 := set_tokstr st (removelast (s_tokstr st)) in
    do st2 <- (match s_tokstr st1 with [] => Ok st1 | _ => append_token st1 end);
    Ok (set_is_slash (set_state st2 (Some COMMENT)) false)                                  (* fix 9285cea *)
  else
    do r1 <- (if state_is st KEYWORD || state_is st OPERATOR then parse_kw c es st else Ok (st, false));
    let '(st1, cont1) := r1 in
    if cont1 then Ok (set_is_slash st1 (ceqb c c_slash))
    else
      do r2 <-
        (if state_none st1 then parse_none c st1
         else if state_is st1 STRING then do s' <- parse_string c st1; Ok (s', false)
         else if state_is st1 PAREN then parse_paren c es st1
         else Ok (st1, false));
      let '(st2, cont2) := r2 in
      (* fix 9285cea: `if self.__parse_none(char): self.is_slash = False; continue` *)
      if cont2 then Ok (if state_none st1 then set_is_slash st2 false else st2)
      else Ok (set_is_slash st2 (ceqb c c_slash)).

Fixpoint parse_chars (es : bool) (s : str) (st : tk) : result tk :=
  match s with
  | [] => Ok st
  | c :: r => do st' <- step es c st; parse_chars es r st'
  end.

(* Token.length and the col_length arithmetic of error_msg *)
Definition count_nl (s : str) : Z := Z.of_nat (List.length (filter (fun c => ceqb c c_nl) s)).
(* length - rfind("\n") for a string containing a newline = 1 + number of characters after the last newline *)
Fixpoint after_last_nl (s : str) (acc : Z) : Z :=
  match s with [] => acc | c :: r => if ceqb c c_nl then after_last_nl r 0 else after_last_nl r (acc + 1) end.

(* Python repr() of a str, as far as its *length* goes.  printable: str.isprintable of one character. *)
Variable printable : char -> bool.
Definition repr_char_len (q : char) (c : char) : Z :=
  if ceqb c c_bslash || ceqb c q then 2
  else if ceqb c 9%N || ceqb c 10%N || ceqb c 13%N then 2
  else if N.ltb c 32%N || ceqb c 127%N then 4
  else if N.ltb c 127%N then 1
  else if printable c then 1
  else if N.ltb c 256%N then 4 else if N.ltb c 65536%N then 6 else 10.
Definition repr_len (s : str) : Z :=
  let q := if mem_char c_squote s && negb (mem_char c_dquote s) then c_dquote else c_squote in
  fold_left (fun a c => a + repr_char_len q c) s 2.
Definition tok_length (t : token) : Z :=
  if ttype_eqb (t_type t) STRING then repr_len (t_str t) else Z.of_nat (List.length (t_str t)).
(* Token.get_full_string() as far as newlines go, for the col_length arithmetic of error_msg:
   a non-backtick STRING is repr()'d (no raw newline); everything else is the string itself *)
Definition full_string_has_nl (t : token) : bool :=
  if ttype_eqb (t_type t) STRING then t_bt t else mem_char c_nl (t_str t).

(* error_msg(token, col_length=True): the cited (line, col) *)
Definition cite_end (t : token) : Z * Z :=
  if full_string_has_nl t then
    if ttype_eqb (t_type t) STRING then
      (* "`\n" + repr(s)[1:-1] + "\n`": two newlines; length = len(repr(s)) = rfind("\n") *)
      (t_line t + 2, 0)
    else (t_line t + count_nl (t_str t), after_last_nl (t_str t) 0 + 1)
  else (t_line t, t_col t + tok_length t).

(* ---- the tail of Tokenizer.parse *)
Definition finish (alms es : bool) (st : tk) : result (list (list token)) :=
  if state_is st STRING then diag_here DStringLineBreakEOF st
  else if state_is st PAREN then
    match s_tokpos st with
    | None => Crash ValueError
    | Some (l, c) => Diag DBracketNeverClosed l c
    end
  else
    do st1 <-
      (if es && ((match s_keywords st with [] => false | _ => true end) || (match s_tokstr st with [] => false | _ => true end)) then
         do st' <- (match s_tokstr st with [] => Ok st | _ => append_token st end);
         if alms then append_keywords st'
         else do t <- nth_back (s_keywords st') 1;
              let '(l, c) := cite_end t in Diag DExpectedSemicolon l c
       else Ok st);
    do st2 <-
      (if negb es then
         do st' <- (match s_tokstr st1 with [] => Ok st1 | _ => append_token st1 end);
         (match s_keywords st' with [] => Ok st' | _ => append_keywords st' end)
       else Ok st1);
    Ok (s_lok st2).

Definition parse_gen (alms es asemi : bool) (s : str) (line col : Z) : result (list (list token)) :=
  do st <- parse_chars es s (init line col asemi); finish alms es st.
End Parse.

(* The repaired tokenizer. *)
Definition parse (uni : str -> option char) (printable : char -> bool) := parse_gen uni true printable.
