(* Model.ExprBack — Gallina port of the back half of the `:=` pipeline:
     optimize_const / merge_constants / merge_constant   (expression_eval.py)
     lowering                                            (var_operation.py)
   and the whole statement  `target :<form>= tokens`, as repaired by fixes/C02-*.patch. *)
From Coq Require Import ZArith String List Bool.
From JMCV Require Import Base.Int32 Base.Dec MC.Syntax Model.Names Model.VarOp Model.Expr Model.ExprSpec Model.ExprFront.
Import ListNotations.
Open Scope Z_scope.

Definition o_var (o : oper2) : score := fst (fst o).
Definition o_op (o : oper2) : opc := snd (fst o).
Definition o_num (o : oper2) : onum := snd o.
Definition is_cconst (n : onum) : bool := match n with CConst _ => true | _ => false end.

(* ------------------------------------------------------------------ optimize_const *)
(* merge_constant(first_operator, const, operator, number): `v fo= c; v o= n` as `v fo= result` *)
Definition fval (f : folded) : option Z := match f with FVal z => Some z | _ => None end.

Definition merge_constant (fo : opc) (c : Z) (o : opc) (n : Z) : option Z :=
  match fo with
  | PEmpty => match o with
              | PEmpty => None
              | PPow => None                     (* operations never carry "**" *)
              | _ => fval (fold_constants o c n)
              end
  | PAdd | PSub =>
      match o with
      | PAdd | PSub => fval (fold_constants (if opc_eqb fo o then PAdd else PSub) c n)
      | _ => None
      end
  | PMul => match o with PMul => fval (fold_constants PMul c n) | _ => None end
  | PDiv => match o with
            | PDiv => if (0 <? c) && (0 <? n) && (c * n <? 2147483648) then Some (c * n) else None
            | _ => None
            end
  | _ => None
  end.

(* commutative_kind *)
Inductive kind := KAdd | KMul.
Definition kind_eqb (a b : kind) : bool := match a, b with KAdd, KAdd | KMul, KMul => true | _, _ => false end.
Definition kind_of (o : opc) : option kind :=
  match o with PAdd | PSub => Some KAdd | PMul => Some KMul | _ => None end.
(* crossed in (None, kind) *)
Definition crossed_ok (crossed k : option kind) : bool :=
  match crossed with
  | None => true
  | Some c => match k with Some k' => kind_eqb c k' | None => false end
  end.

Definition reads_self (x : oper2) : bool :=
  match o_num x with CVar s => score_eqb s (o_var x) | _ => false end.

(* merge_constants: the loop.  new_operations = rev done ++ anchor :: rev between when there is an anchor
   (the operation whose constant takes in the following constants), rev done otherwise. *)
Record mstate := mkM {
  m_done : list oper2;                        (* REVERSED *)
  m_anchor : option (score * opc * Z);
  m_between : list oper2;                     (* REVERSED; operations after the anchor *)
  m_crossed : option kind
}.
Definition m_close (st : mstate) : list oper2 :=      (* REVERSED new_operations *)
  match m_anchor st with
  | Some (v, o, c) => m_between st ++ (v, o, CConst c) :: m_done st
  | None => m_done st
  end.

Definition merge_step (st : mstate) (x : oper2) : mstate :=
  let '(var, op, num) := x in
  let k := kind_of op in
  match num with
  | CVar s =>
      match m_anchor st with
      | Some (av, ao, ac) =>
          if match k with None => true | Some _ => false end
             || score_eqb s var
             || negb (crossed_ok (m_crossed st) k)
             || (negb (opc_eqb ao PEmpty)
                 && negb (match kind_of ao, k with Some a, Some b => kind_eqb a b | None, None => true | _, _ => false end))
          then mkM (x :: m_close st) None [] (m_crossed st)
          else mkM (m_done st) (m_anchor st) (x :: m_between st) k
      | None => mkM (x :: m_done st) None [] (m_crossed st)
      end
  | CConst n =>
      let fresh := mkM (m_close st) (Some (var, op, n)) [] None in
      match m_anchor st with
      | Some (av, ao, ac) =>
          if crossed_ok (m_crossed st) k then
            match merge_constant ao ac op n with
            | Some c' => mkM (m_done st) (Some (av, ao, c')) (m_between st) (m_crossed st)
            | None => fresh
            end
          else fresh
      | None => fresh
      end
  end.

(* `v += 0`, `v -= 0`, `v *= 1`, `v /= 1` *)
Definition is_identity (x : oper2) : bool :=
  match o_num x with
  | CConst c => match o_op x with
                | PAdd | PSub => c =? 0
                | PMul | PDiv => c =? 1
                | _ => false
                end
  | _ => false
  end.

Definition merge_constants (l : list oper2) : list oper2 :=
  filter (fun x => negb (is_identity x)) (rev (m_close (fold_left merge_step l (mkM [] None [] None)))).

Fixpoint opt_loop (l : list oper2) (temp : list oper2) (acc : list oper2) : list oper2 :=
  match l with
  | [] => acc ++ merge_constants temp
  | (var, op, n) :: r =>
      match temp with
      | [] => opt_loop r [(var, op, n)] acc
      | t0 :: rest =>
          let same_var := score_eqb var (o_var t0) in
          let same_grp := is_same_group op (o_op (last temp t0)) in
          let after_eq := (Nat.eqb (length temp) 1) && opc_eqb (o_op t0) PEmpty in
          if same_var && (same_grp || after_eq) then
            if negb after_eq || negb (is_reflective op)
               || negb (is_cconst (o_num t0)) || is_cconst n
               || match n with CVar s => score_eqb s var | _ => false end
            then opt_loop r (temp ++ [(var, op, n)]) acc
            else opt_loop r ((var, o_op t0, n) :: rest ++ [(var, op, o_num t0)]) acc     (* v = c; v += a  ->  v = a; v += c *)
          else opt_loop r [(var, op, n)] (acc ++ merge_constants temp)
      end
  end.
Definition optimize_const (l : list oper2) : list oper2 := opt_loop l [] [].

(* ------------------------------------------------------------------ lowering *)
(* int_score nm z = (z_dec z, int_name nm): the fake player of the constant z (Model.VarOp) *)
Definition amount_ok (z : Z) : bool := (0 <=? z) && (z <=? INT_MAX).

(* one (variable, operator, number) triple -> one command + the constants asked from add_int *)
Definition lower_one (nm : names) (o : oper2) : M (cmd * list Z) :=
  let '(v, op, n) := o in
  match n with
  | CVar s =>
      if opc_eqb op PPow then unmodelled "operator ** in an operation" else ret (COp v (sop_of_opc op) s, [])
  | CConst z =>
      (* number = int(float(content)) *)
      if FLOAT_EXACT <? Z.abs z then tell T_const_range ;;; unmodelled "int(float(constant)) rounds" else
      match op with
      | PAdd => if z =? INT_MIN then ret (COp v OAdd (int_score nm z), [z]) else     (* -2147483648 goes through the constant *)
                let c := if 0 <=? z then CAdd v z else CRemove v (- z) in
                tell_if (negb (amount_ok (Z.abs z))) T_const_range ;;; ret (c, [])
      | PSub => if z =? INT_MIN then ret (COp v OSub (int_score nm z), [z]) else
                let c := if 0 <=? z then CRemove v z else CAdd v (- z) in
                tell_if (negb (amount_ok (Z.abs z))) T_const_range ;;; ret (c, [])
      | PEmpty => tell_if (negb (in_int32b z)) T_const_range ;;; ret (CSet v z, [])
      | PMod | PMul | PDiv =>
          tell_if (negb (in_int32b z)) T_const_range ;;;
          ret (COp v (sop_of_opc op) (int_score nm z), [z])
      | PPow => crash "Exception"        (* "Somehow, there's an operator JMC doesn't know" *)
      end
  end.

Fixpoint lower (nm : names) (l : list oper2) : M (list cmd * list Z) :=
  match l with
  | [] => ret ([], [])
  | o :: r => '(c, i) <- lower_one nm o ;; '(cs, is) <- lower nm r ;; ret (c :: cs, i ++ is)
  end.

(* ------------------------------------------------------------------ the statement *)
(* var_operation.py: `target :<form>= tokens` for the six expression operators
   (is_expression_operator); the tokens after the operator go to tokens_to_tokens unchanged *)
Definition compile_assign (nm : names) (target : score) (form : opc) (toks : list tok)
  : M (list cmd * list Z) :=
  match toks with
  | [] => diag "Expected keyword after operator"
  | _ =>
      ft <- tokens_to_tokens nm toks ;;
      tree <- expression_to_tree ft ;;
      ops <- tree_to_operations nm tree target form ;;
      lower nm (optimize_const ops)
  end.

Definition compile_expr (nm : names) (target : score) (form : opc) (e : expr) : M (list cmd * list Z) :=
  compile_assign nm target form (render e).
