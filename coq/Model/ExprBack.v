(* Model.ExprBack — Gallina port of the back half of the `:=` pipeline:
     optimize_const   (expression_eval.py:510-601)
     lowering         (var_operation.py:289-356)
   and the whole statement  `target :<form>= tokens`  (var_operation.py:93-95, 265-356).
   optimize_const is modelled WITH fixes/C02-optconst-identity.patch applied
   (`in "*%"` / `in "+-"` on lines 593/595 became `in ("*", "/")` / `in ("+", "-")`),
   and eval_expr WITH fixes/C02-evalexpr-unary-plus.patch (ast.UAdd accepted). *)
From Coq Require Import ZArith String List Bool.
From JMCV Require Import Base.Int32 Base.Dec MC.Syntax Model.Names Model.VarOp Model.Expr Model.ExprSpec Model.ExprFront.
Import ListNotations.
Open Scope Z_scope.

Definition o_var (o : oper2) : score := fst (fst o).
Definition o_op (o : oper2) : opc := snd (fst o).
Definition o_num (o : oper2) : onum := snd o.
Definition is_cconst (n : onum) : bool := match n with CConst _ => true | _ => false end.

(* ------------------------------------------------------------------ optimize_const *)
(* temp_operations = pre ++ [first constant] ++ post, pre without constants *)
Fixpoint split_const (l : list oper2) : list oper2 * option ((score * opc * Z) * list oper2) :=
  match l with
  | [] => ([], None)
  | (v, o, CConst c) :: r => ([], Some ((v, o, c), r))
  | x :: r => let '(pre, s) := split_const r in (x :: pre, s)
  end.

(* mid-list flush (lines 536-556): the first constant absorbs every later constant n of the group as
   eval_expr(const + op + " " + n) — whatever the first constant's own operator is; the later
   entries are deleted.  (The identity tests in that loop compare with "*%" / "+-" by ==: never true.) *)
Definition reads_self (x : oper2) : bool :=
  match o_num x with CVar s => score_eqb s (o_var x) | _ => false end.

Fixpoint mid_merge (fo : opc) (c : Z) (post : list oper2) (crossed selfx : bool) : M (Z * list oper2) :=
  match post with
  | [] => ret (c, [])
  | (v, o, CConst n) :: r =>
      tell_if selfx T_opt_merge_self ;;;
      tell_if (match fo with
               | PSub | PDiv | PMod => true
               | PEmpty => crossed && (opc_eqb o PDiv || opc_eqb o PMod)
               | _ => false end) T_opt_mid_merge ;;;
      c' <- py_eval2 c o n ;;
      mid_merge fo c' r crossed selfx
  | x :: r => '(c', r') <- mid_merge fo c r true (selfx || reads_self x) ;; ret (c', x :: r')
  end.
Definition flush_mid (l : list oper2) : M (list oper2) :=
  match split_const l with
  | (_, None) => ret l
  | (pre, Some ((v, o, c), post)) =>
      '(c', post') <- mid_merge o c post false false ;; ret (pre ++ (v, o, CConst c') :: post')
  end.

(* final flush (lines 561-600) *)
Fixpoint final_merge (fo : opc) (c : Z) (post : list oper2) (crossed selfx : bool) : M (Z * list oper2) :=
  match post with
  | [] => ret (c, [])
  | (v, o, CConst n) :: r =>
      if opc_eqb fo PMod then                                   (* `continue`: kept *)
        '(c', r') <- final_merge fo c r true selfx ;; ret (c', (v, o, CConst n) :: r')
      else
        tell_if selfx T_opt_merge_self ;;;
        c' <- (match fo with
               | PMul => py_eval2 c o n
               | PDiv => tell T_opt_final_div ;;;
                         py_eval2 c (if opc_eqb o PDiv then PMul else PDiv) n
               | PPow => crash "Exception"                      (* "Unreachable" *)
               | _ => (* first_const_op.content in "+-" : "", "+" or "-" (the == "" branch below it is dead) *)
                   tell_if (opc_eqb fo PSub) T_opt_final_minus ;;;
                   tell_if (opc_eqb fo PEmpty && opc_eqb o PDiv && crossed) T_opt_final_div ;;;
                   tell_if (opc_eqb fo PEmpty && opc_eqb o PMod && crossed) T_opt_final_mod ;;;
                   py_eval3 fo c o n
               end) ;;
        final_merge fo c' r crossed selfx
  | x :: r => '(c', r') <- final_merge fo c r true (selfx || reads_self x) ;; ret (c', x :: r')
  end.
Definition flush_final (l : list oper2) : M (list oper2) :=
  match split_const l with
  | (_, None) => ret l
  | (pre, Some ((v, o, c), post)) =>
      '(c', post') <- final_merge o c post false false ;;
      (* identity elimination, as repaired by fixes/C02-optconst-identity.patch *)
      let is_identity :=
          match o with
          | PMul | PDiv => c' =? 1
          | PAdd | PSub => c' =? 0
          | _ => false
          end in
      ret (pre ++ (if is_identity then post' else (v, o, CConst c') :: post'))
  end.

Fixpoint opt_loop (l : list oper2) (temp : list oper2) (acc : list oper2) : M (list oper2) :=
  match l with
  | [] => match temp with
          | [] => ret acc
          | _ => t' <- flush_final temp ;; ret (acc ++ t')
          end
  | (var, op, n) :: r =>
      match temp with
      | [] => opt_loop r [(var, op, n)] acc
      | t0 :: rest =>
          let same_var := score_eqb var (o_var t0) in
          let same_grp := is_same_group op (o_op (last temp t0)) in
          let after_eq := (Nat.eqb (length temp) 1) && opc_eqb (o_op t0) PEmpty in
          if same_var && (same_grp || after_eq) then
            if negb (opc_eqb (o_op t0) PEmpty) || negb (is_reflective op)
               || negb (is_cconst (o_num t0)) || is_cconst n
            then opt_loop r (temp ++ [(var, op, n)]) acc
            else
              tell_if (match n with CVar s => score_eqb s var | _ => false end) T_opt_swap_self ;;;
              opt_loop r ((var, o_op t0, n) :: rest ++ [(var, op, o_num t0)]) acc
          else t' <- flush_mid temp ;; opt_loop r [(var, op, n)] (acc ++ t')
      end
  end.
Definition optimize_const (l : list oper2) : M (list oper2) := opt_loop l [] [].

(* ------------------------------------------------------------------ lowering *)
(* int_score nm z = (z_dec z, int_name nm): the fake player of the constant z (Model.VarOp) *)
Definition amount_ok (z : Z) : bool := (0 <=? z) && (z <=? INT_MAX).

(* one (variable, operator, number) triple -> one command + the constants asked from add_int *)
Definition lower_one (nm : names) (o : oper2) : M (cmd * list Z) :=
  let '(v, op, n) := o in
  match n with
  | CVar s =>
      if opc_eqb op PPow then unmodelled "operator ** in an operation" else ret (COp v (sop_of_opc op) s, [])
  | CConst z =>
      (* number = int(float(content)) *)
      if FLOAT_EXACT <? Z.abs z then tell T_const_range ;;; unmodelled "int(float(constant)) rounds" else
      match op with
      | PAdd => let c := if 0 <=? z then CAdd v z else CRemove v (- z) in
                tell_if (negb (amount_ok (Z.abs z))) T_const_range ;;; ret (c, [])
      | PSub => let c := if 0 <=? z then CRemove v z else CAdd v (- z) in
                tell_if (negb (amount_ok (Z.abs z))) T_const_range ;;; ret (c, [])
      | PEmpty => tell_if (negb (in_int32b z)) T_const_range ;;; ret (CSet v z, [])
      | PMod | PMul | PDiv =>
          tell_if (negb (in_int32b z)) T_const_range ;;;
          ret (COp v (sop_of_opc op) (int_score nm z), [z])
      | PPow => crash "Exception"        (* "Somehow, there's an operator JMC doesn't know" *)
      end
  end.

Fixpoint lower (nm : names) (l : list oper2) : M (list cmd * list Z) :=
  match l with
  | [] => ret ([], [])
  | o :: r => '(c, i) <- lower_one nm o ;; '(cs, is) <- lower nm r ;; ret (c :: cs, i ++ is)
  end.

(* ------------------------------------------------------------------ the statement *)
(* var_operation.py:93-95: for every operator except `:=`, a `-` directly after the operator is
   merged with the following token into one KEYWORD *)
Fixpoint tok_has_objsel (t : tok) : bool :=
  match t with
  | KVarT (SObjSel _ _) => true
  | KParen l => existsb tok_has_objsel l
  | _ => false
  end.
Definition has_objsel (l : list tok) : bool := existsb tok_has_objsel l.

Definition iop_premerge (form : opc) (toks : list tok) : M (list tok) :=
  if opc_eqb form PEmpty then ret toks else
  match toks with
  | KOp PSub :: nxt :: rest =>
      match nxt with
      | KNum z => ret (KNum (- z) :: rest)              (* "-3": what tokens_to_tokens would have built *)
      | KVarT (SDollar _) =>                             (* "-$a": Unrecognized expression token *)
          tell T_iop_leading_minus ;;; diag "Unrecognized expression token"
      | KVarT (SObjSel o s) =>                           (* "-obj:@s" is split at ':' : objective "-obj" *)
          tell T_iop_leading_minus ;;; ret (KVarT (SObjSel ("-" ++ o) s) :: rest)
      | KParen l =>
          tell T_iop_leading_minus ;;;
          if has_objsel l then unmodelled "merged parenthesis containing ':'"
          else diag "Unrecognized expression token"
      | KOp _ => unmodelled "two operators merged into a keyword"
      end
  | _ => ret toks
  end.

Definition compile_assign (nm : names) (target : score) (form : opc) (toks : list tok)
  : M (list cmd * list Z) :=
  match toks with
  | [] => diag "Expected keyword after operator"
  | _ =>
      toks1 <- iop_premerge form toks ;;
      ft <- tokens_to_tokens nm toks1 ;;
      tree <- expression_to_tree ft ;;
      ops <- tree_to_operations nm tree target form ;;
      ops' <- optimize_const ops ;;
      lower nm ops'
  end.

Definition compile_expr (nm : names) (target : score) (form : opc) (e : expr) : M (list cmd * list Z) :=
  compile_assign nm target form (render e).
