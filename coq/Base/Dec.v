(* Decimal printing of integers, with injectivity (used by macro dispatch and by
   every printer). *)
From Coq Require Import ZArith String DecimalString DecimalZ Decimal.
Open Scope Z_scope.

Definition z_dec (z : Z) : string := NilZero.string_of_int (Z.to_int z).

Lemma to_int_not_nil z : Z.to_int z <> Pos Nil /\ Z.to_int z <> Neg Nil.
Proof.
  destruct z as [|p|p]; cbn; split; try discriminate.
  - intros H. injection H as H. pose proof (DecimalPos.Unsigned.to_uint_nonnil p). congruence.
  - intros H. injection H as H. pose proof (DecimalPos.Unsigned.to_uint_nonnil p). congruence.
Qed.

Lemma z_dec_inj a b : z_dec a = z_dec b -> a = b.
Proof.
  unfold z_dec. intros H.
  destruct (to_int_not_nil a) as [Ha1 Ha2]. destruct (to_int_not_nil b) as [Hb1 Hb2].
  pose proof (NilZero.isi _ Ha1 Ha2) as Ia. pose proof (NilZero.isi _ Hb1 Hb2) as Ib.
  rewrite H in Ia. rewrite Ia in Ib. injection Ib as Ib.
  rewrite <- (DecimalZ.of_to a), <- (DecimalZ.of_to b). now f_equal.
Qed.
