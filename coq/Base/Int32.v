(* 32-bit wrap-around integers as used by Minecraft scoreboards (Java int). *)
From Coq Require Import ZArith Lia Bool.
Open Scope Z_scope.

Definition INT_MIN : Z := -2147483648.
Definition INT_MAX : Z := 2147483647.
Definition TWO32 : Z := 4294967296.

Definition wrap (x : Z) : Z := ((x + 2147483648) mod 4294967296) - 2147483648.
Definition in_int32 (x : Z) : Prop := INT_MIN <= x <= INT_MAX.
Definition in_int32b (x : Z) : bool := (INT_MIN <=? x) && (x <=? INT_MAX).

Lemma in_int32b_spec x : in_int32b x = true <-> in_int32 x.
Proof. unfold in_int32b, in_int32. rewrite andb_true_iff, !Z.leb_le. tauto. Qed.

Lemma wrap_range x : in_int32 (wrap x).
Proof.
  unfold wrap, in_int32, INT_MIN, INT_MAX.
  pose proof (Z.mod_pos_bound (x + 2147483648) 4294967296 ltac:(lia)). lia.
Qed.

Lemma wrap_id x : in_int32 x -> wrap x = x.
Proof.
  unfold wrap, in_int32, INT_MIN, INT_MAX. intros H.
  rewrite Z.mod_small by lia. lia.
Qed.

Lemma wrap_wrap x : wrap (wrap x) = wrap x.
Proof. apply wrap_id, wrap_range. Qed.

Lemma wrap_congr x : exists k, wrap x = x + k * 4294967296.
Proof.
  unfold wrap. exists (- ((x + 2147483648) / 4294967296)).
  pose proof (Z.div_mod (x + 2147483648) 4294967296 ltac:(lia)). lia.
Qed.

Lemma wrap_eq_of_congr x y k : y = x + k * 4294967296 -> wrap x = wrap y.
Proof.
  intros ->. unfold wrap.
  replace (x + k * 4294967296 + 2147483648) with (x + 2147483648 + k * 4294967296) by lia.
  now rewrite Z.mod_add by lia.
Qed.

Lemma wrap_add_l x y : wrap (wrap x + y) = wrap (x + y).
Proof.
  destruct (wrap_congr x) as [k Hk]. symmetry.
  apply (wrap_eq_of_congr _ _ k). lia.
Qed.

Lemma wrap_add_r x y : wrap (x + wrap y) = wrap (x + y).
Proof. rewrite (Z.add_comm x), wrap_add_l. f_equal; lia. Qed.

Lemma wrap_sub_l x y : wrap (wrap x - y) = wrap (x - y).
Proof. unfold Z.sub. apply wrap_add_l. Qed.

Lemma wrap_mul_l x y : wrap (wrap x * y) = wrap (x * y).
Proof.
  destruct (wrap_congr x) as [k Hk]. symmetry.
  apply (wrap_eq_of_congr _ _ (k * y)). rewrite Hk. lia.
Qed.

Lemma wrap_opp_intmin : wrap (- INT_MIN) = INT_MIN.
Proof. reflexivity. Qed.
