#!/bin/sh
# regenerate _CoqProject from the files present (Gen/ is never part of the project)
cd "$(dirname "$0")" || exit 2
{
  echo "-Q . JMCV"
  echo "-arg -w -arg -unused-intro-pattern"
  find Base MC Model Proofs Props Run -name '*.v' 2>/dev/null | LC_ALL=C sort
} > _CoqProject.new
if ! cmp -s _CoqProject.new _CoqProject; then mv _CoqProject.new _CoqProject; else rm _CoqProject.new; fi
