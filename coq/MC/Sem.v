(* MC.Sem — fuelled big-step semantics of MC.Syntax (specification, trusted). *)
From Coq Require Import ZArith String List Bool.
From JMCV Require Import Base.Int32 Base.Dec MC.Syntax.
Import ListNotations.
Open Scope Z_scope.

Inductive event := ESay (t : string) | EExt (n : nat) | EOther (t : string).

Record state := mkState {
  sc  : score -> option Z;      (* None = score not set *)
  stg : string -> option Z;     (* integer values in data storage, by "storage path" *)
  tr  : list event               (* newest first *)
}.

Record res := mkRes { ok : bool; val : Z }.
Definition r_ok (v : Z) := mkRes true v.
Definition r_fail := mkRes false 0.

Definition upd (f : score -> option Z) (k : score) (v : option Z) : score -> option Z :=
  fun k' => if score_eqb k k' then v else f k'.
Definition supd (f : string -> option Z) (k : string) (v : option Z) : string -> option Z :=
  fun k' => if String.eqb k k' then v else f k'.
Definition rd (f : score -> option Z) (k : score) : Z :=
  match f k with Some v => v | None => 0 end.

Definition set_sc (st : state) (k : score) (v : Z) : state :=
  mkState (upd (sc st) k (Some v)) (stg st) (tr st).
Definition log (st : state) (e : event) : state :=
  mkState (sc st) (stg st) (e :: tr st).

Definition in_range (v : Z) (r : range) : bool :=
  match r with
  | Exact z => v =? z | From z => z <=? v | To z => v <=? z
  | Between a b => (a <=? v) && (v <=? b)
  end.
Definition cmp_true (o : cmpop) (a b : Z) : bool :=
  match o with CLt => a <? b | CLe => a <=? b | CEq => a =? b | CGe => a >=? b | CGt => a >? b end.

(* A test on an unset score is false (so `unless` is true). *)
Definition test_true (st : state) (t : test) : bool :=
  match t with
  | Matches s r => match sc st s with Some v => in_range v r | None => false end
  | Cmp s o s2 => match sc st s, sc st s2 with
                  | Some a, Some b => cmp_true o a b | _, _ => false end
  end.

(* scoreboard players operation a <op> b : unset reads 0 and becomes set;
   / and % by zero leave the target unchanged (the command fails). *)
Definition do_op (st : state) (a : score) (o : sop) (b : score) : state * res :=
  let x := rd (sc st) a in
  let y := rd (sc st) b in
  let touched := set_sc (set_sc st b y) a x in   (* getOrCreate on both *)
  match o with
  | OAssign => (set_sc touched a y, r_ok y)
  | OAdd => let r := wrap (x + y) in (set_sc touched a r, r_ok r)
  | OSub => let r := wrap (x - y) in (set_sc touched a r, r_ok r)
  | OMul => let r := wrap (x * y) in (set_sc touched a r, r_ok r)
  | ODiv => if y =? 0 then (touched, r_fail) else let r := wrap (x / y) in (set_sc touched a r, r_ok r)
  | OMod => if y =? 0 then (touched, r_fail) else let r := wrap (x mod y) in (set_sc touched a r, r_ok r)
  | OMin => let r := Z.min x y in (set_sc touched a r, r_ok r)
  | OMax => let r := Z.max x y in (set_sc touched a r, r_ok r)
  | OSwap => (set_sc (set_sc touched a y) b x, r_ok y)
  end.

Definition apply_store (r : res) (st : state) (kd : skind * dest) : state :=
  let v := match fst kd with SResult => val r | SSuccess => if ok r then 1 else 0 end in
  match snd kd with
  | DScore s => set_sc st s v
  | DStorage p => mkState (sc st) (supd (stg st) p (Some v)) (tr st)
  end.
Definition apply_stores (stores : list (skind * dest)) (r : res) (st : state) : state :=
  fold_left (apply_store r) stores st.

(* Sequencing and `execute` modifiers, parameterised by the executor of one command. *)
Fixpoint seq_run (step : cmd -> state -> option (state * res)) (l : list cmd) (st : state)
  : option state :=
  match l with
  | [] => Some st
  | c :: r => match step c st with
              | Some (st', _) => seq_run step r st'
              | None => None end
  end.

Fixpoint run_mods (ms : list modifier) (stores : list (skind * dest)) (st : state)
         (k : state -> option (state * res)) : option (state * res) :=
  match ms with
  | [] => match k st with
          | Some (st', r) => Some (apply_stores stores r st', r)
          | None => None end
  | MIf pos t :: ms' =>
    if Bool.eqb pos (test_true st t) then run_mods ms' stores st k
    else Some (apply_stores stores r_fail st, r_fail)
  | MStore kd d :: ms' => run_mods ms' (stores ++ [(kd, d)]) st k
  end.

Definition no_menv : string -> option Z := fun _ => None.

Section Exec.
  Variable ft : string -> option (list cmd).       (* function table *)
  Variable env : nat -> state -> state.            (* meaning of abstract sub-programs *)

  Definition call_res (o : option state) : option (state * res) :=
    match o with Some st' => Some (st', r_ok 0) | None => None end.

  (* menv: macro arguments of the enclosing `function … with storage` call *)
  Fixpoint exec (fuel : nat) (menv : string -> option Z) (c : cmd) (st : state)
    : option (state * res) :=
    match fuel with
    | O => None
    | S f =>
      match c with
      | CSet s z => Some (set_sc st s z, r_ok z)
      | CAdd s z => let r := wrap (rd (sc st) s + z) in Some (set_sc st s r, r_ok r)
      | CRemove s z => let r := wrap (rd (sc st) s - z) in Some (set_sc st s r, r_ok r)
      | COp a o b => Some (do_op st a o b)
      | CReset s => Some (mkState (upd (sc st) s None) (stg st) (tr st), r_ok 1)
      | CGet s => match sc st s with Some v => Some (st, r_ok v) | None => Some (st, r_fail) end
      | CExecute ms body => run_mods ms [] st (exec f menv body)
      | CCall fn => match ft fn with
                    | None => Some (st, r_fail)
                    | Some body => call_res (seq_run (exec f no_menv) body st)
                    end
      | CCallWith fn stor =>
        match ft fn with
        | None => Some (st, r_fail)
        | Some body =>
          call_res (seq_run (exec f (fun key => stg st (stor ++ " " ++ key)%string)) body st)
        end
      | CMacroCall pre key =>
        match menv key with
        | None => Some (st, r_fail)
        | Some v => match ft (pre ++ z_dec v)%string with
                    | None => Some (st, r_fail)
                    | Some body => call_res (seq_run (exec f no_menv) body st)
                    end
        end
      | CSay t => Some (log st (ESay t), r_ok 1)
      | CExt n => Some (log (env n st) (EExt n), r_ok 1)
      | COther t => Some (log st (EOther t), r_ok 1)
      end
    end.

  Definition exec_list (fuel : nat) (l : list cmd) (st : state) : option state :=
    seq_run (exec fuel no_menv) l st.
End Exec.

(* Well-formedness: what Minecraft's command parser accepts.  A function file
   containing a non-wf line does not load. *)
Definition wf_range (r : range) : bool :=
  match r with
  | Exact z | From z | To z => in_int32b z
  | Between a b => in_int32b a && in_int32b b && (a <=? b)
  end.
Definition wf_test (t : test) : bool :=
  match t with Matches _ r => wf_range r | Cmp _ _ _ => true end.
Definition wf_mod (m : modifier) : bool :=
  match m with MIf _ t => wf_test t | MStore _ _ => true end.
Fixpoint wf_cmd (c : cmd) : bool :=
  match c with
  | CSet _ z => in_int32b z
  | CAdd _ z | CRemove _ z => (0 <=? z) && (z <=? INT_MAX)
  | CExecute ms b => forallb wf_mod ms && wf_cmd b
  | _ => true
  end.
