(* MC.Print — concrete text of MC.Syntax commands, as written in .mcfunction files. *)
From Coq Require Import ZArith String Ascii List Bool.
From JMCV Require Import Base.Dec MC.Syntax.
Import ListNotations.
Open Scope string_scope.

Definition pr_score (s : score) : string := fst s ++ " " ++ snd s.
Definition pr_range (r : range) : string :=
  match r with
  | Exact z => z_dec z | From z => z_dec z ++ ".." | To z => ".." ++ z_dec z
  | Between a b => z_dec a ++ ".." ++ z_dec b
  end.
Definition pr_cmpop (o : cmpop) : string :=
  match o with CLt => "<" | CLe => "<=" | CEq => "=" | CGe => ">=" | CGt => ">" end.
Definition pr_test (t : test) : string :=
  match t with
  | Matches s r => "score " ++ pr_score s ++ " matches " ++ pr_range r
  | Cmp s o s2 => "score " ++ pr_score s ++ " " ++ pr_cmpop o ++ " " ++ pr_score s2
  end.
Definition pr_sop (o : sop) : string :=
  match o with
  | OAssign => "=" | OAdd => "+=" | OSub => "-=" | OMul => "*=" | ODiv => "/="
  | OMod => "%=" | OMin => "<" | OMax => ">" | OSwap => "><"
  end.
Definition pr_mod (m : modifier) : string :=
  match m with
  | MIf true t => "if " ++ pr_test t
  | MIf false t => "unless " ++ pr_test t
  | MStore k d =>
    "store " ++ (match k with SResult => "result" | SSuccess => "success" end) ++ " " ++
    (match d with DScore s => "score " ++ pr_score s | DStorage p => "storage " ++ p ++ " int 1" end)
  end.
Fixpoint pr_cmd (c : cmd) : string :=
  match c with
  | CSet s z => "scoreboard players set " ++ pr_score s ++ " " ++ z_dec z
  | CAdd s z => "scoreboard players add " ++ pr_score s ++ " " ++ z_dec z
  | CRemove s z => "scoreboard players remove " ++ pr_score s ++ " " ++ z_dec z
  | COp a o b => "scoreboard players operation " ++ pr_score a ++ " " ++ pr_sop o ++ " " ++ pr_score b
  | CReset s => "scoreboard players reset " ++ pr_score s
  | CGet s => "scoreboard players get " ++ pr_score s
  | CExecute ms b => "execute " ++ String.concat " " (map pr_mod ms) ++ " run " ++ pr_cmd b
  | CCall f => "function " ++ f
  | CCallWith f stor => "function " ++ f ++ " with storage " ++ stor
  | CMacroCall pre key => "$function " ++ pre ++ "$(" ++ key ++ ")"
  | CSay t => "say " ++ t
  | CExt n => "<ext " ++ z_dec (Z.of_nat n) ++ ">"
  | COther t => t
  end.
Definition pr_cmds (l : list cmd) : string := String.concat (String (ascii_of_nat 10) EmptyString) (map pr_cmd l).
