(* MC.Syntax — abstract syntax of the Minecraft commands JMC emits.
   This (with MC.Sem) is the *written specification* of Minecraft used as the
   oracle by the semantic theorems; it is trusted, not verified (DESIGN.md §4). *)
From Coq Require Import ZArith String List Bool.
Import ListNotations.

Definition score := (string * string)%type.      (* (holder, objective) *)
Definition score_eqb (a b : score) : bool :=
  String.eqb (fst a) (fst b) && String.eqb (snd a) (snd b).

Lemma score_eqb_spec a b : reflect (a = b) (score_eqb a b).
Proof.
  destruct a as [a1 a2], b as [b1 b2]. unfold score_eqb; cbn.
  destruct (String.eqb_spec a1 b1), (String.eqb_spec a2 b2); cbn; constructor; congruence.
Qed.
Lemma score_eqb_refl a : score_eqb a a = true.
Proof. destruct (score_eqb_spec a a); congruence. Qed.
Lemma score_eqb_neq a b : a <> b -> score_eqb a b = false.
Proof. destruct (score_eqb_spec a b); congruence. Qed.
Lemma score_eqb_sym a b : score_eqb a b = score_eqb b a.
Proof. destruct (score_eqb_spec a b), (score_eqb_spec b a); congruence. Qed.

Inductive range := Exact (z : Z) | From (z : Z) | To (z : Z) | Between (a b : Z).
Inductive cmpop := CLt | CLe | CEq | CGe | CGt.
Inductive test :=
| Matches (s : score) (r : range)
| Cmp (s : score) (o : cmpop) (s2 : score).
Inductive sop := OAssign | OAdd | OSub | OMul | ODiv | OMod | OMin | OMax | OSwap.
Inductive skind := SResult | SSuccess.
Inductive dest := DScore (s : score) | DStorage (path : string).
Inductive modifier := MIf (positive : bool) (t : test) | MStore (k : skind) (d : dest).

Inductive cmd :=
| CSet (s : score) (z : Z)
| CAdd (s : score) (z : Z)
| CRemove (s : score) (z : Z)
| COp (s : score) (o : sop) (s2 : score)
| CReset (s : score)
| CGet (s : score)
| CExecute (ms : list modifier) (body : cmd)
| CCall (f : string)                       (* function f *)
| CCallWith (f : string) (stor : string)   (* function f with storage stor *)
| CMacroCall (pre : string) (key : string) (* $function pre$(key) *)
| CSay (t : string)
| CExt (n : nat)                           (* abstract sub-program number n *)
| COther (t : string).                     (* any other command: no effect on scores *)
