(* MC.Facts — basic lemmas about the semantics. *)
From Coq Require Import ZArith String List Bool Lia.
From JMCV Require Import Base.Int32 Base.Dec MC.Syntax MC.Sem.
Import ListNotations.
Open Scope Z_scope.

Lemma upd_same f k v : upd f k v k = v.
Proof. unfold upd. now rewrite score_eqb_refl. Qed.
Lemma upd_other f k v k' : k <> k' -> upd f k v k' = f k'.
Proof. intros H. unfold upd. now rewrite score_eqb_neq. Qed.
Lemma upd_cases f k v k' : (k = k' /\ upd f k v k' = v) \/ (k <> k' /\ upd f k v k' = f k').
Proof.
  destruct (score_eqb_spec k k') as [->|N]; [left|right]; split; auto using upd_same, upd_other.
Qed.

Lemma rd_upd_same f k v : rd (upd f k (Some v)) k = v.
Proof. unfold rd. now rewrite upd_same. Qed.
Lemma rd_upd_other f k v k' : k <> k' -> rd (upd f k v) k' = rd f k'.
Proof. intros. unfold rd. now rewrite upd_other. Qed.

Lemma supd_same f k v : supd f k v k = v.
Proof. unfold supd. now rewrite String.eqb_refl. Qed.
Lemma supd_other f k v k' : k <> k' -> supd f k v k' = f k'.
Proof. intros H. unfold supd. destruct (String.eqb_spec k k'); congruence. Qed.

(* Fuel monotonicity: more fuel never changes a terminating run. *)
Lemma seq_run_ext (s1 s2 : cmd -> state -> option (state * res)) :
  (forall c st r, s1 c st = Some r -> s2 c st = Some r) ->
  forall l st st', seq_run s1 l st = Some st' -> seq_run s2 l st = Some st'.
Proof.
  intros Hs. induction l as [|c l IH]; intros st st' H; [exact H|]. cbn [seq_run] in *.
  destruct (s1 c st) as [[x r]|] eqn:E; [|discriminate]. rewrite (Hs _ _ _ E). auto.
Qed.

Lemma run_mods_ext (k1 k2 : state -> option (state * res)) :
  (forall st r, k1 st = Some r -> k2 st = Some r) ->
  forall ms stores st r, run_mods ms stores st k1 = Some r -> run_mods ms stores st k2 = Some r.
Proof.
  intros Hk. induction ms as [|[pos t|kd d] ms IH]; intros stores st r H; cbn [run_mods] in *.
  - destruct (k1 st) as [[x y]|] eqn:E; [|discriminate]. now rewrite (Hk _ _ E).
  - destruct (Bool.eqb pos (test_true st t)); auto.
  - auto.
Qed.

Lemma seq_run_app step l1 l2 st :
  seq_run step (l1 ++ l2) st =
  match seq_run step l1 st with Some st' => seq_run step l2 st' | None => None end.
Proof.
  revert st. induction l1 as [|c l1 IH]; intros; cbn [seq_run app]; [reflexivity|].
  destruct (step c st) as [[s1 r1]|]; [apply IH|reflexivity].
Qed.

Section Mono.
  Variable ft : string -> option (list cmd).
  Variable env : nat -> state -> state.

  Lemma exec_mono : forall n me c st r, exec ft env n me c st = Some r ->
                                 forall m, (n <= m)%nat -> exec ft env m me c st = Some r.
  Proof.
    induction n as [|n IH]; intros me c st r H m Hm; [discriminate|].
    destruct m as [|m]; [lia|]. assert (Hnm : (n <= m)%nat) by lia.
    assert (SR : forall me l st st', seq_run (exec ft env n me) l st = Some st' ->
                                     seq_run (exec ft env m me) l st = Some st').
    { intros me'. apply seq_run_ext. intros; eapply IH; eauto. }
    destruct c; cbn [exec] in *; try exact H.
    - eapply run_mods_ext; [|exact H]. intros; eapply IH; eauto.
    - destruct (ft f) as [body|]; [|exact H]. unfold call_res in *.
      destruct (seq_run (exec ft env n no_menv) body st) eqn:E; [|discriminate].
      now rewrite (SR _ _ _ _ E).
    - destruct (ft f) as [body|]; [|exact H]. unfold call_res in *.
      match type of H with match ?X with _ => _ end = _ => destruct X eqn:E; [|discriminate] end.
      now rewrite (SR _ _ _ _ E).
    - destruct (me key) as [v|]; [|exact H].
      destruct (ft _) as [body|]; [|exact H]. unfold call_res in *.
      destruct (seq_run (exec ft env n no_menv) body st) eqn:E; [|discriminate].
      now rewrite (SR _ _ _ _ E).
  Qed.

  Lemma exec_list_mono l n st st' : exec_list ft env n l st = Some st' ->
                                    forall m, (n <= m)%nat -> exec_list ft env m l st = Some st'.
  Proof.
    unfold exec_list. intros H m Hm. eapply seq_run_ext; [|exact H].
    intros; eapply exec_mono; eauto.
  Qed.

  Lemma exec_list_app l1 l2 n st :
      exec_list ft env n (l1 ++ l2) st =
      match exec_list ft env n l1 st with Some st' => exec_list ft env n l2 st' | None => None end.
  Proof. apply seq_run_app. Qed.
End Mono.
