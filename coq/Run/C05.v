(* Run.C05 — driver for the generated correspondence cases of C05.
   (1) the same comparison as Run.C04 (text of the caller and of every generated private function,
       Model.Loop vs real compiler), re-exported;
   (2) strengthening round 4: packs whose loops are nested in / around `switch` statements (both
       lowerings) and `execute … run { … }` blocks: Model.LoopSwitch.xcompile_stmts vs real compiler,
       every function of the pack compared by exact text. *)
From Coq Require Import ZArith String List Bool.
From JMCV Require Export Run.C04.
From JMCV Require Import Base.Dec MC.Syntax MC.Print Model.Names Model.PrivAlloc Model.IfElse Model.Loop
     Model.LoopSwitch Run.Common.
From JMCV Require Model.Switch.
Import ListNotations.

Record xcase := mkXCase {
  xk_nm : names;
  xk_cfg : Switch.cfg;                                       (* pack_format, #forcebst *)
  xk_funs_of : list (string * (names -> xstmts) * string);   (* user function: name, body, real text | "<error>" *)
  xk_real_fns : list (string * string)                       (* every private function: resource name, text *)
}.
Definition xk_funs (c : xcase) : list (string * xstmts) :=
  map (fun d => (fst (fst d), snd (fst d) (xk_nm c))) (xk_funs_of c).
Definition xk_real_users (c : xcase) : list string := map snd (xk_funs_of c).

(* the user functions in source order, the numbering state threaded through *)
Fixpoint xcompile_funs (nm : names) (cf : Switch.cfg) (fl : list (string * xstmts)) (a : xalloc)
  : option (list (list cmd) * xalloc) :=
  match fl with
  | [] => Some ([], a)
  | (_, l) :: r =>
    match xcompile_stmts nm cf l a with
    | None => None
    | Some (lines, a1) =>
      match xcompile_funs nm cf r a1 with
      | None => None
      | Some (ls, a2) => Some (lines :: ls, a2)
      end
    end
  end.

Definition xmodel_out (c : xcase) : option (list string * list (string * string)) :=
  match xcompile_funs (xk_nm c) (xk_cfg c) (xk_funs c) xalloc0 with
  | Some (bodies, a) => Some (map pr_cmds bodies, map (fun d => (fst d, pr_cmds (snd d))) (all_fns a))
  | None => None
  end.

Definition xcase_ok (c : xcase) : bool :=
  match xmodel_out c with
  | Some (bodies, fs) => strs_eq bodies (xk_real_users c) && fns_eq fs (xk_real_fns c)
  | None => forallb (String.eqb "<error>") (xk_real_users c)
  end.
Definition xmismatches (l : list xcase) : list nat := bad_indices xcase_ok l.

Definition xmodel_text (c : xcase) : string :=
  match xmodel_out c with
  | Some (bodies, fs) =>
    String.concat nl (map (fun d => ("== function " ++ fst (fst d) ++ nl ++ snd d)%string) (combine (xk_funs c) bodies) ++
                      map (fun d => ("== " ++ fst d ++ nl ++ snd d)%string) fs)
  | None => "<error>"
  end.
