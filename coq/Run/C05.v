(* Run.C05 — driver for the generated correspondence cases of C05: the same comparison as
   Run.C04 (text of the caller and of every generated private function, model vs real compiler). *)
From JMCV Require Export Run.C04.
