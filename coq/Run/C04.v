(* Run.C04 — driver for the generated correspondence cases of C04 (and, re-exported, C05):
   a function body (statement tree) is lowered by the model; the text of the caller and of
   every generated private function must equal what the real compiler wrote. *)
From Coq Require Import ZArith String List Bool.
From JMCV Require Import Base.Dec MC.Syntax MC.Print Model.Names Model.PrivAlloc Model.IfElse Model.Loop Run.Common.
From JMCV Require Model.Cond.
From JMCV Require Import Model.CondLower.
Import ListNotations.

(* The (precommand lines, execute guards) pair of a condition is NOT predicted by the harness:
   it is what property C03's model of condition.py (Model.Cond.parse_condition, the function
   the C03 theorems are about) returns for the formula the source text was printed from:
   Model.CondLower.cond_of_formula — the very definition the composition theorems
   C04_chain_with_formulas / C05_*_with_formula (Props/C04.v, Props/C05.v) are stated about.
   wrapped = the compiler receives the round-bracket token (if / else if / while / do-while);
   false = the bare token list (the middle part of `for (..; ..; ..)`).
   A formula the model refuses yields a line no compiler output equals (none is generated). *)
Definition lowc (nm : names) (wrapped : bool) (f : Cond.formula) : cond :=
  cond_or_refused nm wrapped f.

(* One pack: its user functions in source order (name, body, text the real compiler wrote for it, or
   "<error>" when it refused the pack) and every private function the real compiler generated.
   The numbering state (DataPack.private_function_count, private_functions) is threaded through the
   functions in source order: a later function continues where the earlier one stopped. *)
Record case := mkCase {
  k_nm : names;
  k_funs_of : list (string * (names -> stmts) * string);   (* conditions inside are `lowc nm …` *)
  k_real_fns : list (string * string)      (* every private function: resource name, text *)
}.
Definition k_funs (c : case) : list (string * stmts) :=
  map (fun d => (fst (fst d), snd (fst d) (k_nm c))) (k_funs_of c).
Definition k_real_users (c : case) : list string := map snd (k_funs_of c).

Fixpoint compile_funs (nm : names) (fl : list (string * stmts)) (a : alloc) : option (list (list cmd) * alloc) :=
  match fl with
  | [] => Some ([], a)
  | (_, l) :: r =>
    match compile_stmts nm l a with
    | None => None
    | Some (lines, a1) =>
      match compile_funs nm r a1 with
      | None => None
      | Some (ls, a2) => Some (lines :: ls, a2)
      end
    end
  end.

Definition model_out (c : case) : option (list string * list (string * string)) :=
  match compile_funs (k_nm c) (k_funs c) alloc0 with
  | Some (bodies, a) => Some (map pr_cmds bodies, map (fun d => (fst d, pr_cmds (snd d))) (fns a))
  | None => None
  end.

Fixpoint lookup_s (l : list (string * string)) (f : string) : option string :=
  match l with
  | [] => None
  | (f', b) :: r => if String.eqb f f' then Some b else lookup_s r f
  end.
Definition fns_eq (a b : list (string * string)) : bool :=
  Nat.eqb (length a) (length b) &&
  forallb (fun d => match lookup_s b (fst d) with Some t => String.eqb t (snd d) | None => false end) a &&
  forallb (fun d => match lookup_s a (fst d) with Some t => String.eqb t (snd d) | None => false end) b.

Fixpoint strs_eq (a b : list string) : bool :=
  match a, b with
  | [], [] => true
  | x :: a', y :: b' => String.eqb x y && strs_eq a' b'
  | _, _ => false
  end.

Definition case_ok (c : case) : bool :=
  match model_out c with
  | Some (bodies, fs) => strs_eq bodies (k_real_users c) && fns_eq fs (k_real_fns c)
  | None => forallb (String.eqb "<error>") (k_real_users c)
  end.
Definition mismatches (l : list case) : list nat := bad_indices case_ok l.

(* ---- the lowering BEFORE fixes/C04-return-in-branch.patch, kept only to CLASSIFY a differing case as the
   known finding C04-return-in-branch: a copy of Model.Loop.compile_stmt / compile_stmts / compile_branches in which a
   branch body that can `return` is NOT moved into a function of its own.  No theorem speaks about it (what is wrong
   with it is stated in Props/C04.v: C04_return_runs_two_branches_refuted). *)
Module Pinned.
Fixpoint compile_stmt0 (nm : names) (s : stmt) (a : alloc) {struct s} : option (list cmd * alloc) :=
  match s with
  | SCmd c => Some ([c], a)
  | SIf b e =>
    match b, e with
    | BNil, _ => None
    | BCons c body BNil, ENone =>
      match compile_stmts0 nm body a with
      | None => None
      | Some (lines, a1) =>
        match alloc_arrow lines a1 with
        | None => None
        | Some (aid, a2) =>
          let (caller, fs) := single_if_code nm c lines aid in Some (caller, add_fns fs a2)
        end
      end
    | _, _ =>
      (* wrapped branches in order, each numbered after its body was lowered *)
      match compile_branches0 nm (match e with ENone => false | ESome _ => true end) b a with
      | None => None
      | Some (ws, lastelif, a1) =>
        match e, lastelif with
        | ESome body, _ =>
          match compile_stmts0 nm body a1 with
          | None => None
          | Some (lines, a2) => finish_chain nm ws (inl lines) a2
          end
        | ENone, Some cl => finish_chain nm ws (inr cl) a1
        | ENone, None => None
        end
      end
    end
  | SWhile c body =>
    let (k, a1) := get_count WHILE_NAME a in
    match compile_stmts0 nm body a1 with
    | None => None
    | Some (lines, a2) => let (caller, fs) := while_code nm c lines k in Some (caller, add_fns fs a2)
    end
  | SDoWhile body c =>
    let (k, a1) := get_count WHILE_NAME a in
    match compile_stmts0 nm body a1 with
    | None => None
    | Some (lines, a2) => let (caller, fs) := dowhile_code nm c lines k in Some (caller, add_fns fs a2)
    end
  | SFor init c step body =>
    match body with
    | SNil => None                       (* "For loop content cannot be empty" *)
    | _ =>
      let (k, a1) := get_count FOR_NAME a in
      match compile_stmts0 nm body a1 with
      | None => None
      | Some (lines, a2) => let (caller, fs) := for_code nm init c step lines k in Some (caller, add_fns fs a2)
      end
    end
  end
with compile_stmts0 (nm : names) (l : stmts) (a : alloc) {struct l} : option (list cmd * alloc) :=
  match l with
  | SNil => Some ([], a)
  | SCons s r =>
    match compile_stmt0 nm s a with
    | None => None
    | Some (l1, a1) =>
      match compile_stmts0 nm r a1 with
      | None => None
      | Some (l2, a2) => Some (l1 ++ l2, a2)
      end
    end
  end
(* has_else = true: every branch is wrapped; false: the last one is returned unwrapped *)
with compile_branches0 (nm : names) (has_else : bool) (b : branches) (a : alloc) {struct b}
  : option (list wbr * option (cond * list cmd) * alloc) :=
  match b with
  | BNil => Some ([], None, a)
  | BCons c body r =>
    match compile_stmts0 nm body a with
    | None => None
    | Some (lines, a1) =>
      if is_bnil r && negb has_else then Some ([], Some (c, lines), a1)
      else
        let (blines, a1') := (lines, a1) in   (* no isolation *)
        let (k, a2) := get_count IF_ELSE a1' in
        (* add_custom_private_function stores the branch function right away *)
        match compile_branches0 nm has_else r (add_fn (wbr_fn nm (mkW c blines k)) a2) with
        | None => None
        | Some (ws, last, a3) => Some (mkW c blines k :: ws, last, a3)
        end
    end
  end.


Fixpoint compile_funs0 (nm : names) (fl : list (string * stmts)) (a : alloc) : option (list (list cmd) * alloc) :=
  match fl with
  | [] => Some ([], a)
  | (_, l) :: r =>
    match compile_stmts0 nm l a with
    | None => None
    | Some (lines, a1) =>
      match compile_funs0 nm r a1 with
      | None => None
      | Some (ls, a2) => Some (lines :: ls, a2)
      end
    end
  end.
Definition model_out0 (c : case) : option (list string * list (string * string)) :=
  match compile_funs0 (k_nm c) (k_funs c) alloc0 with
  | Some (bodies, a) => Some (map pr_cmds bodies, map (fun d => (fst d, pr_cmds (snd d))) (fns a))
  | None => None
  end.
(* the real text is exactly the unrepaired lowering AND that differs from the repaired one *)
Definition case_is_pinned (c : case) : bool :=
  negb (case_ok c) &&
  match model_out0 c with
  | Some (bodies, fs) => strs_eq bodies (k_real_users c) && fns_eq fs (k_real_fns c)
  | None => false
  end.
End Pinned.
(* indices of the cases whose real text is NOT the unrepaired lowering *)
Definition not_pinned (l : list case) : list nat := bad_indices Pinned.case_is_pinned l.

(* a single function is the special case of a pack with one function *)
Lemma compile_funs_single : forall nm name l,
  compile_funs nm [(name, l)] alloc0 =
  match compile_body nm l with Some (lines, fs) => Some ([lines], mkAlloc (counts (snd (match compile_stmts nm l alloc0 with Some x => x | None => ([], alloc0) end))) fs) | None => None end.
Proof.
  intros nm name l. unfold compile_body. cbn [compile_funs].
  destruct (compile_stmts nm l alloc0) as [[lines a]|]; [|reflexivity].
  cbn. destruct a; reflexivity.
Qed.

(* for display when a case differs *)
Definition nl : string := String (Ascii.ascii_of_nat 10) EmptyString.
Definition model_text (c : case) : string :=
  match model_out c with
  | Some (bodies, fs) =>
    String.concat nl (map (fun d => ("== function " ++ fst (fst d) ++ nl ++ snd d)%string) (combine (k_funs c) bodies) ++
                      map (fun d => ("== " ++ fst d ++ nl ++ snd d)%string) fs)
  | None => "<error>"
  end.
