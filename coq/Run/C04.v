(* Run.C04 — driver for the generated correspondence cases of C04 (and, re-exported, C05):
   a function body (statement tree) is lowered by the model; the text of the caller and of
   every generated private function must equal what the real compiler wrote. *)
From Coq Require Import ZArith String List Bool.
From JMCV Require Import Base.Dec MC.Syntax MC.Print Model.Names Model.PrivAlloc Model.IfElse Model.Loop Run.Common.
From JMCV Require Model.Cond.
From JMCV Require Import Model.CondLower.
Import ListNotations.

(* The (precommand lines, execute guards) pair of a condition is NOT predicted by the harness:
   it is what property C03's model of condition.py (Model.Cond.parse_condition, the function
   the C03 theorems are about) returns for the formula the source text was printed from:
   Model.CondLower.cond_of_formula — the very definition the composition theorems
   C04_chain_with_formulas / C05_*_with_formula (Props/C04.v, Props/C05.v) are stated about.
   wrapped = the compiler receives the round-bracket token (if / else if / while / do-while);
   false = the bare token list (the middle part of `for (..; ..; ..)`).
   A formula the model refuses yields a line no compiler output equals (none is generated). *)
Definition lowc (nm : names) (wrapped : bool) (f : Cond.formula) : cond :=
  cond_or_refused nm wrapped f.

(* One pack: its user functions in source order (name, body, text the real compiler wrote for it, or
   "<error>" when it refused the pack) and every private function the real compiler generated.
   The numbering state (DataPack.private_function_count, private_functions) is threaded through the
   functions in source order: a later function continues where the earlier one stopped. *)
Record case := mkCase {
  k_nm : names;
  k_funs_of : list (string * (names -> stmts) * string);   (* conditions inside are `lowc nm …` *)
  k_real_fns : list (string * string)      (* every private function: resource name, text *)
}.
Definition k_funs (c : case) : list (string * stmts) :=
  map (fun d => (fst (fst d), snd (fst d) (k_nm c))) (k_funs_of c).
Definition k_real_users (c : case) : list string := map snd (k_funs_of c).

Fixpoint compile_funs (nm : names) (fl : list (string * stmts)) (a : alloc) : option (list (list cmd) * alloc) :=
  match fl with
  | [] => Some ([], a)
  | (_, l) :: r =>
    match compile_stmts nm l a with
    | None => None
    | Some (lines, a1) =>
      match compile_funs nm r a1 with
      | None => None
      | Some (ls, a2) => Some (lines :: ls, a2)
      end
    end
  end.

Definition model_out (c : case) : option (list string * list (string * string)) :=
  match compile_funs (k_nm c) (k_funs c) alloc0 with
  | Some (bodies, a) => Some (map pr_cmds bodies, map (fun d => (fst d, pr_cmds (snd d))) (fns a))
  | None => None
  end.

Fixpoint lookup_s (l : list (string * string)) (f : string) : option string :=
  match l with
  | [] => None
  | (f', b) :: r => if String.eqb f f' then Some b else lookup_s r f
  end.
Definition fns_eq (a b : list (string * string)) : bool :=
  Nat.eqb (length a) (length b) &&
  forallb (fun d => match lookup_s b (fst d) with Some t => String.eqb t (snd d) | None => false end) a &&
  forallb (fun d => match lookup_s a (fst d) with Some t => String.eqb t (snd d) | None => false end) b.

Fixpoint strs_eq (a b : list string) : bool :=
  match a, b with
  | [], [] => true
  | x :: a', y :: b' => String.eqb x y && strs_eq a' b'
  | _, _ => false
  end.

Definition case_ok (c : case) : bool :=
  match model_out c with
  | Some (bodies, fs) => strs_eq bodies (k_real_users c) && fns_eq fs (k_real_fns c)
  | None => forallb (String.eqb "<error>") (k_real_users c)
  end.
Definition mismatches (l : list case) : list nat := bad_indices case_ok l.

(* a single function is the special case of a pack with one function *)
Lemma compile_funs_single : forall nm name l,
  compile_funs nm [(name, l)] alloc0 =
  match compile_body nm l with Some (lines, fs) => Some ([lines], mkAlloc (counts (snd (match compile_stmts nm l alloc0 with Some x => x | None => ([], alloc0) end))) fs) | None => None end.
Proof.
  intros nm name l. unfold compile_body. cbn [compile_funs].
  destruct (compile_stmts nm l alloc0) as [[lines a]|]; [|reflexivity].
  cbn. destruct a; reflexivity.
Qed.

(* for display when a case differs *)
Definition nl : string := String (Ascii.ascii_of_nat 10) EmptyString.
Definition model_text (c : case) : string :=
  match model_out c with
  | Some (bodies, fs) =>
    String.concat nl (map (fun d => ("== function " ++ fst (fst d) ++ nl ++ snd d)%string) (combine (k_funs c) bodies) ++
                      map (fun d => ("== " ++ fst d ++ nl ++ snd d)%string) fs)
  | None => "<error>"
  end.
