(* Run.C04 — driver for the generated correspondence cases of C04 (and, re-exported, C05):
   a function body (statement tree) is lowered by the model; the text of the caller and of
   every generated private function must equal what the real compiler wrote. *)
From Coq Require Import ZArith String List Bool.
From JMCV Require Import Base.Dec MC.Syntax MC.Print Model.Names Model.PrivAlloc Model.IfElse Model.Loop Run.Common.
From JMCV Require Model.Cond.
Import ListNotations.

(* The (precommand lines, execute guards) pair of a condition is NOT predicted by the harness:
   it is what property C03's model of condition.py (Model.Cond.parse_condition, the function
   the C03 theorems are about) returns for the formula the source text was printed from.
   wrapped = the compiler receives the round-bracket token (if / else if / while / do-while);
   false = the bare token list (the middle part of `for (..; ..; ..)`).
   A formula the model refuses yields a line no compiler output equals (none is generated). *)
Definition lowc (nm : names) (wrapped : bool) (f : Cond.formula) : cond :=
  let toks := Cond.tokens_of f in
  match Cond.parse_condition nm (if wrapped then [Cond.TParen toks] else toks) with
  | Some (pcs, cs) => mkCond pcs cs
  | None => mkCond [COther "<condition refused by Model.Cond>"%string] []
  end.

Record case := mkCase {
  k_nm : names;
  k_prog_of : names -> stmts;              (* the program; its conditions are `lowc nm …` *)
  k_real_body : string;                    (* text of the user function, or "<error>" *)
  k_real_fns : list (string * string)      (* every private function: resource name, text *)
}.

Definition k_prog (c : case) : stmts := k_prog_of c (k_nm c).

Definition model_out (c : case) : option (string * list (string * string)) :=
  match compile_body (k_nm c) (k_prog c) with
  | Some (lines, fs) => Some (pr_cmds lines, map (fun d => (fst d, pr_cmds (snd d))) fs)
  | None => None
  end.

Fixpoint lookup_s (l : list (string * string)) (f : string) : option string :=
  match l with
  | [] => None
  | (f', b) :: r => if String.eqb f f' then Some b else lookup_s r f
  end.
Definition fns_eq (a b : list (string * string)) : bool :=
  Nat.eqb (length a) (length b) &&
  forallb (fun d => match lookup_s b (fst d) with Some t => String.eqb t (snd d) | None => false end) a &&
  forallb (fun d => match lookup_s a (fst d) with Some t => String.eqb t (snd d) | None => false end) b.

Definition case_ok (c : case) : bool :=
  match model_out c with
  | Some (body, fs) => String.eqb body (k_real_body c) && fns_eq fs (k_real_fns c)
  | None => String.eqb (k_real_body c) "<error>"
  end.
Definition mismatches (l : list case) : list nat := bad_indices case_ok l.

(* for display when a case differs *)
Definition nl : string := String (Ascii.ascii_of_nat 10) EmptyString.
Definition model_text (c : case) : string :=
  match model_out c with
  | Some (body, fs) =>
    String.concat nl (("== caller" ++ nl ++ body)%string ::
                      map (fun d => ("== " ++ fst d ++ nl ++ snd d)%string) fs)
  | None => "<error>"
  end.
