(* Run.C09 — driver for the generated correspondence cases of C09. *)
From Coq Require Import ZArith Bool String Ascii List Uint63 PArray.
From JMCV Require Import Model.Lit Run.Common.
Import ListNotations.
Open Scope Z_scope.

(* Long code point lists are written by the harness as primitive arrays of primitive integers
   (`ua [| 104; 105 | 0 |]%uint63`): Coq parses those several times faster than a `list Z` of numerals. *)
Fixpoint arr_go (n : nat) (i : int) (a : array int) : str :=
  match n with
  | O => nil
  | S n' => cons (Uint63.to_Z (PArray.get a i)) (arr_go n' (Uint63.add i 1%uint63) a)
  end.
Definition ua (a : array int) : str := arr_go (Z.to_nat (Uint63.to_Z (PArray.length a))) 0%uint63 a.

(* what the real compiler did with the case *)
Inductive outcome :=
| RLine (l : str)     (* the unique output line that holds the marker *)
| RDiag               (* refused with a JMC diagnostic *)
| RCrash              (* a non-JMC exception / timeout *)
| RMissing.           (* compiled, but no (or more than one) line holds the marker *)

Record case := mkCase {
  c_q : Z;                 (* the quote character of the literal: 34 or 39 *)
  c_raw : str;             (* source text between the quotes *)
  c_k : carrier;
  c_cs : list ctx;         (* outermost first *)
  c_np : list Z;           (* non-ASCII code points of the value that Python deems non-printable *)
  c_names : list (str * Z); (* the \N{name} names of the literal that Python's unicodedata knows, with their code points *)
  c_real : outcome
}.

Definition pr_of (np : list Z) (c : Z) : bool := negb (memz c np).

Fixpoint nm_of (t : list (str * Z)) (n : str) : option Z :=
  match t with
  | [] => None
  | (k, v) :: r => if str_eqb k n then Some v else nm_of r n
  end.

Definition model_out (c : case) : res str :=
  compile_lit (nm_of (c_names c)) (pr_of (c_np c)) (c_q c) (c_raw c) (c_k c) (c_cs c).

Definition agree (m : res str) (r : outcome) : bool :=
  match m, r with
  | Ok l, RLine l' => str_eqb l l'
  | Diag, RDiag => true
  | Crash, RCrash => true
  | Unmodelled, _ => true          (* reported separately by `unmodelled` *)
  | _, _ => false
  end.

Definition case_ok (c : case) : bool := agree (model_out c) (c_real c).
Definition mismatches (l : list case) : list nat := bad_indices case_ok l.
Definition is_modelled (c : case) : bool :=
  match model_out c with Unmodelled => false | _ => true end.
Definition unmodelled (l : list case) : list nat := bad_indices is_modelled l.

(* ------------------------------------------------------------------ the pinned tree, for the
   classification of known findings: global replaces and the un-caught SyntaxError *)
Fixpoint after_boundary (cs : list ctx) : list ctx :=
  match cs with
  | [] => []
  | c :: r => if existsb ctx_hides_outer r then after_boundary r
              else if ctx_boundary c then r else c :: r
  end.

Definition apply_ctx_pinned (c : ctx) (x : str) : str :=
  match c with
  | CElse var => else_pinned var x
  | CElseIfLast var cond => else_if_last_pinned var cond x
  | CAssign2 h1 o1 h2 o2 => assign2_pinned h1 o1 h2 o2 x
  | _ => wrap_ws (ctx_wrappers c) x
  end.

Definition wrap_pinned (cs : list ctx) (l : str) : str :=
  fold_right apply_ctx_pinned l (after_boundary cs).

(* pinned say refuses LF only; pinned backtick decoding goes wrong on triple double quotes *)
Definition emit_pinned (pr : Z -> bool) (k : carrier) (s : str) : res str :=
  match k with
  | KSay => if memz 10 s then Diag else Ok (SAY_ ++ s)
  | _ => emit pr k s
  end.
Definition bt_pinned_modelled (raw : str) : bool :=
  negb (occurs [34; 34; 34] raw) && negb (match split_last raw with Some (_, c) => c =? 34 | None => false end).
Definition model_out_pinned (c : case) : res str :=
  rbind (if c_q c =? 96 then (if bt_pinned_modelled (c_raw c) then decode_bt_pinned (nm_of (c_names c)) (c_raw c) else Unmodelled)
         else decode_pinned (nm_of (c_names c)) (c_q c) (c_raw c))
        (fun s => rmap (wrap_pinned (c_cs c)) (emit_pinned (pr_of (c_np c)) (c_k c) s)).

Definition case_ok_pinned (c : case) : bool := agree (model_out_pinned c) (c_real c).
Definition mismatches_pinned (l : list case) : list nat := bad_indices case_ok_pinned l.

(* evaluation helpers used when a mismatch has to be shown *)
Definition show (r : res str) : str :=
  match r with
  | Ok l => l
  | Diag => lit "<diagnostic>"
  | Crash => lit "<crash>"
  | Unmodelled => lit "<unmodelled>"
  end.
