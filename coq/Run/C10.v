(* Run.C10 — driver for the generated correspondence cases of C10 (also used by C11).
   One case = one real `compile_jmc` run under harness/fstrace.py: the tree before, the facts of the run
   (configuration, header facts, outcome of the front end, injected fault / crash point), the recorded
   mutation trace, the result and the tree after. *)
From Coq Require Import String List Bool Arith.
From JMCV Require Import Model.FS Model.Build.
Import ListNotations.

Record case := mkCase {
  k_v : variant; k_cfg : cfg; k_hdr : hdr; k_out : outcome; k_fault : option path;
  k_before : fs;
  k_crash : option nat;             (* Some k: KeyboardInterrupt right after the k-th mutation (torn if a write) *)
  k_trace : list op;                (* recorded mutations *)
  k_res : result;                   (* real result (ignored for crashed runs) *)
  k_after : list (path * node)      (* real snapshot afterwards, every node *)
}.

Fixpoint list_eqb {A} (e : A -> A -> bool) (a b : list A) : bool :=
  match a, b with
  | [], [] => true
  | x :: a', y :: b' => e x y && list_eqb e a' b'
  | _, _ => false
  end.
Definition content_eqb (a b : content) : bool :=
  match a, b with
  | Raw x, Raw y => String.eqb x y
  | Tag x, Tag y => list_eqb String.eqb x y
  | _, _ => false
  end.
Definition node_eqb (a b : node) : bool :=
  match a, b with NFile x, NFile y => content_eqb x y | NDir, NDir => true | _, _ => false end.
Definition onode_eqb (a b : option node) : bool :=
  match a, b with Some x, Some y => node_eqb x y | None, None => true | _, _ => false end.
Definition op_eqb (a b : op) : bool :=
  match a, b with
  | Mkdir p, Mkdir q | Create p, Create q | Unlink p, Unlink q | Rmdir p, Rmdir q => path_eqb p q
  | Write p c, Write q d | Replace p c, Replace q d => path_eqb p q && content_eqb c d
  | _, _ => false
  end.
Definition result_eqb (a b : result) : bool :=
  match a, b with
  | RHeaderErr, RHeaderErr | RRefused, RRefused | RLexErr, RLexErr | RBuildErr, RBuildErr
  | ROsErr, ROsErr | RTagErr, RTagErr | RDone, RDone => true
  | _, _ => false
  end.

(* what the model expects the trace to be: the plan, or its first k mutations for a crashed run, the
   last of which — if it is a write — may have left any (torn) content: the recorded one is taken *)
Definition torn_last (real : list op) (ops : list op) : list op :=
  match rev ops, rev real with
  | Write p _ :: r, Write q c :: _ => if path_eqb p q then rev (Write p c :: r) else ops
  | _, _ => ops
  end.
Definition expected_ops (k : case) : list op :=
  let pl := plan (k_v k) (k_cfg k) (k_hdr k) (k_out k) (k_fault k) (k_before k) in
  match k_crash k with
  | Some n => torn_last (k_trace k) (firstn n pl)
  | None => pl
  end.
Definition expected_res (k : case) : result :=
  snd (run (k_v k) (k_cfg k) (k_hdr k) (k_out k) (k_fault k) (k_before k)).

Definition snap_ok (t : fs) (l : list (path * node)) : bool :=
  forallb (fun e => onode_eqb (node_at t (fst e)) (Some (snd e))) l &&
  Nat.eqb (List.length (flatten [] t)) (S (List.length l)).

(* --- the property itself, evaluated on the REAL before/after trees (independent of the plan) --- *)
Fixpoint assoc_path (p : path) (l : list (path * node)) : option node :=
  match l with [] => None | (q, n) :: r => if path_eqb p q then Some n else assoc_path p r end.

Definition changed_paths (k : case) : list path :=
  filter (fun p => match p with
                   | [] => false      (* the virtual root *)
                   | _ => negb (onode_eqb (node_at (k_before k) p) (assoc_path p (k_after k)))
                   end)
         (map fst (flatten [] (k_before k)) ++ map fst (k_after k)).

(* C10, first sentence: a changed path lies in the territory, or is a missing ancestor that got created *)
Definition terr_ok (k : case) : bool :=
  forallb (fun p =>
    terr_b (k_cfg k) (k_hdr k) p ||
    (anc_b p && onode_eqb (node_at (k_before k) p) None && onode_eqb (assoc_path p (k_after k)) (Some NDir)))
    (changed_paths k).

(* #static folders byte-identical, pointwise (C10_statics_pointwise): a changed node inside a #static folder must begin the
   path of something this build writes (jmc.txt, a function tag, an emitted file, pack.mcmeta, a #copy destination) - also
   when the static IS a deleted folder (`#static "."`, `#static "../minecraft"`, `#static "../<override>"`) *)
Definition static_ok (k : case) : bool :=
  forallb (fun p => negb (excepted (k_hdr k) p) ||
                    match gate (k_v k) (k_cfg k) (k_hdr k) (k_out k) with
                    | Success o => existsb (fun w => is_prefix p w) (written_paths (k_cfg k) (k_hdr k) o)
                    | _ => false
                    end)
          (changed_paths k).

(* refusal / failed compile: nothing changes — also when the failure is the unparsable function-tag file, for the
   variants that read the tag files before the first mutation *)
Definition noop_ok (k : case) : bool :=
  match k_out k, k_res k with
  | Success _, RRefused => match changed_paths k with [] => true | _ => false end
  | Success _, RTagErr => if v_tags_early (k_v k) then match changed_paths k with [] => true | _ => false end else true
  | Success _, _ => true
  | _, _ => match changed_paths k with [] => true | _ => false end
  end.

(* a namespace folder that lacks jmc.txt is never touched *)
Definition refuse_ok (k : case) : bool :=
  if is_dir (k_before k) (ns_dir (k_cfg k)) && negb (is_file (k_before k) (cert_path (k_cfg k)))
  then match changed_paths k with [] => true | _ => false end
  else true.

(* (round 4) a function tag that lies inside a #static folder (and is neither replaced by #copy nor by an emitted JSON file) keeps
   every foreign entry through a successful build (C11_shielded_tag_entries_kept; the own entries are filtered and re-added) *)
Definition tag_keep_ok (k : case) : bool :=
  match k_crash k, k_res k, gate (k_v k) (k_cfg k) (k_hdr k) (k_out k) with
  | None, RDone, Success o =>
      forallb (fun p =>
        negb (excepted (k_hdr k) p) ||
        match copy_file (k_hdr k) p with
        | Some _ => true
        | None =>
            existsb (path_eqb p) (map fst (out_files (k_cfg k) (k_hdr k) o)) ||
            match file_at (k_before k) p with
            | Some (Tag vs) =>
                match assoc_path p (k_after k) with
                | Some (NFile (Tag ws)) => forallb (fun v => own_entry (k_cfg k) v || mem v ws) vs
                | _ => false
                end
            | _ => true
            end
        end)
        [load_path (k_cfg k); tick_path (k_cfg k)]
  | _, _, _ => true
  end.

Definition code (k : case) : nat :=
  let ops := expected_ops k in
  (if list_eqb op_eqb ops (k_trace k) then 0 else 1) +
  (match exec ops (k_before k) with Some t => if snap_ok t (k_after k) then 0 else 2 | None => 2 end) +
  (match k_crash k with Some _ => 0 | None => if result_eqb (expected_res k) (k_res k) then 0 else 4 end) +
  (if terr_ok k then 0 else 8) + (if static_ok k then 0 else 16) + (if noop_ok k then 0 else 32) +
  (if refuse_ok k then 0 else 64) + (if tag_keep_ok k then 0 else 128).

Definition codes (l : list case) : list nat := map code l.
