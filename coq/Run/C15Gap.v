(* Run.C15Gap — driver of C15 round 5 (gap families): a STRING literal whose repr() is longer than its source text,
   followed on the same line by a token k columns behind the closing quote.  Per case, from the real compiler: the two
   tokens (with `_macro_end`) and, where the compiler asked, its is_connected decision; from the generator (which wrote
   the source): the position right after the closing quote and k.  Demanded: the recorded end of the literal IS that
   position, the following token stands k columns behind it, Model.Layout.is_connected on the dumped tokens says
   "glued iff k = 0" (Proofs.LayoutGap.gap_decides) and the real decision is the same.  Characters outside ASCII are
   written `?` in the token text (the text is irrelevant once the end is recorded; an unrecorded end is a mismatch). *)
From Coq Require Import ZArith String List Bool Ascii.
From JMCV Require Import Model.Layout Run.Common Run.C15.
Import ListNotations.
Open Scope Z_scope.

Record gap_case := mkGap { g_cur : rtok; g_prev : rtok; g_real : option bool; g_end : Z * Z; g_k : Z }.

Definition gap_ok (c : gap_case) : bool :=
  let glued := g_k c =? 0 in
  ttype_eqb (r_ty (g_prev c)) STRING &&
  opt_pos_eqb (r_mend (g_prev c)) (Some (g_end c)) &&
  pos_eqb (r_line (g_cur c), r_col (g_cur c)) (fst (g_end c), snd (g_end c) + g_k c) &&
  Bool.eqb (is_connected (tok_of (g_cur c)) (tok_of (g_prev c))) glued &&
  match g_real c with Some b => Bool.eqb b glued | None => true end.

Definition gap_mismatches (l : list gap_case) : list nat := bad_indices gap_ok l.
