(* Run.C15Arg — driver for the generated correspondence cases of C15, round 4 (argument texts):
   (d) every call of the real `clean_up_paren_token` (default keyword callback) made while compiling a corpus
       program: bracket token + is_nbt -> text | diagnostic, against Model.LayoutArg.clean_paren;
   (e) every argument bound to a parameter by a @lazy call (`PreFunction.handle_lazy`): the argument's tokens ->
       the text substituted for `$param`, against Model.LayoutArg.argument_text / arrow_text;
   (f) model-level layout invariance of argument_text on (argument list, re-layout) pairs. *)
From Coq Require Import ZArith String List Bool Ascii.
From JMCV Require Import Model.Layout Model.LayoutArg Run.Common Run.C15.
Import ListNotations.
Open Scope Z_scope.

Definition FUEL : nat := 24%nat.

Definition is_declined (r : result str) : bool := match r with Err EUnsupported => true | _ => false end.
Definition text_ok (m : result str) (real : option string) : bool :=
  match m, real with
  | Err EUnsupported, _ => true
  | Ok x, Some r => str_eqb x (s2l r)
  | Err _, None => true
  | _, _ => false
  end.

(* ---- (d) *)
Record clean_case := mkClean { cl_cf : bool; cl_nbt : bool; cl_tok : rtok; cl_real : option string }.
Definition clean_model (c : clean_case) : result str := clean_paren (cl_cf c) false FUEL (cl_nbt c) (tok_of (cl_tok c)).
Definition clean_mismatches (l : list clean_case) : list nat := bad_indices (fun c => text_ok (clean_model c) (cl_real c)) l.
Definition clean_declined (l : list clean_case) : list nat := bad_indices (fun c => negb (is_declined (clean_model c))) l.

(* ---- (e) *)
Record arg_case := mkArg { a_cf : bool; a_toks : list rtok; a_real : string }.
Definition arg_model (c : arg_case) : result str := argument_text (a_cf c) false FUEL (map tok_of (a_toks c)).
Definition arg_mismatches (l : list arg_case) : list nat := bad_indices (fun c => text_ok (arg_model c) (Some (a_real c))) l.
Definition arg_declined (l : list arg_case) : list nat := bad_indices (fun c => negb (is_declined (arg_model c))) l.

Record arrow_case := mkArrow { w_params : option string; w_body : string; w_real : string }.
Definition arrow_mismatches (l : list arrow_case) : list nat :=
  bad_indices (fun c => str_eqb (arrow_text (option_map s2l (w_params c)) (s2l (w_body c))) (s2l (w_real c))) l.

(* ---- (f) the instance of C15_argument_text on a concrete pair: the texts between the parentheses of a call
   and of a re-layout of it, tokenised the way parse_func_args does; every statement as one argument and every
   comma-separated argument on its own *)
Fixpoint split_commas (cur : list token) (l : list token) : list (list token) :=
  match l with
  | [] => [rev cur]
  | t :: r => if ttype_eqb (t_ty t) COMMA then rev cur :: split_commas [] r else split_commas (t :: cur) r
  end.
Definition opt_str_eqb (a b : option str) : bool :=
  match a, b with Some x, Some y => str_eqb x y | None, None => true | _, _ => false end.
Record argpair_case := mkArgPair { q_cf : bool; q_a : string; q_b : string }.
Definition texts_of (cf : bool) (s : string) : option (list (option str)) :=
  match parse_st [] cf false false 1 1 (s2l s) with
  | Ok st =>
      if s_ev st then None
      else match finish [] false false st with
           | Ok sts => Some (flat_map (fun toks => map (fun a => ok_of (argument_text cf true FUEL a)) (toks :: split_commas [] toks)) sts)
           | Err _ => None
           end
  | Err _ => None
  end.
Definition argpair_ok (p : argpair_case) : bool :=
  match texts_of (q_cf p) (q_a p), texts_of (q_cf p) (q_b p) with
  | Some x, Some y => all2 opt_str_eqb x y
  | None, None => true
  | _, _ => false
  end.
Definition argpair_mismatches (l : list argpair_case) : list nat := bad_indices argpair_ok l.
(* pairs on which the theorem's hypotheses hold (accepted, in scope) and some argument has a text *)
Definition argpair_trivial (l : list argpair_case) : list nat :=
  bad_indices (fun p => match texts_of (q_cf p) (q_a p) with
                        | Some x => existsb (fun o => match o with Some _ => true | None => false end) x
                        | None => false end) l.
