(* Run.C11 — driver for the recovery / freshness comparisons of C11 on REAL snapshots.
   (The correspondence of every real run — crashed builds included — with Model/Build.v uses Run.C10.case.) *)
From Coq Require Import String List Bool Arith.
From JMCV Require Import Model.FS Model.Build Run.C10.
Import ListNotations.

Record rcase := mkR {
  r_cfg : cfg; r_hdr : hdr;
  r_refused : bool;                   (* the (re-)run was refused *)
  r_trace : list op;                  (* mutations of the (re-)run: which paths it wrote *)
  r_pre : list (path * node);         (* tree before the interrupted build *)
  r_mid : list (path * node);         (* tree right before the (re-)run (= after the crash) *)
  r_rec : list (path * node);         (* tree after the (re-)run *)
  r_oracle : list (path * node)       (* tree the same project gives without the interruption / from an empty directory *)
}.

Definition file_in (l : list (path * node)) (p : path) : option node :=
  match assoc_path p l with Some (NFile c) => Some (NFile c) | _ => None end.

Definition created (ops : list op) : list path :=
  flat_map (fun o => match o with Create p | Write p _ | Replace p _ => [p] | _ => [] end) ops.

Definition owned (r : rcase) (p : path) : bool :=
  inside (r_cfg r) (r_hdr r) p || existsb (path_eqb p) (created (r_trace r)).

Definition same_nodes (a b : list (path * node)) : bool :=
  forallb (fun e => onode_eqb (assoc_path (fst e) b) (Some (snd e))) a &&
  forallb (fun e => onode_eqb (assoc_path (fst e) a) (Some (snd e))) b.

Definition rcode (r : rcase) : nat :=
  (if r_refused r
   then (if same_nodes (r_mid r) (r_rec r) then 0 else 1)
   else (if forallb (fun p => negb (owned r p) || onode_eqb (file_in (r_rec r) p) (file_in (r_oracle r) p))
                    (map fst (r_rec r) ++ map fst (r_oracle r)) then 0 else 2)) +
  (if forallb (fun p => negb (excepted (r_hdr r) p) ||
                        (onode_eqb (assoc_path p (r_pre r)) (assoc_path p (r_mid r)) &&
                         onode_eqb (assoc_path p (r_pre r)) (assoc_path p (r_rec r))))
              (map fst (r_pre r) ++ map fst (r_mid r) ++ map fst (r_rec r)) then 0 else 4).

Definition rcodes (l : list rcase) : list nat := map rcode l.
