(* Run.C11 — driver for the recovery / freshness comparisons of C11 on REAL snapshots.
   (The correspondence of every real run — crashed builds included — with Model/Build.v uses Run.C10.case.) *)
From Coq Require Import String List Bool Arith.
From JMCV Require Import Model.FS Model.Build Run.C10.
Import ListNotations.

Record rcase := mkR {
  r_cfg : cfg; r_hdr : hdr;
  r_refused : bool;                   (* the (re-)run was refused *)
  r_trace : list op;                  (* mutations of the (re-)run: which paths it wrote *)
  r_pre : list (path * node);         (* tree before the interrupted build *)
  r_mid : list (path * node);         (* tree right before the (re-)run (= after the crash) *)
  r_rec : list (path * node);         (* tree after the (re-)run *)
  r_oracle : list (path * node);      (* tree the same project gives without the interruption / from an empty directory *)
  r_prev : list string                (* namespaces an EARLIER successful build of the history overrode / linked and this one does not *)
}.

Definition file_in (l : list (path * node)) (p : path) : option node :=
  match assoc_path p l with Some (NFile c) => Some (NFile c) | _ => None end.

Definition created (ops : list op) : list path :=
  flat_map (fun o => match o with Create p | Write p _ | Replace p _ => [p] | _ => [] end) ops.

Definition owned (r : rcase) (p : path) : bool :=
  inside (r_cfg r) (r_hdr r) p || existsb (path_eqb p) (created (r_trace r)).

Definition same_nodes (a b : list (path * node)) : bool :=
  forallb (fun e => onode_eqb (assoc_path (fst e) b) (Some (snd e))) a &&
  forallb (fun e => onode_eqb (assoc_path (fst e) a) (Some (snd e))) b.

(* A function-tag file inside a #static folder is never deleted, so once written it stays: an absent tag file and one
   without values mean the same to Minecraft and are compared as equal THERE (and only there); the values themselves -
   in particular an entry of this pack that should be gone - are compared exactly. *)
Definition shielded_tag (r : rcase) (p : path) : bool :=
  excepted (r_hdr r) p &&
  (path_eqb p ["."; "data"; "minecraft"; "tags"; "function"; "load.json"]%string ||
   path_eqb p ["."; "data"; "minecraft"; "tags"; "function"; "tick.json"]%string ||
   path_eqb p ["."; "data"; "minecraft"; "tags"; "functions"; "load.json"]%string ||
   path_eqb p ["."; "data"; "minecraft"; "tags"; "functions"; "tick.json"]%string).
Definition file_cmp (r : rcase) (l : list (path * node)) (p : path) : option node :=
  match file_in l p with
  | None => if shielded_tag r p then Some (NFile (Tag [])) else None
  | x => x
  end.

(* strictly inside data/<o> for a namespace o of an earlier build that this build does not delete *)
Definition in_prev (r : rcase) (p : path) : bool :=
  existsb (fun o => is_prefix (ov_dir o) (removelast p)) (r_prev r) && negb (inside (r_cfg r) (r_hdr r) p).

Definition rcode (r : rcase) : nat :=
  (if r_refused r
   then (if same_nodes (r_mid r) (r_rec r) then 0 else 1)
   else (if forallb (fun p => negb (owned r p) || onode_eqb (file_cmp r (r_rec r) p) (file_cmp r (r_oracle r) p))
                    (map fst (r_rec r) ++ map fst (r_oracle r)) then 0 else 2)) +
  (* #static content is unchanged by the interrupted build and by the re-run, except where the project itself writes
     (a static that contains generated files: `#static "../minecraft"` holds the function tags) *)
  (if forallb (fun p => negb (excepted (r_hdr r) p) || existsb (path_eqb p) (created (r_trace r)) || shielded_tag r p ||
                        (onode_eqb (assoc_path p (r_pre r)) (assoc_path p (r_mid r)) &&
                         onode_eqb (assoc_path p (r_pre r)) (assoc_path p (r_rec r))))
              (map fst (r_pre r) ++ map fst (r_mid r) ++ map fst (r_rec r)) then 0 else 4) +
  (* nothing of an earlier build survives in a namespace folder that build overrode (C11_dropped_override_refuted) *)
  (if r_refused r then 0
   else if forallb (fun p => negb (in_prev r p) || onode_eqb (file_in (r_rec r) p) (file_in (r_oracle r) p))
                   (map fst (r_rec r) ++ map fst (r_oracle r)) then 0 else 8).

Definition rcodes (l : list rcase) : list nat := map rcode l.
