(* Run.C13 — driver of the C13 correspondence cases: the same comparison as Run.C14 (tokens of the real
   tokenizer / cited position of its diagnostic vs Model.Tok.parse), plus the outcome class alone. *)
From Coq Require Import ZArith NArith String List Bool.
From JMCV Require Import Model.Tok Model.TokPos Run.Common Run.C14.
Import ListNotations.

(* 0 = statements, 1 = JMC diagnostic, 2 = internal exception *)
Definition outcome_class (e : env) (c : tcase) : nat :=
  match model_of e c with Ok _ => 0 | Diag _ _ _ => 1 | Crash _ => 2 end.
Definition real_class (c : tcase) : nat :=
  match c_out c with ROk _ => 0 | RDiag _ _ _ => 1 | RCrash => 2 end.
Definition class_mismatches (e : env) (l : list tcase) : list nat :=
  bad_indices (fun c => Nat.eqb (outcome_class e c) (real_class c)) l.
