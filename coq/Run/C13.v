(* Run.C13 — driver of the C13 correspondence cases: the same comparison as Run.C14 (tokens of the real
   tokenizer / cited position of its diagnostic vs Model.Tok.parse), plus the outcome class alone. *)
From Coq Require Import ZArith NArith String List Bool.
From JMCV Require Import Model.Tok Model.TokPos Run.Common Run.C14.
Import ListNotations.

(* 0 = statements, 1 = JMC diagnostic, 2 = internal exception *)
Definition outcome_class (e : env) (c : tcase) : nat :=
  match model_of e c with Ok _ => 0 | Diag _ _ _ => 1 | Crash _ => 2 end.
Definition real_class (c : tcase) : nat :=
  match c_out c with ROk _ => 0 | RDiag _ _ _ => 1 | RCrash => 2 end.
Definition class_mismatches (e : env) (l : list tcase) : list nat :=
  bad_indices (fun c => Nat.eqb (outcome_class e c) (real_class c)) l.

(* ---------------------------------------------------------------------------------------------------------------
   round 4: Tokenizer.merge_vanilla_macro and the loops around it (Model/TokMacro.v) against the real method.
   One case = one observed call (traced while a generated program compiled) or one direct call on a generated token
   list:  the tokens handed over, the position, what clean_up_paren_token / len(repr(..)) returned for the tokens of
   this list (tables keyed by the token's string), and the list afterwards / the class of the exception. *)
From JMCV Require Import Model.TokGuards Model.TokMacro.
Open Scope Z_scope.

Inductive mout :=
| MOk (l : list rtok)      (* the list after the call (token by token) *)
| MDiag                    (* a JMC diagnostic *)
| MIndexError | MValueError | MOther.    (* an internal exception *)
Record mcase := MC {
  m_fn : nat;                                 (* 0 merge_vanilla_macro(tokens, kp) | 1 the loop of condition_to_ast | 2 the loop of _is_vanilla_func *)
  m_toks : list rtok; m_kp : Z;
  m_clean : list (string * option string);    (* token string -> cleaned-up text (None: a JMC diagnostic) *)
  m_repr : list (string * Z);                 (* STRING token string -> len(repr(string)) *)
  m_out : mout }.

Definition tok_of (r : rtok) : token := mkTok (r_type r) (r_line r) (r_col r) (utf8 (r_str r)) (r_bt r).
Definition clean_of (c : mcase) (t : token) : result str :=
  match find (fun p => seqb (utf8 (fst p)) (t_str t)) (m_clean c) with
  | Some (_, Some s) => Ok (utf8 s)
  | Some (_, None) => Diag DBadString 0 0
  | None => Ok (t_str t)
  end.
Definition repr_of (c : mcase) (s : str) : Z :=
  match find (fun p => seqb (utf8 (fst p)) s) (m_repr c) with Some (_, n) => n | None => str_len s + 2 end.
Definition macro_model (c : mcase) : result (list token) :=
  let l := map tok_of (m_toks c) in
  match m_fn c with
  | 0%nat => merge_vm (clean_of c) (repr_of c) l (m_kp c)
  | 1%nat => cond_merge (clean_of c) (repr_of c) l
  | _ => vanilla_merge (clean_of c) (repr_of c) l
  end.
(* the merged token is compared by type, position and text (its quote is "" = not a backtick string) *)
Definition macro_agrees (c : mcase) : bool :=
  match macro_model c, m_out c with
  | Ok l, MOk r => list_eqb tok_eqb l r
  | Diag _ _ _, MDiag => true
  | Crash IndexError, MIndexError => true
  | Crash ValueError, MValueError => true
  | _, _ => false
  end.
Definition mmismatches (l : list mcase) : list nat := bad_indices macro_agrees l.
