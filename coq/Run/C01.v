(* Run.C01 — driver for the generated correspondence cases of C01. *)
From Coq Require Import ZArith String List Bool.
From JMCV Require Import Base.Dec MC.Syntax MC.Print Model.Names Model.VarOp Run.Common.
Import ListNotations.
Open Scope string_scope.

Record case := mkCase {
  c_nm : names; c_t : score; c_op : vop; c_r : operand;
  c_real : string          (* the body of the function the real compiler emitted *)
}.

Definition model_text (c : case) : string :=
  match compile_varop (c_nm c) (c_t c) (c_op c) (c_r c) with
  | Some (cmds, _) => pr_cmds cmds
  | None => "<model: not a C01 statement>"
  end.
Definition model_ints (c : case) : list Z :=
  match compile_varop (c_nm c) (c_t c) (c_op c) (c_r c) with
  | Some (_, ints) => ints | None => [] end.

Definition case_ok (c : case) : bool := String.eqb (model_text c) (c_real c).
Definition mismatches (l : list case) : list nat := bad_indices case_ok l.

(* the __int__ constants written by __load__ are exactly those the model requested *)
Definition ints_ok (l : list case) (real : list Z) : bool := zset_eq (flat_map model_ints l) real.

(* The head of __load__ (DataPack.build): the variable objective is always created, the
   constant objective exactly when some statement asked for a constant — a constant whose
   objective does not exist cannot be read (the command naming it fails). *)
Definition load_head (nm : names) (ints : list Z) : list string :=
  ("scoreboard objectives add " ++ var_name nm ++ " dummy") ::
  match ints with
  | [] => []
  | _ => ["scoreboard objectives add " ++ int_name nm ++ " dummy"]
  end.
Fixpoint strs_eqb (a b : list string) : bool :=
  match a, b with
  | [], [] => true
  | x :: a', y :: b' => String.eqb x y && strs_eqb a' b'
  | _, _ => false
  end.
Definition load_ok (nm : names) (l : list case) (real_head : list string) (real_ints : list Z) : bool :=
  strs_eqb (load_head nm (flat_map model_ints l)) real_head && ints_ok l real_ints.
