(* Run.C03 — driver for the generated correspondence cases of C03. *)
From Coq Require Import ZArith String List Bool.
From JMCV Require Import Base.Dec MC.Syntax MC.Print Model.Names Model.Cond Run.Common.
Import ListNotations.
Open Scope string_scope.

Record case := mkCase {
  c_nm : names;
  c_formula : option (bool * formula);  (* Some (wrapped, f): the tokens are the canonical print of f *)
  c_toks : list tok;                    (* the token list handed to parse_condition *)
  c_tail : string;                      (* what follows `run ` on the guarded line of the real output *)
  c_real : string                       (* real precommand lines + guarded line, or "<refused>" *)
}.

Definition model_text (c : case) : string :=
  match parse_condition (c_nm c) (c_toks c) with
  | Some (pcs, cs) => pr_cmds (pcs ++ [guarded cs (COther (c_tail c))])
  | None => "<refused>"
  end.

(* the pinned (unrepaired) numbering, shown in replay files for comparison *)
Definition model_text_pinned (c : case) : string :=
  match parse_condition_pinned (c_nm c) (c_toks c) with
  | Some (pcs, cs) => pr_cmds (pcs ++ [guarded cs (COther (c_tail c))])
  | None => "<refused>"
  end.

Fixpoint tok_eqb (a b : tok) {struct a} : bool :=
  match a, b with
  | TOr, TOr | TAnd, TAnd | TNot, TNot => true
  | TParen l, TParen m =>
    (fix go (l m : list tok) : bool :=
       match l, m with
       | [], [] => true
       | x :: l', y :: m' => tok_eqb x y && go l' m'
       | _, _ => false
       end) l m
  | TAtom x, TAtom y =>
    (* atoms are compared through what they print to *)
    match custom_condition x, custom_condition y with
    | Some c, Some d => Bool.eqb (fst c) (fst d) && String.eqb (pr_test (snd c)) (pr_test (snd d))
    | None, None => true
    | _, _ => false
    end
  | _, _ => false
  end.
Fixpoint toks_eqb (l m : list tok) : bool :=
  match l, m with
  | [], [] => true
  | x :: l', y :: m' => tok_eqb x y && toks_eqb l' m'
  | _, _ => false
  end.

Definition source_tokens (wrapped : bool) (f : formula) : list tok :=
  if wrapped then [TParen (tokens_of f)] else tokens_of f.

Definition case_ok (c : case) : bool :=
  String.eqb (model_text c) (c_real c) &&
  match c_formula c with
  | Some (w, f) => toks_eqb (source_tokens w f) (c_toks c)
  | None => true
  end.
Definition mismatches (l : list case) : list nat := bad_indices case_ok l.
