(* Run.C03 — driver for the generated correspondence cases of C03. *)
From Coq Require Import ZArith String List Bool.
From JMCV Require Import Base.Dec MC.Syntax MC.Print Model.Names Model.Cond Run.Common.
Import ListNotations.
Open Scope string_scope.

Record case := mkCase {
  c_nm : names;
  c_formula : option (bool * formula);  (* Some (wrapped, f): the tokens are the canonical print of f *)
  c_toks : list tok;                    (* the token list handed to parse_condition *)
  c_tail : string;                      (* what follows `run ` on the guarded line of the real output *)
  c_real : string                       (* real precommand lines + guarded line, or "<refused>" *)
}.

Definition model_text (c : case) : string :=
  match parse_condition (c_nm c) (c_toks c) with
  | Some (pcs, cs) => pr_cmds (pcs ++ [guarded cs (COther (c_tail c))])
  | None => "<refused>"
  end.

(* the pinned (unrepaired) numbering, shown in replay files for comparison *)
Definition model_text_pinned (c : case) : string :=
  match parse_condition_pinned (c_nm c) (c_toks c) with
  | Some (pcs, cs) => pr_cmds (pcs ++ [guarded cs (COther (c_tail c))])
  | None => "<refused>"
  end.

Fixpoint tok_eqb (a b : tok) {struct a} : bool :=
  match a, b with
  | TOr, TOr | TAnd, TAnd | TNot, TNot => true
  | TParen l, TParen m =>
    (fix go (l m : list tok) : bool :=
       match l, m with
       | [], [] => true
       | x :: l', y :: m' => tok_eqb x y && go l' m'
       | _, _ => false
       end) l m
  | TAtom x, TAtom y =>
    (* atoms are compared through what they print to *)
    match custom_condition x, custom_condition y with
    | Some c, Some d => Bool.eqb (fst c) (fst d) && String.eqb (pr_test (snd c)) (pr_test (snd d))
    | None, None => true
    | _, _ => false
    end
  | _, _ => false
  end.
Fixpoint toks_eqb (l m : list tok) : bool :=
  match l, m with
  | [], [] => true
  | x :: l', y :: m' => tok_eqb x y && toks_eqb l' m'
  | _, _ => false
  end.

Definition source_tokens (wrapped : bool) (f : formula) : list tok :=
  if wrapped then [TParen (tokens_of f)] else tokens_of f.

Definition case_ok (c : case) : bool :=
  String.eqb (model_text c) (c_real c) &&
  match c_formula c with
  | Some (w, f) => toks_eqb (source_tokens w f) (c_toks c)
  | None => true
  end.
Definition mismatches (l : list case) : list nat := bad_indices case_ok l.

(* ------------------------------------------------------------------ `if (...) expand { … }` batches
   (strengthening round 3).  One pack whose function `f` is exactly one expand statement; the batch is
   given command by command in the form the lowering of Model.CondExpand takes it (the lines of each
   command): a one-line command as text, or a nested lone `if` whose lines are computed by
   parse_condition from ITS token list (so a nested condition with `||` is a several-line command that
   goes to expand/k, and one without is an `execute` that is merged at the junction). *)
From JMCV Require Import Model.PrivAlloc Model.CondExpand.

Inductive xcmd :=
| XLine (t : string)
| XIf (toks : list tok) (tail : string).

Record xcase := mkXCase {
  x_nm : names;
  x_toks : list tok;                    (* the condition of the expand statement *)
  x_batch : list xcmd;
  x_real : string;                      (* text of f, or "<refused>" *)
  x_real_fns : list (string * string)   (* every expand/k function the compiler wrote: resource name, text *)
}.

Definition xlines (nm : names) (c : xcmd) : option (list cmd) :=
  match c with
  | XLine t => Some [COther t]
  | XIf toks tail =>
    match parse_condition nm toks with
    | Some (p, cs) => Some (p ++ [guarded cs (COther tail)])
    | None => None
    end
  end.

Definition xmodel (c : xcase) : option (string * list (string * string)) :=
  match parse_condition (x_nm c) (x_toks c), all_some (map (xlines (x_nm c)) (x_batch c)) with
  | Some (pcs, cs), Some ls =>
    let r := expand_code (x_nm c) pcs cs (number_batch ls 0) in
    Some (pr_cmds (fst r), map (fun d => (fst d, pr_cmds (snd d))) (snd r))
  | _, _ => None
  end.

Fixpoint xlookup (l : list (string * string)) (f : string) : option string :=
  match l with
  | [] => None
  | (f', b) :: r => if String.eqb f f' then Some b else xlookup r f
  end.
Definition xfns_eq (a b : list (string * string)) : bool :=
  Nat.eqb (length a) (length b) &&
  forallb (fun d => match xlookup b (fst d) with Some t => String.eqb t (snd d) | None => false end) a.

Definition xcase_ok (c : xcase) : bool :=
  match xmodel c with
  | Some (t, fs) => String.eqb t (x_real c) && xfns_eq fs (x_real_fns c)
  | None => String.eqb (x_real c) "<refused>"
  end.
Definition xmismatches (l : list xcase) : list nat := bad_indices xcase_ok l.

Definition xnl : string := String (Ascii.ascii_of_nat 10) EmptyString.
Definition xmodel_text (c : xcase) : string :=
  match xmodel c with
  | Some (t, fs) => String.concat xnl (t :: map (fun d => ("== " ++ fst d ++ xnl ++ snd d)%string) fs)
  | None => "<refused>"
  end.
