(* Run.C02 — driver for the generated correspondence cases of C02. *)
From Coq Require Import ZArith String List Bool.
From JMCV Require Import Base.Int32 Base.Dec MC.Syntax MC.Print Model.Names Model.Expr Model.ExprSpec
     Model.ExprFront Model.ExprBack Model.ExprCtx Run.Common.
Import ListNotations.
Open Scope string_scope.

Record case := mkCase {
  c_nm : names;
  c_t : svar;              (* target *)
  c_form : opc;            (* PEmpty = `:=`, PAdd = `:+=`, ... *)
  c_e : expr;
  c_src : string;          (* the harness's own rendering of the expression tokens (single spaces) *)
  c_real : string;         (* function body emitted by the real compiler, "<diag>" or "<crash Class>" *)
  c_ints : list Z;         (* `scoreboard players set N __int__ N` lines of the real __load__ *)
  c_fail : bool            (* the harness's oracle found an initial state on which the real output is wrong *)
}.

Definition run (c : case) : M (list cmd * list Z) :=
  compile_expr (c_nm c) (score_of (c_nm c) (c_t c)) (c_form c) (c_e c).

Definition outcome_text (r : M (list cmd * list Z)) : string :=
  match fst r with
  | Ok (cmds, _) => pr_cmds cmds
  | Diag _ => "<diag>"
  | Crash e => "<crash " ++ e ++ ">"
  | Unmodelled w => "<unmodelled " ++ w ++ ">"
  end.
Definition model_text (c : case) : string := outcome_text (run c).
Definition model_tags (c : case) : list tag := snd (run c).
Definition model_tag_names (c : case) : string := String.concat "," (map tag_name (model_tags c)).
Definition is_unmodelled (r : M (list cmd * list Z)) : bool :=
  match fst r with Unmodelled _ => true | _ => false end.

(* 0 = model and implementation agree; 1 = they differ; 2 = outside the model;
   3 = the harness's rendering of the expression differs from `render` *)
Definition status_of (r : M (list cmd * list Z)) (c : case) : nat :=
  if negb (String.eqb (show_toks (render (c_e c))) (c_src c)) then 3
  else if is_unmodelled r then 2
  else if String.eqb (outcome_text r) (c_real c)
          && match fst r with Ok (_, ints) => zset_eq ints (c_ints c) | _ => true end
       then 0 else 1.
Definition status (c : case) : nat := status_of (run c) c.

Definition tag_eqb (a b : tag) : bool := String.eqb (tag_name a) (tag_name b).
Definition all_tags : list tag := [T_pow_nonconst; T_const_range].

Fixpoint index_of (s : string) (l : list string) (i : nat) : option nat :=
  match l with
  | [] => None
  | x :: r => if String.eqb x s then Some i else index_of s r (S i)
  end.
(* first fired tag that is listed in `known` (index into known) *)
Fixpoint first_known (known : list string) (ts : list tag) : option nat :=
  match ts with
  | [] => None
  | t :: r => match index_of (tag_name t) known 0 with Some i => Some i | None => first_known known r end
  end.

Record summary := mkSummary {
  s_mismatch : list nat;        (* status 1 *)
  s_render : list nat;          (* status 3 *)
  s_unmodelled : list nat;      (* status 2 *)
  s_unexplained : list nat;     (* failing, text equal, no listed tag fired *)
  s_explained : list (nat * nat);   (* (case index, index of the explaining known tag) for failing, text-equal cases *)
  s_tagcount : list nat         (* per all_tags: number of cases firing it *)
}.

Fixpoint summarize_from (known : list string) (l : list case) (i : nat) (acc : summary) : summary :=
  match l with
  | [] => acc
  | c :: rest =>
      let res := run c in
      let st := status_of res c in
      let ts := snd res in
      (* a failing case is attributed to a known finding iff the implementation's output is the
         model's (or the model stops at Python floats) and a listed tag fired *)
      let attributable := c_fail c && (Nat.eqb st 0 || Nat.eqb st 2) in
      let acc1 :=
          mkSummary
            (if Nat.eqb st 1 then i :: s_mismatch acc else s_mismatch acc)
            (if Nat.eqb st 3 then i :: s_render acc else s_render acc)
            (if Nat.eqb st 2 then i :: s_unmodelled acc else s_unmodelled acc)
            (if attributable then
               match first_known known ts with None => i :: s_unexplained acc | Some _ => s_unexplained acc end
             else s_unexplained acc)
            (if attributable then
               match first_known known ts with Some k => (i, k) :: s_explained acc | None => s_explained acc end
             else s_explained acc)
            (map (fun p => (if existsb (tag_eqb (fst p)) ts then S (snd p) else snd p))
                 (combine all_tags (s_tagcount acc)))
      in summarize_from known rest (S i) acc1
  end.
Definition summarize (known : list string) (l : list case) : list (list nat) :=
  let s := summarize_from known l 0 (mkSummary [] [] [] [] [] (map (fun _ => O) all_tags)) in
  [rev (s_mismatch s); rev (s_render s); rev (s_unmodelled s); rev (s_unexplained s);
   flat_map (fun p => [fst p; snd p]) (rev (s_explained s)); s_tagcount s].

(* ------------------------------------------------------------------ statements in a one-command position *)
(* `[execute <tests> run] [return run] [o_n = … = o_1 =] target :<form>= e;`  (Model.ExprCtx) *)
Record xstmt := mkXStmt {
  x_t : svar; x_form : opc; x_e : expr;
  x_guard : list (bool * test);
  x_ret : bool;
  x_chain : list svar                (* outer targets of the chained assignment, innermost first *)
}.
Record xcase := mkXCase {
  xc_nm : names;
  xc_stmts : list xstmt;             (* the statements of function f, in order *)
  xc_after : bool;                   (* f ends with `$after = 7;` *)
  xc_real : string;                  (* body of f emitted by the real compiler, "<diag>" or "<crash Class>" *)
  xc_fns : list (string * string);   (* (resource name, body) of the private functions of group `anonymous`, by number *)
  xc_ints : list Z
}.

(* -> compiled statements, or None if the model leaves one of them outside (diagnostic, Unmodelled, …) *)
Fixpoint compile_stmts (nm : names) (l : list xstmt) : option (list (ctx * score * list cmd) * list Z) :=
  match l with
  | [] => Some ([], [])
  | x :: r =>
    let out := score_of nm (x_t x) in
    match fst (compile_expr nm out (x_form x) (x_e x)), compile_stmts nm r with
    | Ok (cmds, ints), Some (ps, is) =>
        Some ((mkCtx (x_guard x) (x_ret x) (map (score_of nm) (x_chain x)), out, cmds) :: ps, (ints ++ is)%list)
    | _, _ => None
    end
  end.

Definition after_line (nm : names) : line := plain (CSet ("$after", var_name nm) 7).

Definition pair_eqb (a b : string * string) : bool := String.eqb (fst a) (fst b) && String.eqb (snd a) (snd b).
Fixpoint list_eqb {A} (eqb : A -> A -> bool) (a b : list A) : bool :=
  match a, b with
  | [], [] => true
  | x :: a', y :: b' => eqb x y && list_eqb eqb a' b'
  | _, _ => false
  end.

Definition xmodel (c : xcase) : option (string * list (string * string) * list Z) :=
  match compile_stmts (xc_nm c) (xc_stmts c) with
  | None => None
  | Some (ps, ints) =>
    let '(ls, fs) := place_all (xc_nm c) 0 ps in
    Some (pr_lines (ls ++ (if xc_after c then [after_line (xc_nm c)] else []))%list,
          map (fun d => (fst d, pr_lines (snd d))) fs, ints)
  end.

(* 0 = model and implementation agree; 1 = they differ; 2 = outside the model *)
Definition xstatus (c : xcase) : nat :=
  match xmodel c with
  | None => 2
  | Some (f, fns, ints) =>
    if String.eqb f (xc_real c) && list_eqb pair_eqb fns (xc_fns c) && zset_eq ints (xc_ints c) then 0 else 1
  end.
Definition xmodel_text (c : xcase) : string :=
  match xmodel c with
  | None => "<outside the model>"
  | Some (f, fns, _) =>
    String.concat (String (Ascii.ascii_of_nat 10) EmptyString)
      (("# f" ++ String (Ascii.ascii_of_nat 10) EmptyString ++ f)
       :: map (fun d => "# " ++ fst d ++ String (Ascii.ascii_of_nat 10) EmptyString ++ snd d) fns)
  end.

Fixpoint xsummarize_from (l : list xcase) (i : nat) (bad out : list nat) : list (list nat) :=
  match l with
  | [] => [rev bad; rev out]
  | c :: r =>
    let s := xstatus c in
    xsummarize_from r (S i) (if Nat.eqb s 1 then i :: bad else bad) (if Nat.eqb s 2 then i :: out else out)
  end.
Definition xsummarize (l : list xcase) : list (list nat) := xsummarize_from l 0 [] [].
