(* Run.C18 — driver for the regenerated tables and the probe cases of C18. *)
From Coq Require Import ZArith String List Bool.
From JMCV Require Import Model.PackFmt Run.Common.
Import ListNotations.
Open Scope Z_scope.

Definition in_strs (x : string) (l : list string) : bool := existsb (String.eqb x) l.

(* labels of the sites that fail the check, with a format at which the folder is wrong *)
Definition failing_sites (R : rules) (sites : list site) : list (string * Z * string * string) :=
  flat_map (fun s =>
    match filter (fun p => negb (String.eqb (jmc_folder R s p) (mc_folder (s_kind s) p))) (points (site_cuts R s)) with
    | [] => []
    | p :: _ => [(s_label s, p, jmc_folder R s p, mc_folder (s_kind s) p)]
    end) sites.

(* features accepted by the gates on a versioned table format that cannot express them *)
Definition failing_features (tbl : list Z) (gs : list gate) : list (nat * Z) :=
  flat_map (fun pf => if pf =? UNVERSIONED then [] else
    flat_map (fun f => if implb (accepts gs f pf) (expressible f pf) then [] else [(fcode f, pf)]) all_features) tbl.

(* one compile of a probe program under one pack format *)
Record pcase := mkP {
  p_pf : Z;
  p_files : list string;                          (* paths of the real file map, without the output root *)
  p_expect : list (nat * string * string);        (* (site index, namespace, id): the site's resource must be there *)
  p_refs : list (kind * string * string);         (* references found in the real output: (kind, namespace, id) *)
  p_folders : list (kind * string)                (* folder of every real file, with the kind it belongs to *)
}.

Definition pcase_ok (R : rules) (sites : list site) (c : pcase) : bool :=
  forallb (fun e => match e with (i, ns, id) =>
             match nth_error sites i with
             | Some s => in_strs (jmc_path R s (p_pf c) ns id) (p_files c)
                         && String.eqb (jmc_path R s (p_pf c) ns id) (mc_path (s_kind s) (p_pf c) ns id)
             | None => false end end) (p_expect c)
  && forallb (fun r => match r with (k, ns, id) => in_strs (mc_path k (p_pf c) ns id) (p_files c) end) (p_refs c)
  && forallb (fun f => match f with (k, folder) => String.eqb folder (mc_folder k (p_pf c)) end) (p_folders c).

Definition pmismatches (R : rules) (sites : list site) (l : list pcase) : list nat := bad_indices (pcase_ok R sites) l.

(* feature probe: outcome of the real compiler: 0 = compiled, 1 = MinecraftVersionTooLow/TooHigh, 2 = another JMC diagnostic *)
Record fcase := mkF { f_feature : feature; f_pf : Z; f_in_table : bool; f_outcome : nat }.
Definition expected_outcome (gs : list gate) (sgs : list sgate) (c : fcase) : nat :=
  if negb (accepts gs (f_feature c) (f_pf c)) then 1
  else if negb (strategy_ok sgs (f_feature c) (f_pf c)) then 2 else 0.
(* the outcome is the one the regenerated gates predict; on the formats of JMC's table a feature that compiles must be expressible *)
Definition fcase_ok (gs : list gate) (sgs : list sgate) (c : fcase) : bool :=
  Nat.eqb (f_outcome c) (expected_outcome gs sgs c)
  && ((f_pf c =? UNVERSIONED) || negb (f_in_table c) || negb (Nat.eqb (f_outcome c) 0) || expressible (f_feature c) (f_pf c)).
Definition fmismatches (gs : list gate) (sgs : list sgate) (l : list fcase) : list nat := bad_indices (fcase_ok gs sgs) l.
(* when the gate table could not be regenerated: only "compiles on a table format => expressible" *)
Definition fcase_ok_nogates (c : fcase) : bool :=
  (f_pf c =? UNVERSIONED) || negb (f_in_table c) || negb (Nat.eqb (f_outcome c) 0) || expressible (f_feature c) (f_pf c).
Definition fmismatches_nogates (l : list fcase) : list nat := bad_indices fcase_ok_nogates l.

(* direct call of PackVersion(pf).require(f, is_lower): 0 = returned, 1 = TooLow, 2 = TooHigh *)
Record rcase := mkR { r_pf : Z; r_f : Z; r_lower : bool; r_real : nat }.
Definition rcase_ok (c : rcase) : bool :=
  Nat.eqb (r_real c) (if require_raises (r_pf c) (r_f c) (r_lower c) then (if r_lower c then 2 else 1) else 0)%nat.
Definition rmismatches (l : list rcase) : list nat := bad_indices rcase_ok l.

(* Strengthening round 3 — one call of a version-gated built-in with ONE combination of its optional arguments:
   m_uses   = the format-dependent features this combination makes the output use (specification side),
   m_active = labels of the regenerated gates whose reach condition holds for this combination (translator side),
   outcome as in fcase (2 = another JMC diagnostic; whether that is legitimate is judged per combination by the harness).
   Compiled  => no active gate raises, and on a versioned table format every used feature is expressible;
   version diagnostic => some active gate raises. *)
Record mcase := mkM { m_uses : list feature; m_active : list string; m_pf : Z; m_in_table : bool; m_outcome : nat }.
Definition active_raise (gs : list gate) (c : mcase) : bool :=
  existsb (fun g => in_strs (g_label g) (m_active c) && require_raises (m_pf c) (g_thr g) (g_lower g)) gs.
Definition uses_expressible (c : mcase) : bool :=
  (m_pf c =? UNVERSIONED) || negb (m_in_table c) || forallb (fun f => expressible f (m_pf c)) (m_uses c).
Definition mcase_ok (gs : list gate) (c : mcase) : bool :=
  match m_outcome c with
  | O => negb (active_raise gs c) && uses_expressible c
  | S O => active_raise gs c
  | _ => true
  end.
Definition mmismatches (gs : list gate) (l : list mcase) : list nat := bad_indices (mcase_ok gs) l.
Definition mcase_ok_nogates (c : mcase) : bool :=
  match m_outcome c with O => uses_expressible c | _ => true end.
Definition mmismatches_nogates (l : list mcase) : list nat := bad_indices mcase_ok_nogates l.
