(* Run.C20 — driver for the regenerated files coq/Gen/C20/MathEmitted_<k>.v.
   The harness compiles probe programs with the real compiler, translates every emitted
   function (fail-closed) into MC.Syntax terms and lets Coq decide
   - parsed term list = the model's term list (Leibniz equality, decided), and
   - the parsed terms print back to exactly the emitted text (so the translator is not trusted). *)
From Coq Require Import ZArith String List Bool.
From JMCV Require Import Base.Dec MC.Syntax MC.Print Model.Names Model.MathFn Run.Common.
Import ListNotations.

Definition score_eq_dec (a b : score) : {a = b} + {a <> b}.
Proof. decide equality; apply string_dec. Defined.
Definition range_eq_dec (a b : range) : {a = b} + {a <> b}.
Proof. decide equality; apply Z.eq_dec. Defined.
Definition cmpop_eq_dec (a b : cmpop) : {a = b} + {a <> b}.
Proof. decide equality. Defined.
Definition test_eq_dec (a b : test) : {a = b} + {a <> b}.
Proof. decide equality; auto using score_eq_dec, range_eq_dec, cmpop_eq_dec. Defined.
Definition sop_eq_dec (a b : sop) : {a = b} + {a <> b}.
Proof. decide equality. Defined.
Definition skind_eq_dec (a b : skind) : {a = b} + {a <> b}.
Proof. decide equality. Defined.
Definition dest_eq_dec (a b : dest) : {a = b} + {a <> b}.
Proof. decide equality; auto using score_eq_dec, string_dec. Defined.
Definition modifier_eq_dec (a b : modifier) : {a = b} + {a <> b}.
Proof. decide equality; auto using test_eq_dec, skind_eq_dec, dest_eq_dec, Bool.bool_dec. Defined.
Definition cmd_eq_dec (a b : cmd) : {a = b} + {a <> b}.
Proof.
  decide equality; auto using score_eq_dec, Z.eq_dec, sop_eq_dec, string_dec, Nat.eq_dec,
                   (list_eq_dec modifier_eq_dec).
Defined.
Definition cmds_eqb (a b : list cmd) : bool := if list_eq_dec cmd_eq_dec a b then true else false.

Lemma cmds_eqb_eq a b : cmds_eqb a b = true -> a = b.
Proof. unfold cmds_eqb. destruct (list_eq_dec cmd_eq_dec a b); [auto|discriminate]. Qed.

(* one emitted function file (or the body of a probe function) *)
Record fcase := mkF {
  f_model_name : string;  f_model : list cmd;       (* what the model says: "ns:path", commands *)
  f_real_name : string;   f_parsed : list cmd;      (* real: "ns:path", translator output *)
  f_raw : string                                     (* real: the text of the file *)
}.
Definition fcase_ok (c : fcase) : bool :=
  String.eqb (f_model_name c) (f_real_name c) &&
  cmds_eqb (f_parsed c) (f_model c) &&
  String.eqb (pr_cmds (f_parsed c)) (f_raw c).
Definition file_mismatches (l : list fcase) : list nat := bad_indices fcase_ok l.

(* helpers to name the parts of a model result *)
Definition err_emitted : emitted := mkEmitted [COther "<model: JMCValueError>"] [] [].
Definition get (e : option emitted) : emitted := match e with Some x => x | None => err_emitted end.
Definition func_name (e : emitted) (i : nat) : string := fst (nth i (e_funcs e) ("<model: no such function>"%string, [])).
Definition func_body (e : emitted) (i : nat) : list cmd := snd (nth i (e_funcs e) ("<model: no such function>"%string, [])).

(* integer constants: everything the model requests is materialised in __load__ *)
Definition ints_ok (model real : list Z) : bool := zlist_subset model real.
(* compile errors: model None <-> the compiler raised its diagnostic *)
Definition err_ok (e : option emitted) (real_failed : bool) : bool :=
  match e with None => real_failed | Some _ => negb real_failed end.
Definition bool_mismatches (l : list bool) : list nat := bad_indices (fun b => b) l.

(* for the evidence / replay files: the model's text *)
Definition model_text (c : fcase) : string := pr_cmds (f_model c).
