(* Run.Common — helpers used by generated case files. *)
From Coq Require Import ZArith String List Bool.
Import ListNotations.

Fixpoint bad_indices_from {T} (ok : T -> bool) (l : list T) (i : nat) : list nat :=
  match l with
  | [] => []
  | x :: r => if ok x then bad_indices_from ok r (S i) else i :: bad_indices_from ok r (S i)
  end.
Definition bad_indices {T} (ok : T -> bool) (l : list T) : list nat := bad_indices_from ok l 0.

Definition zlist_subset (a b : list Z) : bool :=
  forallb (fun x => existsb (Z.eqb x) b) a.
Definition zset_eq (a b : list Z) : bool := zlist_subset a b && zlist_subset b a.
