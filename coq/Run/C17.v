(* Run.C17 — driver for the generated correspondence cases of C17. *)
From Coq Require Import String List Bool Arith.
From JMCV Require Import Model.Import Model.ImportPath Run.Common.
Import ListNotations.

(* what the harness observed on the real compile of the project *)
Inductive robs :=
| ROk (order : list nat)       (* ids of the allocating items, in the order of their private-function numbers *)
      (loads : list nat)       (* ids of the load items in the order of their lines in __load__ *)
      (opened : list apath)    (* .jmc files opened for reading, in order *)
      (wids : list nat)        (* round 3: ids of the watched load statements (`$q += n;` under Debug.watch($q)), in order, and *)
      (wfiles : list apath)    (*          the file each of them was compiled as text of (file name printed by Debug.watch) *)
| RBad (n : nat) (f : apath)   (* round 3: the failing load statement n is diagnosed, as a statement of file f *)
| RDup (n : nat)               (* "Duplicate function declaration" of definition n *)
| RNotFound (p : apath)        (* JMCFileNotFoundError: JMC file not found *)
| RDirNotFound (p : apath)     (* JMCFileNotFoundError: Directory(folder) not found *)
| ROther.                      (* anything else: never predicted by the model *)

Record case := mkCase {
  c_mode : mode;
  c_tree : tree;                 (* round 4: written by the harness as `lower_tree <project as text>`: import statements are STRINGS *)
  c_fs : fsys;                   (* round 4: every file and folder found below the temporary root *)
  c_dirs : dirs; c_cwd : apath; c_mabs : bool; c_mraw : list comp;
  c_alloc : list nat;
  c_watch : list nat;            (* ids of the load statements whose file is observable in the output *)
  c_bad : list nat;              (* ids of the load statements that do not compile *)
  c_hidden : list nat;           (* ids of the load statements that leave no line of their own in __load__ *)
  c_real : robs
}.

Definition id_of (f : fitem) : nat := match f with FLoad n => n | FDef n => n end.
Definition load_ids (l : list fitem) : list nat :=
  flat_map (fun f => match f with FLoad n => [n] | FDef _ => [] end) l.
Definition def_ids (l : list fitem) : list nat :=
  flat_map (fun f => match f with FDef n => [n] | FLoad _ => [] end) l.
Definition memn (n : nat) (l : list nat) : bool := existsb (Nat.eqb n) l.

Fixpoint first_dup (seen l : list nat) : option nat :=
  match l with
  | [] => None
  | x :: r => if memn x seen then Some x else first_dup (x :: seen) r
  end.

(* every load statement with the file of the tokenizer its batch was parsed with *)
Definition stmt_toks (evs : list event) : list (nat * apath) :=
  flat_map (fun e => match e with EvBatch tok l => map (fun x => (l_id x, tok)) l | _ => [] end) evs.

Definition fuel_for (c : case) : nat := S (S (length (c_tree c))).

Definition model_obs (c : case) : robs :=
  match parse_project (c_mode c) (c_tree c) (c_dirs c) (c_cwd c) (c_mabs c) (c_mraw c) (fuel_for c) with
  | Err (ENotFound p) => RNotFound p
  | Err (EDirNotFound p) => RDirNotFound p
  | Err EFuel => ROther
  | Ok evs =>
      let its := items_of evs in
      match find (fun p => memn (fst p) (c_bad c)) (stmt_toks evs) with
      | Some (n, f) => RBad n f
      | None =>
      match first_dup [] (def_ids its) with
      | Some n => RDup n
      | None =>
          let w := filter (fun p => memn (fst p) (c_watch c)) (stmt_toks evs) in
          ROk (filter (fun n => memn n (c_alloc c)) (map id_of its)) (filter (fun n => negb (memn n (c_hidden c))) (load_ids its)) (opens evs) (map fst w) (map snd w)
      end
      end
  end.

Fixpoint natlist_eqb (a b : list nat) : bool :=
  match a, b with
  | [], [] => true
  | x :: a', y :: b' => Nat.eqb x y && natlist_eqb a' b'
  | _, _ => false
  end.
Fixpoint pathlist_eqb (a b : list apath) : bool :=
  match a, b with
  | [], [] => true
  | x :: a', y :: b' => path_eqb x y && pathlist_eqb a' b'
  | _, _ => false
  end.

Definition robs_eqb (a b : robs) : bool :=
  match a, b with
  | ROk o1 l1 p1 w1 f1, ROk o2 l2 p2 w2 f2 =>
      natlist_eqb o1 o2 && natlist_eqb l1 l2 && pathlist_eqb p1 p2 && natlist_eqb w1 w2 && pathlist_eqb f1 f2
  | RBad n f, RBad m g => Nat.eqb n m && path_eqb f g
  | RDup n, RDup m => Nat.eqb n m
  | RNotFound p, RNotFound q => path_eqb p q
  | RDirNotFound p, RDirNotFound q => path_eqb p q
  | _, _ => false
  end.

(* round 4: the listings handed to the model describe the directory tree found on disk (hypothesis `listing_ok` of
   C17_wildcard_exact_files, by C17_listing_check_sound) *)
Definition case_ok (c : case) : bool := robs_eqb (model_obs c) (c_real c) && listing_okb (c_fs c) (c_dirs c).
Definition mismatches (l : list case) : list nat := bad_indices case_ok l.

(* the specification side, for the cross-check "harness flatten = Coq flatten" *)
Definition spec_ids (c : case) : option (list nat) :=
  match flatten (c_tree c) (c_dirs c) (c_cwd c) (c_mabs c) (c_mraw c) (fuel_for c) with
  | Ok l => Some (map id_of l)
  | Err _ => None
  end.
Definition spec_ok (c : case) (expected : option (list nat)) : bool :=
  match spec_ids c, expected with
  | Some a, Some b => natlist_eqb a b
  | None, None => true
  | _, _ => false
  end.
