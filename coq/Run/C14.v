(* Run.C14 — driver for the generated correspondence cases of C14 (and, re-used, C13).
   Texts are written by the harness as UTF-8 Coq string literals and decoded here to code points. *)
From Coq Require Import ZArith NArith String Ascii List Bool.
From JMCV Require Import Model.Tok Model.TokPos Model.TokDerived Model.TokCite Model.TokArgs Model.TokEnd Run.Common.
Import ListNotations.
Open Scope Z_scope.

(* ---- UTF-8 -> code points (harness-side plumbing; malformed input decodes to U+FFFD-like garbage,
        the harness only ever writes valid UTF-8) *)
Definition b (a : ascii) : N := N_of_ascii a.
Fixpoint utf8 (s : string) : str :=
  match s with
  | EmptyString => []
  | String a r =>
    let x := b a in
    if N.ltb x 128 then x :: utf8 r
    else if N.ltb x 224 then
      match r with
      | String a1 r1 => ((x - 192) * 64 + (b a1 - 128))%N :: utf8 r1
      | _ => [65533%N] end
    else if N.ltb x 240 then
      match r with
      | String a1 (String a2 r2) => ((x - 224) * 4096 + (b a1 - 128) * 64 + (b a2 - 128))%N :: utf8 r2
      | _ => [65533%N] end
    else
      match r with
      | String a1 (String a2 (String a3 r3)) =>
        ((x - 240) * 262144 + (b a1 - 128) * 4096 + (b a2 - 128) * 64 + (b a3 - 128))%N :: utf8 r3
      | _ => [65533%N] end
  end.

(* ---- environment regenerated from the interpreter under test *)
Record env := mkEnv {
  e_uni : list (string * N);          (* \N{NAME} -> code point, for the names occurring in the inputs *)
  e_printable : list (N * N)          (* str.isprintable ranges above U+007F *)
}.
Definition uni_of (e : env) (name : str) : option char :=
  match find (fun p => seqb (utf8 (fst p)) name) (e_uni e) with Some p => Some (snd p) | None => None end.
Definition printable_of (e : env) (c : char) : bool := in_ranges c (e_printable e).

(* ---- what the real tokenizer did on one recorded call of Tokenizer.parse *)
Record rtok := R { r_type : ttype; r_line : Z; r_col : Z; r_str : string; r_bt : bool }.
Inductive rout :=
| ROk (programs : list (list rtok))
| RDiag (warning : bool) (line : Z) (col : option Z)     (* a JMC diagnostic and the position its text cites *)
| RCrash.                                                (* anything else escaped *)
Record tcase := TC {
  c_text : string; c_line : Z; c_col : Z; c_es : bool; c_alms : bool; c_asemi : bool; c_out : rout }.

Definition tok_eqb (t : token) (r : rtok) : bool :=
  ttype_eqb (t_type t) (r_type r) && Z.eqb (t_line t) (r_line r) && Z.eqb (t_col t) (r_col r)
  && seqb (t_str t) (utf8 (r_str r)) && Bool.eqb (t_bt t) (r_bt r).
Fixpoint list_eqb {A B} (f : A -> B -> bool) (a : list A) (b : list B) : bool :=
  match a, b with
  | [], [] => true
  | x :: a', y :: b' => f x y && list_eqb f a' b'
  | _, _ => false
  end.

Definition line_only (d : diag) : bool :=
  match d with DStringLineBreak | DStringLineBreakEOF => true | _ => false end.
Definition is_warning (d : diag) : bool := match d with DUnnecessarySemicolon => true | _ => false end.

Definition model_of (e : env) (c : tcase) : result (list (list token)) :=
  parse (uni_of e) (printable_of e) (c_alms c) (c_es c) (c_asemi c) (utf8 (c_text c)) (c_line c) (c_col c).

(* the character of the text (started at p) that sits at position (l, k) *)
Fixpoint char_at (s : str) (p : pos) (l k : Z) : option char :=
  match s with
  | [] => None
  | x :: r => if Z.eqb (fst p) l && Z.eqb (snd p) k then Some x else char_at r (adv p x) l k
  end.
(* what kind of character the diagnostic must be pointing at *)
Definition diag_char_ok (s : str) (p : pos) (d : diag) (l k : Z) : bool :=
  let at_ (f : char -> bool) := match char_at s p l k with Some x => f x | None => false end in
  match d with
  | DUnexpectedBracket => at_ is_rparen
  | DBracketNeverClosed => at_ is_lparen
  | DUnexpectedSemicolon | DUnnecessarySemicolon => at_ (fun x => ceqb x c_semi)
  | DBadString => at_ is_quote
  | DMultilineOpen | DMultilineClose | DMultilineFirst | DMultilineLast => at_ (fun x => ceqb x c_btick)
  | DStringLineBreak | DStringLineBreakEOF | DExpectedSemicolon => true
  end.

(* strengthening round 4: the repaired tokenizer ("Expected semicolon(;)" cites Token.end of the last token: Model.TokEnd.parse_r) *)
Definition model_of_r (e : env) (c : tcase) : result (list (list token)) :=
  parse_r (uni_of e) (printable_of e) (c_alms c) (c_es c) (c_asemi c) (utf8 (c_text c)) (c_line c) (c_col c).

Definition tcase_ok_with (m : result (list (list token))) (e : env) (c : tcase) : bool :=
  match m, c_out c with
  | Ok progs, ROk rprogs => list_eqb (list_eqb tok_eqb) progs rprogs
  | Diag d l col, RDiag w rl rc =>
    Bool.eqb (is_warning d) w && Z.eqb l rl &&
    (if line_only d then match rc with None => true | Some _ => false end
     else match rc with
          | Some x => Z.eqb col x && diag_char_ok (utf8 (c_text c)) (c_line c, c_col c) d rl x
          | None => false end)
  | Crash _, RCrash => true
  | _, _ => false
  end.
(* C14's own tie: the repaired model, exactly *)
Definition tcase_ok_r (e : env) (c : tcase) : bool := tcase_ok_with (model_of_r e c) e c.
Definition tmismatches_r (e : env) (l : list tcase) : list nat := bad_indices (tcase_ok_r e) l.
(* the tie as C13 uses it (outcome classes; C13 is not about positions): Model.Tok.parse, or parse_r, which differs from it
   only in the position of "Expected semicolon(;)" behind a string literal (theorem C14_parse_r_same_outcome) - so that C13
   holds on the tree with and without fixes/C14-string-literal-end.patch *)
Definition tcase_ok (e : env) (c : tcase) : bool := tcase_ok_with (model_of e c) e c || tcase_ok_r e c.
Definition tmismatches (e : env) (l : list tcase) : list nat := bad_indices (tcase_ok e) l.

(* ---- plants: where does the model's deep re-tokenisation (repaired hand-overs) put a needle? *)
Definition needle_positions (e : env) (file needle : string) : list (Z * Z) :=
  deep_find (uni_of e) (printable_of e) repaired (List.length (utf8 file)) (utf8 file) 1 1 true (utf8 needle).
Record pcase := PC { p_file : string; p_needle : string; p_line : Z; p_col : Z }.
Definition pcase_ok (e : env) (c : pcase) : bool :=
  match needle_positions e (p_file c) (p_needle c) with
  | [(l, k)] => Z.eqb l (p_line c) && Z.eqb k (p_col c)
  | _ => false
  end.
Definition pmismatches (e : env) (l : list pcase) : list nat := bad_indices (pcase_ok e) l.

(* ---- sign tokens split off `key=-N` / `key=+N` by parse_func_args: the real sign token == split_sign d_sign
        of the real operator token (which the tokenizer tie has compared with the model) *)
Record scase := SC { s_eq : rtok; s_sign : rtok }.
Definition tok_of_r (r : rtok) : token := mkTok (r_type r) (r_line r) (r_col r) (utf8 (r_str r)) (r_bt r).
Definition scase_ok (c : scase) : bool :=
  is_signed_eq (tok_of_r (s_eq c)) && tok_eqb (split_sign d_sign (tok_of_r (s_eq c))) (s_sign c).
Definition smismatches (l : list scase) : list nat := bad_indices scase_ok l.

(* ---- (strengthening round 3) every call of exception.error_msg with a token: the (line, col) in the header `In file:L:C`
        and in the sentence `at line L col C.` == Model.TokCite.cite col_length of the recorded token
        (entire_line template: lines only, no column is written) *)
Record ecase := EC { e_tok : rtok; e_col_length : bool; e_entire : bool;
                     e_line : Z; e_col : option Z;        (* the sentence *)
                     e_hline : Z; e_hcol : option Z }.    (* the header *)
Definition opt_is (o : option Z) (x : Z) : bool := match o with Some y => Z.eqb x y | None => false end.
Definition ecase_ok (e : env) (c : ecase) : bool :=
  let '(l, k) := cite (printable_of e) (e_col_length c) (tok_of_r (e_tok c)) in
  Z.eqb l (e_line c) && Z.eqb l (e_hline c) &&
  (if e_entire c then match e_col c, e_hcol c with None, None => true | _, _ => false end
   else opt_is (e_col c) k && opt_is (e_hcol c) k).
Definition emismatches (e : env) (l : list ecase) : list nat := bad_indices (ecase_ok e) l.
Definition show_cite (e : env) (c : ecase) : Z * Z := cite (printable_of e) (e_col_length c) (tok_of_r (e_tok c)).

(* for messages *)
Definition show_model (e : env) (c : tcase) : result (list (list (ttype * Z * Z * nat))) :=
  match model_of e c with
  | Ok p => Ok (map (map (fun t => (t_type t, t_line t, t_col t, List.length (t_str t)))) p)
  | Diag d l k => Diag d l k
  | Crash x => Crash x
  end.

(* ==================================================================================================================
   strengthening round 4 *)
Definition pos_opt_eqb (a : option (Z * Z)) (b : option (Z * Z)) : bool :=
  match a, b with
  | Some x, Some y => pos_eqb x y
  | None, None => true
  | _, _ => false
  end.

(* ---- (E, repaired) every call of error_msg with a token: header and sentence == Model.TokEnd.cite_r col_length token rec,
        rec = the end position recorded in the token (Token._macro_end), if any; and Token.end / Token.length of that token ==
        the model's (tok_len_r: a string literal on one line: recorded end column - start column) *)
Record ercase := ER { er_tok : rtok; er_cl : bool; er_entire : bool; er_line : Z; er_col : option Z; er_hline : Z; er_hcol : option Z;
                      er_rec : option (Z * Z); er_end : Z * Z; er_len : Z }.
Definition token_end_r (e : env) (t : token) (rec : option (Z * Z)) : Z * Z := cite_r (printable_of e) true t rec.
Definition ercase_ok (e : env) (c : ercase) : bool :=
  let t := tok_of_r (er_tok c) in
  let '(l, k) := cite_r (printable_of e) (er_cl c) t (er_rec c) in
  Z.eqb l (er_line c) && Z.eqb l (er_hline c) &&
  (if er_entire c then match er_col c, er_hcol c with None, None => true | _, _ => false end
   else opt_is (er_col c) k && opt_is (er_hcol c) k) &&
  pos_eqb (token_end_r e t (er_rec c)) (er_end c) &&
  Z.eqb (tok_len_r (printable_of e) t (er_rec c)) (er_len c).
Definition ermismatches (e : env) (l : list ercase) : list nat := bad_indices (ercase_ok e) l.

(* ---- (X) the end the tokenizer records for every string literal of a Tokenizer.parse call == Model.TokEnd.parse_ends;
        x_ends: for each STRING token of the real result, in order: start, Token.end, Token.length *)
Record xcase := XC { x_text : string; x_line : Z; x_col : Z; x_es : bool; x_alms : bool; x_asemi : bool;
                     x_ends : list (Z * Z * (Z * Z) * Z) }.
Definition model_ends (e : env) (c : xcase) : option (list (Z * Z * (Z * Z) * Z)) :=
  match parse_ends (uni_of e) (printable_of e) (x_alms c) (x_es c) (x_asemi c) (utf8 (x_text c)) (x_line c) (x_col c) with
  | Ok (progs, ends) =>
    Some (flat_map (fun t => if ttype_eqb (t_type t) STRING
                             then [((t_line t, t_col t), tok_end (printable_of e) ends t,
                                    tok_len_r (printable_of e) t (lookup_end (t_line t, t_col t) ends))]
                             else []) (concat progs))
  | _ => None
  end.
Definition xent_eqb (a b : Z * Z * (Z * Z) * Z) : bool :=
  let '(s1, e1, n1) := a in let '(s2, e2, n2) := b in pos_eqb s1 s2 && pos_eqb e1 e2 && Z.eqb n1 n2.
Definition xcase_ok (e : env) (c : xcase) : bool :=
  match model_ends e c with Some l => list_eqb xent_eqb l (x_ends c) | None => false end.
Definition xmismatches (e : env) (l : list xcase) : list nat := bad_indices (xcase_ok e) l.

(* ---- (G) the argument-list parsers: what parse_func_args / parse_js_obj / parse_component / parse_list / parse_param did
        on the tokens of their inner tokenizer run == Model.TokArgs *)
Inductive afn := FArgs | FObj | FComp | FList | FParam.
Inductive aout :=
| GArgs (args : list (list rtok)) (kwargs : list (string * list rtok))
| GPairs (items : list (string * option (ttype * Z * Z)))
| GList (items : list rtok)
| GParams (names : list string)
| GDiag (d : adiag) (t : rtok).
Record gcase := GC { g_fn : afn; g_kws : list rtok; g_out : aout }.

Definition adiag_eqb (a b : adiag) : bool :=
  match a, b with
  | ACommaEnd, ACommaEnd | AComma, AComma | AKwNoValue, AKwNoValue | ADupKey, ADupKey | AArrowNothing, AArrowNothing
  | AArrowNotCurly, AArrowNotCurly | AArrowExtra, AArrowExtra | AUnexpectedAfter, AUnexpectedAfter | AEmptyKey, AEmptyKey
  | APositional, APositional | AExpectedPair, AExpectedPair | AListDupComma, AListDupComma
  | AListExpectedComma, AListExpectedComma | AParamKeyword, AParamKeyword => true
  | _, _ => false
  end.
Definition head_eqb (a b : option (ttype * Z * Z)) : bool :=
  match a, b with
  | Some (t1, l1, c1), Some (t2, l2, c2) => ttype_eqb t1 t2 && Z.eqb l1 l2 && Z.eqb c1 c2
  | None, None => true
  | _, _ => false
  end.
Definition gcase_ok (c : gcase) : bool :=
  let kws := map tok_of_r (g_kws c) in
  let diag_ok {A} (r : ares A) (d : adiag) (t : rtok) :=
    match r with ADiag d' t' => adiag_eqb d d' && tok_eqb t' t | _ => false end in
  match g_fn c, g_out c with
  | FArgs, GArgs a k =>
    match func_args false kws with
    | AOk (a', k') => list_eqb (list_eqb tok_eqb) a' a
                      && list_eqb (fun (x : str * list token) (y : string * list rtok) =>
                                     seqb (fst x) (utf8 (fst y)) && list_eqb tok_eqb (snd x) (snd y)) k' k
    | _ => false end
  | FArgs, GDiag d t => diag_ok (func_args false kws) d t
  | FObj, GPairs p =>
    match pairs false s_colon kws with
    | AOk p' => list_eqb (fun (x : str * option (ttype * Z * Z)) (y : string * option (ttype * Z * Z)) =>
                            seqb (fst x) (utf8 (fst y)) && head_eqb (snd x) (snd y)) p' p
    | _ => false end
  | FObj, GDiag d t => diag_ok (pairs false s_colon kws) d t
  | FComp, GPairs p =>
    match pairs false TokArgs.s_eq kws with
    | AOk p' => list_eqb (fun (x : str * option (ttype * Z * Z)) (y : string * option (ttype * Z * Z)) =>
                            seqb (fst x) (utf8 (fst y)) && head_eqb (snd x) (snd y)) p' p
    | _ => false end
  | FComp, GDiag d t => diag_ok (pairs false TokArgs.s_eq kws) d t
  | FList, GList l => match list_items kws with AOk l' => list_eqb tok_eqb l' l | _ => false end
  | FList, GDiag d t => diag_ok (list_items kws) d t
  | FParam, GParams n => match params kws with AOk n' => list_eqb (fun (x : str) (y : string) => seqb x (utf8 y)) n' n | _ => false end
  | FParam, GDiag d t => diag_ok (params kws) d t
  | _, _ => false
  end.
Definition gmismatches (l : list gcase) : list nat := bad_indices gcase_ok l.
(* which token the variant `late` (index advanced at the end of the loop body) would cite - for messages *)
Definition show_args_late (c : gcase) : option (Z * Z) :=
  match func_args true (map tok_of_r (g_kws c)) with ADiag _ t => Some (t_line t, t_col t) | _ => None end.
