(* Run.C14 — driver for the generated correspondence cases of C14 (and, re-used, C13).
   Texts are written by the harness as UTF-8 Coq string literals and decoded here to code points. *)
From Coq Require Import ZArith NArith String Ascii List Bool.
From JMCV Require Import Model.Tok Model.TokPos Model.TokDerived Model.TokCite Run.Common.
Import ListNotations.
Open Scope Z_scope.

(* ---- UTF-8 -> code points (harness-side plumbing; malformed input decodes to U+FFFD-like garbage,
        the harness only ever writes valid UTF-8) *)
Definition b (a : ascii) : N := N_of_ascii a.
Fixpoint utf8 (s : string) : str :=
  match s with
  | EmptyString => []
  | String a r =>
    let x := b a in
    if N.ltb x 128 then x :: utf8 r
    else if N.ltb x 224 then
      match r with
      | String a1 r1 => ((x - 192) * 64 + (b a1 - 128))%N :: utf8 r1
      | _ => [65533%N] end
    else if N.ltb x 240 then
      match r with
      | String a1 (String a2 r2) => ((x - 224) * 4096 + (b a1 - 128) * 64 + (b a2 - 128))%N :: utf8 r2
      | _ => [65533%N] end
    else
      match r with
      | String a1 (String a2 (String a3 r3)) =>
        ((x - 240) * 262144 + (b a1 - 128) * 4096 + (b a2 - 128) * 64 + (b a3 - 128))%N :: utf8 r3
      | _ => [65533%N] end
  end.

(* ---- environment regenerated from the interpreter under test *)
Record env := mkEnv {
  e_uni : list (string * N);          (* \N{NAME} -> code point, for the names occurring in the inputs *)
  e_printable : list (N * N)          (* str.isprintable ranges above U+007F *)
}.
Definition uni_of (e : env) (name : str) : option char :=
  match find (fun p => seqb (utf8 (fst p)) name) (e_uni e) with Some p => Some (snd p) | None => None end.
Definition printable_of (e : env) (c : char) : bool := in_ranges c (e_printable e).

(* ---- what the real tokenizer did on one recorded call of Tokenizer.parse *)
Record rtok := R { r_type : ttype; r_line : Z; r_col : Z; r_str : string; r_bt : bool }.
Inductive rout :=
| ROk (programs : list (list rtok))
| RDiag (warning : bool) (line : Z) (col : option Z)     (* a JMC diagnostic and the position its text cites *)
| RCrash.                                                (* anything else escaped *)
Record tcase := TC {
  c_text : string; c_line : Z; c_col : Z; c_es : bool; c_alms : bool; c_asemi : bool; c_out : rout }.

Definition tok_eqb (t : token) (r : rtok) : bool :=
  ttype_eqb (t_type t) (r_type r) && Z.eqb (t_line t) (r_line r) && Z.eqb (t_col t) (r_col r)
  && seqb (t_str t) (utf8 (r_str r)) && Bool.eqb (t_bt t) (r_bt r).
Fixpoint list_eqb {A B} (f : A -> B -> bool) (a : list A) (b : list B) : bool :=
  match a, b with
  | [], [] => true
  | x :: a', y :: b' => f x y && list_eqb f a' b'
  | _, _ => false
  end.

Definition line_only (d : diag) : bool :=
  match d with DStringLineBreak | DStringLineBreakEOF => true | _ => false end.
Definition is_warning (d : diag) : bool := match d with DUnnecessarySemicolon => true | _ => false end.

Definition model_of (e : env) (c : tcase) : result (list (list token)) :=
  parse (uni_of e) (printable_of e) (c_alms c) (c_es c) (c_asemi c) (utf8 (c_text c)) (c_line c) (c_col c).

(* the character of the text (started at p) that sits at position (l, k) *)
Fixpoint char_at (s : str) (p : pos) (l k : Z) : option char :=
  match s with
  | [] => None
  | x :: r => if Z.eqb (fst p) l && Z.eqb (snd p) k then Some x else char_at r (adv p x) l k
  end.
(* what kind of character the diagnostic must be pointing at *)
Definition diag_char_ok (s : str) (p : pos) (d : diag) (l k : Z) : bool :=
  let at_ (f : char -> bool) := match char_at s p l k with Some x => f x | None => false end in
  match d with
  | DUnexpectedBracket => at_ is_rparen
  | DBracketNeverClosed => at_ is_lparen
  | DUnexpectedSemicolon | DUnnecessarySemicolon => at_ (fun x => ceqb x c_semi)
  | DBadString => at_ is_quote
  | DMultilineOpen | DMultilineClose | DMultilineFirst | DMultilineLast => at_ (fun x => ceqb x c_btick)
  | DStringLineBreak | DStringLineBreakEOF | DExpectedSemicolon => true
  end.

Definition tcase_ok (e : env) (c : tcase) : bool :=
  match model_of e c, c_out c with
  | Ok progs, ROk rprogs => list_eqb (list_eqb tok_eqb) progs rprogs
  | Diag d l col, RDiag w rl rc =>
    Bool.eqb (is_warning d) w && Z.eqb l rl &&
    (if line_only d then match rc with None => true | Some _ => false end
     else match rc with
          | Some x => Z.eqb col x && diag_char_ok (utf8 (c_text c)) (c_line c, c_col c) d rl x
          | None => false end)
  | Crash _, RCrash => true
  | _, _ => false
  end.
Definition tmismatches (e : env) (l : list tcase) : list nat := bad_indices (tcase_ok e) l.

(* ---- plants: where does the model's deep re-tokenisation (repaired hand-overs) put a needle? *)
Definition needle_positions (e : env) (file needle : string) : list (Z * Z) :=
  deep_find (uni_of e) (printable_of e) repaired (List.length (utf8 file)) (utf8 file) 1 1 true (utf8 needle).
Record pcase := PC { p_file : string; p_needle : string; p_line : Z; p_col : Z }.
Definition pcase_ok (e : env) (c : pcase) : bool :=
  match needle_positions e (p_file c) (p_needle c) with
  | [(l, k)] => Z.eqb l (p_line c) && Z.eqb k (p_col c)
  | _ => false
  end.
Definition pmismatches (e : env) (l : list pcase) : list nat := bad_indices (pcase_ok e) l.

(* ---- sign tokens split off `key=-N` / `key=+N` by parse_func_args: the real sign token == split_sign d_sign
        of the real operator token (which the tokenizer tie has compared with the model) *)
Record scase := SC { s_eq : rtok; s_sign : rtok }.
Definition tok_of_r (r : rtok) : token := mkTok (r_type r) (r_line r) (r_col r) (utf8 (r_str r)) (r_bt r).
Definition scase_ok (c : scase) : bool :=
  is_signed_eq (tok_of_r (s_eq c)) && tok_eqb (split_sign d_sign (tok_of_r (s_eq c))) (s_sign c).
Definition smismatches (l : list scase) : list nat := bad_indices scase_ok l.

(* ---- (strengthening round 3) every call of exception.error_msg with a token: the (line, col) in the header `In file:L:C`
        and in the sentence `at line L col C.` == Model.TokCite.cite col_length of the recorded token
        (entire_line template: lines only, no column is written) *)
Record ecase := EC { e_tok : rtok; e_col_length : bool; e_entire : bool;
                     e_line : Z; e_col : option Z;        (* the sentence *)
                     e_hline : Z; e_hcol : option Z }.    (* the header *)
Definition opt_is (o : option Z) (x : Z) : bool := match o with Some y => Z.eqb x y | None => false end.
Definition ecase_ok (e : env) (c : ecase) : bool :=
  let '(l, k) := cite (printable_of e) (e_col_length c) (tok_of_r (e_tok c)) in
  Z.eqb l (e_line c) && Z.eqb l (e_hline c) &&
  (if e_entire c then match e_col c, e_hcol c with None, None => true | _, _ => false end
   else opt_is (e_col c) k && opt_is (e_hcol c) k).
Definition emismatches (e : env) (l : list ecase) : list nat := bad_indices (ecase_ok e) l.
Definition show_cite (e : env) (c : ecase) : Z * Z := cite (printable_of e) (e_col_length c) (tok_of_r (e_tok c)).

(* for messages *)
Definition show_model (e : env) (c : tcase) : result (list (list (ttype * Z * Z * nat))) :=
  match model_of e c with
  | Ok p => Ok (map (map (fun t => (t_type t, t_line t, t_col t, List.length (t_str t)))) p)
  | Diag d l k => Diag d l k
  | Crash x => Crash x
  end.
