(* Run.C08 — driver for the generated correspondence cases of C08: the model's verdict and
   placement of every marked definition against the real compiler's. *)
From Coq Require Import String Ascii List Bool Arith.
From JMCV Require Import Model.ResLoc Model.Defs Run.Common.
Import ListNotations.
Open Scope string_scope.

Record case := mkCase {
  q_d : dcfg; q_fx : fixes; q_ns : string; q_prog : list item;
  q_ok : bool; q_exc : string;               (* real verdict *)
  q_found : list (nat * string)              (* real output: (marker, file) for every occurrence of a marker *)
}.

Definition key_of (c : case) (e : bool * string * nat) : string :=
  match e with
  | (true, p, _) => pr_key (json_key (q_ns c) (d_overrides (q_d c)) p)
  | (false, p, _) => pr_key (func_key (q_ns c) (d_legacy (q_d c)) (d_overrides (q_d c)) p)
  end.
(* files are written through pathlib, which collapses "//"; a later entry of the same file replaces an earlier one *)
Fixpoint collapse (s : string) : string :=
  match s with
  | String c ((String d _) as r) => if Ascii.eqb c ch_slash && Ascii.eqb d ch_slash then collapse r else String c (collapse r)
  | _ => s
  end.
Fixpoint last_wins (l : list (nat * string)) : list (nat * string) :=
  match l with
  | [] => []
  | x :: r => if existsb (fun y => String.eqb (snd x) (snd y)) r then last_wins r else x :: last_wins r
  end.
Definition model_found (c : case) (st : dstate) : list (nat * string) :=
  last_wins (map (fun e => (snd e, collapse (key_of c e))) (placed st)).

Definition pair_eqb (a b : nat * string) : bool := Nat.eqb (fst a) (fst b) && String.eqb (snd a) (snd b).
Definition subset (a b : list (nat * string)) : bool := forallb (fun x => existsb (pair_eqb x) b) a.

Definition exc_of (e : derr) : string :=
  match e with
  | DConv EInvalidChar | DType | DUpper => "MinecraftSyntaxWarning"
  | DConv _ | DPrivate | DLoad | DDup | DPrivateName | DClassInFunc => "JMCSyntaxException"
  | DGenDup => "JMCBuildError"
  | DCrash => "KeyError"
  | DGenInClass => "<not modelled>"
  end.

(* 0 = agree; 1 = model error / real ok or other class; 2 = model ok / real error; 3 = placement differs *)
Definition case_code (c : case) : nat :=
  match place (q_d c) (q_fx c) (q_prog c) with
  | inl e => if negb (q_ok c) && String.eqb (exc_of e) (q_exc c) then 0 else 1
  | inr st =>
      if negb (q_ok c) then 2
      else let m := model_found c st in
           if subset m (q_found c) && subset (q_found c) m && Nat.eqb (List.length m) (List.length (q_found c)) then 0 else 3
  end.
Definition codes (l : list case) : list nat := map case_code l.

(* the property itself evaluated on the model's result: every documented definition placed exactly once *)
Definition triple_eqb (a b : bool * string * nat) : bool :=
  Bool.eqb (fst (fst a)) (fst (fst b)) && String.eqb (snd (fst a)) (snd (fst b)) && Nat.eqb (snd a) (snd b).
Definition model_loses (c : case) : bool :=
  match place (q_d c) (q_fx c) (q_prog c) with
  | inl _ => false
  | inr st => negb (forallb (fun x => existsb (triple_eqb x) (placed st)) (docs (q_d c) (q_fx c) (q_prog c)))
  end.
Definition losing (l : list case) : list nat := bad_indices (fun c => negb (model_loses c)) l.

Definition verdict_str (c : case) : string :=
  match place (q_d c) (q_fx c) (q_prog c) with
  | inl e => "error " ++ exc_of e
  | inr st => "ok " ++ String.concat "; " (map (fun e => key_of c e) (placed st))
  end.

(* which single repair turns this accepted-but-losing program into an error?  (for the classification of findings)
   result: list of 0/1 for [strict; nested; privjson; gendup] *)
Definition with_flag (fx : fixes) (i : nat) : fixes :=
  match i with
  | 0 => mkFx true (fx_nested fx) (fx_privjson fx) (fx_gendup fx)
  | 1 => mkFx (fx_strict fx) true (fx_privjson fx) (fx_gendup fx)
  | 2 => mkFx (fx_strict fx) (fx_nested fx) true (fx_gendup fx)
  | _ => mkFx (fx_strict fx) (fx_nested fx) (fx_privjson fx) true
  end.
Definition explain (c : case) : list nat :=
  map (fun i => match place (q_d c) (with_flag (q_fx c) i) (q_prog c) with
                | inl DCrash => 0 | inl _ => 1 | inr _ => 0 end) [0; 1; 2; 3].
Definition explains (l : list case) : list (list nat) := map explain l.

(* ================================================================== (misc triage 4a/4b) declaration sequences: Model/DeclNames.v
   A generated program is a sequence of source-level events, one per line: a declaration (kind, enclosing classes, name as
   spelled) or a caller function (enclosing classes, spelling of the callee, possibly `this.`-relative).  Names are turned
   into paths by Model/ResLoc.v's `convention` (fail closed: a name the model cannot convert is a mismatch). *)
From JMCV Require Import Model.DeclNames.

Inductive sevent :=
| SDecl (k : dkind) (classes : list string) (name : string)
| SCall (classes : list string) (spelling : string).

Fixpoint sprefix (strict : bool) (classes : list string) : option string :=
  match classes with
  | [] => Some ""
  | c :: r => match convention strict true "" c, sprefix strict r with
              | inr p, Some q => Some (p ++ "/" ++ q)
              | _, _ => None
              end
  end.
Definition to_event (strict : bool) (e : sevent) : option event :=
  match e with
  | SDecl k cl n => match sprefix strict cl, convention strict true "" n with
                    | Some pre, inr p => Some (Decl k (pre ++ p))
                    | _, _ => None
                    end
  | SCall cl sp => match sprefix strict cl with
                   | Some pre => match convention strict true pre sp with inr p => Some (Call p) | inl _ => None end
                   | None => None
                   end
  end.
Fixpoint to_events (strict : bool) (l : list sevent) : option (list event) :=
  match l with
  | [] => Some []
  | e :: r => match to_event strict e, to_events strict r with Some x, Some y => Some (x :: y) | _, _ => None end
  end.

(* what the real compiler did *)
Inductive dreal :=
| XDup (i : nat) (path : string)      (* JMCSyntaxException "Duplicate function declaration(<path>)" pointing at the line of event i *)
| XUndef (lazy : bool)                (* JMCValueError "… was never defined" (false) / JMCSyntaxException "Lazy function … used before definition" (true) *)
| XOk (files : list (string * nat))   (* function file (path below the function folder) -> index of the declaration whose marker it holds *)
      (calls : list (nat * string * resolution))   (* caller j: the marker of template i was expanded in it (path "") / `function <ns>:<path>` *)
| XOther.

Record dcase := mkDCase { dq_fixed : bool; dq_strict : bool; dq_evs : list sevent; dq_real : dreal }.

Definition res_eqb (a b : resolution) : bool :=
  match a, b with RExpand i, RExpand j => Nat.eqb i j | RFile, RFile => true | _, _ => false end.
Definition call_eqb (m r : nat * string * resolution) : bool :=
  match m, r with
  | (j, p, RExpand i), (j', _, RExpand i') => Nat.eqb j j' && Nat.eqb i i'
  | (j, p, RFile), (j', p', RFile) => Nat.eqb j j' && String.eqb p p'
  | _, _ => false
  end.
Fixpoint calls_eqb (m r : list (nat * string * resolution)) : bool :=
  match m, r with
  | [], [] => true
  | x :: m', y :: r' => call_eqb x y && calls_eqb m' r'
  | _, _ => false
  end.
Definition entry_eqb (a b : string * nat) : bool := String.eqb (fst a) (fst b) && Nat.eqb (snd a) (snd b).
Definition entries_eqb (a b : list (string * nat)) : bool :=
  forallb (fun x => existsb (entry_eqb x) b) a && forallb (fun x => existsb (entry_eqb x) a) b &&
  Nat.eqb (List.length a) (List.length b).
Definition path_at (evs : list event) (i : nat) : string :=
  match nth_error evs i with Some (Decl _ p) => p | _ => "<no declaration>" end.

(* 0 agree; 1 verdict differs; 2 another declaration / path cited; 3 the function files differ from `functions`;
   4 a call site resolves differently; 5 a name the model cannot convert *)
Definition dcase_code (c : dcase) : nat :=
  match to_events (dq_strict c) (dq_evs c) with
  | None => 5
  | Some evs =>
      match compile (dq_fixed c) evs, dq_real c with
      | VDup i, XDup i' p => if Nat.eqb i i' && String.eqb (path_at evs i) p then 0 else 2
      | VUndefined b, XUndef b' => if Bool.eqb b b' then 0 else 1
      | VOk t cs, XOk files calls =>
          if negb (entries_eqb (t_funs t) files) then 3 else if calls_eqb cs calls then 0 else 4
      | _, _ => 1
      end
  end.
Definition dcodes (l : list dcase) : list nat := map dcase_code l.

(* ================================================================== (strengthening round 4) declarations and USES: Model/DeclUse.v
   A generated program is a tree of source-level events: a declaration (marker id, decorator class, the enclosing classes,
   the name as spelled, the events written in its body) or a use (call form, the classes whose prefix `this.` means, the
   callee as spelled).  Names become paths by Model/ResLoc.v's `convention` (fail closed); the kind of an `@if` function is
   decided by Model/DeclUse.v's `if_kind` on the converted NAME. *)
From JMCV Require Model.DeclUse.
Module DU := Model.DeclUse.

Inductive sdeco := DPlain | DSaved | DLazy | DIf.
Inductive suev :=
| SUDecl (id : nat) (d : sdeco) (classes : list string) (name : string) (body : list suev)
| SUCall (f : DU.cform) (classes : list string) (spelling : string).

Definition kind_of (d : sdeco) (converted_name : string) : DU.ukind :=
  match d with DPlain => DU.UPlain | DSaved => DU.USaved | DLazy => DU.UTemplate | DIf => DU.if_kind converted_name end.

Fixpoint to_uev (strict : bool) (e : suev) : option DU.uev :=
  match e with
  | SUDecl id d cl n body =>
      match sprefix strict cl, convention strict true "" n,
            (fix go (l : list suev) : option (list DU.uev) :=
               match l with
               | [] => Some []
               | x :: r => match to_uev strict x, go r with Some a, Some b => Some (a :: b) | _, _ => None end
               end) body with
      | Some pre, inr nm, Some b => Some (DU.UDecl id (kind_of d nm) (pre ++ nm) b)
      | _, _, _ => None
      end
  | SUCall f cl sp =>
      match sprefix strict cl with
      | Some pre => match convention strict true pre sp with inr p => Some (DU.UCall f p) | inl _ => None end
      | None => None
      end
  end.
Fixpoint to_uevs (strict : bool) (l : list suev) : option (list DU.uev) :=
  match l with
  | [] => Some []
  | e :: r => match to_uev strict e, to_uevs strict r with Some x, Some y => Some (x :: y) | _, _ => None end
  end.

(* the path of the declaration with marker id *)
Fixpoint upath_of (id : nat) (e : DU.uev) : option string :=
  match e with
  | DU.UDecl id' _ p body =>
      if Nat.eqb id id' then Some p else
      (fix go (l : list DU.uev) : option string :=
         match l with [] => None | x :: r => match upath_of id x with Some p => Some p | None => go r end end) body
  | DU.UCall _ _ => None
  end.
Fixpoint upath_in (id : nat) (l : list DU.uev) : option string :=
  match l with [] => None | x :: r => match upath_of id x with Some p => Some p | None => upath_in id r end end.

(* what the real compiler did *)
Inductive ureal :=
| YDup (id : nat) (path : string)       (* "Duplicate function declaration(<path>)" pointing at the name of declaration id *)
| YUndef (lazy : bool)
| YExecForm                             (* "Lazy function with multiple commands / without any command cannot be used with execute." *)
| YOk (files : list (string * (nat * list DU.line)))   (* function file -> (the declaration whose marker is its first command, the other commands) *)
      (load : list DU.line)             (* the commands of the load function written by load statements *)
| YOther.

Record ucase := mkUCase { uq_strict : bool; uq_evs : list suev; uq_real : ureal }.

Fixpoint line_eqb (a b : DU.line) : bool :=
  match a, b with
  | DU.LMark i, DU.LMark j => Nat.eqb i j
  | DU.LFun p, DU.LFun q => String.eqb p q
  | DU.LFunArgs p, DU.LFunArgs q => String.eqb p q
  | DU.LRun x, DU.LRun y => line_eqb x y
  | _, _ => false
  end.
Fixpoint lines_eqb (a b : list DU.line) : bool :=
  match a, b with
  | [], [] => true
  | x :: a', y :: b' => line_eqb x y && lines_eqb a' b'
  | _, _ => false
  end.
(* the model stores (id, marker :: commands); the harness reports (id, commands after the marker) *)
Definition fentry_eqb (m r : string * (nat * list DU.line)) : bool :=
  String.eqb (fst m) (fst r) && Nat.eqb (fst (snd m)) (fst (snd r)) &&
  lines_eqb (snd (snd m)) (DU.LMark (fst (snd r)) :: snd (snd r)).
Definition fentries_eqb (m r : list (string * (nat * list DU.line))) : bool :=
  forallb (fun x => existsb (fentry_eqb x) r) m && forallb (fun y => existsb (fun x => fentry_eqb x y) m) r &&
  Nat.eqb (List.length m) (List.length r).

Definition ufuel : nat := 400.

(* 0 agree; 1 verdict differs; 2 another declaration / path cited; 3 a function file differs from `functions`;
   4 the load function differs; 5 a name the model cannot convert *)
Definition ucase_code (c : ucase) : nat :=
  match to_uevs (uq_strict c) (uq_evs c) with
  | None => 5
  | Some evs =>
      match DU.compile ufuel evs, uq_real c with
      | DU.VDup i, YDup i' p =>
          if Nat.eqb i i' && match upath_in i evs with Some q => String.eqb q p | None => false end then 0 else 2
      | DU.VUndefined b, YUndef b' => if Bool.eqb b b' then 0 else 1
      | DU.VExecForm, YExecForm => 0
      | DU.VOk t ls, YOk files load =>
          if negb (fentries_eqb (DU.t_funs t) files) then 3 else if lines_eqb ls load then 0 else 4
      | _, _ => 1
      end
  end.
Definition ucodes (l : list ucase) : list nat := map ucase_code l.
