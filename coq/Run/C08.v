(* Run.C08 — driver for the generated correspondence cases of C08: the model's verdict and
   placement of every marked definition against the real compiler's. *)
From Coq Require Import String Ascii List Bool Arith.
From JMCV Require Import Model.ResLoc Model.Defs Run.Common.
Import ListNotations.
Open Scope string_scope.

Record case := mkCase {
  q_d : dcfg; q_fx : fixes; q_ns : string; q_prog : list item;
  q_ok : bool; q_exc : string;               (* real verdict *)
  q_found : list (nat * string)              (* real output: (marker, file) for every occurrence of a marker *)
}.

Definition key_of (c : case) (e : bool * string * nat) : string :=
  match e with
  | (true, p, _) => pr_key (json_key (q_ns c) (d_overrides (q_d c)) p)
  | (false, p, _) => pr_key (func_key (q_ns c) (d_legacy (q_d c)) (d_overrides (q_d c)) p)
  end.
(* files are written through pathlib, which collapses "//"; a later entry of the same file replaces an earlier one *)
Fixpoint collapse (s : string) : string :=
  match s with
  | String c ((String d _) as r) => if Ascii.eqb c ch_slash && Ascii.eqb d ch_slash then collapse r else String c (collapse r)
  | _ => s
  end.
Fixpoint last_wins (l : list (nat * string)) : list (nat * string) :=
  match l with
  | [] => []
  | x :: r => if existsb (fun y => String.eqb (snd x) (snd y)) r then last_wins r else x :: last_wins r
  end.
Definition model_found (c : case) (st : dstate) : list (nat * string) :=
  last_wins (map (fun e => (snd e, collapse (key_of c e))) (placed st)).

Definition pair_eqb (a b : nat * string) : bool := Nat.eqb (fst a) (fst b) && String.eqb (snd a) (snd b).
Definition subset (a b : list (nat * string)) : bool := forallb (fun x => existsb (pair_eqb x) b) a.

Definition exc_of (e : derr) : string :=
  match e with
  | DConv EInvalidChar | DType | DUpper => "MinecraftSyntaxWarning"
  | DConv _ | DPrivate | DLoad | DDup | DPrivateName | DClassInFunc => "JMCSyntaxException"
  | DGenDup => "JMCBuildError"
  | DCrash => "KeyError"
  | DGenInClass => "<not modelled>"
  end.

(* 0 = agree; 1 = model error / real ok or other class; 2 = model ok / real error; 3 = placement differs *)
Definition case_code (c : case) : nat :=
  match place (q_d c) (q_fx c) (q_prog c) with
  | inl e => if negb (q_ok c) && String.eqb (exc_of e) (q_exc c) then 0 else 1
  | inr st =>
      if negb (q_ok c) then 2
      else let m := model_found c st in
           if subset m (q_found c) && subset (q_found c) m && Nat.eqb (List.length m) (List.length (q_found c)) then 0 else 3
  end.
Definition codes (l : list case) : list nat := map case_code l.

(* the property itself evaluated on the model's result: every documented definition placed exactly once *)
Definition triple_eqb (a b : bool * string * nat) : bool :=
  Bool.eqb (fst (fst a)) (fst (fst b)) && String.eqb (snd (fst a)) (snd (fst b)) && Nat.eqb (snd a) (snd b).
Definition model_loses (c : case) : bool :=
  match place (q_d c) (q_fx c) (q_prog c) with
  | inl _ => false
  | inr st => negb (forallb (fun x => existsb (triple_eqb x) (placed st)) (docs (q_d c) (q_fx c) (q_prog c)))
  end.
Definition losing (l : list case) : list nat := bad_indices (fun c => negb (model_loses c)) l.

Definition verdict_str (c : case) : string :=
  match place (q_d c) (q_fx c) (q_prog c) with
  | inl e => "error " ++ exc_of e
  | inr st => "ok " ++ String.concat "; " (map (fun e => key_of c e) (placed st))
  end.

(* which single repair turns this accepted-but-losing program into an error?  (for the classification of findings)
   result: list of 0/1 for [strict; nested; privjson; gendup] *)
Definition with_flag (fx : fixes) (i : nat) : fixes :=
  match i with
  | 0 => mkFx true (fx_nested fx) (fx_privjson fx) (fx_gendup fx)
  | 1 => mkFx (fx_strict fx) true (fx_privjson fx) (fx_gendup fx)
  | 2 => mkFx (fx_strict fx) (fx_nested fx) true (fx_gendup fx)
  | _ => mkFx (fx_strict fx) (fx_nested fx) (fx_privjson fx) true
  end.
Definition explain (c : case) : list nat :=
  map (fun i => match place (q_d c) (with_flag (q_fx c) i) (q_prog c) with
                | inl DCrash => 0 | inl _ => 1 | inr _ => 0 end) [0; 1; 2; 3].
Definition explains (l : list case) : list (list nat) := map explain l.

(* ================================================================== (misc triage 4a/4b) declaration sequences: Model/DeclNames.v
   A generated program is a sequence of source-level events, one per line: a declaration (kind, enclosing classes, name as
   spelled) or a caller function (enclosing classes, spelling of the callee, possibly `this.`-relative).  Names are turned
   into paths by Model/ResLoc.v's `convention` (fail closed: a name the model cannot convert is a mismatch). *)
From JMCV Require Import Model.DeclNames.

Inductive sevent :=
| SDecl (k : dkind) (classes : list string) (name : string)
| SCall (classes : list string) (spelling : string).

Fixpoint sprefix (strict : bool) (classes : list string) : option string :=
  match classes with
  | [] => Some ""
  | c :: r => match convention strict true "" c, sprefix strict r with
              | inr p, Some q => Some (p ++ "/" ++ q)
              | _, _ => None
              end
  end.
Definition to_event (strict : bool) (e : sevent) : option event :=
  match e with
  | SDecl k cl n => match sprefix strict cl, convention strict true "" n with
                    | Some pre, inr p => Some (Decl k (pre ++ p))
                    | _, _ => None
                    end
  | SCall cl sp => match sprefix strict cl with
                   | Some pre => match convention strict true pre sp with inr p => Some (Call p) | inl _ => None end
                   | None => None
                   end
  end.
Fixpoint to_events (strict : bool) (l : list sevent) : option (list event) :=
  match l with
  | [] => Some []
  | e :: r => match to_event strict e, to_events strict r with Some x, Some y => Some (x :: y) | _, _ => None end
  end.

(* what the real compiler did *)
Inductive dreal :=
| XDup (i : nat) (path : string)      (* JMCSyntaxException "Duplicate function declaration(<path>)" pointing at the line of event i *)
| XUndef (lazy : bool)                (* JMCValueError "… was never defined" (false) / JMCSyntaxException "Lazy function … used before definition" (true) *)
| XOk (files : list (string * nat))   (* function file (path below the function folder) -> index of the declaration whose marker it holds *)
      (calls : list (nat * string * resolution))   (* caller j: the marker of template i was expanded in it (path "") / `function <ns>:<path>` *)
| XOther.

Record dcase := mkDCase { dq_fixed : bool; dq_strict : bool; dq_evs : list sevent; dq_real : dreal }.

Definition res_eqb (a b : resolution) : bool :=
  match a, b with RExpand i, RExpand j => Nat.eqb i j | RFile, RFile => true | _, _ => false end.
Definition call_eqb (m r : nat * string * resolution) : bool :=
  match m, r with
  | (j, p, RExpand i), (j', _, RExpand i') => Nat.eqb j j' && Nat.eqb i i'
  | (j, p, RFile), (j', p', RFile) => Nat.eqb j j' && String.eqb p p'
  | _, _ => false
  end.
Fixpoint calls_eqb (m r : list (nat * string * resolution)) : bool :=
  match m, r with
  | [], [] => true
  | x :: m', y :: r' => call_eqb x y && calls_eqb m' r'
  | _, _ => false
  end.
Definition entry_eqb (a b : string * nat) : bool := String.eqb (fst a) (fst b) && Nat.eqb (snd a) (snd b).
Definition entries_eqb (a b : list (string * nat)) : bool :=
  forallb (fun x => existsb (entry_eqb x) b) a && forallb (fun x => existsb (entry_eqb x) a) b &&
  Nat.eqb (List.length a) (List.length b).
Definition path_at (evs : list event) (i : nat) : string :=
  match nth_error evs i with Some (Decl _ p) => p | _ => "<no declaration>" end.

(* 0 agree; 1 verdict differs; 2 another declaration / path cited; 3 the function files differ from `functions`;
   4 a call site resolves differently; 5 a name the model cannot convert *)
Definition dcase_code (c : dcase) : nat :=
  match to_events (dq_strict c) (dq_evs c) with
  | None => 5
  | Some evs =>
      match compile (dq_fixed c) evs, dq_real c with
      | VDup i, XDup i' p => if Nat.eqb i i' && String.eqb (path_at evs i) p then 0 else 2
      | VUndefined b, XUndef b' => if Bool.eqb b b' then 0 else 1
      | VOk t cs, XOk files calls =>
          if negb (entries_eqb (t_funs t) files) then 3 else if calls_eqb cs calls then 0 else 4
      | _, _ => 1
      end
  end.
Definition dcodes (l : list dcase) : list nat := map dcase_code l.
