(* Run.C08 — driver for the generated correspondence cases of C08: the model's verdict and
   placement of every marked definition against the real compiler's. *)
From Coq Require Import String Ascii List Bool Arith.
From JMCV Require Import Model.ResLoc Model.Defs Run.Common.
Import ListNotations.
Open Scope string_scope.

Record case := mkCase {
  q_d : dcfg; q_fx : fixes; q_ns : string; q_prog : list item;
  q_ok : bool; q_exc : string;               (* real verdict *)
  q_found : list (nat * string)              (* real output: (marker, file) for every occurrence of a marker *)
}.

Definition key_of (c : case) (e : bool * string * nat) : string :=
  match e with
  | (true, p, _) => pr_key (json_key (q_ns c) (d_overrides (q_d c)) p)
  | (false, p, _) => pr_key (func_key (q_ns c) (d_legacy (q_d c)) (d_overrides (q_d c)) p)
  end.
(* files are written through pathlib, which collapses "//"; a later entry of the same file replaces an earlier one *)
Fixpoint collapse (s : string) : string :=
  match s with
  | String c ((String d _) as r) => if Ascii.eqb c ch_slash && Ascii.eqb d ch_slash then collapse r else String c (collapse r)
  | _ => s
  end.
Fixpoint last_wins (l : list (nat * string)) : list (nat * string) :=
  match l with
  | [] => []
  | x :: r => if existsb (fun y => String.eqb (snd x) (snd y)) r then last_wins r else x :: last_wins r
  end.
Definition model_found (c : case) (st : dstate) : list (nat * string) :=
  last_wins (map (fun e => (snd e, collapse (key_of c e))) (placed st)).

Definition pair_eqb (a b : nat * string) : bool := Nat.eqb (fst a) (fst b) && String.eqb (snd a) (snd b).
Definition subset (a b : list (nat * string)) : bool := forallb (fun x => existsb (pair_eqb x) b) a.

Definition exc_of (e : derr) : string :=
  match e with
  | DConv EInvalidChar | DType | DUpper => "MinecraftSyntaxWarning"
  | DConv _ | DPrivate | DLoad | DDup | DPrivateName | DClassInFunc => "JMCSyntaxException"
  | DGenDup => "JMCBuildError"
  | DCrash => "KeyError"
  | DGenInClass => "<not modelled>"
  end.

(* 0 = agree; 1 = model error / real ok or other class; 2 = model ok / real error; 3 = placement differs *)
Definition case_code (c : case) : nat :=
  match place (q_d c) (q_fx c) (q_prog c) with
  | inl e => if negb (q_ok c) && String.eqb (exc_of e) (q_exc c) then 0 else 1
  | inr st =>
      if negb (q_ok c) then 2
      else let m := model_found c st in
           if subset m (q_found c) && subset (q_found c) m && Nat.eqb (List.length m) (List.length (q_found c)) then 0 else 3
  end.
Definition codes (l : list case) : list nat := map case_code l.

(* the property itself evaluated on the model's result: every documented definition placed exactly once *)
Definition triple_eqb (a b : bool * string * nat) : bool :=
  Bool.eqb (fst (fst a)) (fst (fst b)) && String.eqb (snd (fst a)) (snd (fst b)) && Nat.eqb (snd a) (snd b).
Definition model_loses (c : case) : bool :=
  match place (q_d c) (q_fx c) (q_prog c) with
  | inl _ => false
  | inr st => negb (forallb (fun x => existsb (triple_eqb x) (placed st)) (docs (q_d c) (q_fx c) (q_prog c)))
  end.
Definition losing (l : list case) : list nat := bad_indices (fun c => negb (model_loses c)) l.

Definition verdict_str (c : case) : string :=
  match place (q_d c) (q_fx c) (q_prog c) with
  | inl e => "error " ++ exc_of e
  | inr st => "ok " ++ String.concat "; " (map (fun e => key_of c e) (placed st))
  end.

(* which single repair turns this accepted-but-losing program into an error?  (for the classification of findings)
   result: list of 0/1 for [strict; nested; privjson; gendup] *)
Definition with_flag (fx : fixes) (i : nat) : fixes :=
  match i with
  | 0 => mkFx true (fx_nested fx) (fx_privjson fx) (fx_gendup fx)
  | 1 => mkFx (fx_strict fx) true (fx_privjson fx) (fx_gendup fx)
  | 2 => mkFx (fx_strict fx) (fx_nested fx) true (fx_gendup fx)
  | _ => mkFx (fx_strict fx) (fx_nested fx) (fx_privjson fx) true
  end.
Definition explain (c : case) : list nat :=
  map (fun i => match place (q_d c) (with_flag (q_fx c) i) (q_prog c) with
                | inl DCrash => 0 | inl _ => 1 | inr _ => 0 end) [0; 1; 2; 3].
Definition explains (l : list case) : list (list nat) := map explain l.
