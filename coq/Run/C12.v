(* Run.C12 — driver for the regenerated process table of C12. *)
From Coq Require Import String List Bool.
From JMCV Require Import Model.Proc.
Import ListNotations.

(* per entry point: the first compiler phase that can see a field not yet (re)assigned from the input, and those fields *)
Definition leak_report (U : list field) (entries : list (string * list step)) : list (string * option (string * list field)) :=
  map (fun e => (fst e, first_leak U (snd e) [])) entries.

Definition all_history_free (U : list field) (entries : list (string * list step)) : bool :=
  forallb (fun e => history_free U (snd e)) entries.

Definition seed_dependent_sites (l : list set_site) : list string :=
  map ss_label (filter seed_dependent l).

(* round 4: the same from the ambient fields (cwd, environ, sys.path, ...: visible to the phases, assigned by no step, preserved by every compile) *)
Definition leak_report_from (A U : list field) (entries : list (string * list step)) : list (string * option (string * list field)) :=
  map (fun e => (fst e, first_leak U (snd e) A)) entries.

Definition all_history_free_from (A U : list field) (entries : list (string * list step)) : bool :=
  forallb (fun e => history_free_from A U (snd e)) entries.

Definition all_simple (entries : list (string * list step)) : bool := forallb (fun e => simple (snd e)) entries.

(* the regenerated table of statements of the package that WRITE an ambient field (os.chdir, os.environ[..] = .., sys.path.insert, signal.signal,
   locale.setlocale, warnings.simplefilter, logging handlers ...): on a compile path such a write must be undone on every way out (try/finally) *)
Record ambient_write := mkAmbientWrite { aw_site : string; aw_field : field; aw_on_compile_path : bool; aw_restored_in_finally : bool }.
Definition ambient_write_ok (w : ambient_write) : bool := negb (aw_on_compile_path w) || aw_restored_in_finally w.
Definition ambient_writes_restored (l : list ambient_write) : bool := forallb ambient_write_ok l.
Definition unrestored_ambient_writes (l : list ambient_write) : list string := map aw_site (filter (fun w => negb (ambient_write_ok w)) l).
