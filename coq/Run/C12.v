(* Run.C12 — driver for the regenerated process table of C12. *)
From Coq Require Import String List Bool.
From JMCV Require Import Model.Proc.
Import ListNotations.

(* per entry point: the first compiler phase that can see a field not yet (re)assigned from the input, and those fields *)
Definition leak_report (U : list field) (entries : list (string * list step)) : list (string * option (string * list field)) :=
  map (fun e => (fst e, first_leak U (snd e) [])) entries.

Definition all_history_free (U : list field) (entries : list (string * list step)) : bool :=
  forallb (fun e => history_free U (snd e)) entries.

Definition seed_dependent_sites (l : list set_site) : list string :=
  map ss_label (filter seed_dependent l).
