(* Run.C15 — driver for the generated correspondence cases of C15/C16:
   (a) every call of the real `Tokenizer.parse` made while compiling a corpus program
       (arguments + resulting token stream) against `Model.Layout.parse`;
   (b) every `is_connected` decision of the real compiler against `Model.Layout.is_connected`;
   (c) model-level layout invariance of `shape_parse` on (program, re-layout) pairs. *)
From Coq Require Import ZArith String List Bool Ascii.
From JMCV Require Import Model.Layout Run.Common.
Import ListNotations.
Open Scope Z_scope.

(* a token as dumped from the real compiler *)
Record rtok := mkR { r_ty : ttype; r_line : Z; r_col : Z; r_str : string; r_mlen : Z; r_mend : option (Z * Z) }.

Definition opt_pos_eqb (a b : option (Z * Z)) : bool :=
  match a, b with
  | None, None => true
  | Some x, Some y => pos_eqb x y
  | _, _ => false
  end.

(* Token._macro_end of a STRING token that does not come from a macro = the position right after the closing quote of
   the literal (upstream fix 81307c5: the tokenizer records where a string literal ends).  The model's tokens carry
   t_mend = None for literals and Token.end is computed as (line, col + len(repr(string))) (Model.Layout.tok_end);
   within the theorems' scope (s_ev = false: the literal is written on one line and its repr() is as long as its
   source text) that IS the position right after the closing quote (C15_adjacency_is_lexical), so in scope the real
   `_macro_end` is compared exactly with it; out of scope (escapes that change the length, continuation lines) the
   end of a literal is not compared here (it is tied by C14's TokEnd model). *)
Definition is_plain_literal (t : token) : bool := ttype_eqb (t_ty t) STRING && (t_mlen t =? 0).
Definition lit_end_of (t : token) : option (Z * Z) :=
  match t_mend t with
  | Some e => Some e
  | None => if is_plain_literal t then Some (t_line t, t_col t + repr_len (t_str t)) else None
  end.

(* check_end = false on a tree whose Token has no `_macro_end` (then r_mend is None everywhere);
   in_scope: compare the end of plain literals exactly (see above) *)
Definition tok_matches_sc (check_end in_scope : bool) (t : token) (r : rtok) : bool :=
  ttype_eqb (t_ty t) (r_ty r) && (t_line t =? r_line r) && (t_col t =? r_col r) &&
  str_eqb (t_str t) (s2l (r_str r)) && (t_mlen t =? r_mlen r) &&
  (negb check_end ||
   (if is_plain_literal t then negb in_scope || opt_pos_eqb (lit_end_of t) (r_mend r)
    else opt_pos_eqb (t_mend t) (r_mend r))).
(* (also used by Run/C16.v) the end of a plain literal is not compared *)
Definition tok_matches (check_end : bool) (t : token) (r : rtok) : bool := tok_matches_sc check_end false t r.

Fixpoint all2 {A B} (f : A -> B -> bool) (a : list A) (b : list B) : bool :=
  match a, b with
  | [], [] => true
  | x :: a', y :: b' => f x y && all2 f a' b'
  | _, _ => false
  end.

Record case := mkCase {
  c_mt : mtable; c_cf : bool; c_es : bool; c_allow_last : bool; c_allow_sc : bool;
  c_line : Z; c_col : Z; c_src : string;
  c_check_end : bool;
  c_real : option (list (list rtok))         (* None: the real tokenizer raised one of JMC's diagnostics *)
}.

Definition model_of (c : case) : result (list (list token)) :=
  parse (c_mt c) (c_cf c) (c_es c) (c_allow_last c) (c_allow_sc c) (c_line c) (c_col c) (s2l (c_src c)).

Definition is_unsupported (c : case) : bool :=
  match model_of c with Err EUnsupported => true | _ => false end.

Definition case_in_scope (c : case) : bool :=
  match parse_st (c_mt c) (c_cf c) (c_es c) (c_allow_sc c) (c_line c) (c_col c) (s2l (c_src c)) with
  | Ok st => negb (s_ev st)
  | Err _ => false
  end.

Definition case_ok (c : case) : bool :=
  match model_of c, c_real c with
  | Err EUnsupported, _ => true
  | Ok sts, Some r => all2 (all2 (tok_matches_sc (c_check_end c) (case_in_scope c))) sts r
  | Err _, None => true
  | _, _ => false
  end.

Definition mismatches (l : list case) : list nat := bad_indices case_ok l.
Definition unsupported (l : list case) : list nat := bad_indices (fun c => negb (is_unsupported c)) l.
(* how many cases fired the out-of-scope event flag (hash comments, odd string lengths) *)
Definition ev_cases (l : list case) : list nat :=
  bad_indices (fun c => match parse_st (c_mt c) (c_cf c) (c_es c) (c_allow_sc c) (c_line c) (c_col c) (s2l (c_src c)) with
                        | Ok st => negb (s_ev st) | Err _ => true end) l.

(* ---- (b) is_connected decisions *)
Record conn_case := mkConn { k_cur : rtok; k_prev : rtok; k_real : bool }.
Definition tok_of (r : rtok) : token :=
  mkTok (r_ty r) (r_line r) (r_col r) (s2l (r_str r)) (r_mlen r) (r_mend r) false.
Definition conn_ok (c : conn_case) : bool :=
  Bool.eqb (is_connected (tok_of (k_cur c)) (tok_of (k_prev c))) (k_real c).
Definition conn_mismatches (l : list conn_case) : list nat := bad_indices conn_ok l.

(* ---- (c) model-level invariance on concrete pairs *)
Fixpoint shape_eqb (a b : shape) {struct a} : bool :=
  let fix l2 (x y : list shape) : bool :=
    match x, y with
    | [], [] => true
    | p :: x', q :: y' => shape_eqb p q && l2 x' y'
    | _, _ => false
    end in
  let fix l3 (x y : list (list shape)) : bool :=
    match x, y with
    | [], [] => true
    | p :: x', q :: y' => l2 p q && l3 x' y'
    | _, _ => false
    end in
  let o3 (x y : option (list (list shape))) : bool :=
    match x, y with
    | None, None => true
    | Some p, Some q => l3 p q
    | _, _ => false
    end in
  match a, b with
  | ShTok t1 s1 c1, ShTok t2 s2 c2 => ttype_eqb t1 t2 && str_eqb s1 s2 && Bool.eqb c1 c2
  | ShParen t1 c1 a1 b1, ShParen t2 c2 a2 b2 => ttype_eqb t1 t2 && Bool.eqb c1 c2 && o3 a1 a2 && o3 b1 b2
  | _, _ => false
  end.

Record pair_case := mkPair { p_cf : bool; p_a : string; p_b : string; p_fuel : nat }.
Definition err_eqb (a b : err) : bool :=
  match a, b with
  | EUnexpectedSemicolon, EUnexpectedSemicolon | EUnnecessarySemicolon, EUnnecessarySemicolon
  | EUnexpectedBracket, EUnexpectedBracket | EStringNewline, EStringNewline
  | EStringUnterminated, EStringUnterminated | EBracketNeverClosed, EBracketNeverClosed
  | EExpectedSemicolon, EExpectedSemicolon | EMacroBracket, EMacroBracket | EUnsupported, EUnsupported => true
  | _, _ => false
  end.
Definition pair_ok (p : pair_case) : bool :=
  match shape_parse [] (p_cf p) (p_fuel p) true false false 1 1 (s2l (p_a p)),
        shape_parse [] (p_cf p) (p_fuel p) true false false 1 1 (s2l (p_b p)) with
  | Ok x, Ok y => all2 (all2 shape_eqb) x y
  | Err e1, Err e2 => err_eqb e1 e2
  | _, _ => false
  end.
Definition pair_mismatches (l : list pair_case) : list nat := bad_indices pair_ok l.
