(* Run.C07 — driver for the generated correspondence cases of C07:
   a logged operation sequence of a real compile is replayed in Model.Alloc and the model's
   verdict and file map are compared with what the real compiler produced. *)
From Coq Require Import String Ascii List Bool Arith ZArith.
From JMCV Require Import Base.Dec Model.Names Model.ResLoc Model.Alloc Run.Common.
Import ListNotations.
Open Scope string_scope.

Record case := mkCase {
  k_cfg : cfg; k_ops : list op; k_b : option bdata;   (* None: the compile failed before build() *)
  k_ok : bool;                    (* the real compile succeeded *)
  k_exc : string;                 (* otherwise: exception class *)
  k_jmc : bool;                   (* ... and whether it is one of JMC's diagnostics *)
  k_files : list (string * string)  (* real file map *)
}.

Definition printed (c : cfg) (files : list (fkey * fcontent)) : list (string * string) :=
  map (fun kv => (pr_key (fst kv), pr_content c (snd kv))) files.
Fixpoint slookup (k : string) (l : list (string * string)) : option string :=
  match l with
  | [] => None
  | (k', v) :: r => match slookup k r with Some v' => Some v' | None => if String.eqb k k' then Some v else None end
  end.
Definition same_map (model real : list (string * string)) : bool :=
  forallb (fun kv => match slookup (fst kv) model with Some v => String.eqb v (snd kv) | None => false end) real
  && forallb (fun kv => match slookup (fst kv) real with Some _ => true | None => false end) model.

Definition err_matches (e : berr) (c : case) : bool :=
  negb (k_ok c) &&
  match e with
  | BCrash _ => negb (k_jmc c)
  | BNeverDefined _ | BPrivateCalled _ => String.eqb (k_exc c) "JMCValueError"
  | BLazyUsed _ => String.eqb (k_exc c) "JMCSyntaxException"
  | BEnvs => String.eqb (k_exc c) "JMCBuildError"
  | BDelayed => k_jmc c
  end.

(* 0 = model and implementation agree; otherwise the kind of disagreement *)
Definition case_code (c : case) : nat :=
  match run (k_cfg c) (k_ops c) with
  | None => 1                                   (* an operation returned something else than the model *)
  | Some st =>
      match k_b c with
      | None => if k_ok c then 2 else 0         (* failed before build(): nothing to compare *)
      | Some b =>
          match build (k_cfg c) b st with
          | inl e => if err_matches e c then 0 else 3
          | inr files => if k_ok c then (if same_map (printed (k_cfg c) files) (k_files c) then 0 else 4) else 5
          end
      end
  end.
Definition mismatches (l : list case) : list nat := bad_indices (fun c => Nat.eqb (case_code c) 0) l.
Definition codes (l : list case) : list nat := map case_code l.

(* hypotheses and conclusions of the C07 theorems evaluated on a real trace (accepted builds only):
   [alloc_disc; disc; closed; cfg_legal -> paths_legal] — 1 = holds *)
Definition b2n (b : bool) : nat := if b then 1 else 0.
Definition case_facts (c : case) : list nat :=
  match run (k_cfg c) (k_ops c), k_b c with
  | Some st, Some b =>
      match build (k_cfg c) b st with
      | inr files => [b2n (alloc_disc (k_ops c)); b2n (disc (k_cfg c) b st); b2n (closedb (k_cfg c) files);
                      b2n (negb (cfg_legal (k_cfg c)) || paths_legal (k_cfg c) b st)]
      | inl _ => []
      end
  | _, _ => []
  end.
(* indices of accepted builds where the discipline does not hold / the output is not closed /
   a path is illegal although the configured names are legal *)
Definition undisciplined (l : list case) : list nat :=
  bad_indices (fun c => match case_facts c with [a; d; _; _] => Nat.eqb a 1 && Nat.eqb d 1 | _ => true end) l.
Definition not_closed (l : list case) : list nat :=
  bad_indices (fun c => match case_facts c with [_; _; cl; _] => Nat.eqb cl 1 | _ => true end) l.
Definition illegal_paths (l : list case) : list nat :=
  bad_indices (fun c => match case_facts c with [_; _; _; lg] => Nat.eqb lg 1 | _ => true end) l.

(* diagnostics for the harness: the model's file map / verdict as text *)
Definition model_keys (c : case) : list string :=
  match run (k_cfg c) (k_ops c), k_b c with
  | Some st, Some b => match build (k_cfg c) b st with inr files => map fst (printed (k_cfg c) files) | inl _ => ["<error>"] end
  | _, _ => ["<no run>"]
  end.

(* unit correspondences of the string functions *)
Record conv_case := mkConv { v_strict : bool; v_lower : bool; v_prefix : string; v_s : string; v_real : option string }.
Definition conv_ok (c : conv_case) : bool :=
  match convention (v_strict c) (v_lower c) (v_prefix c) (v_s c), v_real c with
  | inr p, Some p' => String.eqb p p'
  | inl _, None => true
  | _, _ => false
  end.
Definition conv_mismatches (l : list conv_case) : list nat := bad_indices conv_ok l.
(* convention accepted a name whose result is not a legal path *)
Definition conv_illegal (l : list conv_case) : list nat :=
  bad_indices (fun c => match v_real c with Some p => legal_path p | None => true end) l.

Record fmt_case := mkFmt { f_ns : string; f_over : list string; f_p : string; f_real : string }.
Definition fmt_mismatches (l : list fmt_case) : list nat :=
  bad_indices (fun c => String.eqb (format_func_path (f_ns c) (f_over c) (f_p c)) (f_real c)) l.

(* diagnostics: the references of a trace that disc does not accept, and the failed parts of disc *)
Definition ref_str (r : ref) : string := match r with RFunc l => l | RTag l => "#" ++ l end.
Definition undefined_refs (c : case) : list string :=
  match run (k_cfg c) (k_ops c), k_b c with
  | Some st, Some b =>
      map ref_str (filter (fun r => negb (ref_defined (k_cfg c) b st r))
                          (flat_map refs_of_line (all_lines (k_cfg c) b st)))
      ++ (if paths_disc (k_cfg c) b st then [] else ["<paths_disc fails>"])
      ++ (if tag_free (k_cfg c) st then [] else ["<tag_free fails>"])
      ++ (if alloc_disc (k_ops c) then [] else ["<alloc_disc fails>"])
  | _, _ => []
  end%list.

(* (round 3) traces in which a called name is defined WITHOUT a file (Model.Alloc.fileless): by C07_fileless_call_rejected the
   model's build fails for them, so an accepted real compile among them is a code-5 mismatch; the indices are the measured
   coverage of that part of the quantifier *)
Definition fileless_hits (c : case) : list string :=
  match run (k_cfg c) (k_ops c), k_b c with
  | Some st, Some b => fileless_called (k_cfg c) b st
  | _, _ => []
  end.
Definition fileless_cases (l : list case) : list nat :=
  bad_indices (fun c => match fileless_hits c with [] => true | _ => false end) l.

(* (round 3) everything the harness reads about one case, computed with ONE replay and ONE build:
   [case_code; undisciplined; not closed; illegal path; a called name is defined without a file] (flags: 1 = yes).
   summary_spec below states that this is exactly case_code / case_facts / fileless_hits. *)
Definition summary (c : case) : list nat :=
  match run (k_cfg c) (k_ops c) with
  | None => [1; 0; 0; 0; 0]%nat
  | Some st =>
      match k_b c with
      | None => [if k_ok c then 2 else 0; 0; 0; 0; 0]%nat
      | Some b =>
          let fl := match fileless_called (k_cfg c) b st with [] => 0%nat | _ => 1%nat end in
          match build (k_cfg c) b st with
          | inl e => [if err_matches e c then 0 else 3; 0; 0; 0; fl]%nat
          | inr files =>
              [if k_ok c then (if same_map (printed (k_cfg c) files) (k_files c) then 0%nat else 4%nat) else 5%nat;
               b2n (negb (alloc_disc (k_ops c) && disc (k_cfg c) b st));
               b2n (negb (closedb (k_cfg c) files));
               b2n (negb (negb (cfg_legal (k_cfg c)) || paths_legal (k_cfg c) b st));
               fl]
          end
      end
  end.
Definition summaries (l : list case) : list (list nat) := map summary l.

Lemma summary_code c : nth 0 (summary c) 0%nat = case_code c.
Proof.
  unfold summary, case_code. destruct (run (k_cfg c) (k_ops c)); [|reflexivity].
  destruct (k_b c); [|destruct (k_ok c); reflexivity]. destruct (build (k_cfg c) b s); reflexivity.
Qed.

(* ================================================================== (round 4) DISK builds
   A real `compile_jmc` into a real output directory (previous output, #static folders, a #copy folder that ships its own
   function tags, custom jmc.txt): the logged operations are replayed as above, Model.AllocDisk.dbuild is run on the files that
   were in the output directory / the #copy folder when the build started, and the tree it predicts must be the tree read back
   from disk (tag files compared as parsed JSON: other keys + list of values). *)
From JMCV Require Import Model.AllocDisk.

Record dcase := mkDCase {
  d_cfg : cfg; d_ops : list op; d_b : option bdata; d_env : denv;
  d_ok : bool; d_exc : string; d_jmc : bool;
  d_after : dtree                 (* the regular files of the output directory after the build *)
}.
Definition dcontent_eqb (a b : dcontent) : bool :=
  match a, b with
  | DText x, DText y => String.eqb x y
  | DTag x vs, DTag y ws => String.eqb x y && strs_eqb vs ws
  | _, _ => false
  end.
Definition same_tree (m r : dtree) : bool :=
  forallb (fun kv => match dget (fst kv) m with Some v => dcontent_eqb v (snd kv) | None => false end) r
  && forallb (fun kv => dmem (fst kv) r) m.
Definition derr_matches (e : derr) (c : dcase) : bool :=
  match e with
  | DBuild e' => err_matches e' (mkCase (d_cfg c) (d_ops c) (d_b c) (d_ok c) (d_exc c) (d_jmc c) [])
  | DTagErr | DCopyClash => negb (d_ok c) && String.eqb (d_exc c) "JMCBuildError"
  end.
(* [code; undisciplined; generated files not closed on the predicted tree; load not registered; tick not registered / stale own entry;
    a generated file sits on a tag path] — code: 0 agree, 1 op replay differs, 2 real ok but no build logged, 3 error class differs,
   4 tree differs, 5 model accepts but real rejects *)
Definition dsummary (c : dcase) : list nat :=
  match run (d_cfg c) (d_ops c) with
  | None => [1; 0; 0; 0; 0; 0]%nat
  | Some st =>
      match d_b c with
      | None => [if d_ok c then 2 else 0; 0; 0; 0; 0; 0]%nat
      | Some b =>
          match dbuild (d_cfg c) (d_env c) b st with
          | inl e => [if derr_matches e c then 0 else 3; 0; 0; 0; 0; 0]%nat
          | inr tree =>
              (* (round 5) the generated files are [all_files], not [build]'s: a program that calls into the #copy library
                 has no virtual build *)
              match (inr (all_files (d_cfg c) b st) : berr + list (fkey * fcontent)), assemble (d_cfg c) b st with
              | inr files, inr hf =>
                  [if d_ok c then (if same_tree tree (d_after c) then 0%nat else 4%nat) else 5%nat;
                   b2n (negb (alloc_disc (d_ops c) && disc_lib (d_cfg c) (d_env c) b st));
                   b2n (negb (disk_closedb (d_cfg c) files tree));
                   b2n (negb (load_registered (d_cfg c) tree));
                   b2n (negb (tick_registered (d_cfg c) (tick_nonempty (d_cfg c) (fst hf) (snd hf)) tree));
                   b2n (negb (disk_tag_free (d_cfg c) (gen_files (d_cfg c) b st)))]
              | _, _ => [6; 0; 0; 0; 0; 0]%nat      (* impossible: Proofs.AllocDisk.dbuild_files *)
              end
          end
      end
  end.
Definition dsummaries (l : list dcase) : list (list nat) := map dsummary l.
(* diagnostics: the paths on which the predicted and the real tree differ *)
Definition dtree_diff (c : dcase) : list string :=
  match run (d_cfg c) (d_ops c), d_b c with
  | Some st, Some b =>
      match dbuild (d_cfg c) (d_env c) b st with
      | inr tree =>
          (map fst (filter (fun kv => negb (match dget (fst kv) tree with Some v => dcontent_eqb v (snd kv) | None => false end)) (d_after c))
           ++ map (fun kv => ("model only: " ++ fst kv)%string) (filter (fun kv => negb (dmem (fst kv) (d_after c))) tree))%list
      | inl _ => ["<model: error>"]
      end
  | _, _ => ["<no run>"]
  end.
