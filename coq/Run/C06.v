(* Run.C06 — driver for the generated correspondence cases of C06. *)
From Coq Require Import ZArith String List Bool.
From JMCV Require Import Base.Dec MC.Syntax MC.Print Model.Names Model.Switch Model.SwitchRet Run.Common.
Import ListNotations.
Open Scope string_scope.

(* what the real compiler produced: every emitted function (name "ns:path", text), or the
   class of the exception it raised *)
Inductive real_out := RFiles (fs : list (string * string)) | RError (exc : string).

(* c_funcs: the user functions of the pack in source order (name, body); since round 4 in the statement
   language of Model.SwitchRet (returns, if, while inside case bodies; the repaired macro dispatcher) *)
Record case := mkCase {
  c_nm : names; c_cfg : cfg; c_funcs : list (string * list rstmt); c_real : real_out
}.

Definition err_str (e : error) : string :=
  match e with
  | EVersionTooLow => "MinecraftVersionTooLow"
  | ESyntax => "JMCSyntaxException"
  | EValueError => "JMCValueError"        (* Hardcode.switch with count < begin_at (the only source in compile_functions_r) *)
  | EFuel => "<model out of fuel>"
  end.

Definition FUEL : nat := 400.

Definition model_funcs (c : case) : result (list func) :=
  compile_functions_r FUEL (c_nm c) (c_cfg c) (c_funcs c) rs0.

Fixpoint sget (l : list (string * string)) (k : string) : option string :=
  match l with
  | [] => None
  | (k', v) :: r => if String.eqb k' k then Some v else sget r k
  end.

Definition files_ok (model : list func) (real : list (string * string)) : bool :=
  forallb (fun kv => match fget_last model (fst kv) with
                     | Some b => String.eqb (pr_cmds b) (snd kv)
                     | None => false end) real
  && forallb (fun f => match sget real (fst f) with Some _ => true | None => false end) model.

Definition case_ok (c : case) : bool :=
  match model_funcs c, c_real c with
  | Ok fs, RFiles real => files_ok fs real
  | Err e, RError exc => String.eqb (err_str e) exc
  | _, _ => false
  end.

Definition mismatches (l : list case) : list nat := bad_indices case_ok l.

(* text of the model's output, for reports *)
Definition nl : string := String (Ascii.ascii_of_nat 10) EmptyString.
Definition model_text (c : case) : string :=
  match model_funcs c with
  | Err e => "<error " ++ err_str e ++ ">"
  | Ok fs => String.concat nl (map (fun f => "== " ++ fst f ++ nl ++ pr_cmds (snd f)) fs)
  end.

(* strategy table: the model's choice for a configuration, as text *)
Definition strategy_str (c : cfg) : string :=
  match strategy_of c with Bst => "bst" | Macro => "macro" end.
