(* Run.C16 — driver for the generated correspondence cases of C16:
   (a) header text + use-site text: the real header parser + tokenizer against
       Model.Macro.parse_header + Model.Layout.parse (token streams incl. synthetic positions);
   (b) Header.number_macros against the model's table;
   (c) CustomOrder.__lt__ against Model.Layout.custom_lt on a grid. *)
From Coq Require Import ZArith String List Bool Ascii.
From JMCV Require Import Model.Layout Model.Macro Run.Common Run.C15.
Import ListNotations.
Open Scope Z_scope.

Record hcase := mkHCase {
  hc_header : string; hc_envs : list string; hc_ns : string;
  hc_cf : bool; hc_es : bool; hc_line : Z; hc_col : Z; hc_src : string;
  hc_check_end : bool;
  hc_real : option (list (list rtok));
  hc_num : list (string * string)            (* Header().number_macros after parsing the header *)
}.

Definition hmodel (c : hcase) : result hstate :=
  parse_header false (s2l (hc_ns c)) (s2l (hc_header c)) (map s2l (hc_envs c)).

Definition htokens (c : hcase) : result (list (list token)) :=
  match hmodel c with
  | Err e => Err e
  | Ok h => parse (h_mt h) (hc_cf c) (hc_es c) false false (hc_line c) (hc_col c) (s2l (hc_src c))
  end.

Definition h_unsupported (c : hcase) : bool :=
  match htokens c with Err EUnsupported => true | _ => false end.

Definition num_ok (h : hstate) (real : list (string * string)) : bool :=
  forallb (fun kv => match lookup_num (h_num h) (s2l (fst kv)) with
                     | Some v => str_eqb v (s2l (snd kv)) | None => false end) real &&
  forallb (fun kv => existsb (fun r => str_eqb (fst kv) (s2l (fst r))) real) (h_num h).

Definition hcase_ok (c : hcase) : bool :=
  match htokens c, hc_real c with
  | Err EUnsupported, _ => true
  | Ok sts, Some r =>
      all2 (all2 (tok_matches (hc_check_end c))) sts r &&
      match hmodel c with Ok h => num_ok h (hc_num c) | Err _ => false end
  | Err _, None => true
  | _, _ => false
  end.

Definition hmismatches (l : list hcase) : list nat := bad_indices hcase_ok l.
Definition hunsupported (l : list hcase) : list nat := bad_indices (fun c => negb (h_unsupported c)) l.

Record ocase := mkOCase { oa : corder; ob : corder; o_real : bool }.
Definition ocase_ok (c : ocase) : bool := Bool.eqb (custom_lt (oa c) (ob c)) (o_real c).
Definition omismatches (l : list ocase) : list nat := bad_indices ocase_ok l.
