(* Run.C16 — driver for the generated correspondence cases of C16:
   (a) header text + use-site text: the real header parser + tokenizer against
       Model.Macro.parse_header + Model.Layout.parse (token streams incl. synthetic positions);
   (b) Header.number_macros against the model's table;
   (c) CustomOrder.__lt__ against Model.Layout.custom_lt on a grid;
   (d) parameterised macros: (type, text) of the tokens the real tokenizer produces for `KEY(args)` against
       Model.MacroSubst.param_expand on the real tokenisation of the #define line;
   (e) Hardcode.calc: the text hardcode_parse_calc hands to the evaluator (or its 'Invalid character') against
       Model.MacroSubst.calc_text;
   (f) a whole Hardcode.repeat* / @lazy body text: the callers' loop over the real hardcode_parse_calc (evaluator
       replaced by a marker `<text it received>`) against Model.MacroScope.calc_all. *)
From Coq Require Import ZArith String List Bool Ascii.
From JMCV Require Import Model.Layout Model.Macro Model.MacroSubst Model.MacroScope Run.Common Run.C15.
Import ListNotations.
Open Scope Z_scope.

Record hcase := mkHCase {
  hc_header : string; hc_envs : list string; hc_ns : string;
  hc_cf : bool;
  hc_nf : bool;      (* the tree lays macro bodies out again (fixes/C16-macro-in-macro-body-adjacency.patch) *)
  hc_es : bool; hc_line : Z; hc_col : Z; hc_src : string;
  hc_check_end : bool;
  hc_real : option (list (list rtok));
  hc_num : list (string * string)            (* Header().number_macros after parsing the header *)
}.

Definition hmodel (c : hcase) : result hstate :=
  parse_header false (hc_nf c) (s2l (hc_ns c)) (s2l (hc_header c)) (map s2l (hc_envs c)).

Definition htokens (c : hcase) : result (list (list token)) :=
  match hmodel c with
  | Err e => Err e
  | Ok h => parse (h_mt h) (hc_cf c) (hc_es c) false false (hc_line c) (hc_col c) (s2l (hc_src c))
  end.

Definition h_unsupported (c : hcase) : bool :=
  match htokens c with Err EUnsupported => true | _ => false end.

Definition num_ok (h : hstate) (real : list (string * string)) : bool :=
  forallb (fun kv => match lookup_num (h_num h) (s2l (fst kv)) with
                     | Some v => str_eqb v (s2l (snd kv)) | None => false end) real &&
  forallb (fun kv => existsb (fun r => str_eqb (fst kv) (s2l (fst r))) real) (h_num h).

Definition hcase_ok (c : hcase) : bool :=
  match htokens c, hc_real c with
  | Err EUnsupported, _ => true
  | Ok sts, Some r =>
      all2 (all2 (tok_matches (hc_check_end c))) sts r &&
      match hmodel c with Ok h => num_ok h (hc_num c) | Err _ => false end
  | Err _, None => true
  | _, _ => false
  end.

Definition hmismatches (l : list hcase) : list nat := bad_indices hcase_ok l.
Definition hunsupported (l : list hcase) : list nat := bad_indices (fun c => negb (h_unsupported c)) l.

Record ocase := mkOCase { oa : corder; ob : corder; o_real : bool }.
Definition ocase_ok (c : ocase) : bool := Bool.eqb (custom_lt (oa c) (ob c)) (o_real c).
Definition omismatches (l : list ocase) : list nat := bad_indices ocase_ok l.

(* ---- (d) parameterised macros, (type, text) level *)
Record pcase := mkPCase {
  pc_params : list string; pc_args : list (ttype * string); pc_body : list (ttype * string);
  pc_real : list (ttype * string)
}.
Definition ptok_of (t : ttype * string) : ptok := (fst t, s2l (snd t)).
Definition ptok_eqb (a b : ptok) : bool := ttype_eqb (fst a) (fst b) && str_eqb (snd a) (snd b).
Definition pcase_ok (c : pcase) : bool :=
  all2 ptok_eqb (param_expand (map s2l (pc_params c)) (map ptok_of (pc_args c)) (map ptok_of (pc_body c)))
       (map ptok_of (pc_real c)).
Definition pmismatches (l : list pcase) : list nat := bad_indices pcase_ok l.

(* ---- (e) Hardcode.calc text substitution *)
Record ccase := mkCCase {
  cc_num : list (string * string);      (* Header.number_macros, insertion order *)
  cc_expr : string;                     (* the text from `(` to the matching `)` *)
  cc_real : option string               (* what eval_expr received; None = JMC's "Invalid character" diagnostic *)
}.
Definition ccase_ok (c : ccase) : bool :=
  match calc_text (map (fun kv => (s2l (fst kv), s2l (snd kv))) (cc_num c)) (s2l (cc_expr c)), cc_real c with
  | Some t, Some r => str_eqb t (s2l r)
  | None, None => true
  | _, _ => false
  end.
Definition cmismatches (l : list ccase) : list nat := bad_indices ccase_ok l.

(* ---- (f) the body of a Hardcode.repeat* / @lazy function: scope of the substitution *)
Record bcase := mkBCase {
  bc_num : list (string * string);      (* Header.number_macros, insertion order *)
  bc_body : string;                     (* the text the callers loop over *)
  bc_real : option string               (* the text the loop ends with; None = a JMCSyntaxException diagnostic *)
}.
Definition ev_marker (t : str) : option str := Some (s2l "<" ++ t ++ s2l ">").
Definition bcase_ok (c : bcase) : bool :=
  let body := s2l (bc_body c) in
  match calc_all ev_marker (map (fun kv => (s2l (fst kv), s2l (snd kv))) (bc_num c)) (S (List.length body)) body, bc_real c with
  | CText t, Some r => str_eqb t (s2l r)
  | CFail, None => true
  | _, _ => false
  end.
Definition bmismatches (l : list bcase) : list nat := bad_indices bcase_ok l.
