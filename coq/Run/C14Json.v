(* Run.C14Json - tie of Model.TokJson: every JMCDecodeJSONError constructed during the runs of the check:
   (token.line, token.col, error.lineno, error.colno) and the (line, col) its message cites. *)
From Coq Require Import ZArith List Bool.
From JMCV Require Import Model.Tok Model.TokPos Model.TokJson Run.Common.
Import ListNotations.
Open Scope Z_scope.

Record jcase := JC { j_tl : Z; j_tc : Z; j_el : Z; j_ec : Z; j_line : Z; j_col : Z }.
Definition jcase_ok (c : jcase) : bool :=
  let '(l, k) := json_cite (j_tl c) (j_tc c) (j_el c, j_ec c) in Z.eqb l (j_line c) && Z.eqb k (j_col c).
Definition jmismatches (l : list jcase) : list nat := bad_indices jcase_ok l.
