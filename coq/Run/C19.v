(* Run.C19 — driver for the generated correspondence cases of C19. *)
From Coq Require Import ZArith String List Bool Ascii.
From JMCV Require Import Base.Dec Model.StrOps Model.Hardcode Model.Lazy Run.Common.
Import ListNotations.

Inductive hinput :=
| HRepeat (p : string) (start stop step : Z)
| HList (p0 p1 : string) (strings : list string)
| HLists (params : list string) (lists : list (list string))
| HLazy (params : list string) (pos : list (list atok)) (kw : list (string * list atok)).   (* the call's arguments as token lists *)

(* what the real expansion did *)
Inductive rkind :=
| KExpectedParen | KInvalidSyntax | KInvalidChar (c : string)
| KPy (x : pyexc)
| KBindCount | KBindKw (k : string)
| KOther.
Inductive rerr :=
| RNone                    (* the call returned *)
| RProcess (k : rkind)     (* an exception while computing a text (substitution / Hardcode.calc / binding) *)
| RParse.                  (* an exception while the parser worked on the last text handed over (outside the model) *)

Record case := mkCase {
  c_mode : hmode;
  c_in : hinput;
  c_body : string;
  c_macros : list (string * string);
  c_texts : list string;       (* texts handed to the parser, in order *)
  c_err : rerr
}.

Inductive merr := MCalc (e : cerr) | MBind (e : berr).

Definition model_out (c : case) : list string * option merr :=
  let m := c_mode c in
  let lift := fun r : list string * option cerr =>
                (fst r, match snd r with Some e => Some (MCalc e) | None => None end) in
  match c_in c with
  | HRepeat p a b s => lift (until_err (repeat_texts m (c_macros c) (c_body c) p a b s))
  | HList p0 p1 l => lift (until_err (repeat_list_texts m (c_macros c) (c_body c) p0 p1 l))
  | HLists ps ls => lift (until_err (repeat_lists_texts m (c_macros c) (c_body c) ps ls))
  | HLazy ps pos kw =>
      match bind_toks m ps pos kw with
      | BErr e => ([], Some (MBind e))
      | BOk b => lift (until_err [lazy_text m (c_macros c) (c_body c) b])
      end
  end.

Fixpoint strs_eqb (a b : list string) : bool :=
  match a, b with
  | [], [] => true
  | x :: a', y :: b' => String.eqb x y && strs_eqb a' b'
  | _, _ => false
  end.
Fixpoint strs_prefixb (a b : list string) : bool :=      (* a is a prefix of b *)
  match a, b with
  | [], _ => true
  | x :: a', y :: b' => String.eqb x y && strs_prefixb a' b'
  | _, _ => false
  end.

Definition pyexc_eqb (a b : pyexc) : bool :=
  match a, b with
  | XSyntax, XSyntax | XZeroDiv, XZeroDiv | XType, XType | XKey, XKey | XOverflow, XOverflow => true
  | _, _ => false
  end.
(* Hardcode.repeat* catch a JMCSyntaxException of the expansion and re-run the expansion on the whole
   file text to rebuild the message (error.reinit): the diagnostic finally shown may be another one of
   the three Hardcode.calc diagnostics.  @lazy has no such handler. *)
Definition is_calc_diag (k : rkind) : bool :=
  match k with KExpectedParen | KInvalidSyntax | KInvalidChar _ => true | _ => false end.
Definition kind_matches_lenient (e : merr) (k : rkind) : bool :=
  match e with
  | MCalc DExpectedParen | MCalc DInvalidSyntax | MCalc (DInvalidChar _) => is_calc_diag k
  | _ => false
  end.
Definition kind_matches (e : merr) (k : rkind) : bool :=
  match e, k with
  | MCalc DExpectedParen, KExpectedParen => true
  | MCalc DInvalidSyntax, KInvalidSyntax => true
  | MCalc (DInvalidChar c), KInvalidChar s => String.eqb (String c EmptyString) s
  | MCalc (DPy x), KPy y => pyexc_eqb x y
  | MBind BTooMany, KBindCount => true
  | MBind BMissing, KBindCount => true
  | MBind (BUnexpectedKw a), KBindKw b => String.eqb a b
  | _, _ => false
  end.

Definition is_unsupported (c : case) : bool :=
  match snd (model_out c) with Some (MCalc DUnsupported) => true | _ => false end.

Definition case_ok (c : case) : bool :=
  let '(texts, err) := model_out c in
  match err with
  | Some (MCalc DUnsupported) => strs_prefixb texts (c_texts c)     (* value outside the model: no claim beyond this point *)
  | Some (MCalc DFuel) => false
  | None =>
      match c_err c with
      | RNone => strs_eqb texts (c_texts c)
      | RParse => strs_prefixb (c_texts c) texts && negb (match c_texts c with [] => true | _ => false end)
      | RProcess _ => false
      end
  | Some e =>
      match c_err c with
      | RProcess k => strs_eqb texts (c_texts c) &&
                      (kind_matches e k || match c_in c with HLazy _ _ _ => false | _ => kind_matches_lenient e k end)
      | RParse => strs_prefixb (c_texts c) texts && negb (match c_texts c with [] => true | _ => false end)
      | RNone => false
      end
  end.

Definition mismatches (l : list case) : list nat := bad_indices case_ok l.
Definition unsupported (l : list case) : list nat := bad_indices (fun c => negb (is_unsupported c)) l.

(* what the model hands to the parser, for reports *)
Definition model_texts (c : case) : list string := fst (model_out c).

(* the texts bound to the arguments of a lazy call, for reports *)
Definition model_args (c : case) : list string :=
  match c_in c with
  | HLazy ps pos kw => map (arg_text (c_mode c) false) pos ++ map (fun kv => (fst kv ++ "=" ++ arg_text (c_mode c) true (snd kv))%string) kw
  | _ => []
  end.
