(* C08 (round 5): evaluator of the `new .. extends` correspondence cases (harness/c08_extends.py).
   A case = the declarations of a program (names already converted: dots -> slashes) + what the real compiler did:
   every emitted user JSON file (path without namespace / extension, parsed value) or the class of the refusal. *)
From Coq Require Import String List Bool Arith.
From JMCV Require Import Model.JsonExtends.
Import ListNotations.
Open Scope string_scope.

Inductive real := ROk (files : list (string * json)) | RErr (kind : nat) | ROther.

Definition err_code (e : err) : nat :=
  match e with EDup => 1 | EEmpty => 2 | ENoBase => 3 | EChildNotObj => 4 | EBaseNotObj => 5 end.

(* 0 agree; 1 verdict differs; 2 a file of the model is missing or has another content; 3 number of files differs *)
Definition ecase_code (c : list decl * real) : nat :=
  let '(ds, r) := c in
  match run ds, r with
  | Ok t, ROk files =>
      if negb (Nat.eqb (length t) (length files)) then 3
      else if forallb (fun kv => match get_key (fst kv) files with Some j => json_eqb (snd kv) j && json_eqb j (snd kv) | None => false end) t
           then 0 else 2
  | Err e _, RErr k => if Nat.eqb (err_code e) k then 0 else 1
  | _, _ => 1
  end.
Definition ecodes (l : list (list decl * real)) : list nat := map ecase_code l.
