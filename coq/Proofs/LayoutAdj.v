(* Proofs.LayoutAdj — the adjacency theorem: for every token stream the tokenizer model
   produces (with object-like macros), `is_connected` between consecutive tokens of a statement
   equals the ghost flag `t_glued` ("the token started right after the previous one ended; inside
   a macro body: as written in the header line; after a macro: right after the macro's name").
   Serves C15 (adjacency is a function of the lexical structure, not of line/col) and C16
   (macro tokens are adjacent exactly as their hand-written expansion). *)
From Coq Require Import ZArith String List Bool Ascii Lia.
From JMCV Require Import Model.Layout Proofs.LayoutBasic.
Import ListNotations.
Open Scope Z_scope.

Definition adj_ok (a b : token) : Prop := is_connected b a = t_glued b.

(* newest-first chain (as in s_kws) and oldest-first chain (as in a finished statement) *)
Inductive chain_r : list token -> Prop :=
| cr_nil : chain_r []
| cr_one t : chain_r [t]
| cr_cons b a r : adj_ok a b -> chain_r (a :: r) -> chain_r (b :: a :: r).
Inductive chain : list token -> Prop :=
| ch_nil : chain []
| ch_one t : chain [t]
| ch_cons a b r : adj_ok a b -> chain (b :: r) -> chain (a :: b :: r).

Lemma chain_snoc l a b : chain (l ++ [a]) -> adj_ok a b -> chain (l ++ [a; b]).
Proof.
  induction l as [|x l IH]; cbn; intros H Hab.
  - constructor; [assumption|constructor].
  - destruct l as [|y l]; cbn in *.
    + inversion H; subst. constructor; [assumption|]. constructor; [assumption|constructor].
    + inversion H; subst. constructor; [assumption|]. apply IH; assumption.
Qed.

Lemma chain_rev l : chain_r l -> chain (rev l).
Proof.
  induction 1 as [| |b a r Hab H IH]; cbn; try constructor.
  cbn in IH. replace ((rev r ++ [a]) ++ [b]) with (rev r ++ [a; b]) by (rewrite <- app_assoc; reflexivity).
  apply chain_snoc; assumption.
Qed.

(* ------------------------------------------------------------------ macro tables in scope *)
Definition tt_plain (t : ttok) : Prop := tt_ty t = STRING \/ count_nl (tt_str t) = 0.
Definition macro_ok (m : macro) : Prop := m_body m <> [] /\ Forall tt_plain (m_body m) /\ count_nl (m_key m) = 0.
Definition mt_ok (mt : mtable) : Prop := forall k m, lookup_macro mt k = Some m -> m_arity m = O -> macro_ok m.

Lemma mt_ok_nil : mt_ok [].
Proof. intros k m H. discriminate. Qed.

Lemma lookup_macro_key mt k m : lookup_macro mt k = Some m -> str_eqb (m_key m) k = true.
Proof.
  induction mt as [|x r IH]; cbn; [discriminate|].
  destruct (str_eqb (m_key x) k) eqn:E; [intros H; injection H as <-; assumption|apply IH].
Qed.

Lemma str_eqb_eq a b : str_eqb a b = true -> a = b.
Proof.
  revert b; induction a as [|x a IH]; destruct b as [|y b]; cbn; try discriminate; [reflexivity|].
  rewrite andb_true_iff. intros [H1 H2]. apply Ascii.eqb_eq in H1. subst. f_equal. auto.
Qed.

(* ------------------------------------------------------------------ positions *)
Definition nxt (p : Z * Z) : Z * Z := (fst p, snd p + 1).

Lemma adv_no_nl p s : count_nl s = 0 -> adv p s = (fst p, snd p + len s).
Proof.
  destruct p as [l c]. intros H. rewrite adv_text, H. cbn. reflexivity.
Qed.

Lemma adv_snoc p s c : adv p (s ++ [c]) = adv (adv p s) [c].
Proof. apply adv_app. Qed.

Lemma plt_nxt p : plt p (nxt p).
Proof. destruct p; unfold plt, nxt; cbn; lia. Qed.

Lemma ple_refl p : ple p p. Proof. now left. Qed.
Lemma ple_trans a b c : ple a b -> ple b c -> ple a c.
Proof. intros [->|H1] [->|H2]; [now left|now right|now right|right; eapply plt_trans; eauto]. Qed.
Lemma plt_ple a b : plt a b -> ple a b. Proof. now right. Qed.

Lemma ple_adv p s : ple p (adv p s).
Proof.
  revert p; induction s as [|c r IH]; intros p; cbn; [apply ple_refl|].
  eapply ple_trans; [|apply IH]. destruct p as [l k]. destruct (is_nl c); right; unfold plt; cbn; lia.
Qed.

(* expansion: shape of the produced tokens *)
Lemma end_macro_last toks e : toks <> [] ->
  exists front t, toks = front ++ [t] /\
    end_macro toks e = front ++ [mkTok (t_ty t) (t_line t) (t_col t) (t_str t) (t_mlen t) (Some e) (t_glued t)].
Proof.
  induction toks as [|x r IH]; [congruence|]. intros _.
  destruct r as [|y r'].
  - exists [], x. split; reflexivity.
  - destruct IH as (front & t & E1 & E2); [discriminate|].
    exists (x :: front), t. split; [cbn; f_equal; exact E1|].
    change (end_macro (x :: y :: r') e) with (x :: end_macro (y :: r') e). rewrite E2. reflexivity.
Qed.

(* ------------------------------------------------------------------ macro expansion is a chain *)
Lemma tok_end_tt t l col klen g :
  tt_plain t -> tok_end (mkTok (tt_ty t) l col (tt_str t) klen None g) = (l, col + tt_length t).
Proof.
  intros [H|H]; unfold tok_end, tt_length, tok_length; cbn.
  - rewrite H. reflexivity.
  - rewrite H. cbn. destruct (tt_ty t); reflexivity.
Qed.

Lemma pos_eqb_same_line l a b : pos_eqb (l, a) (l, b) = (a =? b).
Proof. unfold pos_eqb; cbn. rewrite Z.eqb_refl. reflexivity. Qed.

Lemma expand_body_chain klen l c base prev g body :
  Forall tt_plain body -> chain (expand_body klen l c base prev g body).
Proof.
  revert prev. induction body as [|t r IH]; intros prev H; cbn; [constructor|].
  inversion H as [|? ? Ht Hr]; subst.
  destruct r as [|t2 r']; cbn; [constructor|].
  constructor.
  - unfold adj_ok, is_connected. rewrite tok_end_tt by assumption. cbn [t_line t_col t_glued].
    rewrite pos_eqb_same_line. unfold tt_adjacent.
    destruct (Z.eqb_spec (c + tt_col t - base + tt_length t) (c + tt_col t2 - base)),
             (Z.eqb_spec (tt_col t + tt_length t) (tt_col t2)); try reflexivity; lia.
  - specialize (IH (Some t) Hr). cbn in IH. exact IH.
Qed.

Definition same_start (a b : token) : Prop :=
  t_line a = t_line b /\ t_col a = t_col b /\ t_glued a = t_glued b.

Lemma adj_ok_same_start a b b' : same_start b b' -> adj_ok a b -> adj_ok a b'.
Proof. unfold adj_ok, is_connected. intros (-> & -> & ->) H. exact H. Qed.

Lemma chain_end_macro toks e : chain toks -> chain (end_macro toks e).
Proof.
  induction 1 as [| t | a b r Hab H IH].
  - constructor.
  - cbn. constructor.
  - change (end_macro (a :: b :: r) e) with (a :: end_macro (b :: r) e).
    destruct r as [|c r'].
    + cbn. constructor; [|constructor].
      eapply adj_ok_same_start; [|exact Hab]. repeat split.
    + change (end_macro (b :: c :: r') e) with (b :: end_macro (c :: r') e) in *.
      constructor; assumption.
Qed.

Lemma expand_macro_chain m l c g : macro_ok m -> chain (expand_macro m l c g).
Proof.
  intros (_ & Hp & _). unfold expand_macro. apply chain_end_macro. apply expand_body_chain. assumption.
Qed.

(* first token of an expansion: at the use position, glued as the macro name was *)
Lemma expand_macro_first m l c g : macro_ok m ->
  exists e r, expand_macro m l c g = e :: r /\ t_line e = l /\ t_col e = c /\ t_glued e = g.
Proof.
  intros (Hne & _ & _). unfold expand_macro. destruct (m_body m) as [|t r] eqn:E; [congruence|].
  cbn [expand_body]. destruct r as [|t2 r'].
  - cbn. eexists _, []. split; [reflexivity|]. cbn. repeat split; lia.
  - cbn [expand_body]. 
    change (end_macro (?x :: ?y :: ?z) ?e) with (x :: end_macro (y :: z) e).
    eexists _, _. split; [reflexivity|]. cbn. repeat split; lia.
Qed.

(* last token of an expansion ends where the macro's name ends *)
Lemma end_macro_last_end toks e : toks <> [] ->
  exists front t, end_macro toks e = front ++ [t] /\ tok_end t = e.
Proof.
  intros H. destruct (end_macro_last toks e H) as (front & t & _ & E).
  eexists front, _. split; [exact E|]. reflexivity.
Qed.

Lemma expand_body_nonempty klen l c base prev g body : body <> [] -> expand_body klen l c base prev g body <> [].
Proof. destruct body; [congruence|]. cbn. discriminate. Qed.

Lemma expand_macro_last m l c g : macro_ok m ->
  exists front t, expand_macro m l c g = front ++ [t] /\ tok_end t = (l, c + len (m_key m)).
Proof.
  intros (Hne & _ & _). unfold expand_macro. apply end_macro_last_end. apply expand_body_nonempty. assumption.
Qed.

(* pushing a chain of new tokens on top of the keywords *)
Lemma chain_r_push E : forall K,
  chain E -> chain_r K ->
  (match K, E with a :: _, e :: _ => adj_ok a e | _, _ => True end) ->
  chain_r (rev E ++ K).
Proof.
  induction E as [|e E' IH]; intros K HE HK Hl; cbn; [assumption|].
  rewrite <- app_assoc. cbn. apply IH.
  - inversion HE; subst; [constructor|assumption].
  - destruct K as [|a K']; [constructor|]. constructor; assumption.
  - destruct E' as [|e2 E'']; [exact I|]. inversion HE; subst. assumption.
Qed.

Lemma hd_rev_app_last {A} (front : list A) (t : A) K : rev (front ++ [t]) ++ K = t :: rev front ++ K.
Proof. rewrite rev_app_distr. reflexivity. Qed.

(* ------------------------------------------------------------------ the invariant *)
Definition pending (k : skind) : bool :=
  match k with SKeyword | SOperator | SString | SParen => true | _ => false end.

Definition link_pending (st : tstate) : Prop :=
  match s_kws st with
  | [] => True
  | a :: _ => if s_pglued st then tok_end a = s_tpos st else plt (tok_end a) (s_tpos st)
  end.
Definition link_idle (p : Z * Z) (st : tstate) : Prop :=
  match s_kws st with
  | [] => True
  | a :: _ => if s_gap st then plt (tok_end a) p else tok_end a = p
  end.
Definition link (p : Z * Z) (st : tstate) : Prop :=
  if pending (s_kind st) then link_pending st else link_idle p st.

Definition extent (p : Z * Z) (st : tstate) : Prop :=
  match s_kind st with
  | SNone | SComment => s_tstr st = []
  | SParen => adv (s_tpos st) (rev (s_tstr st)) = p
  | _ => adv (s_tpos st) (rev (s_tstr st)) = p /\ count_nl (s_tstr st) = 0
  end.

Definition good (p : Z * Z) (st : tstate) : Prop :=
  chain_r (s_kws st) /\ Forall chain (s_lkws st) /\ link p st /\ extent p st /\
  (s_kind st = SComment -> s_gap st = true).

(* p = position of the next character to be consumed *)
Definition PIp (p : Z * Z) (st : tstate) : Prop := s_ev st = true \/ good p st.

Lemma count_nl_rev s : count_nl (rev s) = count_nl s.
Proof.
  unfold count_nl, len. induction s as [|c r IH]; cbn; [reflexivity|].
  rewrite filter_app, app_length. cbn. destruct (is_nl c); cbn; lia.
Qed.
Lemma len_rev s : len (rev s) = len s.
Proof. unfold len. rewrite rev_length. reflexivity. Qed.
Lemma len_cons c s : len (c :: s) = len s + 1.
Proof. unfold len. cbn [length]. lia. Qed.

Section Inv.
Variable mt : mtable.
Variable cf : bool.
Variable es : bool.
Hypothesis Hmt : mt_ok mt.

Lemma append_token_inv p ty st st' :
  append_token mt ty st = Ok st' ->
  chain_r (s_kws st) -> link_pending st ->
  tok_end (mkTok ty (fst (s_tpos st)) (snd (s_tpos st)) (rev (s_tstr st)) 0 None (s_pglued st)) = p ->
  (ty = KEYWORD -> adv (s_tpos st) (rev (s_tstr st)) = p) ->
  exists t r, st' = push_tokens st (rev (t :: r)) /\ chain_r (t :: r ++ s_kws st) /\ tok_end t = p.
Proof.
  intros Happ Hch Hl Hend Hkw. unfold append_token in Happ.
  destruct (s_tpos st) as [l c] eqn:Etp. cbn [fst snd] in *.
  set (b := mkTok ty l c (rev (s_tstr st)) 0 None (s_pglued st)) in *.
  assert (Hplain : exists t r, push_tokens st [b] = push_tokens st (rev (t :: r)) /\
                               chain_r (t :: r ++ s_kws st) /\ tok_end t = p).
  { exists b, []. split; [reflexivity|]. split; [|exact Hend]. cbn [app].
    destruct (s_kws st) as [|a K] eqn:EK; [constructor|]. constructor; [|assumption].
    unfold adj_ok, is_connected. subst b. cbn [t_line t_col t_glued].
    unfold link_pending in Hl. rewrite EK, Etp in Hl.
    destruct (s_pglued st).
    - apply pos_eqb_eq. assumption.
    - apply pos_eqb_neq. apply plt_neq. assumption. }
  destruct ty; try (injection Happ as <-; exact Hplain).
  destruct (lookup_macro mt (rev (s_tstr st))) as [m|] eqn:El; [|injection Happ as <-; exact Hplain].
  destruct (m_arity m) eqn:Ea; [|discriminate]. injection Happ as <-.
  pose proof (Hmt _ _ El Ea) as Hok.
  destruct (expand_macro_first m l c (s_pglued st) Hok) as (e & r & E1 & Hl1 & Hc1 & Hg1).
  destruct (expand_macro_last m l c (s_pglued st) Hok) as (front & t & E2 & Hte).
  pose proof (expand_macro_chain m l c (s_pglued st) Hok) as Hc.
  exists t, (rev front). split; [|split].
  - f_equal. cbn [rev]. rewrite rev_involutive. exact E2.
  - replace (t :: rev front ++ s_kws st) with (rev (expand_macro m l c (s_pglued st)) ++ s_kws st)
      by (rewrite E2; apply hd_rev_app_last).
    apply chain_r_push; [assumption|assumption|].
    destruct (s_kws st) as [|a K] eqn:EK; [exact I|]. rewrite E1.
    unfold adj_ok, is_connected. rewrite Hl1, Hc1, Hg1.
    unfold link_pending in Hl. rewrite EK, Etp in Hl.
    destruct (s_pglued st).
    + apply pos_eqb_eq. assumption.
    + apply pos_eqb_neq. apply plt_neq. assumption.
  - rewrite Hte. specialize (Hkw eq_refl).
    apply lookup_macro_key in El. apply str_eqb_eq in El.
    destruct Hok as (_ & _ & Hk). rewrite El in Hk |- *.
    rewrite adv_no_nl in Hkw by assumption. cbn [fst snd] in Hkw. exact Hkw.
Qed.
End Inv.
