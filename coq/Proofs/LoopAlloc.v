(* Proofs.LoopAlloc — facts about the private-function numbering (Model.PrivAlloc): generated
   names are injective in (group, number), a freshly numbered function never replaces an
   existing one, so the function table only grows.  Used by Proofs.LoopLink (C04, C05). *)
From Coq Require Import ZArith String List Bool Lia.
From JMCV Require Import Base.Dec MC.Syntax Model.Names Model.PrivAlloc Model.IfElse Model.Loop.
Import ListNotations.
Open Scope nat_scope.

Definition groups : list string := [IF_ELSE; WHILE_NAME; FOR_NAME].

Lemma str_app_inv_head (a b c : string) : (a ++ b = a ++ c)%string -> b = c.
Proof. induction a as [|x a IH]; cbn; intros H; [exact H|]. injection H as H. auto. Qed.

Lemma priv_fn_inj nm g k g' k' :
  In g groups -> In g' groups -> priv_fn nm g k = priv_fn nm g' k' -> g = g' /\ k = k'.
Proof.
  unfold priv_fn. intros Hg Hg' H.
  apply str_app_inv_head in H. cbn [append] in H. injection H as H.
  apply str_app_inv_head in H. cbn [append] in H. injection H as H.
  assert (Hk : forall a b : nat, z_dec (Z.of_nat a) = z_dec (Z.of_nat b) -> a = b).
  { intros a b E. apply z_dec_inj in E. lia. }
  unfold groups, IF_ELSE, WHILE_NAME, FOR_NAME in *. cbn [In] in Hg, Hg'.
  destruct Hg as [<-|[<-|[<-|[]]]], Hg' as [<-|[<-|[<-|[]]]]; cbn [append] in H;
    try discriminate; injection H as H; split; auto.
Qed.

Definition count (a : alloc) (g : string) : nat := count_of (counts a) g.

Lemma count_bump_same l g : count_of (bump l g) g = S (count_of l g).
Proof.
  induction l as [|[g' n] l IH]; cbn.
  - rewrite String.eqb_refl. reflexivity.
  - destruct (String.eqb g g') eqn:E; cbn; rewrite E; [reflexivity|exact IH].
Qed.
Lemma count_bump_other l g g' : g <> g' -> count_of (bump l g) g' = count_of l g'.
Proof.
  intros N. induction l as [|[g0 n] l IH]; cbn.
  - destruct (String.eqb_spec g' g); [congruence|reflexivity].
  - destruct (String.eqb g g0) eqn:E; cbn.
    + apply String.eqb_eq in E. subst g0. destruct (String.eqb_spec g' g); [congruence|reflexivity].
    + destruct (String.eqb g' g0); [reflexivity|exact IH].
Qed.

Lemma get_count_spec g a k a1 :
  get_count g a = (k, a1) ->
  k = count a g /\ count a1 g = S k /\ (forall g', g <> g' -> count a1 g' = count a g') /\ fns a1 = fns a.
Proof.
  unfold get_count, count. intros H. inversion H; subst; clear H. cbn.
  split; [reflexivity|]. split; [apply count_bump_same|]. split; [|reflexivity].
  intros g' N. apply count_bump_other. exact N.
Qed.

Lemma get_count_mono g a k a1 g' : get_count g a = (k, a1) -> count a g' <= count a1 g'.
Proof.
  intros H. destruct (get_count_spec _ _ _ _ H) as (E & S1 & O & _).
  destruct (String.eqb_spec g g') as [<-|N]; [lia|rewrite (O _ N); lia].
Qed.

Lemma put_fn_fresh l d : ~ In (fst d) (map fst l) -> put_fn l d = l ++ [d].
Proof.
  induction l as [|d' l IH]; cbn; intros H; [reflexivity|].
  destruct (String.eqb_spec (fst d) (fst d')) as [E|N]; [exfalso; auto|].
  f_equal. apply IH. intros X. apply H. right. exact X.
Qed.

Lemma add_fns_fresh ds : forall a,
  NoDup (map fst (fns a) ++ map fst ds) ->
  fns (add_fns ds a) = fns a ++ ds /\ counts (add_fns ds a) = counts a.
Proof.
  unfold add_fns. induction ds as [|d ds IH]; intros a H; cbn [fold_left].
  - rewrite app_nil_r. split; reflexivity.
  - assert (F : ~ In (fst d) (map fst (fns a))).
    { cbn [map] in H. apply NoDup_remove_2 in H. intros X. apply H. apply in_or_app. left. exact X. }
    specialize (IH (add_fn d a)). unfold add_fn in *. cbn [fns counts] in *.
    rewrite (put_fn_fresh _ _ F) in *. rewrite <- app_assoc in IH. cbn [app] in IH.
    apply IH. rewrite map_app. cbn [map]. rewrite <- app_assoc. exact H.
Qed.

Section Names.
  Variable nm : names.

  (* f is a generated name whose number lies in [lo g, hi g) *)
  Definition named (lo hi : string -> nat) (f : string) : Prop :=
    exists g k, In g groups /\ f = priv_fn nm g k /\ lo g <= k < hi g.

  Lemma named_inv lo hi g k : named lo hi (priv_fn nm g k) -> In g groups -> lo g <= k < hi g.
  Proof.
    intros (g' & k' & Hg' & E & B) Hg. destruct (priv_fn_inj _ _ _ _ _ Hg Hg' E) as [-> ->]. exact B.
  Qed.
  Lemma named_weaken lo hi lo' hi' f :
    named lo hi f -> (forall g, lo' g <= lo g) -> (forall g, hi g <= hi' g) -> named lo' hi' f.
  Proof.
    intros (g & k & Hg & E & B) L H. exists g, k. split; [exact Hg|]. split; [exact E|].
    specialize (L g). specialize (H g). lia.
  Qed.

  Definition zero (_ : string) : nat := O.

  (* the table holds distinct generated names, all below the counters *)
  Definition wf (a : alloc) : Prop :=
    NoDup (map fst (fns a)) /\ Forall (fun d => named zero (count a) (fst d)) (fns a).

  (* a' is a later state of the table: counters grew, functions were only appended, the new ones
     numbered from a's counters on *)
  Definition ext (a a' : alloc) : Prop :=
    (forall g, count a g <= count a' g) /\
    exists new, fns a' = fns a ++ new /\ Forall (fun d => named (count a) (count a') (fst d)) new.

  Lemma wf_alloc0 : wf alloc0.
  Proof. split; constructor. Qed.

  Lemma ext_refl a : ext a a.
  Proof. split; [intros; lia|]. exists []. rewrite app_nil_r. split; [reflexivity|constructor]. Qed.

  Lemma ext_trans a b c : ext a b -> ext b c -> ext a c.
  Proof.
    intros [M1 (n1 & E1 & F1)] [M2 (n2 & E2 & F2)]. split.
    - intros g. specialize (M1 g). specialize (M2 g). lia.
    - exists (n1 ++ n2). split; [rewrite E2, E1, app_assoc; reflexivity|].
      apply Forall_app. split.
      + eapply Forall_impl; [|exact F1]. intros d N.
        apply (named_weaken _ _ _ _ _ N); [intros; lia|exact M2].
      + eapply Forall_impl; [|exact F2]. intros d N.
        apply (named_weaken _ _ _ _ _ N); [exact M1|intros; lia].
  Qed.

  Lemma ext_get_count g a k a1 : get_count g a = (k, a1) -> ext a a1.
  Proof.
    intros H. split; [intros g'; eapply get_count_mono; eauto|].
    exists []. destruct (get_count_spec _ _ _ _ H) as (_ & _ & _ & E).
    rewrite E, app_nil_r. split; [reflexivity|constructor].
  Qed.

  Lemma wf_get_count g a k a1 : wf a -> get_count g a = (k, a1) -> wf a1.
  Proof.
    intros [N F] H. destruct (get_count_spec _ _ _ _ H) as (_ & _ & _ & E). split; rewrite E; [exact N|].
    eapply Forall_impl; [|exact F]. intros d X.
    apply (named_weaken _ _ _ _ _ X); [intros; lia|]. intros g'. eapply get_count_mono; eauto.
  Qed.

  Lemma ext_installed ft a a' :
    ext a a' -> Forall (fun d => ft (fst d) = Some (snd d)) (fns a') ->
    Forall (fun d => ft (fst d) = Some (snd d)) (fns a).
  Proof. intros [_ (new & E & _)] I. rewrite E in I. apply Forall_app in I. tauto. Qed.

  Lemma ext_in a a' d : ext a a' -> In d (fns a) -> In d (fns a').
  Proof. intros [_ (new & E & _)] I. rewrite E. apply in_or_app. left. exact I. Qed.

  (* adding functions whose numbers were taken from the counters since `a0`, and that are not
     in the table yet *)
  Lemma add_fns_ext a ds :
    wf a ->
    NoDup (map fst ds) ->
    Forall (fun d => exists g k, In g groups /\ fst d = priv_fn nm g k /\ k < count a g /\
                                 ~ In (priv_fn nm g k) (map fst (fns a))) ds ->
    let a' := add_fns ds a in
    fns a' = fns a ++ ds /\ counts a' = counts a /\ wf a'.
  Proof.
    intros [N F] Nd Fd a'.
    assert (ND : NoDup (map fst (fns a) ++ map fst ds)).
    { clear F. induction ds as [|d ds IH]; [rewrite app_nil_r; exact N|].
      cbn [map]. apply NoDup_Add with (a := fst d) (l := map fst (fns a) ++ map fst ds).
      - apply Add_app.
      - inversion Nd; subst. inversion Fd as [|x xs (g & k & _ & E & _ & Fr) Fd']; subst. split.
        + apply IH; assumption.
        + intros X. apply in_app_or in X. destruct X as [X|X]; [rewrite E in X; auto|auto]. }
    destruct (add_fns_fresh ds a ND) as [E1 E2]. fold a' in E1, E2.
    split; [exact E1|]. split; [exact E2|]. split.
    - rewrite E1, map_app. exact ND.
    - rewrite E1. apply Forall_app. unfold count. rewrite E2. split; [exact F|].
      eapply Forall_impl; [|exact Fd]. intros d (g & k & Hg & E & B & _).
      unfold named. exists g, k. split; [exact Hg|]. split; [exact E|]. unfold zero, count in *. lia.
  Qed.

  (* a name numbered below `a`'s counter for its group, but not by any function stored so far
     (reserved), stays absent while only higher numbers are handed out *)
  Lemma reserved_fresh a a1 a2 g k :
    wf a -> In g groups -> get_count g a = (k, a1) -> ext a1 a2 ->
    ~ In (priv_fn nm g k) (map fst (fns a2)).
  Proof.
    intros [_ F] Hg H [_ (new & E & Fn)].
    destruct (get_count_spec _ _ _ _ H) as (Ek & Sk & _ & Ef).
    rewrite E, Ef, map_app. intros X. apply in_app_or in X. destruct X as [X|X].
    - apply in_map_iff in X. destruct X as (d & Ed & Hd). rewrite Forall_forall in F.
      specialize (F d Hd). rewrite Ed in F. apply named_inv in F; [|exact Hg]. lia.
    - apply in_map_iff in X. destruct X as (d & Ed & Hd). rewrite Forall_forall in Fn.
      specialize (Fn d Hd). rewrite Ed in Fn. apply named_inv in Fn; [|exact Hg]. lia.
  Qed.
End Names.
