(* Proofs.Loop — the lowering of while / do-while / for (Model.Loop) iterates exactly as the
   source loop does.  Property C05. *)
From Coq Require Import ZArith String List Bool Lia Wf_nat.
From JMCV Require Import Base.Int32 Base.Dec MC.Syntax MC.Sem MC.Facts
     Model.Names Model.PrivAlloc Model.IfElse Model.Loop Proofs.IfElseBase Proofs.IfElse Proofs.IfElseTrace.
Import ListNotations.

Section LoopSem.
  Variable ft : string -> option (list cmd).
  Variable env : nat -> state -> state.
  Notation runs := (runs ft env).
  Notation steps := (steps ft env).

  (* Source-level meaning (the JavaScript unfolding) of `while (c) <iter>`, counting iterations:
     the condition is tested (precommands run, guards evaluated) before every iteration. *)
  Inductive loop_sem (c : cond) (iter : state -> state -> Prop) : state -> nat -> state -> Prop :=
  | LS_stop st st1 :
      runs (c_pre c) st st1 -> tests_hold st1 (c_tests c) = false -> loop_sem c iter st 0 st1
  | LS_iter st st1 st2 n st' :
      runs (c_pre c) st st1 -> tests_hold st1 (c_tests c) = true ->
      iter st1 st2 -> loop_sem c iter st2 n st' -> loop_sem c iter st (S n) st'.

  (* do <body> while (c): the body once, then as a while loop *)
  Inductive dowhile_sem (c : cond) (body : list cmd) : state -> nat -> state -> Prop :=
  | DW st st2 n st' :
      runs body st st2 -> loop_sem c (runs body) st2 n st' -> dowhile_sem c body st (S n) st'.

  (* for (init; c; step) <body>: init once, then while (c) { body; step } *)
  Definition body_then_step (body step : list cmd) (a b : state) : Prop :=
    exists m, runs body a m /\ runs step m b.
  Inductive for_sem (init : list cmd) (c : cond) (step body : list cmd) : state -> nat -> state -> Prop :=
  | FS st st0 n st' :
      runs init st st0 -> loop_sem c (body_then_step body step) st0 n st' ->
      for_sem init c step body st n st'.

  Lemma loop_sem_det c body st n1 st1 n2 st2 :
    loop_sem c (runs body) st n1 st1 -> loop_sem c (runs body) st n2 st2 -> n1 = n2 /\ st1 = st2.
  Proof.
    intros H. revert n2 st2.
    induction H as [st sa Hp T|st sa sb n st' Hp T Hi _ IH]; intros n2 st2 H2.
    - inversion H2 as [s0 sa' Hp' T' E0 E1 E2|s0 sa' sb' n' s1 Hp' T' Hi' Hl' E0 E1 E2];
        pose proof (runs_det _ _ _ _ _ _ Hp Hp') as Ea; subst; [split; reflexivity|congruence].
    - inversion H2 as [s0 sa' Hp' T' E0 E1 E2|s0 sa' sb' n' s1 Hp' T' Hi' Hl' E0 E1 E2];
        pose proof (runs_det _ _ _ _ _ _ Hp Hp') as Ea; subst; [congruence|].
      pose proof (runs_det _ _ _ _ _ _ Hi Hi') as Eb. subst.
      destruct (IH _ _ Hl') as [-> ->]. split; reflexivity.
  Qed.

  (* ---- the self-recursive function ---- *)
  Section Rec.
    Variable c : cond.
    Variable work : list cmd.            (* what one iteration does: the lines before the re-test *)
    Variable iter : state -> state -> Prop.
    Variable fn : string.
    Hypothesis work_iter : forall a b, runs work a b <-> iter a b.
    Let retest := guarded_call c (CCall fn).
    Hypothesis fn_def : ft fn = Some (work ++ retest).

    Lemma exec_guard_S fuel ts x st :
      exec ft env (S fuel) no_menv (CExecute (mods_of ts) x) st =
      if tests_hold st ts
      then match exec ft env fuel no_menv x st with Some (st', r) => Some (st', r) | None => None end
      else Some (st, r_fail).
    Proof.
      cbn [exec]. rewrite <- (app_nil_r (mods_of ts)), run_mods_tests.
      destruct (tests_hold st ts); [apply run_mods_nil|reflexivity].
    Qed.

    Lemma retest_fuel : forall fuel st st',
      exec_list ft env fuel retest st = Some st' -> exists n, loop_sem c iter st n st'.
    Proof.
      induction fuel as [fuel IH] using lt_wf_ind. intros st st' H.
      unfold retest, guarded_call in H. rewrite exec_list_app in H.
      destruct (exec_list ft env fuel (c_pre c) st) as [st1|] eqn:Hp; [|discriminate].
      assert (Rp : runs (c_pre c) st st1) by (exists fuel; exact Hp).
      unfold exec_list in H. cbn [seq_run] in H.
      destruct fuel as [|f1]; [discriminate|]. rewrite exec_guard_S in H.
      destruct (tests_hold st1 (c_tests c)) eqn:T.
      - destruct (exec ft env f1 no_menv (CCall fn) st1) as [[x r]|] eqn:Hc; [|discriminate].
        assert (x = st') by congruence. subst x. clear H.
        destruct f1 as [|f2]; [discriminate|]. cbn [exec] in Hc. rewrite fn_def in Hc.
        unfold call_res in Hc.
        destruct (seq_run (exec ft env f2 no_menv) (work ++ retest) st1) as [y|] eqn:Hs; [|discriminate].
        assert (y = st') by congruence. subst y.
        change (exec_list ft env f2 (work ++ retest) st1 = Some st') in Hs.
        rewrite exec_list_app in Hs.
        destruct (exec_list ft env f2 work st1) as [st2|] eqn:Hw; [|discriminate].
        destruct (IH f2 ltac:(lia) st2 st' Hs) as [n Hn].
        exists (S n). eapply LS_iter; eauto. apply work_iter. exists f2. exact Hw.
      - exists O. assert (st' = st1) by congruence. subst. apply LS_stop; assumption.
    Qed.

    Lemma retest_sem st n st' : loop_sem c iter st n st' -> runs retest st st'.
    Proof.
      induction 1 as [st st1 Hp T|st st1 st2 n st' Hp T Hi _ IH]; unfold retest, guarded_call; apply runs_app.
      - exists st1. split; [assumption|]. apply runs_single. rewrite steps_guard, T. reflexivity.
      - exists st1. split; [assumption|]. apply runs_single. rewrite steps_guard, T.
        rewrite (steps_call _ _ _ _ st1 st' fn_def). apply runs_app. exists st2.
        split; [apply work_iter; assumption|exact IH].
    Qed.

    Lemma retest_iff st st' : runs retest st st' <-> exists n, loop_sem c iter st n st'.
    Proof.
      split.
      - intros [fuel H]. eapply retest_fuel; eauto.
      - intros [n H]. eapply retest_sem; eauto.
    Qed.
  End Rec.

  Variable nm : names.

  Theorem while_correct c body k caller fs :
    while_code nm c body k = (caller, fs) -> installed ft fs ->
    forall st st', runs caller st st' <-> exists n, loop_sem c (runs body) st n st'.
  Proof.
    unfold while_code. intros E I st st'. inversion E; subst; clear E.
    inversion I as [|d ds Hf _]; subst. cbn [fst snd] in Hf.
    unfold retest, call_func. apply (retest_iff c body (runs body) _ (fun a b => iff_refl _) Hf).
  Qed.

  Theorem dowhile_correct c body k caller fs :
    dowhile_code nm c body k = (caller, fs) -> installed ft fs ->
    forall st st', runs caller st st' <-> exists n, dowhile_sem c body st n st'.
  Proof.
    unfold dowhile_code. intros E I st st'. inversion E; subst; clear E.
    inversion I as [|d ds Hf _]; subst. cbn [fst snd] in Hf. unfold retest, call_func in *.
    rewrite runs_single, (steps_call _ _ _ _ st st' Hf), runs_app. split.
    - intros (st2 & Hb & Hr).
      apply (retest_iff c body (runs body) _ (fun a b => iff_refl _) Hf) in Hr. destruct Hr as [n Hn].
      exists (S n). econstructor; eauto.
    - intros (n & H). inversion H as [s0 st2 n0 s1 Hbody Hloop]; subst. exists st2. split; [assumption|].
      apply (retest_iff c body (runs body) _ (fun a b => iff_refl _) Hf). eauto.
  Qed.

  Theorem for_correct init c step body k caller fs :
    for_code nm init c step body k = (caller, fs) -> installed ft fs ->
    forall st st', runs caller st st' <-> exists n, for_sem init c step body st n st'.
  Proof.
    unfold for_code. intros E I st st'. inversion E; subst; clear E.
    inversion I as [|d ds Hf _]; subst. cbn [fst snd] in Hf. unfold retest, call_func in *.
    rewrite app_assoc in Hf.
    assert (W : forall a b, runs (body ++ step) a b <-> body_then_step body step a b).
    { intros a b. apply runs_app. }
    rewrite runs_app. split.
    - intros (st0 & Hi & Hr). apply (retest_iff c _ _ _ W Hf) in Hr. destruct Hr as [n Hn].
      exists n. econstructor; eauto.
    - intros (n & H). inversion H as [s0 st0 n0 s1 Hinit Hloop]; subst. exists st0. split; [assumption|].
      apply (retest_iff c _ _ _ W Hf). eauto.
  Qed.

  (* ---- iteration count seen in the trace ---- *)
  Hypothesis env_tr : forall n st, tr (env n st) = tr st.

  Definition quiet_pre (x : cmd) : bool :=
    match x with
    | CSet _ _ => true
    | CExecute ms (CSet _ _) => forallb is_if ms
    | _ => false
    end.

  Lemma quiet_runs_tr l : forallb quiet_pre l = true -> forall st st1, runs l st st1 -> tr st1 = tr st.
  Proof.
    induction l as [|x l IH]; intros Q st st1 R.
    - apply runs_nil in R. subst. reflexivity.
    - cbn in Q. apply andb_true_iff in Q. destruct Q as [Qx Ql].
      apply runs_cons in R. destruct R as (st0 & Sx & Rl). rewrite (IH Ql _ _ Rl).
      destruct x; cbn in Qx; try discriminate.
      + apply steps_set in Sx. subst. reflexivity.
      + destruct x; try discriminate. destruct (ifs_mods_of _ Qx) as [ts ->].
        rewrite steps_guard in Sx. destruct (tests_hold st ts).
        * apply steps_set in Sx. subst. reflexivity.
        * subst. reflexivity.
  Qed.

  Lemma ext_runs_tr l : all_ext l = true -> forall st st1, runs l st st1 ->
    tr st1 = rev (map EExt (ext_ids l)) ++ tr st.
  Proof.
    intros A st st1 R. destruct (ext_runs ft env env_tr l st A) as (st2 & R2 & T).
    rewrite (runs_det _ _ _ _ _ _ R R2). exact T.
  Qed.

  Fixpoint times {A} (n : nat) (l : list A) : list A :=
    match n with O => [] | S n' => times n' l ++ l end.

  (* newest first: after n iterations the trace shows the body's events n times *)
  Theorem loop_trace c body :
    forallb quiet_pre (c_pre c) = true -> all_ext body = true ->
    forall st n st', loop_sem c (runs body) st n st' ->
      tr st' = times n (rev (map EExt (ext_ids body))) ++ tr st.
  Proof.
    intros Q A st n st' H. induction H as [st st1 Hp T|st st1 st2 n st' Hp T Hi _ IH].
    - cbn. eapply quiet_runs_tr; eauto.
    - rewrite IH, (ext_runs_tr _ A _ _ Hi), (quiet_runs_tr _ Q _ _ Hp). cbn [times].
      rewrite <- app_assoc. reflexivity.
  Qed.
End LoopSem.
