(* Proofs.MacroFacts — facts about macro expansion and the header model (C16). *)
From Coq Require Import ZArith String List Bool Ascii Lia.
From JMCV Require Import Base.Dec Model.Layout Model.Macro Proofs.LayoutBasic Proofs.LayoutAdj.
Import ListNotations.
Open Scope Z_scope.

Lemma custom_lt_position_free :
  forall a b a' b', o_order a = o_order a' -> o_order b = o_order b' -> o_left a = o_left a' ->
                    custom_lt a b = custom_lt a' b'.
Proof. intros [] [] [] []; cbn; intros -> -> ->; reflexivity. Qed.

(* ------------------------------------------------------------------ expansion *)
Lemma end_macro_map {A} (f : token -> A) toks e :
  (forall t e', f (mkTok (t_ty t) (t_line t) (t_col t) (t_str t) (t_mlen t) (Some e') (t_glued t)) = f t) ->
  map f (end_macro toks e) = map f toks.
Proof.
  intros Hf. induction toks as [|x r IH]; [reflexivity|].
  destruct r as [|y r']; [cbn; rewrite Hf; reflexivity|].
  change (end_macro (x :: y :: r') e) with (x :: end_macro (y :: r') e). cbn [map]. rewrite IH. reflexivity.
Qed.

Lemma expand_body_glued klen l c base prev g body :
  map t_glued (expand_body klen l c base prev g body) =
  match body with
  | [] => []
  | t :: r => (match prev with None => g | Some p => tt_adjacent p t end)
              :: map (fun p => tt_adjacent (fst p) (snd p)) (combine (t :: r) r)
  end.
Proof.
  revert prev. induction body as [|t r IH]; intros prev; [reflexivity|].
  cbn [expand_body map t_glued]. rewrite IH. destruct r; reflexivity.
Qed.

Lemma expand_body_text klen l c base prev g body :
  map (fun t => (t_ty t, t_str t)) (expand_body klen l c base prev g body) = map (fun t => (tt_ty t, tt_str t)) body.
Proof. revert prev. induction body as [|t r IH]; intros prev; [reflexivity|]. cbn. rewrite IH. reflexivity. Qed.

Lemma expand_macro_spec :
  forall m line col g,
    map t_glued (expand_macro m line col g) =
    match m_body m with
    | [] => []
    | t :: r => g :: map (fun p => tt_adjacent (fst p) (snd p)) (combine (t :: r) r)
    end /\
    map (fun t => (t_ty t, t_str t)) (expand_macro m line col g) = map (fun t => (tt_ty t, tt_str t)) (m_body m).
Proof.
  intros. unfold expand_macro. split.
  - rewrite end_macro_map by reflexivity. rewrite expand_body_glued. destruct (m_body m); reflexivity.
  - rewrite end_macro_map by reflexivity. apply expand_body_text.
Qed.

Lemma append_token_left_alone :
  forall mt ty st,
    (ty <> KEYWORD \/ lookup_macro mt (rev (s_tstr st)) = None) ->
    append_token mt ty st =
    Ok (push_tokens st [mkTok ty (fst (s_tpos st)) (snd (s_tpos st)) (rev (s_tstr st)) 0 None (s_pglued st)]).
Proof.
  intros mt ty st H. unfold append_token. destruct (s_tpos st) as [l c]. cbn [fst snd].
  destruct ty; try reflexivity. destruct H as [H|H]; [congruence|]. rewrite H. reflexivity.
Qed.

Lemma pinned_macro_adjacent_refuted :
  exists mt s toks,
    mt_ok mt /\ parse mt false true false false 1 1 s = Ok [toks] /\
    conn_flags_with is_connected_pinned toks <> map t_glued toks /\
    conn_flags_with is_connected toks = map t_glued toks.
Proof.
  exists [mkMacro (s2l "N") 0 [mkTT KEYWORD 11 (s2l "100")]], (s2l "tp @s N  ~ ~;"). eexists.
  split.
  { intros k m H Ha. cbn [lookup_macro m_key] in H. destruct (str_eqb _ k); [|discriminate]. injection H as <-.
    unfold macro_ok; cbn. split; [discriminate|]. split; [repeat constructor; right; reflexivity|reflexivity]. }
  split; [vm_compute; reflexivity|]. split; [vm_compute; discriminate|vm_compute; reflexivity].
Qed.

(* ------------------------------------------------------------------ #enum *)
Lemma str_eqb_refl s : str_eqb s s = true.
Proof. induction s; cbn; [reflexivity|]. rewrite Ascii.eqb_refl. assumption. Qed.
Lemma str_eqb_neq a b : a <> b -> str_eqb a b = false.
Proof. intros H. destruct (str_eqb a b) eqn:E; [apply str_eqb_eq in E; contradiction|reflexivity]. Qed.

Definition enum_key (cls : str) (it : token) : str := cls ++ [ch "."] ++ t_str it.

Lemma enum_key_inj cls a b : enum_key cls a = enum_key cls b -> t_str a = t_str b.
Proof. unfold enum_key. intros H. apply app_inv_head in H. cbn in H. injection H. auto. Qed.

Lemma enum_items_other pe cls items : forall start first h key,
  (forall it, In it items -> enum_key cls it <> key) ->
  lookup_macro (h_mt (enum_items pe cls items start first h)) key = lookup_macro (h_mt h) key /\
  (pe = false -> lookup_num (h_num (enum_items pe cls items start first h)) key = lookup_num (h_num h) key).
Proof.
  induction items as [|it r IH]; intros start first h key Hn; [split; reflexivity|].
  cbn [enum_items].
  match goal with |- context [enum_items pe cls r (start + 1) first ?hh] => set (h1 := hh) end.
  destruct (IH (start + 1) first h1 key) as [A B].
  { intros x Hx. apply Hn. now right. }
  assert (Hne : str_eqb (enum_key cls it) key = false) by (apply str_eqb_neq, Hn; now left).
  unfold enum_key in Hne. split.
  - rewrite A. subst h1. cbn [h_mt h_num lookup_macro lookup_num m_key fst snd]. rewrite Hne. reflexivity.
  - intros ->. rewrite (B eq_refl). subst h1. cbn [h_mt h_num lookup_macro lookup_num m_key fst snd]. rewrite Hne. reflexivity.
Qed.

Lemma enum_items_spec cls items : forall start first h k it,
  nth_error items k = Some it ->
  (forall j it', (k < j)%nat -> nth_error items j = Some it' -> t_str it' <> t_str it) ->
  let h' := enum_items false cls items start first h in
  let key := enum_key cls it in
  let v := s2l (z_dec (start + Z.of_nat k)) in
  lookup_macro (h_mt h') key = Some (mkMacro key 0 [mkTT KEYWORD 0 v]) /\ lookup_num (h_num h') key = Some v.
Proof.
  induction items as [|x r IH]; intros start first h k it Hk Hlater; [destruct k; discriminate|].
  destruct k as [|k]; cbn in Hk.
  - injection Hk as ->. cbn [enum_items].
    match goal with |- context [enum_items false cls r (start + 1) first ?hh] => set (h1 := hh) end.
    destruct (enum_items_other false cls r (start + 1) first h1 (enum_key cls it)) as [A B].
    { intros y Hy E. apply enum_key_inj in E. apply In_nth_error in Hy. destruct Hy as [j Hj].
      apply (Hlater (S j) y); [lia|exact Hj|exact E]. }
    cbn zeta. rewrite A, (B eq_refl). subst h1. unfold enum_key. cbn [h_mt h_num lookup_macro lookup_num m_key fst snd]. rewrite str_eqb_refl. cbn [Z.of_nat]. rewrite Z.add_0_r.
    split; reflexivity.
  - cbn [enum_items].
    match goal with |- context [enum_items false cls r (start + 1) first ?hh] => set (h1 := hh) end.
    specialize (IH (start + 1) first h1 k it Hk).
    cbn zeta in IH |- *. replace (start + Z.of_nat (S k)) with (start + 1 + Z.of_nat k) by lia.
    apply IH. intros j it' Hj Hn. apply (Hlater (S j) it'); [lia|exact Hn].
Qed.

Lemma enum_pinned_refuted :
  exists cls items first h k it,
    nth_error items k = Some it /\
    lookup_num (h_num (enum_items true cls items 0 first h)) (enum_key cls it) = None /\
    lookup_num (h_num (enum_items false cls items 0 first h)) (enum_key cls it) = Some (s2l "1").
Proof.
  exists (s2l "Color"), [mkTok KEYWORD 1 13 (s2l "RED") 0 None false; mkTok KEYWORD 1 17 (s2l "GREEN") 0 None false],
         (s2l "RED"), (mkH [] [] []), 1%nat. eexists. split; [reflexivity|]. split; vm_compute; reflexivity.
Qed.
