(* Proofs/Lazy.v — C19: @lazy binding, and the witnesses of what the code before the fix got wrong. *)
From Coq Require Import ZArith String List Bool Arith Lia Ascii.
From JMCV Require Import Base.Dec Model.StrOps Model.Hardcode Model.Lazy.
Import ListNotations.
Close Scope Z_scope.
Open Scope nat_scope.

(* ------------------------------------------------------------------ witnesses (pinned code) *)

Lemma lazy_pinned_refuted :
  exists body b,
    bind ["a"; "b"]%string ["$b"; "5"]%string [] = BOk b /\
    lazy_subst HPinned body b <> lazy_subst HRepaired body b /\
    lazy_subst HPinned body b = " say ""5 5""; "%string /\
    lazy_subst HRepaired body b = " say ""$b 5""; "%string.
Proof.
  exists " say ""$a $b""; "%string, [("a", "$b"); ("b", "5")]%string.
  split; [vm_compute; reflexivity|].
  split; [vm_compute; discriminate|].
  split; vm_compute; reflexivity.
Qed.

Lemma repeatlist_pinned_refuted :
  exists body,
    until_err (repeat_list_texts HPinned [] body "i" "item" ["a"]%string) = (["{ say ""0 0tem""; }"%string], None) /\
    until_err (repeat_list_texts HRepaired [] body "i" "item" ["a"]%string) = (["{ say ""0 a""; }"%string], None).
Proof. exists "{ say ""$i $item""; }"%string. split; vm_compute; reflexivity. Qed.

Lemma repeatlists_pinned_refuted :
  exists body,
    until_err (repeat_lists_texts HPinned [] body ["i"; "a"]%string [["x"]]%string)
      = (["{ say ""x 1 Hardcode.calc(0*2)""; }"%string], None) /\
    until_err (repeat_lists_texts HRepaired [] body ["i"; "a"]%string [["x"]]%string)
      = (["{ say ""x 1 0""; }"%string], None).
Proof.
  exists "{ say ""$a Hardcode.calc($i+1) Hardcode.calc($i*2)""; }"%string.
  split; vm_compute; reflexivity.
Qed.

(* ------------------------------------------------------------------ positional binding *)

Lemma dict_set_fresh p v acc :
  ~ In p (map fst acc) -> dict_set p v acc = acc ++ [(p, v)].
Proof.
  induction acc as [|[k w] acc IH]; intros H; cbn [dict_set]; [reflexivity|].
  cbn [map fst In] in H.
  destruct (String.eqb p k) eqn:E.
  - apply String.eqb_eq in E. subst. exfalso. apply H. now left.
  - rewrite IH; [reflexivity|]. intros Hin. apply H. now right.
Qed.

Lemma skipn_nth_error {A} (l : list A) i v :
  nth_error l i = Some v -> skipn i l = v :: skipn (S i) l.
Proof.
  revert i. induction l as [|x l IH]; intros [|i] H; cbn in *; try discriminate.
  - now injection H as ->.
  - now apply IH.
Qed.

Lemma bind_loop_positional pos : forall ps i acc,
  NoDup ps -> (forall p, In p ps -> ~ In p (map fst acc)) ->
  length pos = i + length ps ->
  bind_loop i ps pos [] acc = BOk (acc ++ combine ps (skipn i pos)).
Proof.
  induction ps as [|p ps IH]; intros i acc Hnd Hfresh Hlen.
  - cbn. now rewrite app_nil_r.
  - cbn [bind_loop kw_get].
    destruct (nth_error pos i) as [v|] eqn:E.
    2:{ apply nth_error_None in E. cbn in Hlen. lia. }
    inversion Hnd as [|? ? Hnotin Hnd']; subst.
    rewrite dict_set_fresh by (apply Hfresh; now left).
    rewrite IH.
    + rewrite (skipn_nth_error pos i v E). cbn [combine]. now rewrite <- app_assoc.
    + exact Hnd'.
    + intros q Hq. rewrite map_app, in_app_iff. cbn. intros [H | [H | []]].
      * apply (Hfresh q); [now right | exact H].
      * subst. contradiction.
    + cbn in Hlen. lia.
Qed.

Lemma bind_positional :
  forall params pos,
    NoDup params -> length pos = length params ->
    bind params pos [] = BOk (combine params pos).
Proof.
  intros params pos Hnd Hlen. unfold bind.
  rewrite Hlen, Nat.ltb_irrefl.
  rewrite bind_loop_positional; auto.
Qed.

(* ------------------------------------------------------------------ general binding (strengthening round 1) *)

Lemma kw_get_some_in p kw v : kw_get p kw = Some v -> In p (map fst kw).
Proof.
  induction kw as [|[k w] kw IH]; cbn; [discriminate|].
  destruct (String.eqb p k) eqn:E; intros H.
  - apply String.eqb_eq in E. now left.
  - right. now apply IH.
Qed.

Lemma kw_get_none_notin p kw : kw_get p kw = None -> ~ In p (map fst kw).
Proof.
  induction kw as [|[k w] kw IH]; cbn; [tauto|].
  destruct (String.eqb p k) eqn:E; intros H; [discriminate|].
  apply String.eqb_neq in E. intros [H1 | H1]; [congruence | now apply IH].
Qed.

Lemma kw_del_keys p kw k :
  In k (map fst (kw_del p kw)) -> In k (map fst kw).
Proof.
  induction kw as [|[k' w] kw IH]; cbn; [tauto|].
  destruct (String.eqb p k') eqn:E; cbn; intros H.
  - now right.
  - destruct H as [H | H]; [now left | right; now apply IH].
Qed.

Lemma kw_del_nodup p kw : NoDup (map fst kw) -> NoDup (map fst (kw_del p kw)).
Proof.
  induction kw as [|[k' w] kw IH]; cbn; intros H; [constructor|].
  inversion H as [|? ? Hn Hd]; subst.
  destruct (String.eqb p k') eqn:E; cbn; [exact Hd|].
  constructor; [|now apply IH].
  intros Hin. apply Hn. now apply kw_del_keys in Hin.
Qed.

Lemma kw_del_removes p kw : NoDup (map fst kw) -> ~ In p (map fst (kw_del p kw)).
Proof.
  induction kw as [|[k' w] kw IH]; cbn; intros H; [tauto|].
  inversion H as [|? ? Hn Hd]; subst.
  destruct (String.eqb p k') eqn:E; cbn.
  - apply String.eqb_eq in E. now subst.
  - apply String.eqb_neq in E. intros [H1 | H1]; [congruence | now apply IH].
Qed.

Lemma kw_get_del_other p q kw : q <> p -> kw_get q (kw_del p kw) = kw_get q kw.
Proof.
  intros Hne. induction kw as [|[k' w] kw IH]; cbn; [reflexivity|].
  destruct (String.eqb p k') eqn:E; cbn.
  - apply String.eqb_eq in E. subst k'.
    destruct (String.eqb q p) eqn:E2; [apply String.eqb_eq in E2; congruence | reflexivity].
  - destruct (String.eqb q k'); [reflexivity | exact IH].
Qed.

Lemma expected_bind_ext ps : forall i pos kw1 kw2,
  (forall q, In q ps -> kw_get q kw1 = kw_get q kw2) ->
  expected_bind i ps pos kw1 = expected_bind i ps pos kw2.
Proof.
  induction ps as [|p ps IH]; intros i pos kw1 kw2 H; cbn; [reflexivity|].
  rewrite (H p) by now left. f_equal. apply IH. intros q Hq. apply H. now right.
Qed.

Lemma bind_loop_general pos : forall ps i kw acc,
  NoDup ps -> NoDup (map fst kw) ->
  (forall k, In k (map fst kw) -> In k ps) ->
  (forall p, In p ps -> ~ In p (map fst acc)) ->
  (forall j p, nth_error ps j = Some p -> kw_get p kw = None -> i + j < length pos) ->
  bind_loop i ps pos kw acc = BOk (acc ++ expected_bind i ps pos kw).
Proof.
  induction ps as [|p ps IH]; intros i kw acc Hnd Hkd Hsub Hfresh Hidx.
  - cbn. destruct kw as [|[k w] kw].
    + cbn. now rewrite app_nil_r.
    + exfalso. apply (Hsub k). now left.
  - inversion Hnd as [|? ? Hnotin Hnd']; subst.
    cbn [bind_loop expected_bind].
    destruct (kw_get p kw) as [v|] eqn:Eg.
    + rewrite dict_set_fresh by (apply Hfresh; now left).
      rewrite IH.
      * rewrite <- app_assoc. cbn [app]. do 3 f_equal.
        apply expected_bind_ext. intros q Hq. apply kw_get_del_other. intros ->. contradiction.
      * exact Hnd'.
      * now apply kw_del_nodup.
      * intros k Hk. pose proof (kw_del_removes p kw Hkd) as Hrm.
        destruct (Hsub k (kw_del_keys _ _ _ Hk)) as [<- | Hin]; [contradiction | exact Hin].
      * intros q Hq. rewrite map_app, in_app_iff. cbn. intros [H | [H | []]].
        -- apply (Hfresh q); [now right | exact H].
        -- subst. contradiction.
      * intros j q Hj Hn. rewrite kw_get_del_other in Hn by (intros ->; apply nth_error_In in Hj; contradiction).
        specialize (Hidx (S j) q Hj Hn). lia.
    + assert (Hlt : i < length pos) by (specialize (Hidx 0 p eq_refl Eg); lia).
      destruct (nth_error pos i) as [v|] eqn:En; [|apply nth_error_None in En; lia].
      rewrite (nth_error_nth _ _ _ En).
      rewrite dict_set_fresh by (apply Hfresh; now left).
      rewrite IH.
      * now rewrite <- app_assoc.
      * exact Hnd'.
      * exact Hkd.
      * intros k Hk. destruct (Hsub k Hk) as [<- | Hin]; [|exact Hin].
        exfalso. exact (kw_get_none_notin _ _ Eg Hk).
      * intros q Hq. rewrite map_app, in_app_iff. cbn. intros [H | [H | []]].
        -- apply (Hfresh q); [now right | exact H].
        -- subst. contradiction.
      * intros j q Hj Hn. specialize (Hidx (S j) q Hj Hn). lia.
Qed.

Lemma bind_general :
  forall params pos kw,
    NoDup params -> NoDup (map fst kw) ->
    length pos <= length params ->
    (forall k, In k (map fst kw) -> In k params) ->
    (forall j p, nth_error params j = Some p -> kw_get p kw = None -> j < length pos) ->
    bind params pos kw = BOk (expected_bind 0 params pos kw).
Proof.
  intros params pos kw Hnd Hkd Hlen Hsub Hidx. unfold bind.
  destruct (length params <? length pos) eqn:E; [apply Nat.ltb_lt in E; lia|].
  rewrite bind_loop_general; auto.
Qed.

(* ------------------------------------------------------------------ argument text *)

Lemma arg_text_form_independent :
  forall toks, arg_text HRepaired true toks = arg_text HRepaired false toks.
Proof. intros toks. reflexivity. Qed.

Lemma arg_text_pinned_refuted :
  exists toks, arg_text HPinned true toks <> arg_text HPinned false toks /\
               arg_text HPinned false toks <> arg_text HRepaired false toks.
Proof.
  exists [AFunc "(i)" "{ say ""$i""; }"]%string. split; vm_compute; discriminate.
Qed.

Lemma str_app_empty_r (s : string) : (s ++ "")%string = s.
Proof. induction s as [|c s IH]; cbn; [reflexivity | now rewrite IH]. Qed.

(* tokens apart in the source stay apart: between two plain tokens exactly one blank, between adjacent ones nothing *)
Lemma arg_text_spacing :
  forall kw a b,
    arg_text HRepaired kw [AOther a; AGap; AOther b] = (a ++ " " ++ b)%string /\
    arg_text HRepaired kw [AOther a; AOther b] = (a ++ b)%string /\
    arg_text HPinned kw [AOther a; AGap; AOther b] = (a ++ b)%string.
Proof.
  intros kw a b. unfold arg_text, arg_text_gen. cbn.
  rewrite ?str_app_empty_r. repeat split; reflexivity.
Qed.

Lemma arg_text_string : forall m kw s, arg_text m kw [AStr false s] = py_repr s.
Proof.
  intros m kw s. unfold arg_text, arg_text_gen. cbn.
  destruct m; cbn; now rewrite ?str_app_empty_r.
Qed.

(* the literal written for a string argument reads back as the same string *)
Lemma unquote_repr_body q s :
  q = SQ \/ q = DQ ->
  unquote_body q (repr_body q s ++ String q EmptyString) = Some s.
Proof.
  intros Hq. induction s as [|c r IH].
  - cbn. rewrite Ascii.eqb_refl. reflexivity.
  - cbn [repr_body].
    destruct (Ascii.eqb c BS) eqn:E1.
    { apply Ascii.eqb_eq in E1. subst c.
      destruct Hq as [-> | ->]; cbn; cbn in IH; rewrite IH; reflexivity. }
    destruct (Ascii.eqb c q) eqn:E2.
    { apply Ascii.eqb_eq in E2. subst c.
      destruct Hq as [-> | ->]; cbn; cbn in IH; rewrite IH; reflexivity. }
    destruct (Ascii.eqb c "010"%char) eqn:E3.
    { apply Ascii.eqb_eq in E3. subst c.
      destruct Hq as [-> | ->]; cbn; cbn in IH; rewrite IH; reflexivity. }
    destruct (Ascii.eqb c "009"%char) eqn:E4.
    { apply Ascii.eqb_eq in E4. subst c.
      destruct Hq as [-> | ->]; cbn; cbn in IH; rewrite IH; reflexivity. }
    destruct (Ascii.eqb c "013"%char) eqn:E5.
    { apply Ascii.eqb_eq in E5. subst c.
      destruct Hq as [-> | ->]; cbn; cbn in IH; rewrite IH; reflexivity. }
    cbn [append unquote_body]. rewrite E2, E3, E1. rewrite IH. reflexivity.
Qed.

Lemma py_unquote_repr : forall s, py_unquote (py_repr s) = Some s.
Proof.
  intros s. unfold py_repr, py_unquote.
  assert (Hq : repr_quote s = SQ \/ repr_quote s = DQ).
  { unfold repr_quote. destruct (contains_char SQ s && negb (contains_char DQ s)); auto. }
  destruct Hq as [Hq | Hq]; rewrite Hq; cbn [Ascii.eqb orb];
    [change (Ascii.eqb SQ SQ) with true | change (Ascii.eqb DQ SQ || Ascii.eqb DQ DQ) with true]; cbn [orb];
    apply unquote_repr_body; auto.
Qed.

Lemma lazy_string_argument_roundtrip :
  forall m kw s, py_unquote (arg_text m kw [AStr false s]) = Some s.
Proof. intros. rewrite arg_text_string. apply py_unquote_repr. Qed.
