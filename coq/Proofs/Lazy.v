(* Proofs/Lazy.v — C19: @lazy binding, and the witnesses of what the code before the fix got wrong. *)
From Coq Require Import ZArith String List Bool Arith Lia.
From JMCV Require Import Base.Dec Model.StrOps Model.Hardcode Model.Lazy.
Import ListNotations.
Close Scope Z_scope.
Open Scope nat_scope.

(* ------------------------------------------------------------------ witnesses (pinned code) *)

Lemma lazy_pinned_refuted :
  exists body b,
    bind ["a"; "b"]%string ["$b"; "5"]%string [] = BOk b /\
    lazy_subst HPinned body b <> lazy_subst HRepaired body b /\
    lazy_subst HPinned body b = " say ""5 5""; "%string /\
    lazy_subst HRepaired body b = " say ""$b 5""; "%string.
Proof.
  exists " say ""$a $b""; "%string, [("a", "$b"); ("b", "5")]%string.
  split; [vm_compute; reflexivity|].
  split; [vm_compute; discriminate|].
  split; vm_compute; reflexivity.
Qed.

Lemma repeatlist_pinned_refuted :
  exists body,
    until_err (repeat_list_texts HPinned [] body "i" "item" ["a"]%string) = (["{ say ""0 0tem""; }"%string], None) /\
    until_err (repeat_list_texts HRepaired [] body "i" "item" ["a"]%string) = (["{ say ""0 a""; }"%string], None).
Proof. exists "{ say ""$i $item""; }"%string. split; vm_compute; reflexivity. Qed.

Lemma repeatlists_pinned_refuted :
  exists body,
    until_err (repeat_lists_texts HPinned [] body ["i"; "a"]%string [["x"]]%string)
      = (["{ say ""x 1 Hardcode.calc(0*2)""; }"%string], None) /\
    until_err (repeat_lists_texts HRepaired [] body ["i"; "a"]%string [["x"]]%string)
      = (["{ say ""x 1 0""; }"%string], None).
Proof.
  exists "{ say ""$a Hardcode.calc($i+1) Hardcode.calc($i*2)""; }"%string.
  split; vm_compute; reflexivity.
Qed.

(* ------------------------------------------------------------------ positional binding *)

Lemma dict_set_fresh p v acc :
  ~ In p (map fst acc) -> dict_set p v acc = acc ++ [(p, v)].
Proof.
  induction acc as [|[k w] acc IH]; intros H; cbn [dict_set]; [reflexivity|].
  cbn [map fst In] in H.
  destruct (String.eqb p k) eqn:E.
  - apply String.eqb_eq in E. subst. exfalso. apply H. now left.
  - rewrite IH; [reflexivity|]. intros Hin. apply H. now right.
Qed.

Lemma skipn_nth_error {A} (l : list A) i v :
  nth_error l i = Some v -> skipn i l = v :: skipn (S i) l.
Proof.
  revert i. induction l as [|x l IH]; intros [|i] H; cbn in *; try discriminate.
  - now injection H as ->.
  - now apply IH.
Qed.

Lemma bind_loop_positional pos : forall ps i acc,
  NoDup ps -> (forall p, In p ps -> ~ In p (map fst acc)) ->
  length pos = i + length ps ->
  bind_loop i ps pos [] acc = BOk (acc ++ combine ps (skipn i pos)).
Proof.
  induction ps as [|p ps IH]; intros i acc Hnd Hfresh Hlen.
  - cbn. now rewrite app_nil_r.
  - cbn [bind_loop kw_get].
    destruct (nth_error pos i) as [v|] eqn:E.
    2:{ apply nth_error_None in E. cbn in Hlen. lia. }
    inversion Hnd as [|? ? Hnotin Hnd']; subst.
    rewrite dict_set_fresh by (apply Hfresh; now left).
    rewrite IH.
    + rewrite (skipn_nth_error pos i v E). cbn [combine]. now rewrite <- app_assoc.
    + exact Hnd'.
    + intros q Hq. rewrite map_app, in_app_iff. cbn. intros [H | [H | []]].
      * apply (Hfresh q); [now right | exact H].
      * subst. contradiction.
    + cbn in Hlen. lia.
Qed.

Lemma bind_positional :
  forall params pos,
    NoDup params -> length pos = length params ->
    bind params pos [] = BOk (combine params pos).
Proof.
  intros params pos Hnd Hlen. unfold bind.
  rewrite Hlen, Nat.ltb_irrefl.
  rewrite bind_loop_positional; auto.
Qed.
