(* Proofs.LitFmt — C09 (round 4): FormattedText (Model.Lit section 2b).
   The components emitted for a formatted literal carry, in order, exactly the text of the literal without its
   codes -- whatever the runs of text consist of (blank runs included), wherever they stand (start, between two
   codes, before a selector / score component, end), for every literal: induction over the literal with the
   invariant  texts(result) ++ current text = text read so far. *)
From Coq Require Import ZArith Bool String Ascii List Lia.
From JMCV Require Import Model.Lit Proofs.LitBase.
Import ListNotations.
Open Scope Z_scope.

Definition all_text (st : fstate) : str := comp_texts (f_res st) ++ f_text st.

Lemma comp_texts_app a b : comp_texts (a ++ b) = comp_texts a ++ comp_texts b.
Proof. unfold comp_texts. apply flat_map_app. Qed.

Lemma split_last_spec {A} (l i : list A) x : split_last l = Some (i, x) -> l = i ++ [x].
Proof.
  revert i; induction l as [|a l IH]; intros i H; [discriminate|].
  cbn [split_last] in H. destruct l as [|b l].
  - injection H as <- <-. reflexivity.
  - destruct (split_last (b :: l)) as [[i' z]|] eqn:E; [|discriminate].
    injection H as <- <-. cbn [app]. f_equal. now apply IH.
Qed.

(* __push keeps the text and leaves the current text empty *)
Lemma push_texts st : all_text (f_push st) = all_text st /\ f_text (f_push st) = [].
Proof.
  unfold f_push. destruct (f_text st) as [|c t] eqn:Et.
  { split; [reflexivity|exact Et]. }
  assert (Hfresh : forall a, all_text (mkF [] [] (f_res st ++ [mkComp (Some (c :: t)) a]) (f_color st)) = all_text st).
  { intros a. unfold all_text. cbn [f_res f_text]. rewrite comp_texts_app, Et. cbn. now rewrite !app_nil_r. }
  destruct (split_last (f_res st)) as [[init [[tx|] a]]|] eqn:Es; try (split; [apply Hfresh|reflexivity]).
  destruct (color_only a) as [c1|]; [|split; [apply Hfresh|reflexivity]].
  destruct (color_only (f_cur st)) as [c2|]; [|split; [apply Hfresh|reflexivity]].
  destruct (str_eqb c1 c2); [|split; [apply Hfresh|reflexivity]].
  split; [|reflexivity]. apply split_last_spec in Es.
  unfold all_text. cbn [f_res f_text]. rewrite Es, Et, !comp_texts_app. cbn. rewrite !app_nil_r.
  now rewrite <- app_assoc.
Qed.

Lemma code_texts strict c st st' :
  f_code strict c st = Ok st' -> f_text st' = f_text st /\ f_res st' = f_res st.
Proof.
  unfold f_code. destruct (code_prop c) as [[col|k]|].
  - intros H. injection H as <-. split; reflexivity.
  - intros H. injection H as <-. split; reflexivity.
  - destruct strict; [discriminate|]. intros H. injection H as <-. split; reflexivity.
Qed.

Lemma prop_texts var p st st' :
  f_prop var p st = Ok st' -> f_text st' = f_text st /\ f_res st' = f_res st.
Proof.
  unfold f_prop. intros H.
  repeat match type of H with
         | (if ?b then _ else _) = _ => destruct b
         | match ?x with Some _ => _ | None => _ end = _ => destruct x
         | (let (_, _) := ?x in _) = _ => destruct x
         | Diag = Ok _ => discriminate
         | Unmodelled = Ok _ => discriminate
         | Ok _ = Ok _ => injection H as <-; split; reflexivity
         end.
Qed.

Lemma props_texts var ps : forall st st',
  f_props var ps st = Ok st' -> f_text st' = f_text st /\ f_res st' = f_res st.
Proof.
  induction ps as [|p ps IH]; intros st st' H; cbn [f_props] in H.
  - injection H as <-. split; reflexivity.
  - destruct (f_prop var p st) as [st1| | |] eqn:E; cbn [rbind] in H; try discriminate.
    destruct (prop_texts var p st st1 E) as [A B]. destruct (IH st1 st' H) as [C D].
    split; congruence.
Qed.

(* __parse_bracket runs right after a push: nothing is pending, and nothing is lost *)
Lemma bracket_texts var content st st' :
  f_text st = [] -> f_bracket var content st = Ok st' -> all_text st' = all_text st /\ f_text st' = [].
Proof.
  intros Ht H. unfold f_bracket in H.
  destruct (f_props var (split_on 44 content) st) as [st1| | |] eqn:E; cbn [rbind] in H; try discriminate.
  destruct (props_texts var _ st st1 E) as [A B].
  destruct (has_content _) in H; injection H as <-; unfold all_text; cbn [f_res f_text].
  - rewrite comp_texts_app, B, Ht. cbn. rewrite !app_nil_r. split; reflexivity.
  - rewrite A, B. split; [reflexivity|exact Ht].
Qed.

Lemma fmt_plain_bracket a b s : fmt_plain (FBracket a) s = fmt_plain (FBracket b) s.
Proof. induction s as [|c r IH]; [reflexivity|]. cbn [fmt_plain]. destruct (c =? 62); [reflexivity|exact IH]. Qed.

Definition mode_ok (m : fmode) (st : fstate) : Prop :=
  match m with FBracket _ => f_text st = [] | _ => True end.

Theorem run_texts strict var s : forall m st st',
  mode_ok m st -> f_run strict var m s st = Ok st' ->
  all_text st' = all_text st ++ fmt_plain m s /\ f_text st' = [].
Proof.
  induction s as [|c r IH]; intros m st st' Hm H.
  - destruct m; cbn [f_run] in H; try discriminate. injection H as <-.
    cbn [fmt_plain]. rewrite app_nil_r. apply push_texts.
  - destruct m as [| |acc]; cbn [f_run fmt_plain] in *.
    + destruct (c =? 38).
      * exact (IH FCode st st' I H).
      * destruct (IH FNorm _ st' I H) as [A B]. split; [|exact B].
        rewrite A. unfold all_text. cbn [f_res f_text]. now rewrite <- !app_assoc.
    + destruct (c =? 38).
      * destruct (IH FNorm _ st' I H) as [A B]. split; [|exact B].
        rewrite A. unfold all_text. cbn [f_res f_text]. now rewrite <- !app_assoc.
      * destruct (push_texts st) as [P1 P2]. destruct (c =? 60).
        -- destruct (IH (FBracket []) (f_push st) st' P2 H) as [A B]. split; [|exact B]. now rewrite A, P1.
        -- destruct (f_code strict c (f_push st)) as [st1| | |] eqn:E; cbn [rbind] in H; try discriminate.
           destruct (code_texts strict c _ st1 E) as [C D].
           destruct (IH FNorm st1 st' I H) as [A B]. split; [|exact B].
           rewrite A. f_equal. rewrite <- P1. unfold all_text. now rewrite C, D.
    + cbn [mode_ok] in Hm. destruct (c =? 62).
      * destruct (f_bracket var (rev acc) st) as [st1| | |] eqn:E; cbn [rbind] in H; try discriminate.
        destruct (bracket_texts var _ st st1 Hm E) as [C D].
        destruct (IH FNorm st1 st' I H) as [A B]. split; [|exact B]. now rewrite A, C.
      * rewrite (fmt_plain_bracket acc (c :: acc)). exact (IH (FBracket (c :: acc)) st st' Hm H).
Qed.

(* the theorem: every literal, every mix of codes *)
Theorem fmt_text_preserved strict var s cs :
  fmt_parse strict var s = Ok cs -> comp_texts cs = fmt_plain FNorm s.
Proof.
  unfold fmt_parse. intros H.
  destruct (f_run strict var FNorm s f_init) as [st| | |] eqn:E; cbn [rmap] in H; try discriminate.
  injection H as <-. destruct (run_texts strict var s FNorm f_init st I E) as [A B].
  unfold all_text in A. rewrite B, app_nil_r in A. exact A.
Qed.

(* a run of text between two codes, blank or not, is not lost: spelled out for the shape
   <anything> <run without '&'> <anything that starts a code or ends the literal> *)
Lemma fmt_plain_norm_run run b :
  memz 38 run = false -> fmt_plain FNorm (run ++ b) = run ++ fmt_plain FNorm b.
Proof.
  induction run as [|c r IH]; cbn [memz existsb app fmt_plain]; intros H; [reflexivity|].
  apply orb_false_iff in H as [H1 H2]. rewrite Z.eqb_sym in H1. rewrite H1.
  unfold memz in IH. now rewrite IH.
Qed.

(* ------------------------------------------------------------------ text without '&' *)
Lemma run_plain strict var s : forall t col,
  memz 38 s = false -> f_run strict var FNorm s (mkF t [] [] col) = Ok (f_push (mkF (t ++ s) [] [] col)).
Proof.
  induction s as [|c r IH]; intros t col H; cbn [f_run].
  - now rewrite app_nil_r.
  - cbn [memz existsb] in H. apply orb_false_iff in H as [H1 H2]. rewrite Z.eqb_sym in H1. rewrite H1.
    cbn [f_text f_cur f_res f_color]. unfold memz in IH. rewrite IH by assumption. now rewrite <- app_assoc.
Qed.

Theorem fmt_emit_plain strict var ni s :
  memz 38 s = false -> fmt_emit strict var ni s = Ok (json_emit s).
Proof.
  intros H. unfold fmt_emit, fmt_parse, f_init. rewrite run_plain by assumption. cbn [app rmap].
  destruct s as [|c r]; [reflexivity|]. reflexivity.
Qed.

(* non-vacuity of the invariant: a blank run before a selector component *)
Example fmt_blank_before_selector :
  fmt_emit true (lit "__variable__") false (lit "&c  &<@s>  ") =
  Ok (lit "["""",{""text"":""  "",""color"":""red""},{""selector"":""@s"",""color"":""red""},{""text"":""  "",""color"":""red""}]").
Proof. reflexivity. Qed.
