(* Proofs.LitCtx — contexts only put a literal-independent prefix in front of the command;
   carriers read back what was emitted; the pinned tree's global replaces do not. *)
From Coq Require Import ZArith Bool String Ascii List Lia.
From JMCV Require Import Model.Lit Proofs.LitBase Proofs.LitJson Proofs.LitNbt Proofs.LitFmt.
Import ListNotations.
Open Scope Z_scope.

(* ------------------------------------------------------------------ wrappers *)
Definition test_ok (t : str) : bool :=
  match t with c :: _ => (c =? 101) && (length t <=? 14)%nat | [] => false end.
Definition wrapper_ok (w : wrapper) : bool :=
  match w with WJoin t m => test_ok t && mods_wf m | WReturn => true end.

(* an assembled prefix: empty, or not starting with the letter e, or a long `execute ...` *)
Definition good (q : str) : Prop :=
  q = [] \/ (exists c r, q = c :: r /\ c <> 101) \/ ((14 <= length q)%nat /\ prefixb EXECUTE_ q = true).

(* a command that does not start with the letter e *)
Definition l_ok (l : str) : Prop := match l with c :: _ => c <> 101 | [] => True end.

Lemma test_prefix_app t q l :
  test_ok t = true -> good q -> l_ok l -> prefixb t (q ++ l) = prefixb t q.
Proof.
  intros Ht Hq Hl. destruct t as [|x t]; [discriminate|].
  cbn [test_ok] in Ht. apply andb_true_iff in Ht as [Hx Hlen]. apply Z.eqb_eq in Hx. subst x.
  apply Nat.leb_le in Hlen.
  destruct Hq as [-> | [(c & r & -> & Hc) | [Hlong _]]].
  - cbn [app]. destruct l as [|c l]; [reflexivity|]. cbn in Hl.
    rewrite prefixb_hd_neq; [reflexivity|]. cbn. congruence.
  - cbn [app]. rewrite !prefixb_hd_neq; cbn; congruence.
  - apply prefixb_app_long. lia.
Qed.

Lemma prefixb_cons_hd x t c r : prefixb (x :: t) (c :: r) = true -> x = c.
Proof. cbn [prefixb]. intros H. apply andb_true_iff in H as [H _]. now apply Z.eqb_eq in H. Qed.

Lemma test_true_long t q : test_ok t = true -> good q -> prefixb t q = true -> (14 <= length q)%nat.
Proof.
  intros Ht Hq Hp. destruct t as [|x t]; [discriminate|].
  cbn [test_ok] in Ht. apply andb_true_iff in Ht as [Hx _]. apply Z.eqb_eq in Hx. subst x.
  destruct Hq as [-> | [(c & r & -> & Hc) | [H _]]]; [discriminate| |assumption].
  exfalso. apply prefixb_cons_hd in Hp. congruence.
Qed.

Lemma apply_w_app w q l :
  wrapper_ok w = true -> good q -> l_ok l ->
  apply_w w (q ++ l) = apply_w w q ++ l /\ good (apply_w w q).
Proof.
  intros Hw Hq Hl. destruct w as [t m|]; cbn [apply_w].
  - cbn [wrapper_ok] in Hw. apply andb_true_iff in Hw as [Ht Hm].
    rewrite (test_prefix_app t q l Ht Hq Hl).
    destruct (prefixb t q) eqn:Hp.
    + pose proof (test_true_long t q Ht Hq Hp) as Hlen.
      rewrite skipn_app_long by lia. split.
      * now rewrite <- !app_assoc.
      * right; right. split.
        -- rewrite !app_length, skipn_length. destruct m; [discriminate|]. cbn. lia.
        -- apply prefixb_app.
    + split.
      * unfold w_prefix. now rewrite <- !app_assoc.
      * right; right. split.
        -- unfold w_prefix. rewrite !app_length. destruct m; [discriminate|]. cbn. lia.
        -- unfold w_prefix. rewrite <- app_assoc. apply prefixb_app.
  - split; [now rewrite app_assoc|]. right; left.
    exists 114, (lit "eturn run " ++ q). split; [reflexivity|lia].
Qed.

Lemma wrap_ws_app ws l :
  forallb wrapper_ok ws = true -> l_ok l ->
  wrap_ws ws l = wrap_ws ws [] ++ l /\ good (wrap_ws ws []).
Proof.
  induction ws as [|w ws IH]; intros Hws Hl; cbn [wrap_ws forallb] in *.
  - split; [reflexivity|now left].
  - apply andb_true_iff in Hws as [Hw Hws]. destruct (IH Hws Hl) as [E G].
    rewrite E. destruct (apply_w_app w (wrap_ws ws []) l Hw G Hl) as [E2 G2].
    rewrite <- (app_nil_r (wrap_ws ws [])) at 2.
    destruct (apply_w_app w (wrap_ws ws []) [] Hw G I) as [E3 _].
    rewrite E3, app_nil_r. split; assumption.
Qed.

Lemma ctx_wf_wrappers c : ctx_wf c = true -> forallb wrapper_ok (ctx_wrappers c) = true.
Proof.
  unfold ctx_wf. destruct c; cbn [ctx_wrappers forallb wrapper_wf wrapper_ok andb];
    intros H; try reflexivity;
    repeat match goal with
           | H : _ && _ = true |- _ => apply andb_true_iff in H as [? ?]
           end;
    repeat (apply andb_true_iff; split); try assumption; reflexivity.
Qed.

Lemma effective_ok cs : forallb ctx_wf cs = true -> forallb wrapper_ok (effective cs) = true.
Proof.
  induction cs as [|c cs IH]; intros H; cbn [effective forallb] in *; [reflexivity|].
  apply andb_true_iff in H as [Hc Hcs].
  destruct (existsb ctx_hides_outer cs); [now apply IH|].
  destruct (ctx_boundary c); [now apply IH|].
  rewrite forallb_app. apply andb_true_iff. split; [now apply ctx_wf_wrappers|now apply IH].
Qed.

(* Every context stack, at any nesting depth: the emitted line is a prefix that depends on the
   contexts only, followed by the command text unchanged. *)
Theorem wrap_prefix cs l :
  forallb ctx_wf cs = true -> l_ok l -> wrap cs l = ctx_prefix cs ++ l.
Proof.
  intros Hcs Hl. unfold wrap, ctx_prefix, wrap.
  exact (proj1 (wrap_ws_app (effective cs) l (effective_ok cs Hcs) Hl)).
Qed.

(* boundary contexts: the line is the command itself *)
Theorem wrap_boundary c l : ctx_boundary c = true -> wrap [c] l = l.
Proof. intros H. unfold wrap. cbn [effective existsb]. now rewrite H. Qed.

Lemma effective_hides outer c inner :
  ctx_hides_outer c = true -> effective (outer ++ c :: inner) = effective (c :: inner).
Proof.
  intros H. induction outer as [|o outer IH]; cbn [app]; [reflexivity|].
  cbn [effective].
  assert (E : existsb ctx_hides_outer (outer ++ c :: inner) = true).
  { rewrite existsb_app. cbn [existsb]. rewrite H. now rewrite orb_true_r. }
  rewrite E. exact IH.
Qed.

Theorem wrap_outer_irrelevant outer c inner l :
  ctx_boundary c = true -> wrap (outer ++ c :: inner) l = wrap inner l.
Proof.
  intros H. unfold wrap. f_equal. rewrite effective_hides by (unfold ctx_hides_outer; now rewrite H).
  cbn [effective]. destruct (existsb ctx_hides_outer inner); [reflexivity|]. now rewrite H.
Qed.

Theorem wrap_outer_cut outer c inner l :
  ctx_cuts c = true -> wrap (outer ++ c :: inner) l = wrap (c :: inner) l.
Proof.
  intros H. unfold wrap. f_equal. apply effective_hides. unfold ctx_hides_outer. rewrite H. apply orb_true_r.
Qed.

(* ------------------------------------------------------------------ carriers *)
Lemma Ok_inj {A} (a b : A) : Ok a = Ok b -> a = b.
Proof. congruence. Qed.

Definition text_ok (k : carrier) (s : str) : bool :=
  match k with
  | KSay => true
  | KJson _ _ => forallb scalarb s
  | KText _ _ _ => forallb scalarb s && negb (memz 38 s)      (* '&' is the formatting sign: see Proofs.LitFmt *)
  | KNbt _ _ => forallb cp_ok s
  end.

Lemma emit_l_ok pr k s l : carrier_wf k = true -> emit pr k s = Ok l -> l_ok l.
Proof.
  unfold carrier_wf. intros Hk He.
  assert (Hpre : exists t, l = carrier_pre k ++ t).
  { destruct k; cbn [emit carrier_pre] in *.
    - destruct (memz 10 s || memz 13 s); [discriminate|]. apply Ok_inj in He; subst l. eexists; reflexivity.
    - apply Ok_inj in He; subst l. eexists; reflexivity.
    - apply Ok_inj in He; subst l. eexists; reflexivity.
    - destruct (fmt_emit true var false s); cbn [rmap] in He; try discriminate.
      apply Ok_inj in He; subst l. eexists; reflexivity. }
  destruct Hpre as [t ->]. destruct (carrier_pre k) as [|c p]; [discriminate|].
  cbn. apply negb_true_iff, Z.eqb_neq in Hk. exact Hk.
Qed.

Theorem read_emit pr k s l :
  text_ok k s = true -> emit pr k s = Ok l -> read k l = Some s.
Proof.
  intros Ht He. destruct k; cbn [emit read text_ok] in *.
  - destruct (memz 10 s || memz 13 s); [discriminate|]. apply Ok_inj in He; subst l. exact (strip_prefix_app SAY_ s).
  - apply Ok_inj in He; subst l. rewrite strip_prefix_app. rewrite json_unquote_rest_emit by assumption.
    now rewrite str_eqb_refl.
  - apply Ok_inj in He; subst l. rewrite strip_prefix_app. rewrite nbt_unquote_rest_emit by assumption.
    now rewrite str_eqb_refl.
  - apply andb_true_iff in Ht as [Ht Ha]. apply negb_true_iff in Ha.
    rewrite fmt_emit_plain in He by assumption. cbn [rmap] in He. apply Ok_inj in He; subst l.
    rewrite strip_prefix_app. rewrite json_unquote_rest_emit by assumption.
    now rewrite str_eqb_refl.
Qed.

(* the say text is the value itself and holds neither LF nor CR (both end a .mcfunction line) *)
Theorem emit_say pr s l :
  emit pr KSay s = Ok l -> l = SAY_ ++ s /\ Forall (fun x => x <> 10 /\ x <> 13) s.
Proof.
  cbn [emit]. destruct (memz 10 s || memz 13 s) eqn:E; [discriminate|]. intros H. apply Ok_inj in H. subst l.
  split; [reflexivity|]. apply orb_false_iff in E as [E1 E2].
  apply memz_false_forall in E1, E2. rewrite Forall_forall in *. intros x Hx. split; [now apply E1|now apply E2].
Qed.

Theorem context_transparent pr cs k s l :
  forallb ctx_wf cs = true -> carrier_wf k = true -> text_ok k s = true ->
  emit pr k s = Ok l ->
  wrap cs l = ctx_prefix cs ++ l /\
  read k (skipn (length (ctx_prefix cs)) (wrap cs l)) = Some s.
Proof.
  intros Hcs Hk Ht He.
  pose proof (wrap_prefix cs l Hcs (emit_l_ok pr k s l Hk He)) as E.
  split; [exact E|]. rewrite E, skipn_length_app. now apply (read_emit pr).
Qed.

Theorem literal_reaches_output nm pr q raw k cs s line :
  forallb ctx_wf cs = true -> carrier_wf k = true -> text_ok k s = true ->
  decode_any nm q raw = Ok s -> compile_lit nm pr q raw k cs = Ok line ->
  exists l, emit pr k s = Ok l /\ line = ctx_prefix cs ++ l /\
            read k (skipn (length (ctx_prefix cs)) line) = Some s.
Proof.
  intros Hcs Hk Ht Hd Hc. unfold compile_lit in Hc. rewrite Hd in Hc. cbn [rbind] in Hc.
  destruct (emit pr k s) as [l| | |] eqn:He; cbn [rmap] in Hc; try discriminate.
  injection Hc as <-. exists l. split; [reflexivity|].
  exact (context_transparent pr cs k s l Hcs Hk Ht He).
Qed.

(* ------------------------------------------------------------------ pinned tree *)
Definition VAR0 : str := lit "__variable__".

Theorem pinned_else_refuted :
  exists s l, emit (fun _ => true) KSay s = Ok l /\
              else_pinned VAR0 l <> w_prefix (IF_ELSE_ VAR0) ++ l /\
              read KSay (skipn (length (w_prefix (IF_ELSE_ VAR0))) (else_pinned VAR0 l)) <> Some s.
Proof.
  exists (lit "please run execute now"), (lit "say please run execute now").
  split; [reflexivity|]. split; vm_compute; discriminate.
Qed.

Theorem pinned_assign2_refuted :
  exists s l, emit (fun _ => true) KSay s = Ok l /\
              assign2_pinned (lit "$x") VAR0 (lit "$y") VAR0 l <>
              wrap [CAssign2 (lit "$x") VAR0 (lit "$y") VAR0] l.
Proof.
  exists (lit "a run execute store b"), (lit "say a run execute store b").
  split; [reflexivity|]. vm_compute. discriminate.
Qed.

Lemma RUN_EXECUTE_nonempty : RUN_EXECUTE_ <> [].
Proof. discriminate. Qed.

(* strongest statement for the pinned else stage: text in which the searched words do not occur *)
Theorem pinned_else_partial var l :
  occurs RUN_EXECUTE_ (w_prefix (IF_ELSE_ var) ++ l) = false ->
  else_pinned var l = w_prefix (IF_ELSE_ var) ++ l.
Proof. intros H. unfold else_pinned. now apply replace_all_no_occ. Qed.

Theorem pinned_else_if_last_partial var cond l :
  occurs RUN_EXECUTE_ (w_prefix (IF_ELSE_ var) ++ w_prefix cond ++ l) = false ->
  else_if_last_pinned var cond l = w_prefix (IF_ELSE_ var) ++ w_prefix cond ++ l.
Proof. intros H. unfold else_if_last_pinned. now apply replace_all_no_occ. Qed.
