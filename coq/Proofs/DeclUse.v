(* Proofs.DeclUse — what a USE of a function / template does to the tables of known definitions (Model/DeclUse.v). *)
From Coq Require Import String List Bool Arith Ascii Lia.
From JMCV Require Import Model.DeclUse.
Import ListNotations.

(* ------------------------------------------------------------------ association lists *)
Lemma aget_cons : forall {A} p q (v : A) l, aget p ((q, v) :: l) = if String.eqb p q then Some v else aget p l.
Proof. reflexivity. Qed.

Lemma amem_cons : forall {A} p q (v : A) l, amem p ((q, v) :: l) = String.eqb p q || amem p l.
Proof. intros. unfold amem. simpl. destruct (String.eqb p q); reflexivity. Qed.

Lemma amem_aget : forall {A} p (l : list (string * A)), amem p l = true <-> exists v, aget p l = Some v.
Proof.
  intros A p l. unfold amem. destruct (aget p l) as [v|]; split; try eauto; try discriminate.
  intros [v H]. discriminate.
Qed.

Lemma amem_false_aget : forall {A} p (l : list (string * A)), amem p l = false <-> aget p l = None.
Proof. intros A p l. unfold amem. destruct (aget p l); split; congruence. Qed.

Lemma aget_adel_same : forall {A} p (l : list (string * A)), aget p (adel p l) = None.
Proof.
  intros A p l. induction l as [|[k v] r IH]; [reflexivity|]. simpl.
  destruct (String.eqb p k) eqn:E; [exact IH|]. simpl. now rewrite E.
Qed.

Lemma aget_adel_other : forall {A} p q (l : list (string * A)), p <> q -> aget q (adel p l) = aget q l.
Proof.
  intros A p q l N. induction l as [|[k v] r IH]; [reflexivity|]. simpl.
  destruct (String.eqb p k) eqn:E.
  - apply String.eqb_eq in E. subst k. rewrite IH. destruct (String.eqb q p) eqn:E2; [|reflexivity].
    apply String.eqb_eq in E2. congruence.
  - simpl. now rewrite IH.
Qed.

(* ================================================================== 1. the general (nested) model: nothing but `_` is forgotten *)
Definition keeps (t t' : tables) : Prop :=
  (forall p x, aget p (t_funs t) = Some x -> aget p (t_funs t') = Some x) /\
  (forall p x, instant p = false -> aget p (t_lazy t) = Some x -> aget p (t_lazy t') = Some x).

Lemma keeps_refl : forall t, keeps t t.
Proof. intros t. split; auto. Qed.

Lemma keeps_trans : forall a b c, keeps a b -> keeps b c -> keeps a c.
Proof. intros a b c [F1 L1] [F2 L2]. split; intros; auto. Qed.

Lemma declared_false : forall p t, declared p t = false -> amem p (t_funs t) = false /\ amem p (t_lazy t) = false.
Proof. intros p t H. unfold declared in H. now apply orb_false_iff in H. Qed.

Lemma keeps_add_fun : forall p id ls t, declared p t = false -> keeps t (add_fun p id ls t).
Proof.
  intros p id ls t D. apply declared_false in D as [DF _]. split; simpl; [|auto].
  intros q x H. destruct (String.eqb q p) eqn:E; [|exact H].
  apply String.eqb_eq in E. subst q. apply amem_false_aget in DF. congruence.
Qed.

Lemma keeps_add_lazy : forall p id b t, declared p t = false -> keeps t (add_lazy p id b t).
Proof.
  intros p id b t D. apply declared_false in D as [_ DL]. split; simpl; [auto|].
  intros q x _ H. destruct (String.eqb q p) eqn:E; [|exact H].
  apply String.eqb_eq in E. subst q. apply amem_false_aget in DL. congruence.
Qed.

Lemma keeps_after_use : forall p t, keeps t (after_use p t).
Proof.
  intros p t. unfold after_use. destruct (instant p) eqn:I; [|apply keeps_refl].
  split; simpl; [auto|]. intros q x IQ H. rewrite aget_adel_other; [exact H|]. intros ->. congruence.
Qed.

Lemma keeps_note_call : forall p t, keeps t (note_call p t).
Proof. intros p t. split; simpl; auto. Qed.

(* Uses (and declarations) never forget or replace a stored FUNCTION, and never forget or replace a stored TEMPLATE unless
   its last path segment is exactly `_` — whatever is nested in whatever, for every amount of fuel. *)
Theorem exec_keeps : forall fuel evs t ls t', exec fuel evs t = ROk ls t' -> keeps t t'.
Proof.
  induction fuel as [|f IH]; intros evs t ls t' H; [discriminate|].
  destruct evs as [|[id k p body|form p] r]; simpl in H.
  - injection H as _ <-. apply keeps_refl.
  - destruct (declared p t) eqn:D; [discriminate|].
    destruct k.
    + destruct (exec f body t) as [| | |lb t1] eqn:EB; try discriminate.
      destruct (declared p t1) eqn:D1; [discriminate|].
      eapply keeps_trans; [eapply IH; exact EB|]. eapply keeps_trans; [apply keeps_add_fun; exact D1|]. eapply IH; exact H.
    + destruct (exec f body t) as [| | |lb t1] eqn:EB; try discriminate.
      destruct (declared p t1) eqn:D1; [discriminate|].
      eapply keeps_trans; [eapply IH; exact EB|]. eapply keeps_trans; [apply keeps_add_fun; exact D1|]. eapply IH; exact H.
    + eapply keeps_trans; [apply keeps_add_lazy; exact D|]. eapply IH; exact H.
    + destruct (exec f body t) as [| | |lb t1] eqn:EB; try discriminate.
      destruct (exec f r t1) as [| | |l2 t2] eqn:ER; try discriminate. injection H as _ <-.
      eapply keeps_trans; [eapply IH; exact EB|eapply IH; exact ER].
  - destruct (aget p (t_lazy t)) as [[id body]|] eqn:G.
    + destruct (exec f body t) as [| | |lb t1] eqn:EB; try discriminate.
      assert (K1 : keeps t (after_use p t1)) by (eapply keeps_trans; [eapply IH; exact EB|apply keeps_after_use]).
      destruct (is_exec form && negb (Nat.eqb (length lb) 0)); [discriminate|].
      destruct (exec f r (after_use p t1)) as [| | |l2 t3] eqn:ER; try discriminate. injection H as _ <-.
      eapply keeps_trans; [exact K1|eapply IH; exact ER].
    + destruct (exec f r (note_call p t)) as [| | |l2 t3] eqn:ER; try discriminate. injection H as _ <-.
      eapply keeps_trans; [apply keeps_note_call|eapply IH; exact ER].
Qed.

(* ------------------------------------------------------------------ 2. no path is ever held twice *)
Definition wf (t : tables) : Prop :=
  NoDup (map fst (t_funs t)) /\ NoDup (map fst (t_lazy t)) /\
  (forall p, amem p (t_funs t) = true -> amem p (t_lazy t) = false).

Lemma amem_in : forall {A} p (l : list (string * A)), amem p l = true <-> In p (map fst l).
Proof.
  intros A p l. induction l as [|[k v] r IH]; simpl; [split; [discriminate|tauto]|].
  rewrite amem_cons, orb_true_iff, IH, String.eqb_eq. split; intros [H|H]; auto.
Qed.

Lemma adel_subset : forall {A} p q (l : list (string * A)), In q (map fst (adel p l)) -> In q (map fst l).
Proof.
  intros A p q l. induction l as [|[k v] r IH]; simpl; [tauto|].
  destruct (String.eqb p k); simpl; intuition.
Qed.

Lemma adel_nodup : forall {A} p (l : list (string * A)), NoDup (map fst l) -> NoDup (map fst (adel p l)).
Proof.
  intros A p l. induction l as [|[k v] r IH]; simpl; intros H; [constructor|].
  inversion H as [|x y N ND]; subst. destruct (String.eqb p k); simpl; [auto|].
  constructor; [|auto]. intros I. apply N. eapply adel_subset; exact I.
Qed.

Lemma wf_empty : wf no_tables.
Proof. split; [|split]; simpl; [constructor|constructor|intros p H; discriminate]. Qed.

Lemma wf_add_fun : forall p id ls t, wf t -> declared p t = false -> wf (add_fun p id ls t).
Proof.
  intros p id ls t (W1 & W2 & W3) D. apply declared_false in D as [DF DL]. split; [|split]; simpl; [|exact W2|].
  - constructor; [|exact W1]. intros I. apply amem_in in I. congruence.
  - intros q H. rewrite amem_cons in H. apply orb_true_iff in H as [H|H]; [|auto].
    apply String.eqb_eq in H. now subst q.
Qed.

Lemma wf_add_lazy : forall p id b t, wf t -> declared p t = false -> wf (add_lazy p id b t).
Proof.
  intros p id b t (W1 & W2 & W3) D. apply declared_false in D as [DF DL]. split; [|split]; simpl; [exact W1| |].
  - constructor; [|exact W2]. intros I. apply amem_in in I. congruence.
  - intros q H. rewrite amem_cons. apply orb_false_iff. split; [|auto].
    destruct (String.eqb q p) eqn:E; [|reflexivity]. apply String.eqb_eq in E. subst q. congruence.
Qed.

Lemma wf_after_use : forall p t, wf t -> wf (after_use p t).
Proof.
  intros p t (W1 & W2 & W3). unfold after_use. destruct (instant p); [|split; [|split]; assumption].
  split; [|split]; simpl; [exact W1|now apply adel_nodup|].
  intros q H. specialize (W3 q H). destruct (amem q (adel p (t_lazy t))) eqn:M; [|reflexivity].
  apply amem_in in M. apply adel_subset in M. apply amem_in in M. congruence.
Qed.

Lemma wf_note_call : forall p t, wf t -> wf (note_call p t).
Proof. intros p t W. exact W. Qed.

(* an accepted run never holds two definitions for one path: the keys of `functions` are pairwise distinct, so are the
   keys of `lazy_func`, and no path is in both *)
Theorem exec_wf : forall fuel evs t ls t', wf t -> exec fuel evs t = ROk ls t' -> wf t'.
Proof.
  induction fuel as [|f IH]; intros evs t ls t' W H; [discriminate|].
  destruct evs as [|[id k p body|form p] r]; simpl in H.
  - injection H as _ <-. exact W.
  - destruct (declared p t) eqn:D; [discriminate|].
    destruct k.
    + destruct (exec f body t) as [| | |lb t1] eqn:EB; try discriminate.
      destruct (declared p t1) eqn:D1; [discriminate|].
      eapply IH; [|exact H]. apply wf_add_fun; [eapply IH; [exact W|exact EB]|exact D1].
    + destruct (exec f body t) as [| | |lb t1] eqn:EB; try discriminate.
      destruct (declared p t1) eqn:D1; [discriminate|].
      eapply IH; [|exact H]. apply wf_add_fun; [eapply IH; [exact W|exact EB]|exact D1].
    + eapply IH; [|exact H]. now apply wf_add_lazy.
    + destruct (exec f body t) as [| | |lb t1] eqn:EB; try discriminate.
      destruct (exec f r t1) as [| | |l2 t2] eqn:ER; try discriminate. injection H as _ <-.
      eapply IH; [|exact ER]. eapply IH; [exact W|exact EB].
  - destruct (aget p (t_lazy t)) as [[id body]|] eqn:G.
    + destruct (exec f body t) as [| | |lb t1] eqn:EB; try discriminate.
      assert (W1 : wf (after_use p t1)) by (apply wf_after_use; eapply IH; [exact W|exact EB]).
      destruct (is_exec form && negb (Nat.eqb (length lb) 0)); [discriminate|].
      destruct (exec f r (after_use p t1)) as [| | |l2 t3] eqn:ER; try discriminate. injection H as _ <-.
      eapply IH; [exact W1|exact ER].
    + destruct (exec f r (note_call p t)) as [| | |l2 t3] eqn:ER; try discriminate. injection H as _ <-.
      eapply IH; [apply wf_note_call; exact W|exact ER].
Qed.

Corollary exec_wf_from_empty : forall fuel evs ls t,
  exec fuel evs no_tables = ROk ls t ->
  NoDup (map fst (t_funs t)) /\ NoDup (map fst (t_lazy t)) /\ (forall p, amem p (t_funs t) = true -> amem p (t_lazy t) = false).
Proof. intros fuel evs ls t H. exact (exec_wf fuel evs _ ls t wf_empty H). Qed.

(* ================================================================== 3. flat operation sequences: the source order decides *)
(* the run of a flat sequence without fuel *)
Fixpoint frun (evs : list uev) (t : tables) : res :=
  match evs with
  | [] => ROk [] t
  | UDecl id k p _ :: r =>
      if declared p t then RRej id else
      match k with
      | UTemplate => frun r (add_lazy p id [] t)
      | UInstant => match frun r t with ROk ls2 t2 => ROk (LMark id :: ls2) t2 | e => e end
      | _ => frun r (add_fun p id [LMark id] t)
      end
  | UCall form p :: r =>
      match aget p (t_lazy t) with
      | Some (id, _) => match frun r (after_use p t) with ROk ls2 t3 => ROk (wrap form (LMark id) :: ls2) t3 | e => e end
      | None => match frun r (note_call p t) with ROk ls2 t3 => ROk (fline form p :: ls2) t3 | e => e end
      end
  end.

Definition lazy_flat (t : tables) : Prop := forall p id b, aget p (t_lazy t) = Some (id, b) -> b = [].

Lemma lazy_flat_empty : lazy_flat no_tables.
Proof. intros p id b H. discriminate. Qed.

Lemma lazy_flat_add_fun : forall p id ls t, lazy_flat t -> lazy_flat (add_fun p id ls t).
Proof. intros p id ls t L. exact L. Qed.

Lemma lazy_flat_add_lazy : forall p id t, lazy_flat t -> lazy_flat (add_lazy p id [] t).
Proof.
  intros p id t L q id' b. simpl. destruct (String.eqb q p); [|apply L]. intros H. now injection H as _ <-.
Qed.

Lemma lazy_flat_after_use : forall p t, lazy_flat t -> lazy_flat (after_use p t).
Proof.
  intros p t L. unfold after_use. destruct (instant p); [|exact L].
  intros q id b. simpl. destruct (String.eqb p q) eqn:E.
  - apply String.eqb_eq in E. subst q. rewrite aget_adel_same. discriminate.
  - rewrite aget_adel_other; [apply L|]. intros ->. now rewrite String.eqb_refl in E.
Qed.

Lemma lazy_flat_note_call : forall p t, lazy_flat t -> lazy_flat (note_call p t).
Proof. intros p t L. exact L. Qed.

(* the fuelled run of a flat sequence IS frun — unless the fuel runs out *)
Lemma exec_flat : forall fuel evs t, flat evs -> lazy_flat t -> exec fuel evs t = RFuel \/ exec fuel evs t = frun evs t.
Proof.
  induction fuel as [|f IH]; intros evs t F L; [now left|].
  destruct evs as [|[id k p body|form p] r]; simpl; [now right| |].
  - inversion F as [|x y F1 F2]; subst. simpl in F1. subst body.
    destruct (declared p t) eqn:D; [now right|].
    assert (B : exec f [] t = RFuel \/ exec f [] t = ROk [] t) by (destruct f; [now left|now right]).
    destruct k.
    + destruct B as [-> | ->]; [now left|]. rewrite D. apply IH; [exact F2|now apply lazy_flat_add_fun].
    + destruct B as [-> | ->]; [now left|]. rewrite D. apply IH; [exact F2|now apply lazy_flat_add_fun].
    + apply IH; [exact F2|now apply lazy_flat_add_lazy].
    + destruct B as [-> | ->]; [now left|]. destruct (IH r t F2 L) as [-> | ->]; [now left|]. right. simpl.
      destruct (frun r t); reflexivity.
  - inversion F as [|x y F1 F2]; subst.
    destruct (aget p (t_lazy t)) as [[id body]|] eqn:G.
    + pose proof (L p id body G) as ->.
      assert (B : exec f [] t = RFuel \/ exec f [] t = ROk [] t) by (destruct f; [now left|now right]).
      destruct B as [-> | ->]; [now left|].
      destruct (IH r (after_use p t) F2 (lazy_flat_after_use p t L)) as [E | E].
      * left. simpl. rewrite andb_false_r. now rewrite E.
      * right. simpl. rewrite andb_false_r. rewrite E. unfold wrap.
        destruct (frun r (after_use p t)); try reflexivity. destruct (is_exec form); reflexivity.
    + destruct (IH r (note_call p t) F2 (lazy_flat_note_call p t L)) as [-> | ->]; [now left|]. now right.
Qed.

Lemma exec_flat_enough : forall fuel evs t, flat evs -> lazy_flat t -> length evs < fuel -> exec fuel evs t = frun evs t.
Proof.
  induction fuel as [|f IH]; intros evs t F L LT; [lia|].
  destruct evs as [|[id k p body|form p] r]; simpl; [reflexivity| |]; simpl in LT.
  - inversion F as [|x y F1 F2]; subst. simpl in F1. subst body.
    destruct (declared p t) eqn:D; [reflexivity|].
    assert (B : exec f [] t = ROk [] t) by (destruct f; [lia|reflexivity]).
    destruct k; rewrite ?B, ?D.
    + apply IH; [exact F2|now apply lazy_flat_add_fun|lia].
    + apply IH; [exact F2|now apply lazy_flat_add_fun|lia].
    + apply IH; [exact F2|now apply lazy_flat_add_lazy|lia].
    + rewrite (IH r t F2 L) by lia. simpl. destruct (frun r t); reflexivity.
  - inversion F as [|x y F1 F2]; subst.
    destruct (aget p (t_lazy t)) as [[id body]|] eqn:G.
    + pose proof (L p id body G) as ->.
      assert (B : exec f [] t = ROk [] t) by (destruct f; [lia|reflexivity]).
      rewrite B. rewrite (IH r (after_use p t) F2 (lazy_flat_after_use p t L)) by lia.
      simpl. rewrite andb_false_r. unfold wrap. destruct (frun r (after_use p t)); try reflexivity. destruct (is_exec form); reflexivity.
    + rewrite (IH r (note_call p t) F2 (lazy_flat_note_call p t L)) by lia. reflexivity.
Qed.

(* ------------------------------------------------------------------ lists *)
Lemma nth_snoc_inv : forall {A} (pre : list A) e i x,
  nth_error (pre ++ [e]) i = Some x -> (i < length pre /\ nth_error pre i = Some x) \/ (i = length pre /\ x = e).
Proof.
  intros A pre e i x H. destruct (Nat.lt_ge_cases i (length pre)) as [L|G].
  - left. rewrite nth_error_app1 in H by exact L. auto.
  - right. rewrite nth_error_app2 in H by exact G. destruct (i - length pre) as [|n] eqn:E.
    + simpl in H. injection H as <-. split; [lia|reflexivity].
    + simpl in H. destruct n; discriminate.
Qed.

Lemma nth_snoc_old : forall {A} (pre : list A) e i x, nth_error pre i = Some x -> nth_error (pre ++ [e]) i = Some x.
Proof. intros A pre e i x H. rewrite nth_error_app1; [exact H|]. apply nth_error_Some. congruence. Qed.

Lemma nth_snoc_new : forall {A} (pre : list A) e, nth_error (pre ++ [e]) (length pre) = Some e.
Proof. intros. rewrite nth_error_app2 by lia. now rewrite Nat.sub_diag. Qed.

Lemma nth_lt : forall {A} (l : list A) i x, nth_error l i = Some x -> i < length l.
Proof. intros A l i x H. apply nth_error_Some. congruence. Qed.

(* ------------------------------------------------------------------ how one more operation changes what the source order says *)
Definition uses (e : uev) (p : string) : Prop := exists f, e = UCall f p.

Lemma function_known_snoc : forall pre e p id,
  function_known (pre ++ [e]) p id <-> function_known pre p id \/ (exists k, file_kind k /\ e = UDecl id k p []).
Proof.
  intros pre e p id. split.
  - intros (i & k & K & N). destruct (nth_snoc_inv _ _ _ _ N) as [[_ N']|[_ N']].
    + left. exists i, k. auto.
    + right. exists k. auto.
  - intros [(i & k & K & N)|(k & K & ->)].
    + exists i, k. split; [exact K|now apply nth_snoc_old].
    + exists (length pre), k. split; [exact K|apply nth_snoc_new].
Qed.

Lemma template_live_snoc : forall pre e p id,
  template_live (pre ++ [e]) p id <->
  (template_live pre p id /\ ~ (instant p = true /\ uses e p)) \/ e = UDecl id UTemplate p [].
Proof.
  intros pre e p id. split.
  - intros (i & N & U). destruct (nth_snoc_inv _ _ _ _ N) as [[L N']|[L N']].
    + left. split.
      * exists i. split; [exact N'|]. intros I j f LT NJ. apply (U I j f LT). now apply nth_snoc_old.
      * intros [I [f ->]]. apply (U I (length pre) f L). apply nth_snoc_new.
    + right. now subst.
  - intros [[(i & N & U) NU]| ->].
    + exists i. split; [now apply nth_snoc_old|]. intros I j f LT NJ.
      destruct (nth_snoc_inv _ _ _ _ NJ) as [[_ NJ']|[_ NJ']].
      * exact (U I j f LT NJ').
      * apply NU. split; [exact I|]. exists f. now symmetry.
    + exists (length pre). split; [apply nth_snoc_new|]. intros _ j f LT NJ.
      apply nth_lt in NJ. rewrite app_length in NJ. simpl in NJ. lia.
Qed.

(* ------------------------------------------------------------------ the tables are what the source order says *)
Definition agree (pre : list uev) (t : tables) : Prop :=
  (forall p id, (exists b, aget p (t_lazy t) = Some (id, b)) <-> template_live pre p id) /\
  (forall p id, (exists ls, aget p (t_funs t) = Some (id, ls)) <-> function_known pre p id).

Lemma agree_empty : agree [] no_tables.
Proof.
  split; intros p id; split.
  - intros [b H]. discriminate.
  - intros (i & N & _). destruct i; discriminate.
  - intros [b H]. discriminate.
  - intros (i & k & _ & N). destruct i; discriminate.
Qed.

Lemma agree_declared : forall pre t p, agree pre t -> (declared p t = true <-> known pre p).
Proof.
  intros pre t p [AL AF]. unfold declared, known. rewrite orb_true_iff, !amem_aget. split.
  - intros [[[id ls] H]|[[id b] H]].
    + exists id. right. apply AF. eauto.
    + exists id. left. apply AL. eauto.
  - intros [id [H|H]].
    + right. apply AL in H as [b H]. eauto.
    + left. apply AF in H as [ls H]. eauto.
Qed.

Lemma agree_not_declared : forall pre t p, agree pre t -> declared p t = false ->
  (forall id, ~ template_live pre p id) /\ (forall id, ~ function_known pre p id).
Proof.
  intros pre t p A D. split; intros id H.
  - assert (K : known pre p) by (exists id; now left). apply (agree_declared _ _ _ A) in K. congruence.
  - assert (K : known pre p) by (exists id; now right). apply (agree_declared _ _ _ A) in K. congruence.
Qed.

Lemma not_uses_decl : forall id k p b q, ~ (instant q = true /\ uses (UDecl id k p b) q).
Proof. intros id k p b q [_ [f H]]. discriminate. Qed.

Lemma agree_file_decl : forall pre t id k p ls, agree pre t -> file_kind k -> declared p t = false ->
  agree (pre ++ [UDecl id k p []]) (add_fun p id ls t).
Proof.
  intros pre t id k p ls A K D. destruct (agree_not_declared _ _ _ A D) as [NT NF]. destruct A as [AL AF].
  split; intros q id'; simpl.
  - rewrite template_live_snoc, AL. split.
    + intros H. left. split; [exact H|apply not_uses_decl].
    + intros [[H _]|H]; [exact H|]. injection H as _ E _. destruct K; congruence.
  - rewrite function_known_snoc. destruct (String.eqb q p) eqn:E.
    + apply String.eqb_eq in E. subst q. split.
      * intros [ls' H]. injection H as <- _. right. exists k. auto.
      * intros [H|(k' & _ & H)]; [now apply NF in H|]. injection H as <- _. eauto.
    + rewrite AF. split; [tauto|]. intros [H|(k' & _ & H)]; [exact H|].
      injection H as _ _ <-. now rewrite String.eqb_refl in E.
Qed.

Lemma agree_template_decl : forall pre t id p, agree pre t -> declared p t = false ->
  agree (pre ++ [UDecl id UTemplate p []]) (add_lazy p id [] t).
Proof.
  intros pre t id p A D. destruct (agree_not_declared _ _ _ A D) as [NT NF]. destruct A as [AL AF].
  split; intros q id'; simpl.
  - rewrite template_live_snoc. destruct (String.eqb q p) eqn:E.
    + apply String.eqb_eq in E. subst q. split.
      * intros [b H]. injection H as <- _. now right.
      * intros [[H _]|H]; [now apply NT in H|]. injection H as <-. eauto.
    + rewrite AL. split.
      * intros H. left. split; [exact H|apply not_uses_decl].
      * intros [[H _]|H]; [exact H|]. injection H as _ <-. now rewrite String.eqb_refl in E.
  - rewrite function_known_snoc, AF. split; [tauto|].
    intros [H|(k' & K & H)]; [exact H|]. injection H as _ E _. destruct K; congruence.
Qed.

Lemma agree_instant_decl : forall pre t id p, agree pre t -> agree (pre ++ [UDecl id UInstant p []]) t.
Proof.
  intros pre t id p [AL AF]. split; intros q id'.
  - rewrite template_live_snoc, AL. split.
    + intros H. left. split; [exact H|apply not_uses_decl].
    + intros [[H _]|H]; [exact H|discriminate].
  - rewrite function_known_snoc, AF. split; [tauto|].
    intros [H|(k' & K & H)]; [exact H|]. injection H as _ E _. destruct K; congruence.
Qed.

Lemma agree_use_template : forall pre t f p x, agree pre t -> aget p (t_lazy t) = Some x ->
  agree (pre ++ [UCall f p]) (after_use p t).
Proof.
  intros pre t f p x [AL AF] G. split; intros q id'.
  - rewrite template_live_snoc. unfold after_use. destruct (instant p) eqn:I; simpl.
    + destruct (String.eqb p q) eqn:E.
      * apply String.eqb_eq in E. subst q. rewrite aget_adel_same. split.
        -- intros [b H]. discriminate.
        -- intros [[_ H]|H]; [|discriminate]. exfalso. apply H. split; [exact I|]. now exists f.
      * assert (N : p <> q) by (intros ->; now rewrite String.eqb_refl in E).
        rewrite aget_adel_other by exact N. rewrite AL. split.
        -- intros H. left. split; [exact H|]. intros [_ [f' H']]. injection H' as _ ->. now apply N.
        -- intros [[H _]|H]; [exact H|discriminate].
    + rewrite AL. split.
      * intros H. left. split; [exact H|]. intros [IQ [f' H']]. injection H' as _ ->. congruence.
      * intros [[H _]|H]; [exact H|discriminate].
  - rewrite function_known_snoc. unfold after_use. destruct (instant p); simpl; rewrite AF; split; try tauto.
    + intros [H|(k' & _ & H)]; [exact H|discriminate].
    + intros [H|(k' & _ & H)]; [exact H|discriminate].
Qed.

Lemma agree_use_function : forall pre t f p, agree pre t -> aget p (t_lazy t) = None ->
  agree (pre ++ [UCall f p]) (note_call p t).
Proof.
  intros pre t f p [AL AF] G. split; intros q id'; simpl.
  - rewrite template_live_snoc, AL. split.
    + intros H. left. split; [exact H|]. intros [_ [f' H']]. injection H' as _ ->.
      apply AL in H as [b H]. congruence.
    + intros [[H _]|H]; [exact H|discriminate].
  - rewrite function_known_snoc, AF. split; [tauto|]. intros [H|(k' & _ & H)]; [exact H|discriminate].
Qed.

Lemma app_cons_snoc : forall {A} (pre : list A) e r, pre ++ e :: r = (pre ++ [e]) ++ r.
Proof. intros. now rewrite <- app_assoc. Qed.

Lemma flat_file_kind : forall k, k <> UTemplate -> k <> UInstant -> file_kind k.
Proof. intros [] A B; try congruence; [now left|now right]. Qed.

(* by induction over the operation sequence *)
Lemma frun_agree : forall evs pre t ls t',
  flat evs -> agree pre t -> frun evs t = ROk ls t' -> agree (pre ++ evs) t'.
Proof.
  induction evs as [|e r IH]; intros pre t ls t' F A H.
  - simpl in H. injection H as _ <-. now rewrite app_nil_r.
  - inversion F as [|x y F1 F2]; subst. rewrite app_cons_snoc.
    destruct e as [id k p body|form p]; simpl in H, F1.
    + subst body. destruct (declared p t) eqn:D; [discriminate|].
      destruct k.
      * eapply IH; [exact F2| |exact H]. apply agree_file_decl; [exact A|now left|exact D].
      * eapply IH; [exact F2| |exact H]. apply agree_file_decl; [exact A|now right|exact D].
      * eapply IH; [exact F2| |exact H]. now apply agree_template_decl.
      * destruct (frun r t) as [| | |l2 t2] eqn:ER; try discriminate. injection H as _ <-.
        eapply IH; [exact F2| |exact ER]. now apply agree_instant_decl.
    + destruct (aget p (t_lazy t)) as [[id body]|] eqn:G.
      * destruct (frun r (after_use p t)) as [| | |l2 t2] eqn:ER; try discriminate. injection H as _ <-.
        eapply IH; [exact F2| |exact ER]. eapply agree_use_template; [exact A|exact G].
      * destruct (frun r (note_call p t)) as [| | |l2 t2] eqn:ER; try discriminate. injection H as _ <-.
        eapply IH; [exact F2| |exact ER]. now apply agree_use_function.
Qed.

(* one step of frun keeps `agree` (used for the acceptance condition) *)
Definition step_tables (e : uev) (t : tables) : tables :=
  match e with
  | UDecl id UTemplate p _ => add_lazy p id [] t
  | UDecl id UInstant p _ => t
  | UDecl id _ p _ => add_fun p id [LMark id] t
  | UCall f p => match aget p (t_lazy t) with Some _ => after_use p t | None => note_call p t end
  end.

Lemma agree_step : forall pre t e, flat_ev e -> agree pre t ->
  (forall id k p b, e = UDecl id k p b -> declared p t = false) -> agree (pre ++ [e]) (step_tables e t).
Proof.
  intros pre t e F A D. destruct e as [id k p body|form p]; simpl in *.
  - subst body. specialize (D id k p [] eq_refl). destruct k.
    + apply agree_file_decl; [exact A|now left|exact D].
    + apply agree_file_decl; [exact A|now right|exact D].
    + now apply agree_template_decl.
    + now apply agree_instant_decl.
  - destruct (aget p (t_lazy t)) as [x|] eqn:G; [eapply agree_use_template; eauto|now apply agree_use_function].
Qed.

Lemma frun_step : forall e r t, flat_ev e ->
  (forall id k p b, e = UDecl id k p b -> declared p t = false) ->
  (exists ls t', frun (e :: r) t = ROk ls t') <-> (exists ls t', frun r (step_tables e t) = ROk ls t').
Proof.
  intros e r t F D. destruct e as [id k p body|form p]; simpl in *.
  - rewrite (D id k p body eq_refl). destruct k; try tauto.
    split; intros (ls & t' & H).
    + destruct (frun r t) as [| | |l2 t2]; try discriminate. eauto.
    + rewrite H. eauto.
  - destruct (aget p (t_lazy t)) as [[id body]|].
    + split; intros (ls & t' & H).
      * destruct (frun r (after_use p t)) as [| | |l2 t2]; try discriminate. eauto.
      * rewrite H. eauto.
    + split; intros (ls & t' & H).
      * destruct (frun r (note_call p t)) as [| | |l2 t2]; try discriminate. eauto.
      * rewrite H. eauto.
Qed.

Lemma frun_accepts_iff_gen : forall evs pre t, flat evs -> agree pre t ->
  ((exists ls t', frun evs t = ROk ls t') <->
   (forall i id k p b, nth_error evs i = Some (UDecl id k p b) -> ~ known (pre ++ firstn i evs) p)).
Proof.
  induction evs as [|e r IH]; intros pre t F A.
  - simpl. split; [|eauto]. intros _ i id k p b H. destruct i; discriminate.
  - inversion F as [|x y F1 F2]; subst.
    assert (DEC : (forall id k p b, e = UDecl id k p b -> declared p t = false) \/
                  (exists id k p b, e = UDecl id k p b /\ declared p t = true)).
    { destruct e as [id k p body|form p]; [|left; intros; discriminate].
      destruct (declared p t) eqn:D; [right; eauto 6|]. left. intros id' k' p' b' H. now injection H as _ _ <- _. }
    destruct DEC as [D|(id & k & p & b & -> & D)].
    + rewrite (frun_step e r t F1 D). rewrite (IH (pre ++ [e]) (step_tables e t) F2 (agree_step pre t e F1 A D)). split.
      * intros H i id k p b N. destruct i as [|i]; simpl in N.
        -- injection N as ->. simpl. rewrite app_nil_r. intros K. apply (agree_declared _ _ _ A) in K.
           rewrite (D id k p b eq_refl) in K. discriminate.
        -- simpl. rewrite app_cons_snoc. exact (H i id k p b N).
      * intros H i id k p b N. specialize (H (S i) id k p b N). simpl in H. now rewrite app_cons_snoc in H.
    + split.
      * intros (ls & t' & H). simpl in H. rewrite D in H. discriminate.
      * intros H. exfalso. apply (H 0 id k p b eq_refl). simpl. rewrite app_nil_r. now apply (agree_declared _ _ _ A).
Qed.

(* ------------------------------------------------------------------ call sites *)
Lemma frun_app : forall a b t,
  frun (a ++ b) t =
  match frun a t with
  | ROk l1 t1 => match frun b t1 with ROk l2 t2 => ROk (l1 ++ l2) t2 | e => e end
  | e => e
  end.
Proof.
  induction a as [|e r IH]; intros b t; simpl.
  - destruct (frun b t); reflexivity.
  - destruct e as [id k p body|form p].
    + destruct (declared p t); [reflexivity|]. destruct k; try apply IH.
      rewrite IH. destruct (frun r t) as [| | |l1 t1]; try reflexivity. destruct (frun b t1); reflexivity.
    + destruct (aget p (t_lazy t)) as [[id body]|].
      * rewrite IH. destruct (frun r (after_use p t)) as [| | |l1 t1]; try reflexivity. destruct (frun b t1); reflexivity.
      * rewrite IH. destruct (frun r (note_call p t)) as [| | |l1 t1]; try reflexivity. destruct (frun b t1); reflexivity.
Qed.

(* the number of commands a flat sequence contributes: one per use and per instant call *)
Fixpoint emitted (evs : list uev) : nat :=
  match evs with
  | [] => 0
  | UDecl _ UInstant _ _ :: r => S (emitted r)
  | UDecl _ _ _ _ :: r => emitted r
  | UCall _ _ :: r => S (emitted r)
  end.

Lemma frun_emitted : forall evs t ls t', frun evs t = ROk ls t' -> length ls = emitted evs.
Proof.
  induction evs as [|e r IH]; intros t ls t' H; simpl in H.
  - now injection H as <- _.
  - destruct e as [id k p body|form p].
    + destruct (declared p t); [discriminate|]. destruct k; simpl; try (eapply IH; exact H).
      destruct (frun r t) as [| | |l2 t2] eqn:ER; try discriminate. injection H as <- _. simpl. f_equal. eapply IH; exact ER.
    + simpl. destruct (aget p (t_lazy t)) as [[id body]|].
      * destruct (frun r (after_use p t)) as [| | |l2 t2] eqn:ER; try discriminate. injection H as <- _. simpl. f_equal. eapply IH; exact ER.
      * destruct (frun r (note_call p t)) as [| | |l2 t2] eqn:ER; try discriminate. injection H as <- _. simpl. f_equal. eapply IH; exact ER.
Qed.

Lemma flat_app : forall a b, flat (a ++ b) -> flat a /\ flat b.
Proof. intros a b H. unfold flat in *. now apply Forall_app in H. Qed.

(* ================================================================== the theorems *)
Lemma exec_ok_frun : forall evs, flat evs -> forall fuel ls t, exec fuel evs no_tables = ROk ls t -> frun evs no_tables = ROk ls t.
Proof.
  intros evs F fuel ls t H. destruct (exec_flat fuel evs no_tables F lazy_flat_empty) as [E|E]; congruence.
Qed.

(* the tables of known definitions after the sequence are what the source order says *)
Theorem tables_follow_source_order : forall evs, flat evs -> forall fuel ls t,
  exec fuel evs no_tables = ROk ls t ->
  (forall p id, (exists b, aget p (t_lazy t) = Some (id, b)) <-> template_live evs p id) /\
  (forall p id, (exists l, aget p (t_funs t) = Some (id, l)) <-> function_known evs p id).
Proof.
  intros evs F fuel ls t H. apply (exec_ok_frun evs F) in H.
  exact (frun_agree evs [] no_tables ls t F agree_empty H).
Qed.

(* accepted iff no declaration names a path that is known at that point of the source *)
Theorem accepts_iff : forall evs, flat evs ->
  ((exists fuel ls t, exec fuel evs no_tables = ROk ls t) <->
   (forall i id k p b, nth_error evs i = Some (UDecl id k p b) -> ~ known (firstn i evs) p)).
Proof.
  intros evs F. rewrite <- (frun_accepts_iff_gen evs [] no_tables F agree_empty). split.
  - intros (fuel & ls & t & H). apply (exec_ok_frun evs F) in H. eauto.
  - intros (ls & t & H). exists (S (length evs)), ls, t.
    rewrite exec_flat_enough; [exact H|exact F|exact lazy_flat_empty|lia].
Qed.

(* which declaration the diagnostic cites: the FIRST one (in source order) whose path is known where it is written *)
Lemma frun_step_rej : forall e r t id, flat_ev e ->
  (forall id' k p b, e = UDecl id' k p b -> declared p t = false) ->
  (frun (e :: r) t = RRej id <-> frun r (step_tables e t) = RRej id).
Proof.
  intros e r t id F D. destruct e as [id' k p body|form p]; simpl in *.
  - rewrite (D id' k p body eq_refl). destruct k; try tauto.
    split; intros H.
    + destruct (frun r t) as [| | |l2 t2]; try discriminate. exact H.
    + now rewrite H.
  - destruct (aget p (t_lazy t)) as [[id' body]|].
    + split; intros H.
      * destruct (frun r (after_use p t)) as [| | |l2 t2]; try discriminate. exact H.
      * now rewrite H.
    + split; intros H.
      * destruct (frun r (note_call p t)) as [| | |l2 t2]; try discriminate. exact H.
      * now rewrite H.
Qed.

Lemma frun_rej_gen : forall evs pre t id, flat evs -> agree pre t -> frun evs t = RRej id ->
  exists i k p b, nth_error evs i = Some (UDecl id k p b) /\ known (pre ++ firstn i evs) p /\
    (forall i' id' k' p' b', i' < i -> nth_error evs i' = Some (UDecl id' k' p' b') -> ~ known (pre ++ firstn i' evs) p').
Proof.
  induction evs as [|e r IH]; intros pre t id F A H; [discriminate|].
  inversion F as [|x y F1 F2]; subst.
  assert (DEC : (forall id k p b, e = UDecl id k p b -> declared p t = false) \/
                (exists id k p b, e = UDecl id k p b /\ declared p t = true)).
  { destruct e as [id0 k p body|form p]; [|left; intros; discriminate].
    destruct (declared p t) eqn:D; [right; eauto 6|]. left. intros id' k' p' b' E. now injection E as _ _ <- _. }
  destruct DEC as [D|(id0 & k & p & b & -> & D)].
  - apply (frun_step_rej e r t id F1 D) in H.
    destruct (IH (pre ++ [e]) (step_tables e t) id F2 (agree_step pre t e F1 A D) H) as (i & k & p & b & N & K & FIRST).
    exists (S i), k, p, b. simpl. rewrite app_cons_snoc. split; [exact N|]. split; [exact K|].
    intros i' id' k' p' b' LT N'. destruct i' as [|i']; simpl in N'.
    + injection N' as ->. simpl. rewrite app_nil_r. intros KN. apply (agree_declared _ _ _ A) in KN.
      rewrite (D id' k' p' b' eq_refl) in KN. discriminate.
    + simpl. rewrite app_cons_snoc. apply (FIRST i' id' k' p' b'); [lia|exact N'].
  - simpl in H. rewrite D in H. injection H as <-. exists 0, k, p, b. simpl. rewrite app_nil_r.
    split; [reflexivity|]. split; [now apply (agree_declared _ _ _ A)|]. intros i' id' k' p' b' LT. lia.
Qed.

Theorem rejects_first : forall evs, flat evs -> forall fuel id,
  exec fuel evs no_tables = RRej id ->
  exists i k p b, nth_error evs i = Some (UDecl id k p b) /\ known (firstn i evs) p /\
    (forall i' id' k' p' b', i' < i -> nth_error evs i' = Some (UDecl id' k' p' b') -> ~ known (firstn i' evs) p').
Proof.
  intros evs F fuel id H.
  assert (H' : frun evs no_tables = RRej id) by (destruct (exec_flat fuel evs no_tables F lazy_flat_empty) as [E|E]; congruence).
  exact (frun_rej_gen evs [] no_tables id F agree_empty H').
Qed.

(* every use resolves to what its path means at that point of the source *)
Theorem call_site : forall pre f p post fuel ls t,
  flat (pre ++ UCall f p :: post) ->
  exec fuel (pre ++ UCall f p :: post) no_tables = ROk ls t ->
  exists l1 l l2, ls = l1 ++ l :: l2 /\ length l1 = emitted pre /\
    ((exists id, template_live pre p id /\ l = wrap f (LMark id)) \/
     ((forall id, ~ template_live pre p id) /\ l = fline f p)).
Proof.
  intros pre f p post fuel ls t F H. apply (exec_ok_frun _ F) in H.
  rewrite frun_app in H. destruct (frun pre no_tables) as [| | |l1 t1] eqn:E1; try discriminate.
  destruct (flat_app _ _ F) as [FP _].
  pose proof (frun_agree pre [] no_tables l1 t1 FP agree_empty E1) as [AL _]. simpl in AL.
  pose proof (frun_emitted _ _ _ _ E1) as LEN.
  simpl in H. destruct (aget p (t_lazy t1)) as [[id body]|] eqn:G.
  - destruct (frun post (after_use p t1)) as [| | |l2 t2]; try discriminate. injection H as <- _.
    exists l1, (wrap f (LMark id)), l2. split; [reflexivity|]. split; [exact LEN|]. left. exists id. split; [|reflexivity].
    apply AL. eauto.
  - destruct (frun post (note_call p t1)) as [| | |l2 t2]; try discriminate. injection H as <- _.
    exists l1, (fline f p), l2. split; [reflexivity|]. split; [exact LEN|]. right. split; [|reflexivity].
    intros id TL. apply AL in TL as [b TL]. congruence.
Qed.

(* ------------------------------------------------------------------ corollaries: the named template *)
Lemma in_nth : forall {A} (l : list A) x, In x l -> exists i, nth_error l i = Some x.
Proof. intros A l x H. now apply In_nth_error. Qed.

(* a template whose last segment is not exactly `_` is expanded by EVERY later use *)
Theorem named_template_every_use : forall pre f p post fuel ls t id,
  flat (pre ++ UCall f p :: post) -> instant p = false -> In (UDecl id UTemplate p []) pre ->
  exec fuel (pre ++ UCall f p :: post) no_tables = ROk ls t ->
  exists l1 l2 id', ls = l1 ++ wrap f (LMark id') :: l2 /\ length l1 = emitted pre /\ In (UDecl id' UTemplate p []) pre.
Proof.
  intros pre f p post fuel ls t id F I D H.
  destruct (call_site pre f p post fuel ls t F H) as (l1 & l & l2 & -> & LEN & [(id' & TL & ->)|[NT _]]).
  - exists l1, l2, id'. split; [reflexivity|]. split; [exact LEN|]. destruct TL as (i & N & _). eapply nth_error_In; exact N.
  - exfalso. apply (NT id). apply in_nth in D as [i N]. exists i. split; [exact N|]. congruence.
Qed.

(* … and its path stays taken: any later declaration of the path is refused, however often it was used in between *)
Theorem named_path_stays_declared : forall evs i i' id id' k k' p,
  flat evs -> instant p = false -> k <> UInstant -> i < i' ->
  nth_error evs i = Some (UDecl id k p []) -> nth_error evs i' = Some (UDecl id' k' p []) ->
  forall fuel ls t, exec fuel evs no_tables <> ROk ls t.
Proof.
  intros evs i i' id id' k k' p F I K LT N N' fuel ls t H.
  assert (ACC : exists fuel ls t, exec fuel evs no_tables = ROk ls t) by eauto.
  rewrite (accepts_iff evs F) in ACC. apply (ACC i' id' k' p [] N').
  assert (NF : nth_error (firstn i' evs) i = Some (UDecl id k p [])).
  { rewrite <- (firstn_skipn i' evs) in N. rewrite nth_error_app1 in N; [exact N|].
    rewrite firstn_length. apply nth_lt in N'. lia. }
  exists id. destruct k.
  - right. exists i, UPlain. split; [now left|exact NF].
  - right. exists i, USaved. split; [now right|exact NF].
  - left. exists i. split; [exact NF|]. congruence.
  - congruence.
Qed.

(* ------------------------------------------------------------------ which paths are instant: exactly `_` and `<anything>/_` *)
Fixpoint noslash (s : string) : bool :=
  match s with EmptyString => true | String c r => negb (Ascii.eqb c "/"%char) && noslash r end.

Lemma sapp_nil_r : forall s : string, (s ++ "")%string = s.
Proof. induction s as [|c r IH]; simpl; congruence. Qed.

Lemma sapp_assoc : forall a b c : string, ((a ++ b) ++ c)%string = (a ++ (b ++ c))%string.
Proof. induction a as [|x a IH]; intros b c; simpl; [reflexivity|now rewrite IH]. Qed.

Lemma last_seg_noslash : forall s acc, noslash s = true -> last_seg_from acc s = (acc ++ s)%string.
Proof.
  induction s as [|c r IH]; intros acc H; simpl in *.
  - now rewrite sapp_nil_r.
  - apply andb_true_iff in H as [H1 H2]. apply negb_true_iff in H1. rewrite H1.
    rewrite (IH _ H2). now rewrite sapp_assoc.
Qed.

Lemma last_seg_after_slash : forall q acc r, last_seg_from acc (q ++ String "/"%char r)%string = last_seg_from EmptyString r.
Proof.
  induction q as [|c q IH]; intros acc r; simpl; [reflexivity|].
  destruct (Ascii.eqb c "/"%char); apply IH.
Qed.

Lemma split_last_slash : forall s, noslash s = true \/ exists q r, s = (q ++ String "/"%char r)%string /\ noslash r = true.
Proof.
  induction s as [|c s IH]; [now left|]. destruct IH as [N|(q & r & -> & N)].
  - destruct (Ascii.eqb c "/"%char) eqn:E.
    + right. apply Ascii.eqb_eq in E. subst c. exists EmptyString, s. auto.
    + left. simpl. now rewrite E, N.
  - right. exists (String c q), r. auto.
Qed.

Theorem instant_spec : forall p, instant p = true <-> p = "_"%string \/ exists q, p = (q ++ "/_")%string.
Proof.
  intros p. unfold instant, last_segment. rewrite String.eqb_eq. split.
  - intros H. destruct (split_last_slash p) as [N|(q & r & -> & N)].
    + left. now rewrite (last_seg_noslash p EmptyString N) in H.
    + right. exists q. rewrite last_seg_after_slash, (last_seg_noslash r EmptyString N) in H. simpl in H. now subst r.
  - intros [->|[q ->]]; [reflexivity|]. now rewrite last_seg_after_slash.
Qed.
