(* Proofs.FS — lemmas about the file-system model (Model/FS.v). *)
From Coq Require Import String List Bool Arith Lia.
From JMCV Require Import Model.FS.
Import ListNotations.

(* ------------------------------------------------------------------ paths *)
Lemma path_eqb_refl : forall p, path_eqb p p = true.
Proof. induction p as [|x p IH]; simpl; auto. rewrite String.eqb_refl, IH. reflexivity. Qed.

Lemma path_eqb_eq : forall p q, path_eqb p q = true <-> p = q.
Proof.
  induction p as [|x p IH]; destruct q as [|y q]; simpl; split; intro H; try discriminate; auto.
  - apply andb_true_iff in H as [H1 H2]. apply String.eqb_eq in H1. apply IH in H2. subst. reflexivity.
  - inversion H; subst. rewrite String.eqb_refl. apply andb_true_iff. split; auto. apply IH. reflexivity.
Qed.

Lemma path_eqb_neq : forall p q, path_eqb p q = false <-> p <> q.
Proof.
  intros p q. split; intro H.
  - intro E. apply path_eqb_eq in E. congruence.
  - destruct (path_eqb p q) eqn:E; auto. apply path_eqb_eq in E. contradiction.
Qed.

Lemma is_prefix_refl : forall p, is_prefix p p = true.
Proof. induction p as [|x p IH]; simpl; auto. rewrite String.eqb_refl, IH. reflexivity. Qed.

Lemma is_prefix_app : forall p r, is_prefix p (p ++ r) = true.
Proof. induction p as [|x p IH]; intros r; simpl; auto. rewrite String.eqb_refl, IH. reflexivity. Qed.

Lemma is_prefix_split : forall a b, is_prefix a b = true -> exists r, b = a ++ r.
Proof.
  induction a as [|x a IH]; intros b H; simpl in *.
  - exists b. reflexivity.
  - destruct b as [|y b]; try discriminate. apply andb_true_iff in H as [H1 H2].
    apply String.eqb_eq in H1. subst y. destruct (IH _ H2) as [r Hr]. exists r. subst b. reflexivity.
Qed.

Lemma is_prefix_trans : forall a b c, is_prefix a b = true -> is_prefix b c = true -> is_prefix a c = true.
Proof.
  intros a b c H1 H2. apply is_prefix_split in H1 as [r1 ->]. apply is_prefix_split in H2 as [r2 ->].
  rewrite <- app_assoc. apply is_prefix_app.
Qed.

Lemma is_prefix_app_r : forall a b r, is_prefix a b = true -> is_prefix a (b ++ r) = true.
Proof. intros a b r H. eapply is_prefix_trans; eauto. apply is_prefix_app. Qed.

(* two prefixes of the same path are comparable *)
Lemma is_prefix_comparable : forall a b p,
  is_prefix a p = true -> is_prefix b p = true -> is_prefix a b = true \/ is_prefix b a = true.
Proof.
  induction a as [|x a IH]; intros b p Ha Hb; simpl in *; auto.
  destruct b as [|y b]; auto. destruct p as [|z p]; try discriminate. simpl in *.
  apply andb_true_iff in Ha as [Ha1 Ha2]. apply andb_true_iff in Hb as [Hb1 Hb2].
  apply String.eqb_eq in Ha1, Hb1. subst. rewrite String.eqb_refl. simpl. eapply IH; eauto.
Qed.

Lemma is_prefix_antisym : forall a b, is_prefix a b = true -> is_prefix b a = true -> a = b.
Proof.
  induction a as [|x a IH]; intros b H1 H2; destruct b as [|y b]; simpl in *; try discriminate; auto.
  apply andb_true_iff in H1 as [H1 H1']. apply andb_true_iff in H2 as [_ H2'].
  apply String.eqb_eq in H1. subst. f_equal. auto.
Qed.

Lemma is_prefix_length : forall a b, is_prefix a b = true -> length a <= length b.
Proof. intros a b H. apply is_prefix_split in H as [r ->]. rewrite app_length. lia. Qed.

(* ------------------------------------------------------------------ child lists *)
Lemma assoc_set_child_other : forall x y v (cs : list (string * tree)),
  x <> y -> assoc y (set_child x v cs) = assoc y cs.
Proof.
  intros x y v cs Hxy.
  assert (Eyx : String.eqb y x = false) by (apply String.eqb_neq; congruence).
  induction cs as [|[z c] r IH]; simpl.
  - destruct v; simpl; rewrite ?Eyx; auto.
  - destruct (String.eqb x z) eqn:E.
    + apply String.eqb_eq in E. subst z. rewrite Eyx. destruct v; simpl; rewrite ?Eyx; auto.
    + simpl. rewrite IH. reflexivity.
Qed.

Lemma assoc_set_child_some : forall x t (cs : list (string * tree)), assoc x (set_child x (Some t) cs) = Some t.
Proof.
  intros x t cs. induction cs as [|[z c] r IH]; simpl.
  - rewrite String.eqb_refl. reflexivity.
  - destruct (String.eqb x z) eqn:E; simpl; rewrite E; auto.
Qed.

Lemma assoc_set_child_none : forall x (cs : list (string * tree)), assoc x (set_child x None cs) = None.
Proof.
  intros x cs. induction cs as [|[z c] r IH]; simpl; auto.
  destruct (String.eqb x z) eqn:E; simpl; rewrite ?E; auto.
Qed.

Lemma assoc_set_child_same : forall x v (cs : list (string * tree)), assoc x (set_child x v cs) = v.
Proof. intros x [t|] cs; [apply assoc_set_child_some | apply assoc_set_child_none]. Qed.

(* ------------------------------------------------------------------ lookup *)
Lemma lookup_app : forall p r t,
  lookup t (p ++ r) = match lookup t p with Some c => lookup c r | None => None end.
Proof.
  induction p as [|x p IH]; intros r t; simpl; auto.
  destruct t as [c|cs]; auto. destruct (assoc x cs); auto.
Qed.

Lemma lookup_file_below : forall c r, r <> [] -> lookup (TFile c) r = None.
Proof. intros c [|x r] H; simpl; congruence. Qed.

Lemma lookup_emptydir_below : forall r, r <> [] -> lookup (TDir []) r = None.
Proof. intros [|x r] H; simpl; congruence. Qed.

(* a node whose subtree is a leaf (file / empty directory / absent) has nothing below it *)
Definition leafy (o : option tree) : Prop :=
  match o with Some (TDir (_ :: _)) => False | _ => True end.

Lemma leafy_below : forall t p r, leafy (lookup t p) -> r <> [] -> lookup t (p ++ r) = None.
Proof.
  intros t p r H Hr. rewrite lookup_app. destruct (lookup t p) as [[c|[|e cs]]|]; simpl in *; auto.
  - apply lookup_file_below; auto.
  - apply lookup_emptydir_below; auto.
  - contradiction.
Qed.

(* ------------------------------------------------------------------ alter *)
Lemma alter_is_dir : forall p f t t', alter p f t = Some t' -> exists cs cs', t = TDir cs /\ t' = TDir cs'.
Proof.
  intros [|x q] f t t' H; simpl in H; try discriminate.
  destruct t as [c|cs]; try discriminate.
  destruct q.
  - destruct (f (assoc x cs)); inversion H. eauto.
  - destruct (assoc x cs); try discriminate. destruct (alter (s :: q) f t); inversion H. eauto.
Qed.

(* nodes that do not lie at or below p keep their shape *)
Lemma alter_other : forall p f t t' p',
  alter p f t = Some t' -> is_prefix p p' = false -> node_at t' p' = node_at t p'.
Proof.
  induction p as [|x q IH]; intros f t t' p' H Hp; [simpl in H; discriminate|].
  destruct (alter_is_dir _ _ _ _ H) as (cs & cs' & -> & ->).
  destruct p' as [|y q'].
  - reflexivity.
  - simpl in H. simpl in Hp. unfold node_at. simpl.
    destruct (String.eqb x y) eqn:Exy.
    + apply String.eqb_eq in Exy. subst y. simpl in Hp.
      destruct q as [|z q]; [simpl in Hp; discriminate|].
      destruct (assoc x cs) as [c|] eqn:Ea; try discriminate.
      destruct (alter (z :: q) f c) as [c'|] eqn:Eal; try discriminate.
      inversion H; subst cs'. rewrite assoc_set_child_some.
      exact (IH f c c' q' Eal Hp).
    + assert (Hne : x <> y) by (apply String.eqb_neq; exact Exy).
      destruct q as [|z q].
      * destruct (f (assoc x cs)) as [v|]; try discriminate. inversion H; subst cs'.
        rewrite assoc_set_child_other; auto.
      * destruct (assoc x cs) as [c|] eqn:Ea; try discriminate.
        destruct (alter (z :: q) f c) as [c'|]; try discriminate.
        inversion H; subst cs'. rewrite assoc_set_child_other; auto.
Qed.

Lemma lookup_single : forall cs x, lookup (TDir cs) [x] = assoc x cs.
Proof. intros. simpl. destruct (assoc x cs); reflexivity. Qed.

(* what happens at p itself *)
Lemma alter_at : forall p f t t',
  alter p f t = Some t' -> exists v, f (lookup t p) = Some v /\ lookup t' p = v.
Proof.
  induction p as [|x q IH]; intros f t t' H; [simpl in H; discriminate|].
  destruct (alter_is_dir _ _ _ _ H) as (cs & cs' & -> & ->).
  simpl in H. destruct q as [|z q].
  - destruct (f (assoc x cs)) as [v|] eqn:Ef; try discriminate. inversion H; subst cs'.
    exists v. rewrite !lookup_single. rewrite assoc_set_child_same. auto.
  - destruct (assoc x cs) as [c|] eqn:Ea; try discriminate.
    destruct (alter (z :: q) f c) as [c'|] eqn:Eal; try discriminate.
    inversion H; subst cs'. destruct (IH f c c' Eal) as (v & Hv1 & Hv2).
    exists v. change (lookup (TDir cs) (x :: z :: q)) with
      (match assoc x cs with Some c0 => lookup c0 (z :: q) | None => None end).
    rewrite Ea. split; auto.
    change (lookup (TDir (set_child x (Some c') cs)) (x :: z :: q)) with
      (match assoc x (set_child x (Some c') cs) with Some c0 => lookup c0 (z :: q) | None => None end).
    rewrite assoc_set_child_some. exact Hv2.
Qed.

(* ------------------------------------------------------------------ primitive mutations *)
Definition op_fun (o : op) : option tree -> option (option tree) :=
  match o with
  | Mkdir _ => f_mkdir | Create _ => f_create | Write _ c => f_write c | Unlink _ => f_unlink | Rmdir _ => f_rmdir
  | Replace _ c => f_replace c
  end.

Lemma apply_alter : forall o t, apply o t = alter (op_path o) (op_fun o) t.
Proof. intros [p|p|p c|p|p|p c] t; reflexivity. Qed.

Lemma op_fun_leafy : forall o a v, op_fun o a = Some v -> leafy a /\ leafy v.
Proof.
  intros [p|p|p c|p|p|p c] a v H; simpl in H.
  - destruct a; inversion H; simpl; auto.
  - destruct a as [[c|cs]|]; inversion H; simpl; auto.
  - destruct a as [[c'|cs]|]; inversion H; simpl; auto.
  - destruct a as [[c|cs]|]; inversion H; simpl; auto.
  - destruct a as [[c|[|e cs]]|]; inversion H; simpl; auto.
  - destruct a as [[c'|cs]|]; inversion H; simpl; auto.
Qed.

Lemma apply_self : forall o t t',
  apply o t = Some t' ->
  exists v, op_fun o (lookup t (op_path o)) = Some v /\ lookup t' (op_path o) = v.
Proof. intros o t t' H. rewrite apply_alter in H. apply alter_at in H. exact H. Qed.

(* frame: a mutation changes the node at its own path only *)
Lemma apply_frame : forall o t t' p,
  apply o t = Some t' -> p <> op_path o -> node_at t' p = node_at t p.
Proof.
  intros o t t' p H Hp. destruct (is_prefix (op_path o) p) eqn:E.
  - apply is_prefix_split in E as [r Hr]. assert (r <> []) by (intro; subst r; rewrite app_nil_r in Hr; congruence).
    destruct (apply_self _ _ _ H) as (v & Hf & Hv). apply op_fun_leafy in Hf as [L1 L2].
    unfold node_at. subst p. rewrite (leafy_below t' _ r), (leafy_below t _ r); auto.
    rewrite Hv. exact L2.
  - rewrite apply_alter in H. eapply alter_other; eauto.
Qed.

Lemma file_at_node : forall t p,
  file_at t p = match node_at t p with Some (NFile c) => Some c | _ => None end.
Proof. intros t p. unfold file_at, node_at. destruct (lookup t p) as [[c|cs]|]; reflexivity. Qed.

Lemma is_dir_node : forall t p, is_dir t p = true <-> node_at t p = Some NDir.
Proof.
  intros t p. unfold is_dir, node_at. destruct (lookup t p) as [[c|cs]|]; simpl; split; intro H; try discriminate; auto.
Qed.

Lemma is_file_node : forall t p, is_file t p = true <-> exists c, node_at t p = Some (NFile c).
Proof.
  intros t p. unfold is_file, node_at. destruct (lookup t p) as [[c|cs]|]; simpl; split; intro H;
    try discriminate; eauto; destruct H as [c' H]; discriminate.
Qed.

(* ------------------------------------------------------------------ sequences *)
Lemma exec_app : forall a b t,
  exec (a ++ b) t = match exec a t with Some m => exec b m | None => None end.
Proof. induction a as [|o a IH]; intros b t; simpl; auto. destruct (apply o t); auto. Qed.

Lemma exec_app_inv : forall a b t t',
  exec (a ++ b) t = Some t' -> exists m, exec a t = Some m /\ exec b m = Some t'.
Proof. intros a b t t' H. rewrite exec_app in H. destruct (exec a t) as [m|]; try discriminate. eauto. Qed.

Lemma run_ops_exec : forall ops t t', exec ops t = Some t' -> run_ops ops t = t'.
Proof.
  induction ops as [|o r IH]; intros t t' H; simpl in *.
  - congruence.
  - unfold apply'. destruct (apply o t) as [m|]; try discriminate. auto.
Qed.

Lemma run_ops_app : forall a b t, run_ops (a ++ b) t = run_ops b (run_ops a t).
Proof. induction a as [|o a IH]; intros; simpl; auto. Qed.

Lemma exec_firstn : forall k ops t t',
  exec ops t = Some t' -> exists m, exec (firstn k ops) t = Some m /\ exec (skipn k ops) m = Some t'.
Proof.
  intros k ops t t' H. rewrite <- (firstn_skipn k ops) in H. apply exec_app_inv in H. exact H.
Qed.

Lemma exec_frame : forall ops t t' p,
  (forall o, In o ops -> op_path o <> p) -> exec ops t = Some t' -> node_at t' p = node_at t p.
Proof.
  induction ops as [|o r IH]; intros t t' p Hall H; simpl in H.
  - congruence.
  - destruct (apply o t) as [m|] eqn:E; try discriminate.
    rewrite (IH m t' p); auto.
    + eapply apply_frame; eauto. intro Heq. apply (Hall o); simpl; auto.
    + intros o' Ho'. apply Hall. simpl; auto.
Qed.

Definition is_mkdir (o : op) : bool := match o with Mkdir _ => true | _ => false end.

(* a path that is only ever the target of mkdir keeps its node, or goes from absent to directory *)
Lemma exec_only_mkdir : forall ops t t' p,
  (forall o, In o ops -> op_path o = p -> is_mkdir o = true) ->
  exec ops t = Some t' ->
  node_at t' p = node_at t p \/ (node_at t p = None /\ node_at t' p = Some NDir).
Proof.
  induction ops as [|o r IH]; intros t t' p Hall H; simpl in H.
  - left. congruence.
  - destruct (apply o t) as [m|] eqn:E; try discriminate.
    assert (Hr : forall o', In o' r -> op_path o' = p -> is_mkdir o' = true) by (intros; apply Hall; simpl; auto).
    specialize (IH m t' p Hr H).
    destruct (path_eqb (op_path o) p) eqn:Ep.
    + apply path_eqb_eq in Ep. assert (Hm : is_mkdir o = true) by (apply Hall; simpl; auto).
      destruct o as [q|q|q c|q|q|q c]; try discriminate. simpl in Ep. subst q.
      destruct (apply_self _ _ _ E) as (v & Hf & Hv). simpl in Hf, Hv.
      assert (N0 : node_at t p = None).
      { unfold node_at. destruct (lookup t p); simpl in Hf; [discriminate|reflexivity]. }
      assert (N1 : node_at m p = Some NDir).
      { unfold node_at. rewrite Hv. destruct (lookup t p); simpl in Hf; inversion Hf. reflexivity. }
      right. split; auto. destruct IH as [IH|[IH _]]; congruence.
    + apply path_eqb_neq in Ep. assert (F : node_at m p = node_at t p) by (eapply apply_frame; eauto).
      rewrite <- F. exact IH.
Qed.

(* ------------------------------------------------------------------ files only *)
(* mkdir / rmdir at p can only succeed when p is not a file, before and after: they leave [file_at p] alone *)
Definition fstep (p : path) (cur : option content) (o : op) : option content :=
  if path_eqb (op_path o) p then
    match o with Create _ => Some (Raw "") | Write _ c | Replace _ c => Some c | Unlink _ => None
               | Mkdir _ | Rmdir _ => cur end
  else cur.
Definition fsem (p : path) (ops : list op) (init : option content) : option content :=
  fold_left (fstep p) ops init.

Lemma file_at_apply : forall o t t' p, apply o t = Some t' -> file_at t' p = fstep p (file_at t p) o.
Proof.
  intros o t t' p H. unfold fstep. destruct (path_eqb (op_path o) p) eqn:Ep.
  - apply path_eqb_eq in Ep. subst p. destruct (apply_self _ _ _ H) as (v & Hf & Hv).
    unfold file_at. rewrite Hv.
    destruct o as [q|q|q c|q|q|q c]; simpl in *.
    + destruct (lookup t q); inversion Hf. reflexivity.
    + destruct (lookup t q) as [[c|cs]|]; inversion Hf; reflexivity.
    + destruct (lookup t q) as [[c'|cs]|]; inversion Hf; reflexivity.
    + destruct (lookup t q) as [[c|cs]|]; inversion Hf; reflexivity.
    + destruct (lookup t q) as [[c|[|e cs]]|]; inversion Hf; reflexivity.
    + destruct (lookup t q) as [[c'|cs]|]; inversion Hf; reflexivity.
  - apply path_eqb_neq in Ep. rewrite !file_at_node. erewrite apply_frame; eauto.
Qed.

Lemma file_at_exec : forall ops t t' p, exec ops t = Some t' -> file_at t' p = fsem p ops (file_at t p).
Proof.
  induction ops as [|o r IH]; intros t t' p H; simpl in H.
  - inversion H. reflexivity.
  - destruct (apply o t) as [m|] eqn:E; try discriminate. unfold fsem. simpl.
    rewrite <- (file_at_apply _ _ _ p E). apply IH. exact H.
Qed.

(* ------------------------------------------------------------------ induction on trees *)
Section TreeInd.
  Variable P : tree -> Prop.
  Hypothesis Hf : forall c, P (TFile c).
  Hypothesis Hd : forall cs, Forall (fun e => P (snd e)) cs -> P (TDir cs).
  Fixpoint tree_ind_forall (t : tree) : P t :=
    match t with
    | TFile c => Hf c
    | TDir cs =>
        Hd cs ((fix go (l : list (string * tree)) : Forall (fun e => P (snd e)) l :=
                  match l with
                  | [] => Forall_nil _
                  | e :: r => Forall_cons e (tree_ind_forall (snd e)) (go r)
                  end) cs)
    end.
End TreeInd.

Lemma tree_ind_in : forall P : tree -> Prop,
  (forall c, P (TFile c)) ->
  (forall cs, (forall e, In e cs -> P (snd e)) -> P (TDir cs)) ->
  forall t, P t.
Proof.
  intros P Hf Hd. apply tree_ind_forall; auto. intros cs HF. apply Hd. apply Forall_forall. exact HF.
Qed.

(* every mutation of shutil.rmtree lies at or below the folder *)
Lemma rm_entries_paths : forall t here o, In o (rm_entries here t) -> is_prefix here (op_path o) = true.
Proof.
  induction t as [c|cs IH] using tree_ind_in; intros here o H; simpl in H.
  - destruct H as [<-|[]]. simpl. apply is_prefix_refl.
  - apply in_app_or in H as [H|H].
    + apply in_flat_map in H as (e & He & Ho). apply (IH e He) in Ho.
      eapply is_prefix_trans; [apply (is_prefix_app here [fst e])|exact Ho].
    + destruct H as [<-|[]]. simpl. apply is_prefix_refl.
Qed.

Lemma walk_pre_paths : forall t here d, In d (walk_pre here t) -> is_prefix here (fst d) = true.
Proof.
  induction t as [c|cs IH] using tree_ind_in; intros here d H; simpl in H.
  - contradiction.
  - destruct H as [<-|H]; [apply is_prefix_refl|].
    apply in_flat_map in H as (e & He & Hd). apply (IH e He) in Hd.
    eapply is_prefix_trans; [apply (is_prefix_app here [fst e])|exact Hd].
Qed.

Lemma glob_all_paths : forall t here g, In g (glob_all here t) -> is_prefix here (fst g) = true.
Proof.
  intros t here g H. unfold glob_all in H. apply in_flat_map in H as (d & Hd & Hg).
  assert (Hp : is_prefix here (fst d) = true).
  { destruct Hd as [<-|Hd]; [apply is_prefix_refl|].
    apply in_flat_map in Hd as (d0 & Hd0 & Hc). apply walk_pre_paths in Hd0.
    unfold child_dirs in Hc. destruct (snd d0) as [c|cs]; [contradiction|].
    apply in_flat_map in Hc as (e & He & Hc). destruct (snd e); [contradiction|].
    destruct Hc as [<-|[]]. simpl. apply is_prefix_app_r. exact Hd0. }
  unfold entries in Hg. destruct (snd d) as [c|cs]; [contradiction|].
  apply in_map_iff in Hg as (e & <- & He). simpl. apply is_prefix_app_r. exact Hp.
Qed.

Lemma flatten_paths : forall t here e, In e (flatten here t) -> is_prefix here (fst e) = true.
Proof.
  induction t as [c|cs IH] using tree_ind_in; intros here e H; simpl in H.
  - destruct H as [<-|[]]. apply is_prefix_refl.
  - destruct H as [<-|H]; [apply is_prefix_refl|].
    apply in_flat_map in H as (e0 & He0 & Hd). apply (IH e0 He0) in Hd.
    eapply is_prefix_trans; [apply (is_prefix_app here [fst e0])|exact Hd].
Qed.

(* the targets of a copy are nodes of the copied tree, placed at the destination *)
Lemma copy_ops_paths : forall t cur dst o, In o (copy_ops cur dst t) -> In (op_path o) (map fst (flatten dst t)).
Proof.
  induction t as [c|cs IH] using tree_ind_in; intros cur dst o H; simpl in H.
  - simpl. destruct H as [<-|[<-|[]]]; simpl; auto.
  - simpl. apply in_app_or in H as [H|H].
    + destruct (is_dir cur dst); [contradiction|]. destruct H as [<-|[]]. simpl. auto.
    + right. apply in_flat_map in H as (e & He & Ho). apply (IH e He) in Ho.
      apply in_map_iff in Ho as (y & Hy & Hin). apply in_map_iff. exists y. split; auto.
      apply in_flat_map. exists e. auto.
Qed.

Definition is_fop (o : op) : bool := match o with Create _ | Write _ _ | Unlink _ | Replace _ _ => true | _ => false end.
Definition creates (o : op) : bool := match o with Create _ | Write _ _ | Replace _ _ => true | _ => false end.

Lemma fsem_app : forall p a b i, fsem p (a ++ b) i = fsem p b (fsem p a i).
Proof. intros. unfold fsem. apply fold_left_app. Qed.

Lemma fsem_fops : forall p ops i, fsem p ops i = fsem p (filter is_fop ops) i.
Proof.
  intros p ops. induction ops as [|o r IH]; intros i; simpl; auto.
  destruct o as [q|q|q c|q|q|q c]; simpl; unfold fsem in *; simpl; try apply IH.
  - unfold fstep. simpl. destruct (path_eqb q p); apply IH.
  - unfold fstep. simpl. destruct (path_eqb q p); apply IH.
Qed.

Lemma fsem_nocreate_none : forall p ops, (forall o, In o ops -> creates o = false) -> fsem p ops None = None.
Proof.
  intros p ops. induction ops as [|o r IH]; intros H; auto.
  unfold fsem in *. simpl.
  assert (fstep p None o = None).
  { unfold fstep. destruct (path_eqb (op_path o) p); auto. specialize (H o (or_introl eq_refl)).
    destruct o; simpl in *; auto; discriminate. }
  rewrite H0. apply IH. intros; apply H; simpl; auto.
Qed.

Lemma fsem_unlinked : forall p ops i,
  (forall o, In o ops -> creates o = false) -> In (Unlink p) ops -> fsem p ops i = None.
Proof.
  intros p ops. induction ops as [|o r IH]; intros i H Hin; [contradiction|].
  unfold fsem in *. simpl. destruct Hin as [->|Hin].
  - unfold fstep at 2. simpl. rewrite path_eqb_refl. apply (fsem_nocreate_none p r). intros; apply H; simpl; auto.
  - apply IH; auto. intros; apply H; simpl; auto.
Qed.

Lemma fsem_written_indep : forall p ops i1 i2,
  (exists o, In o ops /\ is_fop o = true /\ op_path o = p) -> fsem p ops i1 = fsem p ops i2.
Proof.
  intros p ops. induction ops as [|o r IH]; intros i1 i2 (x & Hin & Hf & Hp); [contradiction|].
  unfold fsem in *. simpl. destruct Hin as [->|Hin].
  - unfold fstep at 2 4. rewrite Hp, path_eqb_refl. destruct x; simpl in Hf; try discriminate; reflexivity.
  - apply IH. eauto.
Qed.

(* ------------------------------------------------------------------ glob finds everything below *)
Lemma assoc_in : forall {A} x (cs : list (string * A)) c, assoc x cs = Some c -> In (x, c) cs.
Proof.
  intros A x cs c. induction cs as [|[y v] r IH]; simpl; intro H; [discriminate|].
  destruct (String.eqb x y) eqn:E.
  - apply String.eqb_eq in E. inversion H. subst. auto.
  - auto.
Qed.

Lemma walk_pre_complete : forall t here q cs,
  lookup t q = Some (TDir cs) -> In (here ++ q, TDir cs) (walk_pre here t).
Proof.
  induction t as [c|cs0 IH] using tree_ind_in; intros here q cs H.
  - destruct q; simpl in H; discriminate.
  - destruct q as [|x q]; simpl in H.
    + inversion H; subst. rewrite app_nil_r. simpl. auto.
    + destruct (assoc x cs0) as [c|] eqn:Ea; [|discriminate]. apply assoc_in in Ea.
      simpl. right. apply in_flat_map. exists (x, c). split; auto. simpl.
      replace (here ++ x :: q) with ((here ++ [x]) ++ q) by (rewrite <- app_assoc; reflexivity).
      apply (IH (x, c) Ea). exact H.
Qed.

Definition kind_is_file (t : tree) : bool := match t with TFile _ => true | TDir _ => false end.

Lemma glob_complete : forall t here r t',
  r <> [] -> lookup t r = Some t' -> In (here ++ r, kind_is_file t') (glob_all here t).
Proof.
  intros t here r t' Hr H. destruct (exists_last Hr) as (q & x & ->).
  rewrite lookup_app in H. destruct (lookup t q) as [d|] eqn:Eq; [|discriminate].
  destruct d as [c|cs]; [simpl in H; discriminate|]. rewrite lookup_single in H. apply assoc_in in H.
  unfold glob_all. apply in_flat_map. exists (here ++ q, TDir cs). split.
  - destruct q as [|y0 q0] eqn:Eqq.
    + simpl in Eq. inversion Eq; subst. rewrite app_nil_r. simpl. auto.
    + right. rewrite <- Eqq in *. assert (Hq : q <> []) by (rewrite Eqq; discriminate).
      destruct (exists_last Hq) as (g & y & Eg). rewrite Eg in Eq. rewrite lookup_app in Eq.
      destruct (lookup t g) as [gd|] eqn:Egd; [|discriminate].
      destruct gd as [c|gcs]; [simpl in Eq; discriminate|]. rewrite lookup_single in Eq. apply assoc_in in Eq.
      apply in_flat_map. exists (here ++ g, TDir gcs). split; [apply walk_pre_complete; exact Egd|].
      unfold child_dirs. simpl. apply in_flat_map. exists (y, TDir cs). split; auto. simpl.
      rewrite Eg. rewrite app_assoc. auto.
  - unfold entries. simpl. apply in_map_iff. exists (x, t'). split; auto. simpl.
    rewrite app_assoc. destruct t'; reflexivity.
Qed.

Lemma glob_all_strict : forall t here g, In g (glob_all here t) -> length here < length (fst g).
Proof.
  intros t here g H. unfold glob_all in H. apply in_flat_map in H as (d & Hd & Hg).
  assert (Hp : is_prefix here (fst d) = true).
  { destruct Hd as [<-|Hd]; [apply is_prefix_refl|].
    apply in_flat_map in Hd as (d0 & Hd0 & Hc). apply walk_pre_paths in Hd0.
    unfold child_dirs in Hc. destruct (snd d0) as [c|cs]; [contradiction|].
    apply in_flat_map in Hc as (e & He & Hc). destruct (snd e); [contradiction|].
    destruct Hc as [<-|[]]. simpl. apply is_prefix_app_r. exact Hd0. }
  apply is_prefix_length in Hp.
  unfold entries in Hg. destruct (snd d) as [c|cs]; [contradiction|].
  apply in_map_iff in Hg as (e & <- & He). simpl. rewrite app_length. simpl. lia.
Qed.

(* shutil.rmtree of a directory: everything strictly below, then the directory itself *)
Lemma rm_entries_strict : forall t here o, In o (rm_entries here t) ->
  op_path o = here \/ length here < length (op_path o).
Proof.
  intros t here o H. apply rm_entries_paths in H. apply is_prefix_split in H as [r Hr].
  destruct r as [|x r]; [left; rewrite Hr, app_nil_r; reflexivity|right].
  rewrite Hr, app_length. simpl. lia.
Qed.

(* ------------------------------------------------------------------ rename *)
(* [rename_ops src dst c] on a tree where the regular file src holds c and dst is absent or a regular file: afterwards
   dst is a file holding c, src is gone, every other node is as before — the effect of rename(2) / os.replace. *)
Lemma rename_ops_spec : forall t t' src dst c,
  src <> dst -> file_at t src = Some c -> exec (rename_ops src dst c) t = Some t' ->
  file_at t' dst = Some c /\ node_at t' src = None /\
  forall p, p <> src -> p <> dst -> node_at t' p = node_at t p.
Proof.
  intros t t' src dst c Hne Hs He. unfold rename_ops in He. cbn [exec] in He.
  destruct (apply (Replace dst c) t) as [m|] eqn:E1; [|discriminate].
  destruct (apply (Unlink src) m) as [m'|] eqn:E2; [|discriminate]. inversion He; subst m'.
  split; [|split].
  - rewrite (file_at_apply _ _ _ dst E2), (file_at_apply _ _ _ dst E1). unfold fstep. cbn [op_path].
    rewrite path_eqb_refl. destruct (path_eqb src dst) eqn:E; auto. apply path_eqb_eq in E. contradiction.
  - destruct (apply_self _ _ _ E2) as (v & Hf & Hv). cbn [op_fun op_path] in Hf, Hv. unfold node_at. rewrite Hv.
    destruct (lookup m src) as [[c0|cs]|]; cbn [f_unlink] in Hf; inversion Hf. reflexivity.
  - intros p Hp1 Hp2. rewrite (apply_frame _ _ _ p E2), (apply_frame _ _ _ p E1); auto.
Qed.
