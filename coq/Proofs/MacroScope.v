(* Proofs.MacroScope — the scope of Hardcode.calc's textual substitution (C16, strengthening round 4):
   one rewriting step changes the bracket and nothing else; the callers' loop is one left-to-right pass. *)
From Coq Require Import ZArith String List Bool Ascii Lia.
From JMCV Require Import Model.Layout Model.Macro Model.MacroSubst Model.MacroScope Proofs.MacroSubst.
Import ListNotations.
Open Scope Z_scope.

(* ------------------------------------------------------------------ find / scan *)
Lemma find_sub_split k : forall s p q, find_sub k s = Some (p, q) -> s = p ++ q /\ prefixb k q = true.
Proof.
  induction s as [|c r IH]; intros p q H; cbn [find_sub] in H; [discriminate|].
  destruct (prefixb k (c :: r)) eqn:E.
  - injection H as <- <-. split; [reflexivity|exact E].
  - destruct (find_sub k r) as [[p' q']|] eqn:F; [|discriminate]. injection H as <- <-.
    destruct (IH _ _ eq_refl) as [-> Hq]. split; [reflexivity|exact Hq].
Qed.

(* no occurrence starts before the one found *)
Lemma find_sub_first k : forall s p q, find_sub k s = Some (p, q) ->
  forall a b, p = a ++ b -> b <> [] -> prefixb k (b ++ q) = false.
Proof.
  induction s as [|c r IH]; intros p q H a b Hp Hb; cbn [find_sub] in H; [discriminate|].
  destruct (prefixb k (c :: r)) eqn:E.
  - injection H as <- <-. destruct a; destruct b; try discriminate. contradiction.
  - destruct (find_sub k r) as [[p' q']|] eqn:F; [|discriminate]. injection H as <- <-.
    destruct (find_sub_split _ _ _ _ F) as [Hr _].
    destruct a as [|x a].
    + cbn in Hp. subst b. cbn [app]. rewrite <- Hr. exact E.
    + cbn in Hp. injection Hp as _ Hp. exact (IH _ _ eq_refl a b Hp Hb).
Qed.

Lemma scan_split : forall s n e rest, scan s n = Some (e, rest) -> s = e ++ rest.
Proof.
  induction s as [|c r IH]; intros n e rest H; cbn [scan] in H; [discriminate|].
  match type of H with context [if ?b then _ else _] => destruct b end.
  - injection H as <- <-. reflexivity.
  - match type of H with context [scan r ?m] => destruct (scan r m) as [[e' rest']|] eqn:F end; [|discriminate].
    injection H as <- <-. cbn. f_equal. exact (IH _ _ _ F).
Qed.

Lemma skipn_calc r : skipn 13 (CALC ++ r) = r.
Proof. reflexivity. Qed.

Lemma calc_occurrence occ : prefixb CALC occ = true -> occ = CALC ++ skipn 13 occ.
Proof. intros H. apply prefixb_true in H. destruct H as [r ->]. rewrite skipn_calc. reflexivity. Qed.

(* ------------------------------------------------------------------ one step: the frame *)
Section Frame.
Variable ev : str -> option str.
Variable nm : nums.

Lemma calc_parts_frame s pre r rest :
  calc_parts ev nm s = Some (Some (pre, r, rest)) ->
  exists expr,
    s = pre ++ CALC ++ expr ++ rest /\
    find_sub CALC s = Some (pre, CALC ++ expr ++ rest) /\
    scan (expr ++ rest) 0 = Some (expr, rest) /\
    calc_value ev nm expr = Some r.
Proof.
  unfold calc_parts. destruct (find_sub CALC s) as [[p occ]|] eqn:F; [|discriminate].
  destruct (find_sub_split _ _ _ _ F) as [Hs Hocc]. apply calc_occurrence in Hocc.
  destruct (skipn 13 occ) as [|c after] eqn:Ha; [discriminate|].
  destruct (Ascii.eqb c LPAR); [|discriminate].
  destruct (scan (c :: after) 0) as [[expr rest']|] eqn:Sc; [|discriminate].
  destruct (calc_value ev nm expr) as [r'|] eqn:V; [|discriminate].
  intros H. injection H as <- <- <-.
  pose proof (scan_split _ _ _ _ Sc) as Hsplit.
  exists expr. rewrite Hsplit in Hocc. rewrite Hsplit in Sc.
  split; [rewrite Hs, Hocc; reflexivity|]. split; [rewrite <- Hocc; reflexivity|]. split; [exact Sc|exact V].
Qed.

Theorem calc_step_frame s s' :
  calc_step ev nm s = Step s' ->
  exists pre expr rest r,
    s = pre ++ CALC ++ expr ++ rest /\ s' = pre ++ r ++ rest /\
    find_sub CALC s = Some (pre, CALC ++ expr ++ rest) /\
    scan (expr ++ rest) 0 = Some (expr, rest) /\
    calc_value ev nm expr = Some r.
Proof.
  unfold calc_step. destruct (calc_parts ev nm s) as [[[[pre r] rest]|]|] eqn:P; try discriminate.
  intros H. injection H as <-. destruct (calc_parts_frame _ _ _ _ P) as [expr [A [B [C D]]]].
  exists pre, expr, rest, r. repeat split; assumption.
Qed.

Theorem calc_step_done s s' : calc_step ev nm s = Done s' -> s' = s /\ find_sub CALC s = None.
Proof.
  unfold calc_step. destruct (calc_parts ev nm s) as [[[[pre r] rest]|]|] eqn:P; try discriminate.
  intros H. injection H as <-. split; [reflexivity|].
  unfold calc_parts in P. destruct (find_sub CALC s) as [[p occ]|]; [discriminate|reflexivity].
Qed.

(* inside the bracket: the whole-word hand expansion (C16_calc_longest_first_is_hand_expansion), outside: nothing *)
Theorem calc_step_hand s s' :
  keys_ok nm -> calc_step ev nm s = Step s' ->
  exists pre expr rest r,
    s = pre ++ CALC ++ expr ++ rest /\ s' = pre ++ r ++ rest /\
    (Forall (known_word nm) (words_of (split_words expr)) -> ev (hand_calc nm expr) = Some r).
Proof.
  intros K H. destruct (calc_step_frame _ _ H) as [pre [expr [rest [r [A [B [_ [_ V]]]]]]]].
  exists pre, expr, rest, r. split; [exact A|]. split; [exact B|].
  intros W. unfold calc_value, calc_text in V. rewrite (calc_longest_first nm expr K W) in V.
  destruct (forallb calc_char_ok (hand_calc nm expr)); [exact V|discriminate].
Qed.
End Frame.

(* ------------------------------------------------------------------ the loop is one pass *)
Lemma prefixb_app_l k : forall u w, prefixb k u = true -> prefixb k (u ++ w) = true.
Proof.
  induction k as [|a k IH]; intros u w H; [reflexivity|]. destruct u as [|b u]; [discriminate|].
  cbn in *. apply andb_true_iff in H. destruct H as [H1 H2]. rewrite H1. cbn. apply IH, H2.
Qed.

(* a match that would have to use a character the key does not contain lies before that character *)
Lemma prefixb_before k : forall u c v, ~ In c k -> prefixb k (u ++ c :: v) = true -> prefixb k u = true.
Proof.
  induction k as [|a k IH]; intros u c v Hc H; [reflexivity|].
  destruct u as [|b u].
  - cbn in H. apply andb_true_iff in H. destruct H as [H _]. apply Ascii.eqb_eq in H. subst. exfalso. apply Hc. now left.
  - cbn in *. apply andb_true_iff in H. destruct H as [H1 H2]. rewrite H1. cbn.
    apply (IH u c v); [intros X; apply Hc; now right|exact H2].
Qed.

Definition lift_find (w : str) (o : option (str * str)) : option (str * str) :=
  match o with Some (p, q) => Some (w ++ p, q) | None => None end.

(* text none of whose characters is the key's first character is skipped *)
Lemma find_sub_skip a k : forall r rest,
  Forall (fun c => c <> a) r -> find_sub (a :: k) (r ++ rest) = lift_find r (find_sub (a :: k) rest).
Proof.
  induction r as [|c r IH]; intros rest H.
  - cbn [app]. unfold lift_find. destruct (find_sub (a :: k) rest) as [[p q]|]; reflexivity.
  - inversion H as [|? ? Hc Hr]; subst. cbn [app find_sub].
    assert (E : prefixb (a :: k) (c :: r ++ rest) = false).
    { cbn. destruct (Ascii.eqb a c) eqn:X; [|reflexivity]. apply Ascii.eqb_eq in X. subst. contradiction. }
    rewrite E, (IH rest Hr). unfold lift_find. destruct (find_sub (a :: k) rest) as [[p q]|]; reflexivity.
Qed.

Lemma find_sub_cons k c r :
  prefixb k (c :: r) = false ->
  find_sub k (c :: r) = match find_sub k r with Some (p, q) => Some (c :: p, q) | None => None end.
Proof. intros E. cbn [find_sub]. rewrite E. reflexivity. Qed.

(* the text before the first occurrence stays free of occurrences when what follows it starts with a foreign character *)
Lemma find_sub_pre k : forall pre y c z,
  find_sub k (pre ++ y) = Some (pre, y) -> ~ In c k ->
  find_sub k (pre ++ c :: z) = lift_find pre (find_sub k (c :: z)).
Proof.
  induction pre as [|a pre IH]; intros y c z H Hc.
  - cbn [app]. unfold lift_find. destruct (find_sub k (c :: z)) as [[p q]|]; reflexivity.
  - pose proof (find_sub_first _ _ _ _ H [] (a :: pre) eq_refl ltac:(discriminate)) as E0.
    assert (H' : find_sub k (pre ++ y) = Some (pre, y)).
    { cbn [app find_sub] in H. cbn [app] in E0. rewrite E0 in H.
      destruct (find_sub k (pre ++ y)) as [[p q]|]; [|discriminate]. injection H as <- <-. reflexivity. }
    assert (E : prefixb k (a :: pre ++ c :: z) = false).
    { destruct (prefixb k (a :: pre ++ c :: z)) eqn:X; [|reflexivity].
      change (a :: pre ++ c :: z) with ((a :: pre) ++ c :: z) in X. apply prefixb_before in X; [|exact Hc].
      apply (prefixb_app_l _ _ y) in X. cbn [app] in X, E0. congruence. }
    change ((a :: pre) ++ c :: z) with (a :: (pre ++ c :: z)).
    rewrite (find_sub_cons _ _ _ E), (IH y c z H' Hc). unfold lift_find.
    destruct (find_sub k (c :: z)) as [[p q]|]; reflexivity.
Qed.

Lemma num_char_not_H c : num_char c = true -> c <> ch "H".
Proof. intros H ->. discriminate. Qed.

Lemma num_first_not_in_calc c : (is_digit c || Ascii.eqb c (ch "-")) = true -> ~ In c CALC.
Proof.
  intros H X. cbn in X.
  repeat (destruct X as [X|X]; [subst c; discriminate|]). exact X.
Qed.

Lemma find_sub_value pre y r rest :
  find_sub CALC (pre ++ y) = Some (pre, y) -> numeric r = true ->
  find_sub CALC ((pre ++ r) ++ rest) = lift_find (pre ++ r) (find_sub CALC rest).
Proof.
  intros F N. destruct r as [|c r]; [discriminate|]. cbn [numeric] in N. apply andb_true_iff in N. destruct N as [N1 N2].
  rewrite <- app_assoc. change ((c :: r) ++ rest) with (c :: (r ++ rest)).
  rewrite (find_sub_pre CALC pre y c (r ++ rest) F (num_first_not_in_calc c N1)).
  change (c :: r ++ rest) with ((c :: r) ++ rest).
  change CALC with (ch "H" :: s2l "ardcode.calc").
  rewrite (find_sub_skip (ch "H") (s2l "ardcode.calc") (c :: r) rest).
  - unfold lift_find. destruct (find_sub _ rest) as [[p q]|]; [rewrite app_assoc|]; reflexivity.
  - apply Forall_forall. intros x Hx. apply num_char_not_H. rewrite forallb_forall in N2. exact (N2 x Hx).
Qed.

Section Pass.
Variable ev : str -> option str.
Variable nm : nums.
Hypothesis ev_numeric : forall t r, ev t = Some r -> numeric r = true.

Definition lift_parts (w : str) (o : option (option (str * str * str))) : option (option (str * str * str)) :=
  match o with
  | Some (Some (p, r, q)) => Some (Some (w ++ p, r, q))
  | Some None => Some None
  | None => None
  end.

Lemma calc_parts_lift w rest :
  find_sub CALC (w ++ rest) = lift_find w (find_sub CALC rest) ->
  calc_parts ev nm (w ++ rest) = lift_parts w (calc_parts ev nm rest).
Proof.
  intros H. unfold calc_parts. rewrite H. unfold lift_find, lift_parts.
  destruct (find_sub CALC rest) as [[p occ]|]; [|reflexivity].
  destruct (skipn 13 occ) as [|c after]; [reflexivity|].
  destruct (Ascii.eqb c LPAR); [|reflexivity].
  destruct (scan (c :: after) 0) as [[expr rest']|]; [|reflexivity].
  destruct (calc_value ev nm expr); reflexivity.
Qed.

Lemma one_pass_lift w : forall fuel rest,
  find_sub CALC (w ++ rest) = lift_find w (find_sub CALC rest) ->
  one_pass ev nm fuel (w ++ rest) =
  match one_pass ev nm fuel rest with CText t => CText (w ++ t) | x => x end.
Proof.
  intros [|n] rest H; [reflexivity|]. cbn [one_pass]. rewrite (calc_parts_lift _ _ H). unfold lift_parts.
  destruct (calc_parts ev nm rest) as [[[[p r] q]|]|]; try reflexivity.
  destruct (one_pass ev nm n q); try reflexivity. rewrite <- app_assoc. reflexivity.
Qed.

Theorem calc_all_one_pass : forall fuel s x,
  calc_all ev nm fuel s = CText x -> one_pass ev nm fuel s = CText x.
Proof.
  induction fuel as [|n IH]; intros s x H; [discriminate|].
  cbn [calc_all] in H. cbn [one_pass]. unfold calc_step in H.
  destruct (calc_parts ev nm s) as [[[[pre r] rest]|]|] eqn:P; try discriminate.
  - destruct (calc_parts_frame _ _ _ _ _ _ P) as [expr [Hs [F [_ V]]]].
    assert (N : numeric r = true).
    { unfold calc_value in V. destruct (calc_text nm expr); [|discriminate]. exact (ev_numeric _ _ V). }
    apply IH in H. rewrite Hs in F.
    pose proof (find_sub_value pre _ r rest F N) as L.
    rewrite app_assoc in H. rewrite (one_pass_lift (pre ++ r) n rest L) in H.
    destruct (one_pass ev nm n rest); try discriminate. rewrite <- app_assoc in H. exact H.
  - exact H.
Qed.
End Pass.

(* ------------------------------------------------------------------ the leaking variant is refuted *)
Definition ev_mark (t : str) : option str := Some (s2l "7").

Lemma calc_leak_refuted :
  exists nm s s1 s2,
    keys_ok nm /\
    calc_step ev_mark nm s = Step s1 /\ calc_step_leaky ev_mark nm s = Step s2 /\ s1 <> s2 /\
    (* the faithful step keeps the text after the bracket, the leaking one rewrites a string literal and a longer word *)
    s1 = s2l "$x = 7; say ""N is N""; $countN += 1;" /\
    s2 = s2l "$x = 7; say ""5 is 5""; $count5 += 1;".
Proof.
  exists [(s2l "N", s2l "5")], (s2l "$x = Hardcode.calc(N+2); say ""N is N""; $countN += 1;").
  eexists. eexists.
  split.
  { split; [cbn; repeat constructor; cbn; intuition discriminate|].
    repeat constructor; cbn; try discriminate; try reflexivity; try (apply Exists_cons_hd; reflexivity). }
  split; [vm_compute; reflexivity|]. split; [vm_compute; reflexivity|].
  split; [vm_compute; discriminate|]. split; vm_compute; reflexivity.
Qed.
