(* Proofs.VarOp — correctness of Model.VarOp.compile_varop against MC.Sem (C01). *)
From Coq Require Import ZArith String List Bool Lia.
From JMCV Require Import Base.Int32 Base.Dec MC.Syntax MC.Sem MC.Facts Model.Names Model.VarOp.
Import ListNotations.
Open Scope Z_scope.

Definition operand_value (st : state) (r : operand) : option Z :=
  match r with OLit z => Some z | OScore s => sc st s | ONone => None end.

(* every integer constant the statement asked for is materialised (by __load__) *)
Definition loaded (nm : names) (st : state) (ints : list Z) : Prop :=
  forall z, In z ints -> sc st (int_score nm z) = Some z.

(* literals accepted: any int32 *)
Definition lit_ok (o : vop) (r : operand) : Prop :=
  match r with
  | OLit z => in_int32 z
  | _ => True
  end.

(* the score that is "the other side" of the statement: the operand score, or the
   constant's fake player for a literal used through __int__ *)
Definition other_side (nm : names) (o : vop) (r : operand) : option score :=
  match r with
  | OScore s => Some s
  | OLit z => match o with
              | VMul | VDiv | VMod | VSwap | VMin | VMax => Some (int_score nm z)
              | VAdd | VSub => if z =? INT_MIN then Some (int_score nm z) else None
              | _ => None end
  | ONone => None
  end.

Ltac upd_simpl :=
  repeat first
    [ rewrite upd_same
    | rewrite upd_other by congruence
    | rewrite rd_upd_same
    | rewrite rd_upd_other by congruence ].

Lemma wf_add_nonneg z : in_int32 z -> 0 <= z -> ((0 <=? z) && (z <=? INT_MAX)) = true.
Proof. unfold in_int32, INT_MIN, INT_MAX. intros. apply andb_true_iff; split; apply Z.leb_le; lia. Qed.
Lemma wf_add_neg z : in_int32 z -> z < 0 -> z <> INT_MIN -> ((0 <=? - z) && (- z <=? INT_MAX)) = true.
Proof. unfold in_int32, INT_MIN, INT_MAX. intros. apply andb_true_iff; split; apply Z.leb_le; lia. Qed.

(* Minecraft scores are Java ints *)
Definition int32_state (st : state) : Prop := forall k v, sc st k = Some v -> in_int32 v.

Definition sop_meaning (o : sop) (a b : Z) : Z :=
  match o with
  | OAssign => b | OAdd => wrap (a + b) | OSub => wrap (a - b) | OMul => wrap (a * b)
  | ODiv => if b =? 0 then a else wrap (a / b)
  | OMod => if b =? 0 then a else wrap (a mod b)
  | OMin => Z.min a b | OMax => Z.max a b | OSwap => b
  end.

Lemma do_op_target st a o b :
  sc (fst (do_op st a o b)) a = Some (sop_meaning o (rd (sc st) a) (rd (sc st) b)).
Proof.
  unfold do_op, set_sc, rd.
  destruct (score_eqb_spec a b) as [->|N].
  - destruct o; cbn [sop_meaning]; try (destruct (_ =? 0)); cbn [fst sc]; upd_simpl; reflexivity.
  - destruct o; cbn [sop_meaning]; try (destruct (_ =? 0)); cbn [fst sc]; upd_simpl; reflexivity.
Qed.

Lemma do_op_other st a o b : a <> b ->
  sc (fst (do_op st a o b)) b = Some (match o with OSwap => rd (sc st) a | _ => rd (sc st) b end).
Proof.
  intros N. unfold do_op, set_sc, rd.
  destruct o; try (destruct (_ =? 0)); cbn [fst sc]; upd_simpl; reflexivity.
Qed.

Lemma do_op_frame st a o b k : k <> a -> k <> b ->
  sc (fst (do_op st a o b)) k = sc st k.
Proof.
  intros Na Nb. unfold do_op, set_sc.
  destruct o; try (destruct (_ =? 0)); cbn [fst sc]; upd_simpl; reflexivity.
Qed.

Lemma do_op_rest st a o b :
  stg (fst (do_op st a o b)) = stg st /\ tr (fst (do_op st a o b)) = tr st.
Proof. unfold do_op, set_sc. destruct o; try (destruct (_ =? 0)); cbn; auto. Qed.

Section Correct.
  Variable ft : string -> option (list cmd).
  Variable env : nat -> state -> state.

  Definition post (nm : names) (t : score) (o : vop) (r : operand) (st st' : state) : Prop :=
    (* target holds the meaning *)
    sc st' t = Some (meaning o (sc st t) (operand_value st r)) /\
    (* swap: the other side holds the old target *)
    (o = VSwap -> forall s, other_side nm o r = Some s -> s <> t ->
                            sc st' s = Some (rd0 (sc st t))) /\
    (* the other side reads as before unless swapped (an unset operand may become
       an explicit 0: Minecraft's getOrCreate) *)
    (o <> VSwap -> forall s, other_side nm o r = Some s -> s <> t ->
                             rd (sc st') s = rd (sc st) s) /\
    (* nothing else changes *)
    (forall k, k <> t -> other_side nm o r <> Some k -> sc st' k = sc st k) /\
    stg st' = stg st /\ tr st' = tr st.

  (* binary operation against a score b whose value is given by y *)
  Lemma op_case nm t o r b st :
    other_side nm o r = Some b ->
    sop_meaning (sop_of o) (rd (sc st) t) (rd (sc st) b) = meaning o (sc st t) (operand_value st r) ->
    (o = VSwap <-> sop_of o = OSwap) ->
    post nm t o r st (fst (do_op st t (sop_of o) b)).
  Proof.
    intros Ho Hm Hsw. unfold post. rewrite Ho.
    destruct (do_op_rest st t (sop_of o) b) as [H1 H2].
    repeat split; auto.
    - rewrite do_op_target. now rewrite Hm.
    - intros E s [= <-] N. rewrite do_op_other by congruence.
      apply Hsw in E. rewrite E. reflexivity.
    - intros E s [= <-] N. unfold rd at 1. rewrite do_op_other by congruence.
      destruct (sop_of o) eqn:E2; try reflexivity. exfalso; apply E; now apply Hsw.
    - intros k N1 N2. apply do_op_frame; congruence.
  Qed.

  Lemma exec_op_list a o b st :
    exec_list ft env 3 [COp a o b] st = Some (fst (do_op st a o b)).
  Proof. unfold exec_list. cbn [seq_run exec]. now destruct (do_op st a o b). Qed.

  (* a statement whose only effect is to give the target the value v *)
  Lemma set_case nm t o r st v :
    other_side nm o r = None -> o <> VSwap ->
    v = meaning o (sc st t) (operand_value st r) ->
    post nm t o r st (set_sc st t v).
  Proof.
    intros Ho Hs ->. unfold post, set_sc. rewrite Ho. cbn [sc stg tr].
    repeat split; try discriminate; try congruence.
    - now rewrite upd_same.
    - intros k N _. now rewrite upd_other by congruence.
  Qed.

  Lemma noop_case nm t o r st :
    other_side nm o r = None -> o <> VSwap ->
    sc st t = Some (meaning o (sc st t) (operand_value st r)) ->
    post nm t o r st st.
  Proof.
    intros Ho Hs E. unfold post. rewrite Ho.
    repeat split; try discriminate; try congruence.
  Qed.

  Lemma varop_correct nm t o r cmds ints st :
    compile_varop nm t o r = Some (cmds, ints) ->
    lit_ok o r -> loaded nm st ints -> snd t <> int_name nm -> int32_state st ->
    forallb wf_cmd cmds = true /\
    exists st', exec_list ft env 3 cmds st = Some st' /\ post nm t o r st st'.
  Proof.
    intros Hc Hl Hld Ht Hinv.
    assert (Hti : forall z, int_score nm z <> t).
    { intros z E. apply Ht. rewrite <- E. reflexivity. }
    destruct o, r as [z|s|]; cbn in Hc; try discriminate.
    all: try match type of Hc with context [?zz =? INT_MIN] => destruct (zz =? INT_MIN) eqn:Em end.
    all: injection Hc as <- <-.
    all: try (assert (Hz : sc st (int_score nm z) = Some z) by (apply Hld; cbn; auto)).
    (* binary operations through `scoreboard players operation` *)
    all: try (split; [reflexivity|]; eexists; split; [apply exec_op_list|];
              apply op_case;
              [ reflexivity
              | unfold rd, rd0; cbn [sop_of sop_meaning meaning operand_value]; rewrite ?Hz; reflexivity
              | split; intros; first [discriminate | reflexivity] ]).
    - (* = lit *)
      rename Hl into Hr. split; [cbn; rewrite (proj2 (in_int32b_spec z) Hr); reflexivity|].
      eexists; split; [reflexivity|]. apply set_case; [reflexivity|discriminate|reflexivity].
    - (* += INT_MIN *)
      split; [reflexivity|]. eexists; split; [apply exec_op_list|].
      apply op_case; [cbn; now rewrite Em
                      | unfold rd, rd0; cbn [sop_of sop_meaning meaning operand_value]; rewrite Hz; reflexivity
                      | split; intros; discriminate].
    - (* += lit *)
      rename Hl into Hr. apply Z.eqb_neq in Em. destruct (z <? 0) eqn:Ez.
      + apply Z.ltb_lt in Ez. split; [cbn; rewrite wf_add_neg; auto|].
        eexists; split; [reflexivity|].
        apply set_case; [cbn; now rewrite (proj2 (Z.eqb_neq _ _) Em)|discriminate|].
        cbn. unfold rd, rd0. f_equal; lia.
      + apply Z.ltb_ge in Ez. split; [cbn; rewrite wf_add_nonneg; auto|].
        eexists; split; [reflexivity|].
        apply set_case; [cbn; now rewrite (proj2 (Z.eqb_neq _ _) Em)|discriminate|reflexivity].
    - (* -= INT_MIN *)
      split; [reflexivity|]. eexists; split; [apply exec_op_list|].
      apply op_case; [cbn; now rewrite Em
                      | unfold rd, rd0; cbn [sop_of sop_meaning meaning operand_value]; rewrite Hz; reflexivity
                      | split; intros; discriminate].
    - (* -= lit *)
      rename Hl into Hr. apply Z.eqb_neq in Em. destruct (z <? 0) eqn:Ez.
      + apply Z.ltb_lt in Ez. split; [cbn; rewrite wf_add_neg; auto|].
        eexists; split; [reflexivity|].
        apply set_case; [cbn; now rewrite (proj2 (Z.eqb_neq _ _) Em)|discriminate|].
        cbn. unfold rd, rd0. f_equal; lia.
      + apply Z.ltb_ge in Ez. split; [cbn; rewrite wf_add_nonneg; auto|].
        eexists; split; [reflexivity|].
        apply set_case; [cbn; now rewrite (proj2 (Z.eqb_neq _ _) Em)|discriminate|reflexivity].
    - (* ??= lit *)
      rename Hl into Hr. destruct (z =? 0) eqn:Ez.
      + apply Z.eqb_eq in Ez. subst z. split; [reflexivity|].
        eexists; split; [reflexivity|]. apply set_case; [reflexivity|discriminate|].
        cbn. unfold rd. destruct (sc st t) eqn:Et; cbn; [|reflexivity].
        rewrite Z.add_0_r, wrap_id; eauto.
      + split; [cbn; rewrite (proj2 (in_int32b_spec z) Hr); reflexivity|].
        unfold exec_list, unless_set. cbn [seq_run exec run_mods test_true].
        destruct (sc st t) as [v|] eqn:Et.
        * unfold cmp_true. rewrite Z.eqb_refl. cbn.
          eexists; split; [reflexivity|]. apply noop_case; [reflexivity|discriminate|].
          rewrite Et. reflexivity.
        * cbn. eexists; split; [reflexivity|]. apply set_case; [reflexivity|discriminate|].
          rewrite Et. reflexivity.
    - (* ??= score *)
      split; [reflexivity|].
      unfold exec_list, unless_set. cbn [seq_run exec run_mods test_true].
      destruct (sc st t) as [v|] eqn:Et.
      + unfold cmp_true. rewrite Z.eqb_refl. cbn.
        eexists; split; [reflexivity|]. unfold post. cbn [other_side].
        repeat split; try discriminate; try congruence.
        rewrite Et; reflexivity.
      + cbn [Bool.eqb]. destruct (do_op st t OAssign s) as [s1 r1] eqn:Ed.
        cbn [apply_stores fold_left]. eexists; split; [reflexivity|].
        replace s1 with (fst (do_op st t OAssign s)) by now rewrite Ed.
        unfold post. cbn [other_side].
        destruct (do_op_rest st t OAssign s) as [H1 H2].
        repeat split; auto; try discriminate.
        * rewrite do_op_target. cbn. unfold rd, rd0. now rewrite Et.
        * intros _ s' [= <-] N. unfold rd at 1. now rewrite do_op_other by congruence.
        * intros k N1 N2. apply do_op_frame; congruence.
    - (* ++ *) split; [reflexivity|]. eexists; split; [reflexivity|].
      apply set_case; [reflexivity|discriminate|reflexivity].
    - (* -- *) split; [reflexivity|]. eexists; split; [reflexivity|].
      apply set_case; [reflexivity|discriminate|reflexivity].
    - (* = true *) split; [reflexivity|]. eexists; split; [reflexivity|].
      apply set_case; [reflexivity|discriminate|reflexivity].
    - (* = false *) split; [reflexivity|]. eexists; split; [reflexivity|].
      apply set_case; [reflexivity|discriminate|reflexivity].
    - (* ??= true *)
      split; [reflexivity|].
      unfold exec_list, unless_set. cbn [seq_run exec run_mods test_true].
      destruct (sc st t) as [v|] eqn:Et.
      + unfold cmp_true. rewrite Z.eqb_refl. cbn.
        eexists; split; [reflexivity|]. apply noop_case; [reflexivity|discriminate|].
        rewrite Et. reflexivity.
      + cbn. eexists; split; [reflexivity|]. apply set_case; [reflexivity|discriminate|].
        rewrite Et. reflexivity.
    - (* ??= false *)
      split; [reflexivity|]. eexists; split; [reflexivity|].
      apply set_case; [reflexivity|discriminate|].
      cbn. unfold rd. destruct (sc st t) eqn:Et; cbn; [|reflexivity].
      rewrite Z.add_0_r, wrap_id; eauto.
  Qed.
End Correct.

(* The constants requested by a statement are materialised by the __load__ lines
   `scoreboard players set <n> __int__ <n>` (DataPack.build). *)
Definition load_ints (nm : names) (ints : list Z) : list cmd :=
  map (fun z => CSet (int_score nm z) z) ints.

Lemma int_score_inj nm a b : int_score nm a = int_score nm b -> a = b.
Proof. unfold int_score. intros [= H]. now apply z_dec_inj. Qed.

Lemma load_ints_loaded ft env nm ints st :
  exists st', exec_list ft env 1 (load_ints nm ints) st = Some st' /\ loaded nm st' ints /\
              (forall k, (forall z, In z ints -> k <> int_score nm z) -> sc st' k = sc st k).
Proof.
  unfold exec_list, loaded. revert st. induction ints as [|w l IH]; intros st.
  - exists st. repeat split; auto. intros z [].
  - cbn [load_ints map seq_run exec].
    destruct (IH (set_sc st (int_score nm w) w)) as [st' [E [L F]]].
    exists st'. split; [exact E|]. split.
    + intros z [<-|Hz]; [|now apply L].
      destruct (in_dec Z.eq_dec w l) as [Hin|Hn]; [now apply L|].
      rewrite F.
      * unfold set_sc; cbn. apply upd_same.
      * intros y Hy Heq. apply int_score_inj in Heq. subst y. contradiction.
    + intros k Hk. rewrite F.
      * unfold set_sc; cbn. apply upd_other. intros Heq. apply (Hk w); [now left|congruence].
      * intros z Hz. apply Hk. now right.
Qed.
