(* Proofs.ExprOpt — optimize_const (merge_constants, the `v = c; v += a` swap, the deletion of
   `v += 0` / `v *= 1`) preserves the meaning of EVERY operation list (C02_optimize_correct):
   whatever the operators, operands, aliasing and order, on every assignment of 32-bit values to the
   scores the optimised list leaves every score with the value the original list leaves. *)
From Coq Require Import ZArith String List Bool Lia Setoid Morphisms.
From JMCV Require Import Base.Int32 Base.Dec MC.Syntax Model.Names Model.VarOp Model.Expr Model.ExprSpec
     Model.ExprFront Model.ExprBack Proofs.ExprLower.
Import ListNotations.
Open Scope Z_scope.

(* ------------------------------------------------------------------ wrap algebra *)
Lemma wrap_sub_r x y : wrap (x - wrap y) = wrap (x - y).
Proof.
  destruct (wrap_congr y) as [k Hk]. symmetry.
  apply (wrap_eq_of_congr _ _ (- k)). lia.
Qed.
Lemma wrap_mul_r x y : wrap (x * wrap y) = wrap (x * y).
Proof. rewrite (Z.mul_comm x), wrap_mul_l. f_equal; lia. Qed.

(* equality modulo 2^32, a congruence for + - * : inner wraps can be dropped anywhere *)
Definition eqm (a b : Z) : Prop := wrap a = wrap b.
#[global] Instance eqm_equiv : Equivalence eqm.
Proof. unfold eqm. split; [intros x; reflexivity|intros x y H; now symmetry|intros x y z H1 H2; congruence]. Qed.
#[global] Instance eqm_add : Proper (eqm ==> eqm ==> eqm) Z.add.
Proof.
  unfold eqm. intros a a' Ha b b' Hb.
  rewrite <- (wrap_add_l a), <- (wrap_add_r _ b), Ha, Hb, wrap_add_l, wrap_add_r. reflexivity.
Qed.
#[global] Instance eqm_sub : Proper (eqm ==> eqm ==> eqm) Z.sub.
Proof.
  unfold eqm. intros a a' Ha b b' Hb.
  rewrite <- (wrap_sub_l a), <- (wrap_sub_r _ b), Ha, Hb, wrap_sub_l, wrap_sub_r. reflexivity.
Qed.
#[global] Instance eqm_mul : Proper (eqm ==> eqm ==> eqm) Z.mul.
Proof.
  unfold eqm. intros a a' Ha b b' Hb.
  rewrite <- (wrap_mul_l a), <- (wrap_mul_r _ b), Ha, Hb, wrap_mul_l, wrap_mul_r. reflexivity.
Qed.
Lemma wrap_eqm x : eqm (wrap x) x.
Proof. unfold eqm. apply wrap_wrap. Qed.

Ltac wsimp :=
  match goal with
  | |- wrap ?a = wrap ?b => change (eqm a b); rewrite ?wrap_eqm; unfold eqm; f_equal; ring
  end.

(* ------------------------------------------------------------------ 32-bit assignments *)
Definition R32 (g : score -> Z) : Prop := forall k, in_int32 (g k).
Definition const32 (x : oper2) : Prop := match o_num x with CConst c => in_int32 c | CVar _ => True end.
Definition consts32 (l : list oper2) : Prop := forall x, In x l -> const32 x.

Lemma consts32_app a b : consts32 (a ++ b) <-> consts32 a /\ consts32 b.
Proof.
  unfold consts32. split.
  - intros H. split; intros x Hx; apply H, in_or_app; auto.
  - intros [Ha Hb] x Hx. apply in_app_or in Hx. destruct Hx; auto.
Qed.
Lemma consts32_cons x l : consts32 (x :: l) <-> const32 x /\ consts32 l.
Proof.
  unfold consts32. split.
  - intros H. split; [apply H; now left|intros y Hy; apply H; now right].
  - intros [Hx Hl] y [<-|Hy]; auto.
Qed.
Lemma consts32_nil : consts32 [].
Proof. intros x []. Qed.

Lemma op_sem_R32 o a b : in_int32 a -> in_int32 b -> in_int32 (op_sem o a b).
Proof.
  intros Ha Hb. destruct o; cbn [op_sem]; try apply wrap_range; try assumption.
  - destruct (b =? 0); [assumption|apply wrap_range].
  - destruct (b =? 0); [assumption|apply wrap_range].
Qed.

Lemma interp_one_R32 g x : R32 g -> const32 x -> R32 (interp_one g x).
Proof.
  intros Hg Hx k. unfold interp_one. destruct (score_eqb (o_var x) k); [|apply Hg].
  apply op_sem_R32; [apply Hg|]. unfold const32 in Hx. destruct (o_num x); cbn [numval]; [exact Hx|apply Hg].
Qed.
Lemma interp_ops_R32 l : forall g, R32 g -> consts32 l -> R32 (interp_ops l g).
Proof.
  induction l as [|x r IH]; intros g Hg Hc; [exact Hg|].
  apply consts32_cons in Hc. destruct Hc as [Hx Hr].
  change (interp_ops (x :: r) g) with (interp_ops r (interp_one g x)).
  apply IH; [now apply interp_one_R32|exact Hr].
Qed.

Lemma interp_app l1 l2 f : interp_ops (l1 ++ l2) f = interp_ops l2 (interp_ops l1 f).
Proof. unfold interp_ops. apply fold_left_app. Qed.
Lemma interp_cons x l f : interp_ops (x :: l) f = interp_ops l (interp_one f x).
Proof. reflexivity. Qed.

(* two lists mean the same on 32-bit assignments *)
Definition equiv (l1 l2 : list oper2) : Prop :=
  forall g, R32 g -> forall k, interp_ops l1 g k = interp_ops l2 g k.

Lemma equiv_refl l : equiv l l.
Proof. intros g _ k. reflexivity. Qed.
Lemma equiv_trans a b c : equiv a b -> equiv b c -> equiv a c.
Proof. intros H1 H2 g Hg k. rewrite H1 by exact Hg. now apply H2. Qed.
Lemma equiv_sym a b : equiv a b -> equiv b a.
Proof. intros H g Hg k. symmetry. now apply H. Qed.

Lemma equiv_ctx acc l1 l2 r : consts32 acc -> equiv l1 l2 -> equiv (acc ++ l1 ++ r) (acc ++ l2 ++ r).
Proof.
  intros Ha H g Hg k. rewrite !interp_app. apply interp_ops_ext. intros k'.
  apply H. now apply interp_ops_R32.
Qed.
Lemma equiv_app_r acc l1 l2 : consts32 acc -> equiv l1 l2 -> equiv (acc ++ l1) (acc ++ l2).
Proof.
  intros Ha H. pose proof (equiv_ctx acc l1 l2 [] Ha H) as E. now rewrite !app_nil_r in E.
Qed.

(* ------------------------------------------------------------------ operations on one variable *)
Definition group_var (v : score) (l : list oper2) : Prop := forall x, In x l -> o_var x = v.

Lemma interp_one_off g x k : o_var x <> k -> interp_one g x k = g k.
Proof. intros H. unfold interp_one. now rewrite score_eqb_neq. Qed.
Lemma interp_one_on g x : interp_one g x (o_var x) = op_sem (o_op x) (g (o_var x)) (numval g (o_num x)).
Proof. unfold interp_one. now rewrite score_eqb_refl. Qed.

Lemma group_off v l : group_var v l -> forall g k, k <> v -> interp_ops l g k = g k.
Proof.
  induction l as [|x r IH]; intros Hv g k Hk; [reflexivity|].
  rewrite interp_cons, IH; [|intros y Hy; apply Hv; now right|exact Hk].
  apply interp_one_off. rewrite (Hv x (or_introl eq_refl)). congruence.
Qed.

(* ---- deleting the operations that do nothing *)
Lemma identity_noop g x : R32 g -> is_identity x = true -> forall k, interp_one g x k = g k.
Proof.
  intros Hg Hi k. unfold is_identity in Hi. unfold interp_one.
  destruct (score_eqb_spec (o_var x) k) as [<-|N]; [|reflexivity].
  destruct (o_num x) as [c|s]; [|discriminate]. cbn [numval].
  pose proof (Hg (o_var x)) as Hr.
  destruct (o_op x); try discriminate; apply Z.eqb_eq in Hi; subst c; cbn [op_sem].
  - rewrite Z.add_0_r. now apply wrap_id.
  - rewrite Z.sub_0_r. now apply wrap_id.
  - rewrite Z.mul_1_r. now apply wrap_id.
  - cbn. rewrite Z.div_1_r. now apply wrap_id.
Qed.

Lemma filter_identity l : consts32 l -> equiv (filter (fun x => negb (is_identity x)) l) l.
Proof.
  induction l as [|x r IH]; intros Hc; [apply equiv_refl|].
  apply consts32_cons in Hc. destruct Hc as [Hx Hr].
  intros g Hg k. cbn [filter]. destruct (is_identity x) eqn:Ei; cbn [negb].
  - rewrite interp_cons. rewrite (IH Hr g Hg k). apply interp_ops_ext. intros k'.
    symmetry. now apply identity_noop.
  - rewrite !interp_cons. apply IH; [exact Hr|now apply interp_one_R32].
Qed.

(* ---- the operations between the anchor and the constant that is merged into it *)
(* additions/subtractions (K = KAdd) or multiplications (K = KMul) of other scores to v *)
Definition btw (v : score) (K : kind) (x : oper2) : Prop :=
  o_var x = v /\ kind_of (o_op x) = Some K /\ exists s, o_num x = CVar s /\ s <> v.

Definition kstep (K : kind) (o : opc) (a b : Z) : Z :=
  match K with
  | KAdd => match o with PSub => a - b | _ => a + b end
  | KMul => a * b
  end.
Definition kunit (K : kind) : Z := match K with KAdd => 0 | KMul => 1 end.

(* the combined operand of a run of such operations *)
Fixpoint ksum (K : kind) (g : score -> Z) (B : list oper2) : Z :=
  match B with
  | [] => kunit K
  | x :: r => kstep K (match K with KAdd => PAdd | KMul => PMul end)
                    (kstep K (o_op x) (kunit K) (numval g (o_num x))) (ksum K g r)
  end.

Lemma ksum_ext K B v g1 g2 : Forall (btw v K) B -> (forall k, k <> v -> g1 k = g2 k) -> ksum K g1 B = ksum K g2 B.
Proof.
  induction 1 as [|x r Hx Hr IH]; intros He; [reflexivity|]. cbn [ksum].
  destruct Hx as (_ & _ & s & Es & Ns). rewrite Es. cbn [numval]. rewrite (He s Ns), (IH He). reflexivity.
Qed.

Lemma btw_value v K B : Forall (btw v K) B -> B <> [] -> forall g,
  interp_ops B g v = wrap (kstep K (match K with KAdd => PAdd | KMul => PMul end) (g v) (ksum K g B)).
Proof.
  induction 1 as [|x r Hx Hr IH]; intros Hne g; [congruence|].
  rewrite interp_cons. pose proof Hx as (Ev & Ek & s & Es & Ns).
  assert (Hoff : forall k, k <> v -> interp_one g x k = g k).
  { intros k Hk. apply interp_one_off. congruence. }
  assert (Hon : interp_one g x v = op_sem (o_op x) (g v) (g s)).
  { rewrite <- Ev at 1. rewrite interp_one_on, Ev, Es. reflexivity. }
  destruct r as [|y r'].
  - cbn [interp_ops fold_left ksum]. rewrite Hon. rewrite Es. cbn [numval].
    destruct K, (o_op x); cbn in Ek; try discriminate; cbn [op_sem kstep kunit]; f_equal; lia.
  - rewrite IH by discriminate.
    rewrite (ksum_ext K (y :: r') v (interp_one g x) g Hr Hoff). rewrite Hon.
    cbn [ksum]. rewrite Es. cbn [numval].
    destruct K, (o_op x); cbn in Ek; try discriminate; cbn [op_sem kstep kunit]; wsimp.
Qed.

(* ---- merging a constant into the anchor *)
Lemma fold_some o c n z : fval (fold_constants o c n) = Some z -> o <> PPow -> o <> PEmpty ->
  z = op_sem o c n /\ in_int32 z.
Proof.
  intros H Hp He. destruct o; cbn in H; try congruence.
  - injection H as <-. split; [reflexivity|apply wrap_range].
  - injection H as <-. split; [reflexivity|apply wrap_range].
  - injection H as <-. split; [reflexivity|apply wrap_range].
  - cbn [op_sem]. destruct (n =? 0); [discriminate|]. injection H as <-. split; [reflexivity|apply wrap_range].
  - cbn [op_sem]. destruct (n =? 0); [discriminate|]. injection H as <-. split; [reflexivity|apply wrap_range].
Qed.

Lemma merge_constant_range fo c o n c' : merge_constant fo c o n = Some c' -> in_int32 c'.
Proof.
  unfold merge_constant. intros H.
  destruct fo; try discriminate; destruct o; try discriminate; cbn [opc_eqb] in H;
    try (apply fold_some in H; [exact (proj2 H)|discriminate|discriminate]).
  - destruct ((0 <? c) && (0 <? n) && (c * n <? 2147483648)) eqn:E; [|discriminate].
    injection H as <-. apply andb_true_iff in E. destruct E as [E E3]. apply andb_true_iff in E. destruct E as [E1 E2].
    apply Z.ltb_lt in E1, E2, E3. unfold in_int32, INT_MIN, INT_MAX. nia.
Qed.

(* adjacent:  v fo= c; v o= n   is   v fo= c' *)
Lemma merge_adjacent fo c o n c' x : merge_constant fo c o n = Some c' -> in_int32 x ->
  op_sem o (op_sem fo x c) n = op_sem fo x c'.
Proof.
  unfold merge_constant. intros H Hx.
  destruct fo; try discriminate.
  - (* = *) destruct o; try discriminate; apply fold_some in H; try discriminate; destruct H as [-> _]; reflexivity.
  - (* + *) destruct o; try discriminate; cbn [opc_eqb] in H; apply fold_some in H; try discriminate;
      destruct H as [-> _]; cbn [op_sem]; wsimp.
  - (* - *) destruct o; try discriminate; cbn [opc_eqb] in H; apply fold_some in H; try discriminate;
      destruct H as [-> _]; cbn [op_sem]; wsimp.
  - (* * *) destruct o; try discriminate; apply fold_some in H; try discriminate;
      destruct H as [-> _]; cbn [op_sem]; wsimp.
  - (* / *) destruct o; try discriminate.
    destruct ((0 <? c) && (0 <? n) && (c * n <? 2147483648)) eqn:E; [|discriminate].
    injection H as <-. apply andb_true_iff in E. destruct E as [E E3]. apply andb_true_iff in E. destruct E as [E1 E2].
    apply Z.ltb_lt in E1, E2, E3. cbn [op_sem].
    assert (Hc : (c =? 0) = false) by (apply Z.eqb_neq; lia).
    assert (Hn : (n =? 0) = false) by (apply Z.eqb_neq; lia).
    assert (Hcn : (c * n =? 0) = false) by (apply Z.eqb_neq; nia).
    rewrite Hc, Hn, Hcn.
    assert (Hq : in_int32 (x / c)).
    { unfold in_int32, INT_MIN, INT_MAX in *.
      destruct (Z_le_gt_dec 0 x).
      - pose proof (Z.div_pos x c ltac:(lia) ltac:(lia)). pose proof (Z.div_le_upper_bound x c 2147483647 ltac:(lia) ltac:(nia)). lia.
      - pose proof (Z.div_le_lower_bound x c (-2147483648) ltac:(lia) ltac:(nia)).
        pose proof (Z.div_lt_upper_bound x c 0 ltac:(lia) ltac:(lia)). lia. }
    rewrite (wrap_id (x / c) Hq). f_equal. apply Z.div_div; lia.
Qed.

(* across a run B of commuting operations:  v fo= c; B; v o= n   is   v fo= c'; B *)
Lemma merge_across v K B fo c o n c' g :
  merge_constant fo c o n = Some c' ->
  Forall (btw v K) B -> B <> [] -> kind_of o = Some K -> (fo = PEmpty \/ kind_of fo = Some K) ->
  forall k, interp_ops ((v, fo, CConst c') :: B) g k = interp_ops ((v, fo, CConst c) :: B ++ [(v, o, CConst n)]) g k.
Proof.
  intros Hm HB Hne Ho Hfo k.
  assert (GB : group_var v B).
  { intros x Hx. rewrite Forall_forall in HB. exact (proj1 (HB x Hx)). }
  destruct (score_eqb_spec k v) as [->|Nk].
  2:{ rewrite !interp_cons, interp_app, interp_cons. cbn [interp_ops fold_left].
      rewrite interp_one_off by (cbn; congruence).
      rewrite !(group_off v B GB) by exact Nk.
      rewrite !interp_one_off by (cbn; congruence). reflexivity. }
  rewrite !interp_cons, interp_app, interp_cons. cbn [interp_ops fold_left].
  change (fold_left interp_one B ?f) with (interp_ops B f).
  rewrite (interp_one_on _ (v, o, CConst n)). cbn [o_var o_op o_num fst snd numval].
  rewrite !(btw_value v K B HB Hne).
  set (g1 := interp_one g (v, fo, CConst c)). set (g1' := interp_one g (v, fo, CConst c')).
  assert (E1 : ksum K g1 B = ksum K g B).
  { apply (ksum_ext K B v); [exact HB|]. intros k' Hk'. apply interp_one_off. cbn. congruence. }
  assert (E1' : ksum K g1' B = ksum K g B).
  { apply (ksum_ext K B v); [exact HB|]. intros k' Hk'. apply interp_one_off. cbn. congruence. }
  rewrite E1, E1'. set (D := ksum K g B).
  assert (V1 : g1 v = op_sem fo (g v) c) by (unfold g1; apply (interp_one_on g (v, fo, CConst c))).
  assert (V1' : g1' v = op_sem fo (g v) c') by (unfold g1'; apply (interp_one_on g (v, fo, CConst c'))).
  rewrite V1, V1'. clear E1 E1' V1 V1' g1 g1'.
  unfold merge_constant in Hm.
  destruct K.
  - (* additions / subtractions *)
    destruct o; cbn in Ho; try discriminate;
      (destruct Hfo as [->|Hfo]; [|destruct fo; cbn in Hfo; try discriminate]);
      cbn [opc_eqb] in Hm; apply fold_some in Hm; try discriminate; destruct Hm as [-> _];
      cbn [op_sem kstep]; wsimp.
  - (* multiplications *)
    destruct o; cbn in Ho; try discriminate;
      (destruct Hfo as [->|Hfo]; [|destruct fo; cbn in Hfo; try discriminate]);
      apply fold_some in Hm; try discriminate; destruct Hm as [-> _];
      cbn [op_sem kstep]; wsimp.
Qed.

(* ------------------------------------------------------------------ merge_constants *)
Definition sig (x : oper2) : score * opc := (o_var x, o_op x).

(* the state of the loop after the prefix p of a run on the variable v *)
Record minv (v : score) (p : list oper2) (st : mstate) : Prop := mkMinv {
  mi_equiv : equiv (rev (m_close st)) p;
  mi_c32 : consts32 (m_close st);
  mi_sig : forall y, In y (m_close st) -> exists x, In x p /\ sig x = sig y;
  mi_anchor : forall av ao ac, m_anchor st = Some (av, ao, ac) ->
      av = v /\ in_int32 ac /\
      match m_crossed st with
      | None => m_between st = []
      | Some K => Forall (btw v K) (m_between st) /\ m_between st <> [] /\ (ao = PEmpty \/ kind_of ao = Some K)
      end;
  mi_noanchor : m_anchor st = None -> m_between st = []
}.

Lemma close_fresh st var op n :
  m_close (mkM (m_close st) (Some (var, op, n)) [] None) = (var, op, CConst n) :: m_close st.
Proof. reflexivity. Qed.

Lemma Forall_rev_btw v K l : Forall (btw v K) l -> Forall (btw v K) (rev l).
Proof. intros H. apply Forall_forall. intros x Hx. rewrite Forall_forall in H. apply H. now apply in_rev. Qed.

Lemma equiv_snoc l p x : equiv l p -> equiv (l ++ [x]) (p ++ [x]).
Proof.
  intros H g Hg k. rewrite !interp_app. apply interp_ops_ext. intros k'. now apply H.
Qed.

Lemma merge_step_inv v p st x :
  minv v p st -> o_var x = v -> const32 x -> consts32 p -> minv v (p ++ [x]) (merge_step st x).
Proof.
  intros I Hv Hx Hp. destruct x as [[var op] num]. cbn [o_var fst] in Hv. subst var.
  assert (Hsnoc : forall st', m_close st' = (v, op, num) :: m_close st ->
                    equiv (rev (m_close st')) (p ++ [(v, op, num)]) /\
                    consts32 (m_close st') /\
                    (forall y, In y (m_close st') -> exists x, In x (p ++ [(v, op, num)]) /\ sig x = sig y)).
  { intros st' E. rewrite E. cbn [rev]. split; [apply equiv_snoc, (mi_equiv _ _ _ I)|]. split.
    - apply consts32_cons. split; [exact Hx|apply (mi_c32 _ _ _ I)].
    - intros y [<-|Hy].
      + exists (v, op, num). split; [apply in_or_app; right; now left|reflexivity].
      + destruct (mi_sig _ _ _ I y Hy) as (x & Hxin & Es). exists x. split; [apply in_or_app; now left|exact Es]. }
  unfold merge_step. destruct num as [n|s].
  - (* a constant operand *)
    assert (Hfresh : minv v (p ++ [(v, op, CConst n)]) (mkM (m_close st) (Some (v, op, n)) [] None)).
    { destruct (Hsnoc (mkM (m_close st) (Some (v, op, n)) [] None) (close_fresh st v op n)) as (E & C & S).
      constructor; try assumption.
      - intros av ao ac [= <- <- <-]. cbn [m_crossed m_between]. split; [reflexivity|split; [exact Hx|reflexivity]].
      - discriminate. }
    destruct (m_anchor st) as [[[av ao] ac]|] eqn:Ea; [|exact Hfresh].
    destruct (crossed_ok (m_crossed st) (kind_of op)) eqn:Eck; [|exact Hfresh].
    destruct (merge_constant ao ac op n) as [c'|] eqn:Em; [|exact Hfresh].
    (* merged *)
    destruct (mi_anchor _ _ _ I av ao ac Ea) as (-> & Hac & Hcr).
    pose proof (merge_constant_range _ _ _ _ _ Em) as Hc'.
    assert (Ecl : m_close st = m_between st ++ (v, ao, CConst ac) :: m_done st).
    { unfold m_close. now rewrite Ea. }
    assert (Ecl' : m_close (mkM (m_done st) (Some (v, ao, c')) (m_between st) (m_crossed st))
                   = m_between st ++ (v, ao, CConst c') :: m_done st) by reflexivity.
    pose proof (mi_c32 _ _ _ I) as C32. rewrite Ecl in C32.
    apply consts32_app in C32. destruct C32 as [Cb Cd]. apply consts32_cons in Cd. destruct Cd as [_ Cd].
    constructor.
    + (* meaning *)
      rewrite Ecl'. rewrite rev_app_distr. cbn [rev]. rewrite <- app_assoc. cbn [app].
      apply (equiv_trans _ (rev (m_done st) ++ ((v, ao, CConst ac) :: rev (m_between st) ++ [(v, op, CConst n)]))).
      * apply equiv_app_r; [intros y Hy; apply Cd; now apply in_rev|].
        intros g Hg k.
        destruct (m_crossed st) as [K|] eqn:Ecr.
        -- destruct Hcr as (HB & Hne & Hao).
           apply (merge_across v K); try assumption.
           ++ now apply Forall_rev_btw.
           ++ intros E. apply Hne. apply (f_equal (@rev oper2)) in E. now rewrite rev_involutive in E.
           ++ cbn in Eck. destruct (kind_of op) as [k'|]; [|discriminate]. destruct K, k'; cbn in Eck; congruence.
        -- rewrite Hcr. cbn [rev app]. rewrite !interp_cons. cbn [interp_ops fold_left].
           unfold interp_one; cbn [o_var o_op o_num fst snd numval].
           destruct (score_eqb_spec v k) as [<-|N]; [|reflexivity].
           rewrite ?score_eqb_refl. symmetry. apply (merge_adjacent ao ac op n c'); [exact Em|apply Hg].
      * pose proof (equiv_snoc _ _ (v, op, CConst n) (mi_equiv _ _ _ I)) as E.
        rewrite Ecl in E. rewrite rev_app_distr in E. cbn [rev] in E. rewrite <- !app_assoc in E. cbn [app] in E.
        exact E.
    + rewrite Ecl'. apply consts32_app. split; [exact Cb|]. apply consts32_cons. split; [exact Hc'|exact Cd].
    + rewrite Ecl'. intros y Hy.
      assert (Hy' : exists y', In y' (m_close st) /\ sig y' = sig y).
      { rewrite Ecl. apply in_app_or in Hy. destruct Hy as [Hy|[<-|Hy]].
        - exists y. split; [apply in_or_app; now left|reflexivity].
        - exists (v, ao, CConst ac). split; [apply in_or_app; right; now left|reflexivity].
        - exists y. split; [apply in_or_app; right; now right|reflexivity]. }
      destruct Hy' as (y' & Hy' & Es). destruct (mi_sig _ _ _ I y' Hy') as (x & Hxin & Es').
      exists x. split; [apply in_or_app; now left|congruence].
    + intros av' ao' ac' [= <- <- <-]. cbn [m_crossed m_between]. split; [reflexivity|split; [exact Hc'|exact Hcr]].
    + discriminate.
  - (* a score operand *)
    destruct (m_anchor st) as [[[av ao] ac]|] eqn:Ea.
    + destruct (mi_anchor _ _ _ I av ao ac Ea) as (-> & Hac & Hcr).
      match goal with |- minv _ _ (if ?c then _ else _) => destruct c eqn:Ec end.
      * (* the anchor is closed *)
        destruct (Hsnoc (mkM ((v, op, CVar s) :: m_close st) None [] (m_crossed st)) eq_refl) as (E & C & S).
        constructor; try assumption; [discriminate|reflexivity].
      * (* the operation is crossed *)
        apply orb_false_iff in Ec. destruct Ec as [Ec E4]. apply orb_false_iff in Ec. destruct Ec as [Ec E3].
        apply orb_false_iff in Ec. destruct Ec as [E1 E2].
        destruct (kind_of op) as [K|] eqn:Ek; [|discriminate].
        assert (Ns : s <> v) by (intros ->; now rewrite score_eqb_refl in E2).
        assert (Ecl' : m_close (mkM (m_done st) (Some (v, ao, ac)) ((v, op, CVar s) :: m_between st) (Some K))
                       = (v, op, CVar s) :: m_close st).
        { unfold m_close. cbn [m_anchor m_between m_done]. now rewrite Ea. }
        destruct (Hsnoc _ Ecl') as (E & C & S).
        constructor; try assumption; [|discriminate].
        intros av' ao' ac' [= <- <- <-]. cbn [m_crossed m_between]. split; [reflexivity|]. split; [exact Hac|].
        assert (Hb : btw v K (v, op, CVar s)).
        { split; [reflexivity|]. split; [exact Ek|]. exists s. split; [reflexivity|exact Ns]. }
        assert (Hao : ao = PEmpty \/ kind_of ao = Some K).
        { destruct (opc_eqb ao PEmpty) eqn:Ee; [left; destruct ao; try discriminate; reflexivity|right].
          cbn [negb andb] in E4. apply negb_false_iff in E4.
          destruct (kind_of ao) as [Ka|]; [|discriminate]. destruct Ka, K; cbn in E4; congruence. }
        split; [|split; [discriminate|exact Hao]].
        apply negb_false_iff in E3.
        destruct (m_crossed st) as [K0|] eqn:Ecr.
        -- destruct Hcr as (HB & _ & _). cbn in E3. assert (K0 = K) as -> by (destruct K0, K; cbn in E3; congruence).
           constructor; assumption.
        -- rewrite Hcr. constructor; [exact Hb|constructor].
    + pose proof (mi_noanchor _ _ _ I Ea) as Hb.
      assert (Ecl : m_close st = m_done st) by (unfold m_close; now rewrite Ea).
      assert (Ecl' : m_close (mkM ((v, op, CVar s) :: m_done st) None [] (m_crossed st)) = (v, op, CVar s) :: m_close st).
      { rewrite Ecl. reflexivity. }
      destruct (Hsnoc _ Ecl') as (E & C & S).
      constructor; try assumption; [discriminate|reflexivity].
Qed.

Lemma merge_fold_inv v l : forall p st,
  minv v p st -> group_var v l -> consts32 l -> consts32 p -> minv v (p ++ l) (fold_left merge_step l st).
Proof.
  induction l as [|x r IH]; intros p st I Hv Hc Hp; [now rewrite app_nil_r|].
  cbn [fold_left]. apply consts32_cons in Hc. destruct Hc as [Hx Hr].
  replace (p ++ x :: r) with ((p ++ [x]) ++ r) by (rewrite <- app_assoc; reflexivity).
  apply IH.
  - apply merge_step_inv; try assumption. apply Hv. now left.
  - intros y Hy. apply Hv. now right.
  - exact Hr.
  - apply consts32_app. split; [exact Hp|]. apply consts32_cons. split; [exact Hx|apply consts32_nil].
Qed.

Lemma minv_init v : minv v [] (mkM [] None [] None).
Proof.
  constructor; cbn.
  - apply equiv_refl.
  - apply consts32_nil.
  - intros y [].
  - discriminate.
  - reflexivity.
Qed.

Lemma in_filter_sub {A} (f : A -> bool) l x : In x (filter f l) -> In x l.
Proof. intros H. now apply filter_In in H. Qed.

Theorem merge_constants_correct v l :
  group_var v l -> consts32 l ->
  equiv (merge_constants l) l /\ consts32 (merge_constants l) /\
  (forall y, In y (merge_constants l) -> exists x, In x l /\ sig x = sig y).
Proof.
  intros Hv Hc. pose proof (merge_fold_inv v l [] _ (minv_init v) Hv Hc consts32_nil) as I. cbn [app] in I.
  unfold merge_constants. set (st := fold_left merge_step l (mkM [] None [] None)) in *.
  assert (C : consts32 (rev (m_close st))).
  { intros y Hy. apply (mi_c32 _ _ _ I). now apply in_rev. }
  split; [|split].
  - apply (equiv_trans _ (rev (m_close st))); [now apply filter_identity|apply (mi_equiv _ _ _ I)].
  - intros y Hy. apply C. now apply in_filter_sub in Hy.
  - intros y Hy. apply in_filter_sub in Hy. apply in_rev in Hy. now apply (mi_sig _ _ _ I).
Qed.

(* ------------------------------------------------------------------ optimize_const *)
Lemma swap_equiv v c op s :
  is_reflective op = true -> s <> v ->
  equiv [(v, PEmpty, CVar s); (v, op, CConst c)] [(v, PEmpty, CConst c); (v, op, CVar s)].
Proof.
  intros Hr Ns g Hg k. cbn [interp_ops fold_left]. unfold interp_one; cbn [o_var o_op o_num fst snd numval].
  destruct (score_eqb_spec v k) as [<-|N]; [|reflexivity].
  rewrite !(score_eqb_neq v s) by congruence. cbn [op_sem].
  destruct op; try discriminate; cbn [op_sem]; rewrite !score_eqb_refl; f_equal; ring.
Qed.

Definition sigs_in (out inp : list oper2) : Prop := forall y, In y out -> exists x, In x inp /\ sig x = sig y.

Lemma sigs_in_app a b a' b' : sigs_in a a' -> sigs_in b b' -> sigs_in (a ++ b) (a' ++ b').
Proof.
  intros Ha Hb y Hy. apply in_app_or in Hy. destruct Hy as [Hy|Hy].
  - destruct (Ha y Hy) as (x & Hx & E). exists x. split; [apply in_or_app; now left|exact E].
  - destruct (Hb y Hy) as (x & Hx & E). exists x. split; [apply in_or_app; now right|exact E].
Qed.
Lemma sigs_in_refl a : sigs_in a a.
Proof. intros y Hy. now exists y. Qed.
Lemma sigs_in_trans a b c : sigs_in a b -> sigs_in b c -> sigs_in a c.
Proof. intros H1 H2 y Hy. destruct (H1 y Hy) as (x & Hx & E). destruct (H2 x Hx) as (z & Hz & E'). exists z. split; [exact Hz|congruence]. Qed.

Definition temp_ok (temp : list oper2) : Prop :=
  match temp with [] => True | t0 :: _ => group_var (o_var t0) temp end.

Lemma opt_loop_correct l : forall temp acc,
  temp_ok temp -> consts32 acc -> consts32 temp -> consts32 l ->
  equiv (opt_loop l temp acc) (acc ++ temp ++ l) /\ consts32 (opt_loop l temp acc) /\
  sigs_in (opt_loop l temp acc) (acc ++ temp ++ l).
Proof.
  induction l as [|[[var op] n] r IH]; intros temp acc Ht Ca Ct Cl.
  - cbn [opt_loop]. rewrite app_nil_r.
    destruct temp as [|t0 rest].
    + cbn. rewrite app_nil_r. split; [apply equiv_refl|]. split; [exact Ca|apply sigs_in_refl].
    + destruct (merge_constants_correct (o_var t0) (t0 :: rest) Ht Ct) as (E & C & S).
      split; [now apply equiv_app_r|]. split; [apply consts32_app; now split|].
      apply sigs_in_app; [apply sigs_in_refl|exact S].
  - apply consts32_cons in Cl. destruct Cl as [Cx Cr]. cbn [opt_loop].
    destruct temp as [|t0 rest].
    + destruct (IH [(var, op, n)] acc) as (E & C & S); try assumption.
      * intros y [<-|[]]. reflexivity.
      * apply consts32_cons. split; [exact Cx|apply consts32_nil].
      * now split.
    + set (temp := t0 :: rest) in *.
      destruct (score_eqb var (o_var t0) && (is_same_group op (o_op (last temp t0))
                  || Nat.eqb (length temp) 1 && opc_eqb (o_op t0) PEmpty)) eqn:Eg.
      * apply andb_true_iff in Eg. destruct Eg as [Esv _].
        assert (var = o_var t0) as Hvar by (destruct (score_eqb_spec var (o_var t0)); congruence).
        match goal with |- context [if ?c then _ else _] => destruct c eqn:Ec end.
        -- (* appended to the run *)
           destruct (IH (temp ++ [(var, op, n)]) acc) as (E & C & S); try assumption.
           ++ unfold temp_ok, temp. cbn [app]. intros y Hy. fold temp in Hy.
              change (t0 :: rest ++ [(var, op, n)]) with (temp ++ [(var, op, n)]) in Hy.
              apply in_app_or in Hy. destruct Hy as [Hy|[<-|[]]]; [now apply Ht|exact Hvar].
           ++ apply consts32_app. split; [exact Ct|]. apply consts32_cons. split; [exact Cx|apply consts32_nil].
           ++ rewrite <- !app_assoc in *. cbn [app] in *. now split.
        -- (* v = c; v op= s   becomes   v = s; v op= c *)
           apply orb_false_iff in Ec. destruct Ec as [Ec E5]. apply orb_false_iff in Ec. destruct Ec as [Ec E4].
           apply orb_false_iff in Ec. destruct Ec as [Ec E3]. apply orb_false_iff in Ec. destruct Ec as [E1 E2].
           apply negb_false_iff in E1, E2, E3.
           apply andb_true_iff in E1. destruct E1 as [Elen Eop].
           assert (rest = []) as -> by (destruct rest; [reflexivity|discriminate]).
           destruct t0 as [[v0 o0] n0]. cbn [o_var o_op o_num fst snd] in *. subst var.
           assert (o0 = PEmpty) as -> by (destruct o0; try discriminate; reflexivity).
           destruct n0 as [c|]; [|discriminate]. destruct n as [|s]; [discriminate|].
           assert (Ns : s <> v0) by (intros ->; now rewrite score_eqb_refl in E5).
           cbn [app].
           destruct (IH [(v0, PEmpty, CVar s); (v0, op, CConst c)] acc) as (E & C & S); try assumption.
           ++ intros y [<-|[<-|[]]]; reflexivity.
           ++ apply consts32_cons. split; [exact I|]. apply consts32_cons. split; [|apply consts32_nil].
              apply (Ct (v0, PEmpty, CConst c)). now left.
           ++ split; [|split; [exact C|]].
              ** apply (equiv_trans _ _ _ E).
                 apply (equiv_ctx acc [(v0, PEmpty, CVar s); (v0, op, CConst c)] [(v0, PEmpty, CConst c); (v0, op, CVar s)] r Ca).
                 now apply swap_equiv.
              ** apply (sigs_in_trans _ _ _ S). apply sigs_in_app; [apply sigs_in_refl|].
                 intros y Hy. cbn [app] in Hy. destruct Hy as [<-|[<-|Hy]].
                 --- exists (v0, PEmpty, CConst c). split; [now left|reflexivity].
                 --- exists (v0, op, CVar s). split; [right; now left|reflexivity].
                 --- exists y. split; [right; right; exact Hy|reflexivity].
      * (* the run ends *)
        destruct (merge_constants_correct (o_var t0) temp Ht Ct) as (Em & Cm & Sm).
        destruct (IH [(var, op, n)] (acc ++ merge_constants temp)) as (E & C & S); try assumption.
        -- intros y [<-|[]]. reflexivity.
        -- apply consts32_app. now split.
        -- apply consts32_cons. split; [exact Cx|apply consts32_nil].
        -- rewrite <- !app_assoc in *. cbn [app] in *. split; [|split; [exact C|]].
           ++ apply (equiv_trans _ _ _ E). now apply (equiv_ctx acc (merge_constants temp) temp ((var, op, n) :: r)).
           ++ apply (sigs_in_trans _ _ _ S). apply sigs_in_app; [apply sigs_in_refl|].
              apply sigs_in_app; [exact Sm|apply sigs_in_refl].
Qed.

Theorem optimize_const_correct l :
  consts32 l ->
  equiv (optimize_const l) l /\ consts32 (optimize_const l) /\ sigs_in (optimize_const l) l.
Proof.
  intros Hc. unfold optimize_const.
  destruct (opt_loop_correct l [] [] I consts32_nil consts32_nil Hc) as (E & C & S). cbn [app] in *. auto.
Qed.
