(* Proofs.LitFmtRead — C09 (round 4): the JSON text that FormattedText.__str__ renders for a component list,
   read back token by token (Model.LitFmtRead.jt_scan), displays exactly the texts of the components. *)
From Coq Require Import ZArith Bool String Ascii List Lia.
From JMCV Require Import Model.Lit Model.LitFmtRead Proofs.LitBase Proofs.LitJson Proofs.LitFmt.
Import ListNotations.
Open Scope Z_scope.

(* ------------------------------------------------------------------ fuel *)
(* "reads p s t": with enough fuel, scanning s with the pending key p displays t *)
Definition reads (p : option str) (s t : str) : Prop := exists f, jt_scan f p s = Some t.

Definition shown (p : option str) (v : str) : str :=
  match p with None => v | Some k => if str_eqb k TEXT_KEY then v else [] end.

Lemma reads_nil p : reads p [] [].
Proof. exists 1%nat. reflexivity. Qed.

Lemma reads_struct p c r t : is_struct c = true -> c <> 34 -> reads None r t -> reads p (c :: r) t.
Proof.
  intros Hs Hc [f Hf]. exists (S f). cbn [jt_scan].
  apply Z.eqb_neq in Hc. now rewrite Hc, Hs.
Qed.

Lemma reads_letter p c r t : is_struct c = false -> c <> 34 -> reads p r t -> reads p (c :: r) t.
Proof.
  intros Hs Hc [f Hf]. exists (S f). cbn [jt_scan].
  apply Z.eqb_neq in Hc. now rewrite Hc, Hs.
Qed.

Lemma json_emit_head s : exists r, json_emit s = 34 :: r.
Proof. unfold json_emit. eexists. reflexivity. Qed.

Lemma reads_key p v rest t :
  forallb scalarb v = true -> reads (Some v) rest t -> reads p (json_emit v ++ 58 :: rest) t.
Proof.
  intros Hv [f Hf]. exists (S f).
  pose proof (json_unquote_rest_emit v (58 :: rest) Hv) as E.
  destruct (json_emit_head v) as [r Hr]. rewrite Hr in *. cbn [app jt_scan]. cbn [app] in E.
  rewrite Z.eqb_refl, E. exact Hf.
Qed.

Definition no_colon (s : str) : Prop := match s with c :: _ => c <> 58 | [] => True end.

Lemma reads_value p v rest t :
  forallb scalarb v = true -> no_colon rest -> reads None rest t ->
  reads p (json_emit v ++ rest) (shown p v ++ t).
Proof.
  intros Hv Hn [f Hf]. exists (S f).
  pose proof (json_unquote_rest_emit v rest Hv) as E.
  destruct (json_emit_head v) as [r Hr]. rewrite Hr in *. cbn [app jt_scan]. cbn [app] in E.
  rewrite Z.eqb_refl, E.
  cbv zeta. destruct rest as [|c rest'].
  - rewrite Hf. reflexivity.
  - cbn in Hn. apply Z.eqb_neq in Hn. rewrite Hn, Hf. reflexivity.
Qed.

(* a word made of letters (true / false) *)
Definition letters (w : str) : bool := forallb (fun c => negb (is_struct c) && negb (c =? 34)) w.

Lemma reads_letters p w rest t : letters w = true -> reads p rest t -> reads p (w ++ rest) t.
Proof.
  induction w as [|c w IH]; intros Hw Hr; [exact Hr|].
  cbn [letters forallb] in Hw. apply andb_true_iff in Hw as [Hc Hw]. apply andb_true_iff in Hc as [H1 H2].
  apply negb_true_iff in H1, H2. apply Z.eqb_neq in H2.
  cbn [app]. apply reads_letter; auto.
Qed.

(* ------------------------------------------------------------------ one field, followed by ',' or '}' *)
Definition closer (c : Z) : Prop := c = 44 \/ c = 125.

Lemma closer_struct c : closer c -> is_struct c = true /\ c <> 34 /\ c <> 58.
Proof. intros [-> | ->]; repeat split; discriminate. Qed.

Lemma key_name_emit k : 34 :: fkey_name k ++ [34] = json_emit (fkey_name k).
Proof. destruct k; reflexivity. Qed.

Lemma key_name_scalar k : forallb scalarb (fkey_name k) = true.
Proof. destruct k; reflexivity. Qed.

Lemma key_name_not_text k : str_eqb (fkey_name k) TEXT_KEY = false.
Proof. destruct k; reflexivity. Qed.

(* "key":value  of an attribute displays nothing *)
Lemma reads_attr p k v c rest t :
  fval_scalar v = true -> closer c -> reads None rest t ->
  reads p ((34 :: fkey_name k ++ 34 :: 58 :: fval_json v) ++ c :: rest) t.
Proof.
  intros Hv Hc Hr. destruct (closer_struct c Hc) as (Hs & H34 & H58).
  replace ((34 :: fkey_name k ++ 34 :: 58 :: fval_json v) ++ c :: rest)
    with (json_emit (fkey_name k) ++ 58 :: (fval_json v ++ c :: rest)).
  2:{ rewrite <- key_name_emit. cbn [app]. rewrite <- !app_assoc. reflexivity. }
  apply reads_key; [apply key_name_scalar|].
  destruct v as [s|b|n o]; cbn [fval_json fval_scalar] in *.
  - (* a string value that is not text *)
    pose proof (reads_value (Some (fkey_name k)) s (c :: rest) t Hv H58 (reads_struct None c rest t Hs H34 Hr)) as R.
    unfold shown in R. rewrite key_name_not_text in R. exact R.
  - destruct b; (apply reads_letters; [reflexivity|]); apply reads_struct; auto.
  - apply andb_true_iff in Hv as [Hn Ho].
    (* {"name":N,"objective":O} *)
    replace ((lit "{""name"":" ++ json_emit n ++ lit ",""objective"":" ++ json_emit o ++ lit "}") ++ c :: rest)
      with (123 :: (json_emit (lit "name") ++ 58 :: (json_emit n ++ 44 ::
              (json_emit (lit "objective") ++ 58 :: (json_emit o ++ 125 :: c :: rest)))))
      by (rewrite <- !app_assoc; reflexivity).
    apply reads_struct; [reflexivity|discriminate|].
    apply reads_key; [reflexivity|].
    pose proof (reads_value (Some (lit "name")) n) as R1. cbn [shown] in R1.
    change (str_eqb (lit "name") TEXT_KEY) with false in R1. apply (R1 _ t Hn); [cbn; discriminate|].
    apply reads_struct; [reflexivity|discriminate|].
    apply reads_key; [reflexivity|].
    pose proof (reads_value (Some (lit "objective")) o) as R2. cbn [shown] in R2.
    change (str_eqb (lit "objective") TEXT_KEY) with false in R2. apply (R2 _ t Ho); [cbn; discriminate|].
    apply reads_struct; [reflexivity|discriminate|].
    apply reads_struct; auto.
Qed.

(* "text":value *)
Lemma reads_text_field p s c rest t :
  forallb scalarb s = true -> closer c -> reads None rest t ->
  reads p ((lit """text"":" ++ json_emit s) ++ c :: rest) (s ++ t).
Proof.
  intros Hv Hc Hr. destruct (closer_struct c Hc) as (Hs & H34 & H58).
  change (lit """text"":") with (json_emit TEXT_KEY ++ [58]).
  rewrite <- !app_assoc. cbn [app]. apply reads_key; [reflexivity|].
  pose proof (reads_value (Some TEXT_KEY) s (c :: rest) t Hv H58 (reads_struct None c rest t Hs H34 Hr)) as R.
  cbn [shown] in R. change (str_eqb TEXT_KEY TEXT_KEY) with true in R. exact R.
Qed.

(* ------------------------------------------------------------------ one component *)
Definition field_json (p : fkey * fval) : str := 34 :: fkey_name (fst p) ++ 34 :: 58 :: fval_json (snd p).

Lemma join_comma_cons x l : join_comma (x :: l) = x ++ flat_map (fun y => 44 :: y) l.
Proof.
  revert x; induction l as [|y l IH]; intros x; [cbn [join_comma flat_map]; now rewrite app_nil_r|].
  change (join_comma (x :: y :: l)) with (x ++ 44 :: join_comma (y :: l)). rewrite IH. reflexivity.
Qed.

(* the remaining attribute fields, each preceded by a comma, then '}' and what follows the component *)
Definition ftail (a : attrs) (rest : str) : str := flat_map (fun y => 44 :: y) (map field_json a) ++ 125 :: rest.

Lemma ftail_cons kv a rest : ftail (kv :: a) rest = 44 :: field_json kv ++ ftail a rest.
Proof. unfold ftail. cbn [map flat_map app]. now rewrite <- app_assoc. Qed.

Lemma reads_fields a : forall p k v rest t,
  fval_scalar v = true -> forallb (fun q => fval_scalar (snd q)) a = true -> reads None rest t ->
  reads p (field_json (k, v) ++ ftail a rest) t.
Proof.
  induction a as [|[k' v'] a IH]; intros p k v rest t Hv Ha Hr; unfold field_json at 1; cbn [fst snd].
  - unfold ftail. cbn [map flat_map app]. apply reads_attr; [exact Hv|right; reflexivity|exact Hr].
  - rewrite ftail_cons. cbn [forallb] in Ha. apply andb_true_iff in Ha as [Hv' Ha]. cbn [snd] in Hv'.
    apply reads_attr; [exact Hv|left; reflexivity|]. now apply IH.
Qed.

Lemma reads_text_fields a p s rest t :
  forallb scalarb s = true -> forallb (fun q => fval_scalar (snd q)) a = true -> reads None rest t ->
  reads p ((lit """text"":" ++ json_emit s) ++ ftail a rest) (s ++ t).
Proof.
  intros Hs Ha Hr. destruct a as [|[k v] a].
  - unfold ftail. cbn [map flat_map app]. apply reads_text_field; [exact Hs|right; reflexivity|exact Hr].
  - rewrite ftail_cons. cbn [forallb] in Ha. apply andb_true_iff in Ha as [Hv Ha]. cbn [snd] in Hv.
    apply reads_text_field; [exact Hs|left; reflexivity|]. now apply reads_fields.
Qed.

Definition comp_text (c : fcomp) : str := match ctext c with Some t => t | None => [] end.

Lemma comp_json_shape c rest :
  comp_json c ++ rest =
  123 :: match ctext c, cattrs c with
         | Some tx, a => (lit """text"":" ++ json_emit tx) ++ ftail a rest
         | None, kv :: a => field_json kv ++ ftail a rest
         | None, [] => 125 :: rest
         end.
Proof.
  unfold comp_json. fold field_json. cbn [app]. f_equal. rewrite <- app_assoc. cbn [app].
  destruct (ctext c) as [tx|]; cbn [app].
  - rewrite join_comma_cons, <- app_assoc. reflexivity.
  - destruct (cattrs c) as [|kv a]; [reflexivity|]. cbn [map]. rewrite join_comma_cons, <- app_assoc. reflexivity.
Qed.

Lemma reads_comp p c rest t :
  comp_scalar c = true -> reads None rest t -> reads p (comp_json c ++ rest) (comp_text c ++ t).
Proof.
  intros Hc Hr. unfold comp_scalar in Hc. apply andb_true_iff in Hc as [Ht Ha].
  rewrite comp_json_shape. unfold comp_text.
  apply reads_struct; [reflexivity|discriminate|].
  destruct (ctext c) as [tx|].
  - now apply reads_text_fields.
  - cbn [app]. destruct (cattrs c) as [|[k v] a].
    + apply reads_struct; [reflexivity|discriminate|exact Hr].
    + cbn [forallb] in Ha. apply andb_true_iff in Ha as [Hv Ha]. cbn [snd] in Hv. now apply reads_fields.
Qed.

(* the components of a list, each preceded by a comma, then ']' *)
Lemma reads_comp_tail p cs :
  forallb comp_scalar cs = true ->
  reads p (flat_map (fun y => 44 :: y) (map comp_json cs) ++ [93]) (comp_texts cs).
Proof.
  revert p; induction cs as [|c cs IH]; intros p Hc; cbn [map flat_map forallb] in *.
  - cbn [app]. apply reads_struct; [reflexivity|discriminate|apply reads_nil].
  - apply andb_true_iff in Hc as [Hc Hcs].
    cbn [app]. apply reads_struct; [reflexivity|discriminate|].
    rewrite <- app_assoc.
    change (comp_texts (c :: cs)) with (comp_text c ++ comp_texts cs).
    apply reads_comp; [exact Hc|]. apply IH. exact Hcs.
Qed.

(* ------------------------------------------------------------------ the rendering *)
Theorem reads_render ni cs :
  forallb comp_scalar cs = true -> reads None (fmt_render ni cs) (comp_texts cs).
Proof.
  intros Hc. unfold fmt_render.
  destruct cs as [|c cs].
  - (* "" *)
    pose proof (reads_value None [] [] [] eq_refl I (reads_nil None)) as R. exact R.
  - destruct cs as [|c2 cs].
    + cbn [forallb] in Hc. rewrite andb_true_r in Hc.
      assert (Hone : forall c', comp_scalar c' = true -> comp_text c' = comp_text c ->
                                reads None (comp_json c') (comp_texts [c])).
      { intros c' Hc' Et. pose proof (reads_comp None c' [] [] Hc' (reads_nil None)) as R.
        rewrite !app_nil_r in R.
        assert (E1 : comp_texts [c] = comp_text c) by (unfold comp_texts, comp_text; cbn [flat_map]; apply app_nil_r).
        rewrite E1, <- Et. exact R. }
      destruct (ctext c) as [tx|] eqn:Et.
      * destruct (cattrs c) as [|kv a] eqn:Ea.
        -- unfold comp_scalar in Hc. rewrite Et, Ea in Hc. cbn [forallb] in Hc. rewrite andb_true_r in Hc.
           pose proof (reads_value None tx [] [] Hc I (reads_nil None)) as R.
           rewrite !app_nil_r in R. unfold comp_texts. cbn [flat_map]. rewrite Et, app_nil_r. exact R.
        -- destruct (ni && negb (ahas FItalic (kv :: a))).
           ++ apply Hone; [|unfold comp_text; cbn [ctext]; now rewrite Et].
              unfold comp_scalar in *. cbn [ctext cattrs]. rewrite Et, Ea in Hc.
              apply andb_true_iff in Hc as [H1 H2]. rewrite H1. cbn [andb].
              rewrite forallb_app, H2. reflexivity.
           ++ apply Hone; [exact Hc|reflexivity].
      * destruct (ni && negb (ahas FItalic (cattrs c))).
        -- apply Hone; [|unfold comp_text; cbn [ctext]; now rewrite Et].
           unfold comp_scalar in *. cbn [ctext cattrs]. rewrite Et in Hc. cbn [andb] in Hc.
           rewrite forallb_app, Hc. reflexivity.
        -- apply Hone; [exact Hc|reflexivity].
    + (* [ first , comp , comp ... ] *)
      remember (c :: c2 :: cs) as all eqn:Eall.
      apply reads_struct; [reflexivity|discriminate|].
      rewrite join_comma_cons, <- app_assoc.
      destruct ni.
      * (* {"text":"","italic":false} *)
        pose proof (reads_comp None (mkComp (Some []) [(FItalic, FBool false)])
                      (flat_map (fun y => 44 :: y) (map comp_json all) ++ [93]) (comp_texts all) eq_refl
                      (reads_comp_tail None all Hc)) as R.
        exact R.
      * pose proof (reads_value None [] (flat_map (fun y => 44 :: y) (map comp_json all) ++ [93]) (comp_texts all)
                      eq_refl) as R.
        cbn [shown app] in R. apply R; [|apply reads_comp_tail; exact Hc].
        subst all. cbn. discriminate.
Qed.

(* ------------------------------------------------------------------ fuel: one unit per character suffices *)
Lemma json_units_shorter : forall n s u t,
  (length s <= n)%nat -> json_units s = Some (u, t) -> (length t < length s)%nat.
Proof.
  induction n as [|n IH]; intros s u t Hn H.
  - destruct s; [discriminate|cbn in Hn; lia].
  - destruct s as [|c r]; [discriminate|]. cbn [json_units] in H. cbn [length] in *.
    destruct (c =? 34). { injection H as _ <-. lia. }
    destruct (c =? 92).
    + destruct r as [|e r1]; [discriminate|]. cbn [length] in *. cbv zeta in H.
      assert (S1 : forall v, match json_units r1 with Some (u0, t0) => Some (v :: u0, t0) | None => None end = Some (u, t) ->
                             (length t < S (S (length r1)))%nat).
      { intros v Hs. destruct (json_units r1) as [[u0 t0]|] eqn:E; [|discriminate]. injection Hs as _ <-.
        assert (length t0 < length r1)%nat by (apply (IH r1 u0 t0); [lia|exact E]). lia. }
      repeat match type of H with
             | (if ?b then _ else _) = _ => destruct b; [now apply (S1 _ H)|]
             end.
      destruct (e =? 117); [|discriminate].
      destruct r1 as [|a [|b [|c2 [|d r2]]]]; try discriminate.
      destruct (hexval a); [|discriminate]. destruct (hexval b); [|discriminate].
      destruct (hexval c2); [|discriminate]. destruct (hexval d); [|discriminate].
      destruct (json_units r2) as [[u0 t0]|] eqn:E; [|discriminate]. injection H as _ <-.
      cbn [length] in *. assert (length t0 < length r2)%nat by (apply (IH r2 u0 t0); [lia|exact E]). lia.
    + destruct (c <? 32); [discriminate|].
      destruct (json_units r) as [[u0 t0]|] eqn:E; [|discriminate]. injection H as _ <-.
      assert (length t0 < length r)%nat by (apply (IH r u0 t0); [lia|exact E]). lia.
Qed.

Lemma json_unquote_rest_shorter s v rest :
  json_unquote_rest s = Some (v, rest) -> (length rest < length s)%nat.
Proof.
  unfold json_unquote_rest. destruct s as [|c r]; [discriminate|]. destruct (c =? 34); [|discriminate].
  destruct (json_units r) as [[u t]|] eqn:E; [|discriminate]. intros H. injection H as _ <-.
  pose proof (json_units_shorter (length r) r u t (le_n _) E). cbn [length]. lia.
Qed.

Lemma jt_fuel_enough : forall f p s t,
  jt_scan f p s = Some t -> forall f', (length s < f')%nat -> jt_scan f' p s = Some t.
Proof.
  induction f as [|f IH]; intros p s t H f' Hf'; [discriminate|].
  destruct f' as [|f']; [lia|].
  destruct s as [|c r]; [exact H|]. cbn [jt_scan] in *. cbn [length] in Hf'.
  destruct (c =? 34).
  - destruct (json_unquote_rest (c :: r)) as [[v rest]|] eqn:E; [|discriminate].
    apply json_unquote_rest_shorter in E. cbn [length] in E. cbv zeta in *.
    assert (V : forall q,
      match jt_scan f None rest with Some t0 => Some (q ++ t0) | None => None end = Some t ->
      match jt_scan f' None rest with Some t0 => Some (q ++ t0) | None => None end = Some t).
    { intros q Hq. destruct (jt_scan f None rest) as [t0|] eqn:E0; [|discriminate].
      rewrite (IH None rest t0 E0 f') by lia. exact Hq. }
    destruct rest as [|c2 rest'].
    + now apply V.
    + destruct (c2 =? 58).
      * apply (IH _ _ _ H). cbn [length] in E. lia.
      * now apply V.
  - destruct (is_struct c); apply (IH _ _ _ H); lia.
Qed.

(* the component list rendered by FormattedText.__str__ displays the texts of the components, in order *)
Theorem render_read ni cs :
  forallb comp_scalar cs = true -> jt_read (fmt_render ni cs) = Some (comp_texts cs).
Proof.
  intros Hc. destruct (reads_render ni cs Hc) as [f Hf].
  unfold jt_read. apply (jt_fuel_enough f _ _ _ Hf). lia.
Qed.
