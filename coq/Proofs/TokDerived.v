(* Proofs.TokDerived — the sign token split off `=-` / `=+` is cited at the position of its own text iff ... *)
From Coq Require Import ZArith NArith List Bool Lia.
From JMCV Require Import Model.Tok Model.TokPos Model.TokDerived Proofs.Tok Proofs.TokPos.
Import ListNotations.
Open Scope Z_scope.

Lemma signed_eq_shape : forall t, is_signed_eq t = true ->
  t_type t = OPERATOR /\ exists sg, t_str t = [c_equal; sg] /\ sg <> c_equal /\ sg <> c_nl.
Proof.
  intros t H. unfold is_signed_eq in H. apply andb_true_iff in H. destruct H as [Hty Hs].
  split.
  - destruct (t_type t); simpl in Hty; try discriminate; reflexivity.
  - apply orb_true_iff in Hs. destruct Hs as [Hs|Hs]; apply seqb_eq in Hs.
    + exists c_minus. repeat split; auto; vm_compute; discriminate.
    + exists c_plus. repeat split; auto; vm_compute; discriminate.
Qed.

(* the position right after the `=` of a token cited at (line, col) is (line, col + 1) *)
Lemma adv_equal : forall p, adv p c_equal = (fst p, snd p + 1).
Proof. intros p. unfold adv. reflexivity. Qed.

Theorem split_sign_faithful : forall p0 s t,
  faithful_from p0 s t -> is_signed_eq t = true -> faithful_from p0 s (split_sign 1 t).
Proof.
  intros p0 s t [d [r [Hs [Hp Hsrc]]]] Hsig.
  destruct (signed_eq_shape t Hsig) as [Hty [sg [Hstr [_ _]]]].
  unfold token_src in Hsrc. rewrite Hty in Hsrc. destruct Hsrc as [_ [r' Hr]].
  rewrite Hstr in Hr. simpl in Hr.
  exists (d ++ [c_equal]), (sg :: r'). split; [|split].
  - rewrite Hs, Hr, <- app_assoc. reflexivity.
  - rewrite pos_after_app. simpl. rewrite <- Hp. rewrite adv_equal. simpl. reflexivity.
  - unfold token_src, split_sign. simpl. rewrite Hty, Hstr. simpl.
    split; [discriminate|]. exists r'. reflexivity.
Qed.

(* ... and NOT when the sign keeps the column of the `=` (offset 0): the character there is `=` *)
Theorem split_sign_zero_unfaithful : forall p0 s t,
  faithful_from p0 s t -> is_signed_eq t = true -> ~ faithful_from p0 s (split_sign 0 t).
Proof.
  intros p0 s t [d [r [Hs [Hp Hsrc]]]] Hsig [d2 [r2 [Hs2 [Hp2 Hsrc2]]]].
  destruct (signed_eq_shape t Hsig) as [Hty [sg [Hstr [Hne _]]]].
  unfold token_src in Hsrc. rewrite Hty in Hsrc. destruct Hsrc as [_ [r' Hr]].
  rewrite Hstr in Hr. simpl in Hr.
  unfold token_src, split_sign in Hsrc2. simpl in Hsrc2. rewrite Hty, Hstr in Hsrc2. simpl in Hsrc2.
  destruct Hsrc2 as [_ [r2' Hr2]]. simpl in Hr2.
  unfold split_sign in Hp2. simpl in Hp2. replace (t_col t + 0) with (t_col t) in Hp2 by lia.
  assert (Hd : d = d2).
  { apply (pos_after_inj d d2 r r2 p0); [congruence|]. rewrite <- Hp, <- Hp2. reflexivity. }
  subst d2. rewrite Hs in Hs2. apply app_inv_head in Hs2. rewrite Hr, Hr2 in Hs2.
  inversion Hs2. apply Hne. congruence.
Qed.
