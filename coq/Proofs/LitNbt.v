(* Proofs.LitNbt — the repr-based NBT quoting of clean_up_paren_token read back by an SNBT reader. *)
From Coq Require Import ZArith Bool String Ascii List Lia.
From JMCV Require Import Model.Lit Proofs.LitBase.
Import ListNotations.
Open Scope Z_scope.

Definition cp_ok (c : Z) : bool := (0 <=? c) && (c <=? 1114111).

(* code points that repr leaves as they are (or only protects with a backslash) *)
Definition nbt_plain (pr : Z -> bool) (c : Z) : bool :=
  (32 <=? c) && ((c <? 127) || ((127 <? c) && pr c)).

Section Body.
  Variable pr : Z -> bool.
  Variable m : bool.
  Variable q : Z.
  Hypothesis Hq : q = 34 \/ q = 39.

  Let opt_cons (v : Z) (o : option (str * str)) :=
    match o with Some (u, t) => Some (v :: u, t) | None => None end.

  Lemma nbt_body_plain f c rest :
    c <> q -> c <> 92 ->
    nbt_body m q (S f) (c :: rest) = opt_cons c (nbt_body m q f rest).
  Proof.
    intros H1 H2. cbn [nbt_body].
    destruct (c =? q) eqn:E1; [apply Z.eqb_eq in E1; contradiction|].
    destruct (c =? 92) eqn:E2; [apply Z.eqb_eq in E2; contradiction|].
    reflexivity.
  Qed.

  Lemma nbt_body_bs f e rest :
    e = 92 \/ e = q ->
    nbt_body m q (S f) (92 :: e :: rest) = opt_cons e (nbt_body m q f rest).
  Proof.
    intros He. cbn [nbt_body].
    assert (E0 : (92 =? q) = false) by (apply Z.eqb_neq; lia). rewrite E0. cbn [Z.eqb Pos.eqb].
    assert (E1 : (e =? 92) || (e =? q) = true).
    { apply orb_true_iff. destruct He; [left|right]; now apply Z.eqb_eq. }
    rewrite E1. reflexivity.
  Qed.
End Body.

Section Modern.
  Variable pr : Z -> bool.
  Variable q : Z.
  Hypothesis Hq : q = 34 \/ q = 39.

  Lemma nbt_body_simple f e v rest :
    (e = 110 /\ v = 10) \/ (e = 116 /\ v = 9) \/ (e = 114 /\ v = 13) ->
    nbt_body true q (S f) (92 :: e :: rest) =
    match nbt_body true q f rest with Some (u, t) => Some (v :: u, t) | None => None end.
  Proof.
    intros He. cbn [nbt_body].
    assert (E0 : (92 =? q) = false) by (apply Z.eqb_neq; lia). rewrite E0. cbn [Z.eqb Pos.eqb].
    destruct Hq as [-> | ->]; destruct He as [[-> ->]|[[-> ->]|[-> ->]]]; reflexivity.
  Qed.

  Lemma nbt_body_hex f e k n hx rest :
    (e = 120 /\ k = 2%nat) \/ (e = 117 /\ k = 4%nat) \/ (e = 85 /\ k = 8%nat) ->
    read_hex k 0 (hx ++ rest) = Some (n, rest) -> 0 <= n <= 1114111 ->
    nbt_body true q (S f) (92 :: e :: hx ++ rest) =
    match nbt_body true q f rest with Some (u, t) => Some (n :: u, t) | None => None end.
  Proof.
    intros He Hr Hn. cbn [nbt_body].
    assert (E0 : (92 =? q) = false) by (apply Z.eqb_neq; lia). rewrite E0. cbn [Z.eqb Pos.eqb].
    assert (Ele : (n <=? 1114111) = true) by (apply Z.leb_le; lia).
    destruct Hq as [-> | ->]; destruct He as [[-> ->]|[[-> ->]|[-> ->]]];
      cbn -[read_hex nbt_body Z.leb]; rewrite Hr, Ele; reflexivity.
  Qed.

  (* one source code point: whatever repr chose to write, the reader gives the code point back *)
  Lemma nbt_body_esc f c rest :
    cp_ok c = true ->
    nbt_body true q (S f) (nbt_esc pr q c ++ rest) =
    match nbt_body true q f rest with Some (u, t) => Some (c :: u, t) | None => None end.
  Proof.
    intros Hc. unfold cp_ok in Hc. apply andb_true_iff in Hc as [C0 C1]. apply Z.leb_le in C0, C1.
    unfold nbt_esc.
    destruct ((c =? q) || (c =? 92)) eqn:E1.
    { cbn [app]. apply (nbt_body_bs true q Hq).
      apply orb_true_iff in E1 as [E|E]; apply Z.eqb_eq in E; auto. }
    apply orb_false_iff in E1 as [Eq E92]. apply Z.eqb_neq in Eq, E92.
    destruct (c =? 9) eqn:E9. { apply Z.eqb_eq in E9; subst. cbn [app]. apply nbt_body_simple. auto. }
    destruct (c =? 10) eqn:E10. { apply Z.eqb_eq in E10; subst. cbn [app]. apply nbt_body_simple. auto. }
    destruct (c =? 13) eqn:E13. { apply Z.eqb_eq in E13; subst. cbn [app]. apply nbt_body_simple. auto. }
    destruct ((c <? 32) || (c =? 127)) eqn:Ectl.
    { cbn [app]. apply (nbt_body_hex f 120 2%nat); [auto| |lia].
      apply read_hex2. apply orb_true_iff in Ectl as [E|E]; [apply Z.ltb_lt in E|apply Z.eqb_eq in E]; lia. }
    destruct (c <? 127) eqn:E127. { cbn [app]. now apply nbt_body_plain. }
    destruct (pr c). { cbn [app]. now apply nbt_body_plain. }
    destruct (c <=? 255) eqn:E255.
    { apply Z.leb_le in E255. cbn [app]. apply (nbt_body_hex f 120 2%nat); [auto| |lia]. apply read_hex2; lia. }
    destruct (c <=? 65535) eqn:E64k.
    { apply Z.leb_le in E64k. cbn [app]. apply (nbt_body_hex f 117 4%nat); [auto| |lia]. apply read_hex4; lia. }
    cbn [app]. apply (nbt_body_hex f 85 8%nat); [auto| |lia]. apply read_hex8; lia.
  Qed.

  Lemma nbt_esc_nonempty c : (1 <= length (nbt_esc pr q c))%nat.
  Proof.
    unfold nbt_esc.
    repeat match goal with |- context [if ?b then _ else _] => destruct b end; cbn; lia.
  Qed.

  Lemma nbt_body_emit s : forall f rest,
    forallb cp_ok s = true ->
    (length (flat_map (nbt_esc pr q) s ++ q :: rest) <= f)%nat ->
    nbt_body true q f (flat_map (nbt_esc pr q) s ++ q :: rest) = Some (s, rest).
  Proof.
    induction s as [|c s IH]; intros f rest Hs Hf; cbn [flat_map app forallb] in *.
    - destruct f as [|f]; [cbn in Hf; lia|]. cbn [nbt_body]. now rewrite Z.eqb_refl.
    - apply andb_true_iff in Hs as [Hc Hs].
      rewrite <- app_assoc in *.
      destruct f as [|f]; [rewrite app_length in Hf; pose proof (nbt_esc_nonempty c); lia|].
      rewrite nbt_body_esc by assumption.
      rewrite IH; [reflexivity|assumption|].
      rewrite app_length in Hf. pose proof (nbt_esc_nonempty c). lia.
  Qed.
End Modern.

Section Legacy.
  Variable pr : Z -> bool.
  Variable q : Z.
  Hypothesis Hq : q = 34 \/ q = 39.

  Lemma nbt_esc_plain c :
    nbt_plain pr c = true ->
    nbt_esc pr q c = if (c =? q) || (c =? 92) then [92; c] else [c].
  Proof.
    unfold nbt_plain, nbt_esc. intros H. apply andb_true_iff in H as [H32 H].
    apply Z.leb_le in H32.
    destruct ((c =? q) || (c =? 92)); [reflexivity|].
    destruct (c =? 9) eqn:E9; [apply Z.eqb_eq in E9; lia|].
    destruct (c =? 10) eqn:E10; [apply Z.eqb_eq in E10; lia|].
    destruct (c =? 13) eqn:E13; [apply Z.eqb_eq in E13; lia|].
    destruct (c <? 32) eqn:E32; [apply Z.ltb_lt in E32; lia|].
    destruct (c =? 127) eqn:E127.
    { apply Z.eqb_eq in E127. subst. cbn in H. discriminate. }
    cbn [orb]. destruct (c <? 127); [reflexivity|]. cbn [orb] in H.
    apply andb_true_iff in H as [_ H]. now rewrite H.
  Qed.

  Lemma nbt_body_emit_legacy s : forall f rest,
    forallb (nbt_plain pr) s = true ->
    (length (flat_map (nbt_esc pr q) s ++ q :: rest) <= f)%nat ->
    nbt_body false q f (flat_map (nbt_esc pr q) s ++ q :: rest) = Some (s, rest).
  Proof.
    induction s as [|c s IH]; intros f rest Hs Hf; cbn [flat_map app forallb] in *.
    - destruct f as [|f]; [cbn in Hf; lia|]. cbn [nbt_body]. now rewrite Z.eqb_refl.
    - apply andb_true_iff in Hs as [Hc Hs].
      rewrite <- app_assoc in *. rewrite app_length in Hf.
      rewrite nbt_esc_plain in * by assumption.
      destruct ((c =? q) || (c =? 92)) eqn:E.
      + cbn [app length] in *. destruct f as [|f]; [lia|].
        rewrite (nbt_body_bs false q Hq).
        2:{ apply orb_true_iff in E as [E|E]; apply Z.eqb_eq in E; auto. }
        rewrite IH; [reflexivity|assumption|lia].
      + apply orb_false_iff in E as [E1 E2]. apply Z.eqb_neq in E1, E2.
        cbn [app length] in *. destruct f as [|f]; [lia|].
        rewrite nbt_body_plain by assumption.
        rewrite IH; [reflexivity|assumption|lia].
  Qed.
End Legacy.

Lemma nbt_quote_of_cases s : nbt_quote_of s = 34 \/ nbt_quote_of s = 39.
Proof. unfold nbt_quote_of. destruct (memz 34 s); auto. Qed.

Lemma nbt_unquote_rest_emit pr s rest :
  forallb cp_ok s = true -> nbt_unquote_rest true (nbt_emit pr s ++ rest) = Some (s, rest).
Proof.
  intros H. unfold nbt_emit, nbt_unquote_rest. cbn zeta. cbn [app].
  pose proof (nbt_quote_of_cases s) as Hq.
  assert (E : (nbt_quote_of s =? 34) || (nbt_quote_of s =? 39) = true).
  { apply orb_true_iff. destruct Hq as [-> | ->]; [left|right]; reflexivity. }
  rewrite E. rewrite <- app_assoc. cbn [app].
  apply nbt_body_emit; [assumption|assumption|lia].
Qed.

Theorem nbt_roundtrip pr s : forallb cp_ok s = true -> nbt_unquote (nbt_emit pr s) = Some s.
Proof.
  intros H. unfold nbt_unquote. rewrite <- (app_nil_r (nbt_emit pr s)).
  now rewrite nbt_unquote_rest_emit.
Qed.

Theorem nbt_roundtrip_legacy pr s :
  forallb (nbt_plain pr) s = true -> nbt_unquote_legacy (nbt_emit pr s) = Some s.
Proof.
  intros H. unfold nbt_unquote_legacy, nbt_emit, nbt_unquote_rest. cbn zeta.
  pose proof (nbt_quote_of_cases s) as Hq.
  assert (E : (nbt_quote_of s =? 34) || (nbt_quote_of s =? 39) = true).
  { apply orb_true_iff. destruct Hq as [-> | ->]; [left|right]; reflexivity. }
  rewrite E. rewrite nbt_body_emit_legacy; [reflexivity|assumption|assumption|lia].
Qed.

(* the quoted text holds neither CR nor LF: it stays one line of the .mcfunction file *)
Lemma nbt_esc_no_newline pr q c : q <> 10 -> q <> 13 -> Forall (fun x => x <> 10 /\ x <> 13) (nbt_esc pr q c).
Proof.
  intros Q1 Q2. unfold nbt_esc.
  assert (HD : forall d, 0 <= d < 16 -> hexdigit d <> 10 /\ hexdigit d <> 13).
  { intros d Hd. destruct (hexdigit_range d Hd); lia. }
  assert (H2 : forall n, Forall (fun x => x <> 10 /\ x <> 13) (hex2 n)).
  { intros n. unfold hex2. repeat constructor; apply HD; apply mod16_range. }
  assert (H4 : forall n, Forall (fun x => x <> 10 /\ x <> 13) (hex4 n)).
  { intros n. unfold hex4. repeat constructor; apply HD; apply mod16_range. }
  destruct ((c =? q) || (c =? 92)) eqn:E1.
  { apply orb_true_iff in E1 as [E|E]; apply Z.eqb_eq in E; subst; repeat constructor; lia. }
  destruct (c =? 9); [repeat constructor; lia|].
  destruct (c =? 10) eqn:E10; [repeat constructor; lia|]. apply Z.eqb_neq in E10.
  destruct (c =? 13) eqn:E13; [repeat constructor; lia|]. apply Z.eqb_neq in E13.
  destruct ((c <? 32) || (c =? 127)). { constructor; [lia|]. constructor; [lia|]. apply H2. }
  destruct (c <? 127); [repeat constructor; lia|].
  destruct (pr c); [repeat constructor; lia|].
  destruct (c <=? 255). { constructor; [lia|]. constructor; [lia|]. apply H2. }
  destruct (c <=? 65535). { constructor; [lia|]. constructor; [lia|]. apply H4. }
  constructor; [lia|]. constructor; [lia|]. unfold hex8. apply Forall_app. split; apply H4.
Qed.

Theorem nbt_emit_no_newline pr s : Forall (fun x => x <> 10 /\ x <> 13) (nbt_emit pr s).
Proof.
  unfold nbt_emit. cbn zeta. pose proof (nbt_quote_of_cases s) as Hq.
  constructor; [lia|]. apply Forall_app. split; [|repeat constructor; lia].
  generalize (nbt_quote_of s) Hq. intros q Hq'. clear Hq.
  induction s as [|c s IH]; cbn [flat_map]; [constructor|].
  apply Forall_app. split; [apply nbt_esc_no_newline; lia|assumption].
Qed.

(* SNBT of Minecraft <= 1.21.4 cannot read the \t that repr writes for a tab *)
Theorem nbt_legacy_refuted :
  exists s, forallb cp_ok s = true /\ nbt_unquote_legacy (nbt_emit (fun _ => true) s) = None.
Proof. exists [97; 9; 98]. split; reflexivity. Qed.
