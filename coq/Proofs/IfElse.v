(* Proofs.IfElse — the lowering of an if / else-if / else chain (Model.IfElse) runs exactly
   the branch the source chain selects.  Property C04. *)
From Coq Require Import ZArith String List Bool Lia.
From JMCV Require Import Base.Int32 Base.Dec MC.Syntax MC.Sem MC.Facts
     Model.Names Model.PrivAlloc Model.IfElse Proofs.IfElseBase.
Import ListNotations.

(* which branch a chain selected *)
Inductive outcome := Took (i : nat) | TookElse | TookNone.
Definition shift (o : outcome) : outcome :=
  match o with Took i => Took (S i) | _ => o end.

(* every generated function is in the function table *)
Definition installed (ft : string -> option (list cmd)) (fs : list fdef) : Prop :=
  Forall (fun d => ft (fst d) = Some (snd d)) fs.

Lemma installed_app ft a b : installed ft (a ++ b) <-> installed ft a /\ installed ft b.
Proof. apply Forall_app. Qed.

Section Chain.
  Variable nm : names.
  Variable ft : string -> option (list cmd).
  Variable env : nat -> state -> state.

  Notation runs := (runs ft env).
  Notation steps := (steps ft env).

  (* Source-level meaning of a chain: conditions are tested in order (testing = running
     the precommand lines, then evaluating the guards in the resulting state); the body of
     the first true one runs; if none is true the else body runs, if there is one. *)
  Inductive chain_sem : list (cond * list cmd) -> option (list cmd) -> state -> outcome -> state -> Prop :=
  | CS_none st : chain_sem [] None st TookNone st
  | CS_else b st st' : runs b st st' -> chain_sem [] (Some b) st TookElse st'
  | CS_take c b rest e st st1 st2 :
      runs (c_pre c) st st1 -> tests_hold st1 (c_tests c) = true -> runs b st1 st2 ->
      chain_sem ((c, b) :: rest) e st (Took 0) st2
  | CS_skip c b rest e st st1 o st' :
      runs (c_pre c) st st1 -> tests_hold st1 (c_tests c) = false -> chain_sem rest e st1 o st' ->
      chain_sem ((c, b) :: rest) e st (shift o) st'.

  (* evaluating a condition does not write the chain's flag *)
  Definition keeps_flag (c : cond) : Prop :=
    forall st st1, runs (c_pre c) st st1 -> sc st1 (flag nm) = sc st (flag nm).

  (* the first m branches are the wrapped ones: their function ends by setting the flag *)
  Definition finish (m : nat) (o : outcome) (st : state) : state :=
    match o with
    | Took i => if (i <? m)%nat then set_sc st (flag nm) 1 else st
    | _ => st
    end.

  Lemma finish_shift m o st : finish (S m) (shift o) st = finish m o st.
  Proof. destruct o; reflexivity. Qed.

  Lemma mods_flag0 : [MIf true (snd (flag0 nm))] = mods_of [flag0 nm].
  Proof. reflexivity. Qed.

  Lemma flag0_holds st : sc st (flag nm) = Some 0%Z -> tests_hold st [flag0 nm] = true.
  Proof. intros H. cbn. rewrite H. reflexivity. Qed.
  Lemma flag0_fails st : sc st (flag nm) = Some 1%Z -> tests_hold st [flag0 nm] = false.
  Proof. intros H. cbn. rewrite H. reflexivity. Qed.

  Lemma arrow_steps g body k x fs st st' :
    arrow nm g body k = (x, fs) -> installed ft fs -> (steps x st st' <-> runs body st st').
  Proof.
    unfold arrow. intros A I.
    destruct body as [|c [|c2 body]]; inversion A; subst; clear A.
    - apply steps_call. inversion I; subst. assumption.
    - symmetry. apply runs_single.
    - apply steps_call. inversion I; subst. assumption.
  Qed.

  (* ---- a lone `if` ---- *)
  Lemma single_if_correct c body aid caller fs :
    single_if_code nm c body aid = (caller, fs) -> installed ft fs ->
    forall st st', runs caller st st' <-> exists o, chain_sem [(c, body)] None st o st'.
  Proof.
    unfold single_if_code. destruct (arrow nm IF_ELSE body aid) as [x afs] eqn:A.
    intros E I st st'. inversion E; subst; clear E.
    rewrite runs_app. split.
    - intros (st1 & Hp & Hx). apply runs_single in Hx. rewrite steps_merge1_guard in Hx.
      destruct (tests_hold st1 (c_tests c)) eqn:T.
      + exists (Took 0). eapply CS_take; eauto. eapply arrow_steps; eauto.
      + subst st'. exists (shift TookNone). eapply CS_skip; eauto. constructor.
    - intros (o & H). inversion H; subst.
      + exists st1. split; [assumption|]. apply runs_single. rewrite steps_merge1_guard.
        rewrite H8. eapply arrow_steps; eauto.
      + exists st1. split; [assumption|]. apply runs_single. rewrite steps_merge1_guard.
        rewrite H8. inversion H9; subst. reflexivity.
  Qed.

  (* ---- the last part: the `else` body, or the unwrapped last `else if` ---- *)
  Definition last_branches (l : last_part) : list (cond * list cmd) :=
    match l with LElse _ _ => [] | LElif c body _ _ => [(c, body)] end.
  Definition last_else (l : last_part) : option (list cmd) :=
    match l with LElse body _ => Some body | LElif _ _ _ _ => None end.

  Definition tail_spec (t : cmd) (brs : list (cond * list cmd)) (e : option (list cmd)) (m : nat) : Prop :=
    (forall st st', sc st (flag nm) = Some 0%Z ->
       (steps t st st' <-> exists o st'', chain_sem brs e st o st'' /\ st' = finish m o st'')) /\
    (forall st st', sc st (flag nm) = Some 1%Z -> (steps t st st' <-> st' = st)).

  Lemma last_correct l lc lfs :
    last_code nm l = (lc, lfs) -> installed ft lfs ->
    tail_spec (merge1 [MIf true (snd (flag0 nm))] lc) (last_branches l) (last_else l) 0.
  Proof.
    intros E I. rewrite mods_flag0. split.
    2:{ intros st st' F. rewrite steps_merge1_guard, (flag0_fails _ F). reflexivity. }
    intros st st' F. rewrite steps_merge1_guard, (flag0_holds _ F).
    destruct l as [body aid|c body aid wid]; cbn [last_code last_branches last_else] in *.
    - rewrite (arrow_steps _ _ _ _ _ st st' E I). split.
      + intros H. exists TookElse, st'. split; [constructor; assumption|reflexivity].
      + intros (o & st'' & H & ->). inversion H; subst. assumption.
    - destruct (arrow nm IF_ELSE body aid) as [x afs] eqn:A.
      assert (Hin : installed ft afs).
      { destruct (c_pre c); inversion E; subst; [assumption|].
        apply installed_app in I. tauto. }
      assert (Hinner : forall st1 st2, steps (merge1 (mods_of (c_tests c)) x) st1 st2 <->
                                 if tests_hold st1 (c_tests c) then runs body st1 st2 else st2 = st1).
      { intros st1 st2. rewrite steps_merge1_guard. destruct (tests_hold st1 (c_tests c)); [|reflexivity].
        eapply arrow_steps; eauto. }
      assert (Hlc : steps lc st st' <->
                    exists st1, runs (c_pre c) st st1 /\
                                if tests_hold st1 (c_tests c) then runs body st1 st' else st' = st1).
      { destruct (c_pre c) as [|p ps] eqn:P.
        - inversion E; subst. rewrite Hinner. split.
          + intros H. exists st. split; [apply runs_nil; reflexivity|assumption].
          + intros (st1 & H1 & H2). apply runs_nil in H1. subst. assumption.
        - inversion E; subst. apply installed_app in I. destruct I as [_ I].
          inversion I as [|d ds Hw _]; subst. cbn [fst snd] in Hw.
          change (p :: ps ++ ?z) with ((p :: ps) ++ z) in Hw.
          rewrite (steps_call _ _ _ _ st st' Hw), runs_app.
          split; intros (st1 & H1 & H2); exists st1; (split; [assumption|]).
          + apply runs_single in H2. apply Hinner. assumption.
          + apply runs_single. apply Hinner. assumption. }
      rewrite Hlc. split.
      + intros (st1 & H1 & H2). destruct (tests_hold st1 (c_tests c)) eqn:T.
        * exists (Took 0), st'. split; [eapply CS_take; eauto|reflexivity].
        * subst st'. exists (shift TookNone), st1. split; [eapply CS_skip; eauto; constructor|reflexivity].
      + intros (o & st'' & H & ->). inversion H; subst.
        * exists st1. split; [assumption|]. rewrite H8. assumption.
        * exists st1. split; [assumption|]. rewrite H8. inversion H9; subst. reflexivity.
  Qed.

  (* ---- one stage: the guarded call of a wrapped branch, then the tail ---- *)
  Lemma stage_correct w t brs e m :
    tail_spec t brs e m ->
    ft (priv_fn nm IF_ELSE (w_id w)) = Some (w_body w ++ [set_flag nm 1]) ->
    keeps_flag (w_cond w) ->
    forall st st', sc st (flag nm) = Some 0%Z ->
      (runs (stage_lines nm w t) st st' <->
       exists o st'', chain_sem ((w_cond w, w_body w) :: brs) e st o st'' /\ st' = finish (S m) o st'').
  Proof.
    intros [Tspec Tskip] Hb K st st' F. unfold stage_lines, guarded_call.
    rewrite runs_app. split.
    - intros (st2 & H12 & Ht). apply runs_single in Ht.
      apply runs_app in H12. destruct H12 as (st1 & Hp & Hg). apply runs_single in Hg.
      rewrite steps_guard in Hg. pose proof (K _ _ Hp) as F1. rewrite F in F1.
      destruct (tests_hold st1 (c_tests (w_cond w))) eqn:T.
      + unfold call_func in Hg. rewrite (steps_call _ _ _ _ st1 st2 Hb), runs_app in Hg.
        destruct Hg as (st3 & Hbody & Hs). apply runs_single in Hs. unfold set_flag in Hs.
        apply steps_set in Hs. subst st2.
        apply Tskip in Ht; [|cbn; apply upd_same]. subst st'.
        exists (Took 0), st3. split; [eapply CS_take; eauto|reflexivity].
      + subst st2. apply Tspec in Ht; [|assumption]. destruct Ht as (o & st'' & Hc & ->).
        exists (shift o), st''. split; [eapply CS_skip; eauto|]. symmetry. apply finish_shift.
    - intros (o & st'' & H & ->). inversion H; subst.
      + exists (set_sc st'' (flag nm) 1). split.
        * apply runs_app. exists st1. split; [assumption|]. apply runs_single.
          rewrite steps_guard, H8. unfold call_func.
          rewrite (steps_call _ _ _ _ st1 _ Hb), runs_app.
          exists st''. split; [assumption|]. apply runs_single. apply steps_set. reflexivity.
        * apply runs_single. apply Tskip; [cbn; apply upd_same|reflexivity].
      + exists st1. split.
        * apply runs_app. exists st1. split; [assumption|]. apply runs_single.
          rewrite steps_guard, H8. reflexivity.
        * apply runs_single. apply Tspec.
          -- rewrite (K _ _ H3). assumption.
          -- exists o0, st''. split; [assumption|]. apply finish_shift.
  Qed.

  (* ---- the stages after the first ---- *)
  Definition src_of (w : wbr) : cond * list cmd := (w_cond w, w_body w).

  Lemma tail_correct rest : forall final lbrs le t sfs,
    tail_spec final lbrs le 0 ->
    tail_code nm rest final = (t, sfs) -> installed ft sfs ->
    installed ft (map (wbr_fn nm) (map fst rest)) ->
    Forall (fun wr => keeps_flag (w_cond (fst wr))) rest ->
    tail_spec t (map (fun wr => src_of (fst wr)) rest ++ lbrs) le (length rest).
  Proof.
    induction rest as [|[w sid] rest IH]; intros final lbrs le t sfs Hf E I Ib K; cbn [tail_code] in E.
    - inversion E; subst. exact Hf.
    - destruct (tail_code nm rest final) as [t' fs'] eqn:E'. inversion E; subst; clear E.
      inversion I as [|d ds Hs I']; subst. cbn [fst snd] in Hs.
      cbn [map fst] in Ib. inversion Ib as [|d ds Hb Ib']; subst. cbn [wbr_fn fst snd] in Hb.
      inversion K as [|x xs Kw K']; subst. cbn [fst] in Kw.
      specialize (IH final lbrs le t' fs' Hf E' I' Ib' K').
      change [MIf true (Matches (flag nm) (Exact 0))] with (mods_of [flag0 nm]). split.
      + intros st st' F. rewrite steps_guard, (flag0_holds _ F). unfold call_func.
        rewrite (steps_call _ _ _ _ st st' Hs).
        cbn [map app length fst]. apply stage_correct; assumption.
      + intros st st' F. rewrite steps_guard, (flag0_fails _ F). reflexivity.
  Qed.

  (* ---- the whole chain (Case 2 of parse_if_else) ---- *)
  Definition chain_branches (first : wbr) (rest : list (wbr * nat)) (last : last_part) :=
    src_of first :: map (fun wr => src_of (fst wr)) rest ++ last_branches last.

  Theorem chain_correct first rest last caller fs :
    chain_code nm first rest last = (caller, fs) -> installed ft fs ->
    keeps_flag (w_cond first) -> Forall (fun wr => keeps_flag (w_cond (fst wr))) rest ->
    forall st st',
      runs caller st st' <->
      exists o st'', chain_sem (chain_branches first rest last) (last_else last)
                               (set_sc st (flag nm) 0) o st'' /\
                     st' = finish (S (length rest)) o st''.
  Proof.
    unfold chain_code. destruct (last_code nm last) as [lc lfs] eqn:L.
    destruct (tail_code nm rest (merge1 [MIf true (snd (flag0 nm))] lc)) as [t sfs] eqn:T.
    intros E I K0 K st st'. inversion E; subst; clear E.
    cbn [map] in I. change (?a :: ?l ++ ?r) with ((a :: l) ++ r) in I.
    apply installed_app in I. destruct I as [Ib I]. apply installed_app in I. destruct I as [Il Is].
    inversion Ib as [|d ds Hb Ib']; subst. cbn [wbr_fn fst snd] in Hb.
    pose proof (last_correct _ _ _ L Il) as Hlast.
    pose proof (tail_correct _ _ _ _ _ _ Hlast T Is Ib' K) as Htail.
    rewrite runs_cons. unfold chain_branches. split.
    - intros (st1 & Hs & Hr). unfold set_flag in Hs. apply steps_set in Hs. subst st1.
      eapply stage_correct in Hr; eauto. cbn. apply upd_same.
    - intros H. exists (set_sc st (flag nm) 0). split; [apply steps_set; reflexivity|].
      eapply stage_correct; eauto. cbn. apply upd_same.
  Qed.
End Chain.
