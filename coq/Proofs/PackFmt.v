(* Proofs.PackFmt — lemmas for property C18. *)
From Coq Require Import ZArith String List Bool Ascii Lia.
From JMCV Require Import Model.PackFmt.
Import ListNotations.
Open Scope Z_scope.

(* two formats agree on a set of cuts *)
Definition agree (cs : list Z) (p q : Z) : Prop := forall c, In c cs -> (p <? c) = (q <? c).

Lemma agree_app_l cs ds p q : agree (cs ++ ds) p q -> agree cs p q.
Proof. intros H c Hc. apply H, in_or_app. now left. Qed.
Lemma agree_app_r cs ds p q : agree (cs ++ ds) p q -> agree ds p q.
Proof. intros H c Hc. apply H, in_or_app. now right. Qed.
Lemma agree_cons_hd c cs p q : agree (c :: cs) p q -> (p <? c) = (q <? c).
Proof. intros H. apply H. now left. Qed.
Lemma agree_cons_tl c cs p q : agree (c :: cs) p q -> agree cs p q.
Proof. intros H d Hd. apply H. now right. Qed.

Lemma cmp_eval_cut op t pf :
  cmp_eval op t pf =
  match op with OLt | OLe => pf <? cut op t | OGt | OGe => negb (pf <? cut op t) end.
Proof.
  destruct op; cbn [cmp_eval cut].
  - reflexivity.
  - destruct (pf <=? t) eqn:E1, (pf <? t + 1) eqn:E2; try reflexivity;
      rewrite ?Z.leb_le, ?Z.leb_gt, ?Z.ltb_lt, ?Z.ltb_ge in *; lia.
  - rewrite Z.gtb_ltb. destruct (t <? pf) eqn:E1, (pf <? t + 1) eqn:E2; try reflexivity;
      rewrite ?Z.ltb_lt, ?Z.ltb_ge in *; lia.
  - rewrite Z.geb_leb. destruct (t <=? pf) eqn:E1, (pf <? t) eqn:E2; try reflexivity;
      rewrite ?Z.leb_le, ?Z.leb_gt, ?Z.ltb_lt, ?Z.ltb_ge in *; lia.
Qed.

Lemma cmp_eval_agree op t p q : (p <? cut op t) = (q <? cut op t) -> cmp_eval op t p = cmp_eval op t q.
Proof. intros H. rewrite !cmp_eval_cut, H. reflexivity. Qed.

Lemma eval_s_agree e : forall p q, agree (cuts e) p q -> eval_s e p = eval_s e q.
Proof.
  induction e as [s|a IHa b IHb|op t a IHa b IHb]; intros p q H; cbn [eval_s cuts] in *.
  - reflexivity.
  - rewrite (IHa p q), (IHb p q); eauto using agree_app_l, agree_app_r.
  - rewrite (cmp_eval_agree op t p q) by (apply (agree_cons_hd _ _ _ _ H)).
    apply agree_cons_tl in H.
    rewrite (IHa p q), (IHb p q); eauto using agree_app_l, agree_app_r.
Qed.

Lemma mc_folder_agree k p q : (p <? RENAME) = (q <? RENAME) -> mc_folder k p = mc_folder k q.
Proof. unfold mc_folder. intros ->. reflexivity. Qed.

Lemma jmc_folder_agree R s p q : agree (site_cuts R s) p q -> jmc_folder R s p = jmc_folder R s q.
Proof.
  unfold site_cuts, jmc_folder. intros H.
  apply agree_cons_tl in H.
  pose proof (agree_cons_hd _ _ _ _ H) as Hc. apply agree_cons_tl in H.
  rewrite (eval_s_agree _ p q H).
  rewrite (cmp_eval_agree _ _ p q Hc). reflexivity.
Qed.

(* ---- representatives *)

Lemma rep_shape cs lo pf : rep cs lo pf = lo \/ (In (rep cs lo pf) cs /\ rep cs lo pf <= pf).
Proof.
  induction cs as [|c r IH]; cbn [rep]; [now left|].
  destruct ((c <=? pf) && (rep r lo pf <? c)) eqn:E.
  - right. apply andb_true_iff in E as [E1 _]. apply Z.leb_le in E1. split; [now left|exact E1].
  - destruct IH as [IH|[IH1 IH2]]; [now left|right; split; [now right|exact IH2]].
Qed.

Lemma rep_in cs lo pf : In (rep cs lo pf) (lo :: cs).
Proof. destruct (rep_shape cs lo pf) as [->|[H _]]; [now left|now right]. Qed.

Lemma rep_ge cs lo pf : forall c, In c cs -> c <= pf -> c <= rep cs lo pf.
Proof.
  induction cs as [|d r IH]; intros c Hc Hle; [destruct Hc|].
  cbn [rep]. destruct ((d <=? pf) && (rep r lo pf <? d)) eqn:E.
  - apply andb_true_iff in E as [E1 E2]. apply Z.leb_le in E1. apply Z.ltb_lt in E2.
    destruct Hc as [<-|Hc]; [lia|]. specialize (IH c Hc Hle). lia.
  - destruct Hc as [<-|Hc]; [|now apply IH].
    apply andb_false_iff in E as [E|E]; [apply Z.leb_gt in E; lia|apply Z.ltb_ge in E; exact E].
Qed.

Lemma rep_agree cs lo pf : (forall c, In c cs -> lo < c) -> agree cs (rep cs lo pf) pf.
Proof.
  intros Hlo c Hc.
  destruct (Z.ltb_spec pf c) as [Hlt|Hge].
  - apply Z.ltb_lt. destruct (rep_shape cs lo pf) as [->|[_ H]]; [now apply Hlo|lia].
  - apply Z.ltb_ge. now apply rep_ge.
Qed.

Lemma fold_min_le cs : forall c, In c cs -> fold_right Z.min 0 cs <= c.
Proof.
  induction cs as [|d r IH]; intros c Hc; [destruct Hc|]. cbn [fold_right].
  destruct Hc as [<-|Hc]; [lia|]. specialize (IH c Hc). lia.
Qed.
Lemma below_lt cs : forall c, In c cs -> below cs < c.
Proof. intros c Hc. unfold below. pose proof (fold_min_le cs c Hc). lia. Qed.

(* a property that depends on pf only through the cuts holds everywhere iff it holds at the points *)
Lemma by_points (cs : list Z) (P : Z -> Prop) :
  (forall p q, agree cs p q -> P p -> P q) ->
  (forall p, In p (points cs) -> P p) -> forall pf, P pf.
Proof.
  intros Hag Hpts pf.
  apply (Hag (rep cs (below cs) pf) pf).
  - apply rep_agree, below_lt.
  - apply Hpts. apply rep_in.
Qed.

(* ---- the site check is sound for EVERY pack format *)

Lemma site_check_sound R s :
  site_check R s = true -> forall pf, jmc_folder R s pf = mc_folder (s_kind s) pf.
Proof.
  intros H.
  apply (by_points (site_cuts R s) (fun pf => jmc_folder R s pf = mc_folder (s_kind s) pf)).
  - intros p q Hag Hp.
    rewrite <- (jmc_folder_agree R s p q Hag).
    rewrite <- (mc_folder_agree (s_kind s) p q) by (apply Hag; now left). exact Hp.
  - intros p Hp. unfold site_check in H. rewrite forallb_forall in H.
    apply String.eqb_eq, H, Hp.
Qed.

Lemma sites_check_sound R (sites : list site) :
  forallb (site_check R) sites = true ->
  forall s pf, In s sites -> jmc_folder R s pf = mc_folder (s_kind s) pf.
Proof.
  intros H s pf Hs. rewrite forallb_forall in H. now apply site_check_sound, H.
Qed.

(* the emitted file is the file Minecraft resolves the resource location to *)
Lemma sites_paths R (sites : list site) :
  forallb (site_check R) sites = true ->
  forall s pf ns id, In s sites -> jmc_path R s pf ns id = mc_path (s_kind s) pf ns id.
Proof.
  intros H s pf ns id Hs. unfold jmc_path, mc_path.
  now rewrite (sites_check_sound R sites H s pf Hs).
Qed.

(* and conversely: a site on which the check fails has a concrete format with the wrong folder *)
Lemma site_check_complete R s :
  site_check R s = false -> exists pf, jmc_folder R s pf <> mc_folder (s_kind s) pf.
Proof.
  unfold site_check. intros H.
  assert (E : existsb (fun p => negb (String.eqb (jmc_folder R s p) (mc_folder (s_kind s) p)))
                      (points (site_cuts R s)) = true).
  { induction (points (site_cuts R s)) as [|p r IH]; cbn in *; [discriminate|].
    destruct (String.eqb (jmc_folder R s p) (mc_folder (s_kind s) p)); cbn in *; [now apply IH|reflexivity]. }
  apply existsb_exists in E as [p [_ Hp]]. exists p.
  apply negb_true_iff, String.eqb_neq in Hp. exact Hp.
Qed.

(* ---- the specification itself: plural below 48, singular from 48 on *)
Lemma mc_folder_plural k pf : pf < RENAME -> mc_folder k pf = (singular k ++ "s")%string.
Proof. intros H. unfold mc_folder. apply Z.ltb_lt in H. now rewrite H. Qed.
Lemma mc_folder_singular k pf : RENAME <= pf -> mc_folder k pf = singular k.
Proof. intros H. unfold mc_folder. apply Z.ltb_ge in H. now rewrite H. Qed.

(* ---- add_private_json with the pinned rule on a plural literal, for the record *)
Lemma private_plural_ok lbl k :
  site_check (mkRules OGe RENAME) (mkSite lbl ApiPrivate (SLit (singular k ++ "s")) k) = true.
Proof. destruct k; vm_compute; reflexivity. Qed.

(* ---- PackVersion.require *)
Lemma require_raises_low pf f :
  require_raises pf f false = true <-> pf <> UNVERSIONED /\ pf < f.
Proof.
  unfold require_raises. rewrite andb_true_iff, negb_true_iff, Z.eqb_neq, Z.ltb_lt. tauto.
Qed.
Lemma require_raises_high pf f :
  require_raises pf f true = true <-> pf <> UNVERSIONED /\ f <= pf.
Proof.
  unfold require_raises. rewrite andb_true_iff, negb_true_iff, Z.eqb_neq, Z.geb_leb, Z.leb_le. tauto.
Qed.

(* ---- gates *)
Lemma gates_check_sound tbl gs :
  gates_check tbl gs = true ->
  forall pf f, In pf tbl -> pf <> UNVERSIONED -> accepts gs f pf = true -> expressible f pf = true.
Proof.
  unfold gates_check. intros H pf f Hpf Hv Hacc. rewrite forallb_forall in H.
  specialize (H pf Hpf). apply orb_true_iff in H as [H|H]; [apply Z.eqb_eq in H; contradiction|].
  rewrite forallb_forall in H.
  assert (Hin : In f all_features) by (destruct f; cbn; tauto).
  specialize (H f Hin). rewrite Hacc in H. exact H.
Qed.

(* a feature with a lower-bound gate at or above Minecraft's bound is never accepted below it,
   whatever the table *)
Lemma gate_low_sound gs f g pf :
  In g gs -> g_feature g = f -> g_lower g = false -> mc_lo f <= g_thr g -> mc_hi f = None ->
  pf <> UNVERSIONED -> accepts gs f pf = true -> expressible f pf = true.
Proof.
  intros Hg Hf Hl Hthr Hhi Hv Hacc. unfold accepts in Hacc. rewrite forallb_forall in Hacc.
  assert (Hin : In g (gates_of gs f)).
  { unfold gates_of. apply filter_In. split; [exact Hg|]. rewrite Hf. unfold feature_eqb. apply Nat.eqb_refl. }
  specialize (Hacc g Hin). rewrite Hl in Hacc. apply negb_true_iff in Hacc.
  unfold require_raises in Hacc. apply andb_false_iff in Hacc as [Hacc|Hacc].
  - apply negb_false_iff, Z.eqb_eq in Hacc. contradiction.
  - apply Z.ltb_ge in Hacc. unfold expressible. rewrite Hhi, andb_true_r. apply Z.leb_le. lia.
Qed.
